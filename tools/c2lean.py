#!/usr/bin/env python3
"""c2lean: translate the first-order numeric C functions of xraylib into Lean 4 definitions.

Input : clang-14 JSON AST of each source file (macros expanded, implicit casts explicit).
Output: Lean text; one `def` per C function over the carrier `α` in the monad `M = Except Abort`.

The accepted subset is described in DESIGN.md §2.3.  Anything outside it raises `Unsupported`,
which the caller reports as a *broken tie* (never skipped silently).

Shape of the generated terms (chosen to keep proofs predictable):
  * only `let x ← m`, `let x := e` and a final `if/else`/`pure` inside `do`; no `mut`, no `for`
    (statement sequencing, early returns and joins are resolved here, in the translator);
  * loops with constant-step induction variables become `loopM lo hi init (fun i st => …)`;
  * array reads are `rd1/rd2/rd3` against the declared C bounds, heap vectors `rdv` against their count;
  * double division by a non-literal, `log`, `sqrt`, `asin` are checked operations;
  * `int` arithmetic on non-literals is followed by `chkI` (signed overflow = undefined behaviour).
"""
import json, subprocess, sys, os, re, hashlib

class Unsupported(Exception):
    pass

# --------------------------------------------------------------------------------------------
# AST helpers

def kind(n): return n.get('kind')
def qt(n): return n.get('type', {}).get('qualType', '')
def inner(n): return [c for c in n.get('inner', [])]

def strip(n, casts=True):
    """remove parens and value-preserving casts"""
    while True:
        k = kind(n)
        if k in ('ParenExpr', 'ConstantExpr'):
            n = n['inner'][0]
        elif casts and k in ('ImplicitCastExpr', 'CStyleCastExpr') and n.get('castKind') in (
                'LValueToRValue', 'NoOp', 'FunctionToPointerDecay', 'ArrayToPointerDecay', 'BitCast'):
            n = n['inner'][0]
        else:
            return n

def is_null(n):
    n0 = n
    while kind(n0) in ('ImplicitCastExpr', 'CStyleCastExpr', 'ParenExpr'):
        if n0.get('castKind') == 'NullToPointer':
            return True
        n0 = n0['inner'][0]
    return False

def loc_line(n):
    r = n.get('range', {}).get('begin', {})
    return r.get('line') or r.get('expansionLoc', {}).get('line') or r.get('spellingLoc', {}).get('line')

def lean_float(v):
    """C double literal (17-digit round trip text from clang) -> Lean scientific literal"""
    f = float(v)
    r = repr(f)
    if r in ('inf', 'nan', '-inf'):
        raise Unsupported('non-finite literal')
    neg = r.startswith('-')
    if neg: r = r[1:]
    if 'e' in r:
        m, e = r.split('e')
        if '.' not in m: m += '.0'
        s = '%se%d' % (m, int(e))
    else:
        if '.' not in r: r += '.0'
        s = r
    return '(-%s : α)' % s if neg else '(%s : α)' % s

LIBM1 = {'exp': 'XNum.exp', 'sin': 'XNum.sin', 'cos': 'XNum.cos', 'tan': 'XNum.tan', 'fabs': 'XNum.fabs',
         'atan': 'XNum.atan'}
LIBM1_CHK = {'log': 'dlog', 'sqrt': 'dsqrt', 'asin': 'dasin'}

def ctype(q):
    q = q.replace('const ', '').strip()
    if q in ('int', 'unsigned int', 'long', 'unsigned long', 'size_t', 'short'): return 'int'
    if q in ('double', 'float'): return 'double'
    if q == 'xrl_error **': return 'errpp'
    if q == 'xrl_error *': return 'errp'
    if q == 'xrlComplex': return 'complex'
    if q == 'xrlComplex *': return 'complexp'
    if q == 'double *': return 'doublep'
    if q in ('char *', 'char []') or q.startswith('char ['): return 'str'
    if q in ('Crystal_Struct *', 'struct Crystal_Struct *'): return 'crystal'
    if q in ('Crystal_Atom *',): return 'atomp'
    return 'other:' + q

LEAN_TY = {'int': 'Int', 'double': 'α', 'complex': '(α × α)', 'errp': 'Slot', 'str': 'String',
           'crystal': '(Option (Crystal α))'}

class GlobalInfo:
    """file-scope arrays visible in a TU: name -> (elem type, dims, is pointer table depth)"""
    def __init__(self):
        self.arrays = {}     # name -> dict(elem='double'|'int', dims=[..], ptr=bool)
        self.funcs = {}      # name -> dict(ret, params=[(name,ctype)], static)
        self.static_init = {}  # name -> VarDecl node (static initialised arrays/structs)

def parse_array_type(q):
    """'double[121][28]' -> ('double',[121,28],False) ; 'double *[121]' -> ('double',[121],True);
       'double *[121][31]' -> ('double',[121,31],True)"""
    m = re.match(r'^(?:const\s+)?(double|int|float)\s*(\*?)\s*((?:\[\d+\])+)$', q)
    if not m: return None
    dims = [int(x) for x in re.findall(r'\[(\d+)\]', m.group(3))]
    return (m.group(1), dims, m.group(2) == '*')

# --------------------------------------------------------------------------------------------

class FnTranslator:
    def __init__(self, tu, fn, opts):
        self.tu = tu              # TUInfo
        self.fn = fn
        self.name = fn['name']
        self.opts = opts
        self.tmp = 0
        self.params = [c for c in inner(fn) if kind(c) == 'ParmVarDecl']
        self.ptypes = {p['name']: ctype(qt(p)) for p in self.params}
        self.has_error = any(t == 'errpp' for t in self.ptypes.values())
        rq = qt(fn).split('(')[0].strip()
        self.ret = ctype(rq) if rq != 'void' else 'void'
        self.locals = {}          # name -> ctype
        self.outparams = [p['name'] for p in self.params if self.ptypes[p['name']] in ('doublep', 'complexp')]
        self.calls = set()
        self.reads = set()
        self.recursive = opts.get('recursive', set())   # names in the same SCC as this function
        self.loop_stack = []      # tuple texts of enclosing control loops

    # ---- utilities
    def fresh(self, base='t'):
        self.tmp += 1
        return '%s_%d' % (base, self.tmp)

    def vtype(self, name):
        if name in self.locals: return self.locals[name]
        if name in self.ptypes: return self.ptypes[name]
        return None

    # ---- expressions: return (pre, text, type)   pre = list of lines "let x ← …" / "let x := …"
    def expr(self, n):
        k = kind(n)
        if k in ('UnaryOperator', 'BinaryOperator', 'ParenExpr', 'CStyleCastExpr') and qt(n) == 'int':
            try:
                return [], '(%d : Int)' % const_int(n, self.tu), 'int'
            except Unsupported:
                pass
        if k in ('ParenExpr', 'ConstantExpr'):
            pre, t, ty = self.expr(n['inner'][0])
            return pre, t, ty
        if k in ('ImplicitCastExpr', 'CStyleCastExpr'):
            ck = n.get('castKind')
            sub = n['inner'][0]
            if ck in ('LValueToRValue', 'NoOp', 'FunctionToPointerDecay', 'ArrayToPointerDecay'):
                return self.expr(sub)
            if ck == 'IntegralToFloating':
                s0 = strip(sub)
                if kind(s0) == 'IntegerLiteral':
                    return [], lean_float(s0['value']), 'double'
                pre, t, ty = self.expr(sub)
                return pre, '(XNum.ofInt %s : α)' % t, 'double'
            if ck == 'FloatingToIntegral':
                pre, t, ty = self.expr(sub)
                return pre, '(XNum.toInt %s)' % t, 'int'
            if ck == 'IntegralCast':
                return self.expr(sub)
            if ck == 'FloatingCast':
                return self.expr(sub)
            if ck == 'NullToPointer':
                return [], 'NULL', 'null'
            raise Unsupported('cast %s' % ck)
        if k == 'IntegerLiteral':
            return [], '(%s : Int)' % n['value'], 'int'
        if k == 'FloatingLiteral':
            return [], lean_float(n['value']), 'double'
        if k == 'DeclRefExpr':
            rd = n['referencedDecl']
            nm = rd['name']
            if rd['kind'] == 'EnumConstantDecl':
                return [], '(%s : Int)' % self.tu.enum_value(nm), 'int'
            if rd['kind'] in ('VarDecl', 'ParmVarDecl'):
                ty = self.vtype(nm)
                if ty is None:
                    # file-scope scalar?
                    if nm in self.tu.scalars:
                        return [], self.tu.scalars[nm][1], self.tu.scalars[nm][0]
                    raise Unsupported('reference to %s' % nm)
                return [], lean_id(nm), ty
            raise Unsupported('declref kind %s' % rd['kind'])
        if k == 'UnaryOperator':
            op = n['opcode']
            if op == '-':
                pre, t, ty = self.expr(n['inner'][0])
                if ty == 'int':
                    s0 = strip(n['inner'][0])
                    if kind(s0) == 'IntegerLiteral':
                        return pre, '(-%s : Int)' % s0['value'], 'int'
                    v = self.fresh('i')
                    return pre + ['let %s ← chkI "neg" (-%s)' % (v, t)], v, 'int'
                return pre, '(-%s)' % t, ty
            if op == '+':
                return self.expr(n['inner'][0])
            if op == '!':
                pre, p = self.cond(n)
                return pre, '(if %s then (1:Int) else 0)' % p, 'int'
            if op == '*':
                # deref of an out-parameter used as rvalue
                s0 = strip(n['inner'][0])
                if kind(s0) == 'DeclRefExpr' and s0['referencedDecl']['name'] in self.outparams:
                    nm = s0['referencedDecl']['name']
                    return [], lean_id(nm + '_out'), 'double' if self.ptypes[nm] == 'doublep' else 'complex'
            raise Unsupported('unary %s' % op)
        if k == 'BinaryOperator':
            op = n['opcode']
            if op in ('+', '-', '*', '/'):
                pa, a, ta = self.expr(n['inner'][0])
                pb, b, tb = self.expr(n['inner'][1])
                if ta == 'int' and tb == 'int':
                    if op == '/':
                        raise Unsupported('int division')
                    la = kind(strip(n['inner'][0])) == 'IntegerLiteral' or re.fullmatch(r'\(-?\d+ : Int\)', a)
                    lb = kind(strip(n['inner'][1])) == 'IntegerLiteral' or re.fullmatch(r'\(-?\d+ : Int\)', b)
                    if la and lb:
                        va = int(re.search(r'-?\d+', a).group()); vb = int(re.search(r'-?\d+', b).group())
                        r = {'+': va + vb, '-': va - vb, '*': va * vb}[op]
                        return pa + pb, '(%d : Int)' % r, 'int'
                    v = self.fresh('i')
                    return pa + pb + ['let %s ← chkI "%s" (%s %s %s)' % (v, op, a, op, b)], v, 'int'
                if ta == 'double' and tb == 'double':
                    if op == '/':
                        s1 = strip(n['inner'][1])
                        if kind(s1) == 'FloatingLiteral' and float(s1['value']) != 0.0:
                            return pa + pb, '(%s / %s)' % (a, b), 'double'
                        if kind(s1) == 'ImplicitCastExpr' and s1.get('castKind') == 'IntegralToFloating' and \
                           kind(strip(s1['inner'][0])) == 'IntegerLiteral' and int(strip(s1['inner'][0])['value']) != 0:
                            return pa + pb, '(%s / %s)' % (a, b), 'double'
                        v = self.fresh('q')
                        return pa + pb + ['let %s ← ddiv %s %s' % (v, a, b)], v, 'double'
                    return pa + pb, '(%s %s %s)' % (a, op, b), 'double'
                raise Unsupported('arith on %s,%s' % (ta, tb))
            if op in ('<', '>', '<=', '>=', '==', '!=', '&&', '||'):
                pre, p = self.cond(n)
                return pre, '(if %s then (1:Int) else 0)' % p, 'int'
            if op == ',':
                raise Unsupported('comma')
            raise Unsupported('binop %s' % op)
        if k == 'ConditionalOperator':
            pc, c = self.cond(n['inner'][0])
            pa, a, ta = self.expr(n['inner'][1])
            pb, b, tb = self.expr(n['inner'][2])
            if pa or pb: raise Unsupported('effects in ?:')
            return pc, '(if %s then %s else %s)' % (c, a, b), ta
        if k == 'ArraySubscriptExpr':
            return self.subscript(n)
        if k == 'CallExpr':
            return self.call(n, want_value=True)
        if k == 'MemberExpr':
            return self.member(n)
        if k == 'UnaryExprOrTypeTraitExpr':
            raise Unsupported('sizeof')
        raise Unsupported('expr %s' % k)

    def member(self, n):
        base = strip(n['inner'][0])
        fld = n['name']
        if kind(base) == 'ArraySubscriptExpr':
            b = strip(base['inner'][0])
            if kind(b) == 'DeclRefExpr' and b['referencedDecl']['name'] in self.tu.static_tables:
                name = b['referencedDecl']['name']; st = self.tu.static_tables[name]
                if st['kind'] == 'rec' and fld in dict(st['fields']):
                    pi, it, _ = self.expr(base['inner'][1])
                    v = self.fresh('s')
                    self.tu.used_static.add(name)
                    return pi + ['let %s ← rd1 "%s" %d Static.%s_%s %s' % (v, name, st['n'], name, fld, it)], v, 'int'
        # complex value fields
        pre, b, tb = self.expr(n['inner'][0])
        if tb == 'complex':
            return pre, '%s.%s' % (b, {'re': '1', 'im': '2'}[fld]), 'double'
        # static struct table  lb_pairs[i].line
        if tb.startswith('rec:'):
            return pre, '%s.%s' % (b, fld), self.tu.rec_field_type(tb[4:], fld)
        raise Unsupported('member .%s of %s' % (fld, tb))

    def subscript(self, n):
        idx = []
        cur = n
        while kind(strip(cur)) == 'ArraySubscriptExpr':
            cur = strip(cur)
            idx.insert(0, cur['inner'][1])
            cur = cur['inner'][0]
        base = strip(cur)
        if kind(base) != 'DeclRefExpr':
            raise Unsupported('subscript base %s' % kind(base))
        name = base['referencedDecl']['name']
        pre = []
        its = []
        for i in idx:
            p, t, ty = self.expr(i)
            if ty != 'int': raise Unsupported('non-int index')
            pre += p; its.append(t)
        if name in self.tu.static_tables:
            st = self.tu.static_tables[name]
            v = self.fresh('s')
            if len(its) != 1 or st['kind'] != 'int': raise Unsupported('static table use')
            self.tu.used_static.add(name)
            pre.append('let %s ← rd1 "%s" %d Static.%s %s' % (v, name, st['n'], name, its[0]))
            return pre, v, 'int'
        if name not in self.tu.arrays:
            raise Unsupported('unknown array %s' % name)
        elem, dims, ptr = self.tu.arrays[name]
        self.reads.add(name)
        ety = 'double' if elem in ('double', 'float') else 'int'
        v = self.fresh('a')
        nd = len(dims)
        if not ptr:
            if len(its) != nd: raise Unsupported('partial subscript of %s' % name)
            pre.append('let %s ← rd%d "%s" %s T.%s %s' % (v, nd, name, ' '.join(map(str, dims)), name, ' '.join(its)))
            return pre, v, ety
        # pointer table: dims index the pointer, one more index dereferences the heap vector
        if len(its) == nd + 1:
            pv = self.fresh('v')
            pre.append('let %s ← rd%d "%s" %s T.%s %s' % (pv, nd, name, ' '.join(map(str, dims)), name, ' '.join(its[:nd])))
            pre.append('let %s ← rdv "%s" %s %s' % (v, name, pv, its[nd]))
            return pre, v, ety
        raise Unsupported('pointer table subscript arity %s' % name)

    def read_count(self, cnt, its):
        elem, dims, ptr = self.tu.arrays[cnt]
        v = self.fresh('n')
        self.reads.add(cnt)
        return ['let %s ← rd%d "%s" %s T.%s %s' % (v, len(dims), cnt, ' '.join(map(str, dims)), cnt, ' '.join(its))], v, 'int'

    def vector_arg(self, n):
        """argument of splint:  X[Z] - 1   or  X[Z][shell] - 1  -> (pre, leanfn) with leanfn : Nat → α (0-based)"""
        n0 = strip(n)
        if kind(n0) == 'BinaryOperator' and n0['opcode'] == '-' and kind(strip(n0['inner'][1])) == 'IntegerLiteral' \
           and strip(n0['inner'][1])['value'] == '1':
            base = strip(n0['inner'][0])
            idx = []
            cur = base
            while kind(strip(cur)) == 'ArraySubscriptExpr':
                cur = strip(cur); idx.insert(0, cur['inner'][1]); cur = cur['inner'][0]
            b = strip(cur)
            if kind(b) == 'DeclRefExpr' and b['referencedDecl']['name'] in self.tu.arrays:
                name = b['referencedDecl']['name']
                elem, dims, ptr = self.tu.arrays[name]
                if ptr and len(idx) == len(dims):
                    pre = []; its = []
                    for i in idx:
                        p, t, ty = self.expr(i); pre += p; its.append(t)
                    self.reads.add(name)
                    v = self.fresh('v')
                    pre.append('let %s ← rd%d "%s" %s T.%s %s' % (v, len(dims), name, ' '.join(map(str, dims)), name, ' '.join(its)))
                    return pre, v
        raise Unsupported('vector argument')

    # ---- calls
    def call(self, n, want_value):
        callee = strip(n['inner'][0])
        args = n['inner'][1:]
        if kind(callee) != 'DeclRefExpr':
            return self.indirect_call(n, callee, args)
        fname = callee['referencedDecl']['name']
        if fname in LIBM1:
            pre, a, ta = self.expr(args[0])
            return pre, '(%s %s)' % (LIBM1[fname], a), 'double'
        if fname in LIBM1_CHK:
            pre, a, ta = self.expr(args[0])
            v = self.fresh('m')
            return pre + ['let %s ← %s %s' % (v, LIBM1_CHK[fname], a)], v, 'double'
        if fname == 'pow':
            pre, a, ta = self.expr(args[0])
            s1 = strip(args[1])
            if kind(s1) == 'ImplicitCastExpr' and kind(strip(s1['inner'][0])) == 'IntegerLiteral' and strip(s1['inner'][0])['value'] == '2':
                return pre, '(%s * %s)' % (a, a), 'double'
            if kind(s1) == 'FloatingLiteral' and float(s1['value']) == 2.0:
                return pre, '(%s * %s)' % (a, a), 'double'
            raise Unsupported('pow with exponent other than 2')
        if fname == 'splint':
            return self.call_splint(args)
        fi = self.tu.prog.funcs.get(fname)
        if fi is None:
            raise Unsupported('call to external %s' % fname)
        self.calls.add(fname)
        pre = []
        largs = []
        err_mode = None
        outs = []
        for a, (pn, pt) in zip(args, fi['params']):
            if pt == 'errpp':
                if is_null(a):
                    err_mode = 'null'; largs.append('Slot.null')
                else:
                    a0 = strip(a)
                    if kind(a0) == 'DeclRefExpr' and self.vtype(a0['referencedDecl']['name']) == 'errpp':
                        err_mode = 'thread'; largs.append('error')
                    elif kind(a0) == 'UnaryOperator' and a0['opcode'] == '&':
                        tn = strip(a0['inner'][0])['referencedDecl']['name']
                        err_mode = 'local:' + tn; largs.append(lean_id(tn))
                    else:
                        raise Unsupported('error argument')
            elif pt in ('doublep', 'complexp'):
                if is_null(a):
                    outs.append(None); largs.append('false')
                else:
                    a0 = strip(a)
                    if kind(a0) == 'UnaryOperator' and a0['opcode'] == '&':
                        tn = strip(a0['inner'][0])['referencedDecl']['name']
                        outs.append(tn); largs.append('true')
                    elif kind(a0) == 'DeclRefExpr' and a0['referencedDecl']['name'] in self.outparams:
                        outs.append('@' + a0['referencedDecl']['name']); largs.append('true')
                    else:
                        raise Unsupported('out argument')
            elif pt == 'str':
                p, t, ty = self.expr(a); pre += p; largs.append(t)
            else:
                p, t, ty = self.expr(a)
                pre += p; largs.append(t)
        r = self.fresh('r')
        fuel = ' fuel' if fname in self.recursive else ''
        if fi.get('nullable_outs'):
            pass
        pre.append('let %s ← %s%s T %s' % (r, lean_id(fname), fuel, ' '.join(largs)))
        # result layout: value, [outs…], [slot]
        proj = result_layout(fi)
        val = None
        if 'val' in proj:
            val = '%s%s' % (r, proj['val'])
        for o, pj in zip(outs, proj['outs']):
            if o is None: continue
            if o.startswith('@'):
                pre.append('let %s := %s%s' % (lean_id(o[1:] + '_out'), r, pj))
            else:
                pre.append('let %s := %s%s' % (lean_id(o), r, pj))
        if err_mode == 'thread':
            pre.append('let error := %s%s' % (r, proj['slot']))
        elif err_mode and err_mode.startswith('local:'):
            pre.append('let %s := %s%s' % (lean_id(err_mode[6:]), r, proj['slot']))
        return pre, val, fi['ret']

    def call_splint(self, args):
        # splint(xa-1, ya-1, y2a-1, n, x, &y, error)
        pre = []
        vs = []
        for a in args[:3]:
            p, v = self.vector_arg(a); pre += p; vs.append(v)
        pn, nt, _ = self.expr(args[3]); pre += pn
        px, xt, _ = self.expr(args[4]); pre += px
        a5 = strip(args[5])
        if not (kind(a5) == 'UnaryOperator' and a5['opcode'] == '&'):
            raise Unsupported('splint out arg')
        yname = strip(a5['inner'][0])['referencedDecl']['name']
        if is_null(args[6]): sl = 'Slot.null'; thread = False
        else: sl = 'error'; thread = True
        r = self.fresh('r')
        self.calls.add('splint')
        pre.append('let %s ← splint %s %s %s %s %s %s' % (r, vs[0], vs[1], vs[2], nt, xt, sl))
        pre.append('let %s := %s.2.1' % (lean_id(yname), r))
        if thread: pre.append('let error := %s.2.2' % r)
        return pre, '%s.1' % r, 'int'

    def indirect_call(self, n, callee, args):
        # table[i](args…)   with `table` a constant static array of function pointers
        c0 = strip(callee)
        if kind(c0) == 'ArraySubscriptExpr':
            b = strip(c0['inner'][0])
            if kind(b) == 'DeclRefExpr' and b['referencedDecl']['name'] in self.tu.fnptr_tables:
                tbl = self.tu.fnptr_tables[b['referencedDecl']['name']]
                pi, it, _ = self.expr(c0['inner'][1])
                # build a match over the index
                fi = self.tu.prog.funcs[tbl[0]]
                pre = list(pi); largs = []
                err_mode = None
                for a, (pn, pt) in zip(args, fi['params']):
                    if pt == 'errpp':
                        if is_null(a): largs.append('Slot.null'); err_mode = 'null'
                        else: largs.append('error'); err_mode = 'thread'
                    else:
                        p, t, ty = self.expr(a); pre += p; largs.append(t)
                r = self.fresh('r')
                arms = []
                for j, f in enumerate(tbl):
                    self.calls.add(f)
                    fuel = ' fuel' if f in self.recursive else ''
                    arms.append('if %s = %d then %s%s T %s else' % (it, j, lean_id(f), fuel, ' '.join(largs)))
                pre.append('let %s ← (%s throw (Abort.ub "fnptr %s"))' % (r, ' '.join(arms), b['referencedDecl']['name']))
                proj = result_layout(fi)
                if err_mode == 'thread':
                    pre.append('let error := %s%s' % (r, proj['slot']))
                return pre, '%s%s' % (r, proj['val']), fi['ret']
        raise Unsupported('indirect call')

    # ---- conditions: (pre, Prop text)
    def cond(self, n):
        if kind(n) == 'XCaseCond':
            pre, t, ty = self.expr(n['scrut'])
            labs = sorted(n['labels'])
            # contiguous runs become ranges
            runs = []; i = 0
            while i < len(labs):
                j = i
                while j + 1 < len(labs) and labs[j + 1] == labs[j] + 1: j += 1
                runs.append((labs[i], labs[j])); i = j + 1
            parts = ['(%s = (%d : Int))' % (t, a) if a == b else '((%d : Int) ≤ %s ∧ %s ≤ (%d : Int))' % (a, t, t, b) for a, b in runs]
            return pre, '(' + ' ∨ '.join(parts) + ')'
        n0 = strip(n)
        k = kind(n0)
        if k == 'BinaryOperator' and n0['opcode'] in ('||', '&&'):
            pa, a = self.cond(n0['inner'][0])
            pb, b = self.cond(n0['inner'][1])
            sym = '∨' if n0['opcode'] == '||' else '∧'
            if not pb:
                return pa, '(%s %s %s)' % (a, sym, b)
            # right operand has effects (array read / call): evaluate it only when needed
            c = self.fresh('c')
            if n0['opcode'] == '||':
                line = 'let %s ← (if %s then pure true else (%s))' % (c, a, paren_block(pb, 'pure (decide %s)' % b))
            else:
                line = 'let %s ← (if %s then (%s) else pure false)' % (c, a, paren_block(pb, 'pure (decide %s)' % b))
            return pa + [line], '(%s = true)' % c
        if k == 'BinaryOperator' and n0['opcode'] in ('<', '>', '<=', '>=', '==', '!='):
            op = n0['opcode']
            l, r = n0['inner']
            # pointer comparison with NULL
            if is_null(r) or is_null(l):
                other = l if is_null(r) else r
                o = strip(other)
                if kind(o) == 'DeclRefExpr':
                    nm = o['referencedDecl']['name']; ty = self.vtype(nm)
                    if ty == 'errp':
                        return [], ('(%s.isFull = true)' if op == '!=' else '(%s.isFull = false)') % lean_id(nm)
                    if ty in ('doublep', 'complexp'):
                        return [], ('(%s_want = true)' if op == '!=' else '(%s_want = false)') % lean_id(nm)
                    if ty == 'crystal':
                        return [], ('(%s.isSome = true)' if op == '!=' else '(%s.isSome = false)') % lean_id(nm)
                    if ty == 'errpp':
                        return [], ('(%s ≠ Slot.null)' if op == '!=' else '(%s = Slot.null)') % lean_id(nm)
                raise Unsupported('pointer comparison')
            pa, a, ta = self.expr(l)
            pb, b, tb = self.expr(r)
            if ta != tb:
                raise Unsupported('mixed comparison %s %s' % (ta, tb))
            if ta == 'int':
                t = {'<': '%s < %s', '>': '%s > %s', '<=': '%s ≤ %s', '>=': '%s ≥ %s', '==': '%s = %s', '!=': '%s ≠ %s'}[op]
                return pa + pb, '(' + t % (a, b) + ')'
            if ta == 'double':
                if op == '<': t = '(%s < %s)' % (a, b)
                elif op == '>': t = '(%s < %s)' % (b, a)
                elif op == '<=': t = '(%s ≤ %s)' % (a, b)
                elif op == '>=': t = '(%s ≤ %s)' % (b, a)
                elif op == '==': t = '(deq %s %s)' % (a, b)
                else: t = '(¬ deq %s %s)' % (a, b)
                return pa + pb, t
            raise Unsupported('comparison of %s' % ta)
        if k == 'UnaryOperator' and n0['opcode'] == '!':
            p, c = self.cond(n0['inner'][0])
            return p, '(¬ %s)' % c
        # plain value used as truth
        pre, t, ty = self.expr(n0)
        if ty == 'int': return pre, '(%s ≠ 0)' % t
        if ty == 'errp': return pre, '(%s.isFull = true)' % t
        if ty in ('crystal',): return pre, '(%s.isSome = true)' % t
        if ty == 'double': return pre, '(¬ deq %s (0.0 : α))' % t
        raise Unsupported('truth value of %s' % ty)

    # ---- statements (CPS).  `k` : list of lines = what runs when control falls through; None = dead
    def ret_lines(self, pre, val):
        outs = [lean_id(o + '_out') for o in self.outparams]
        comps = ([val] if val is not None else []) + outs + (['error'] if self.has_error else [])
        if not comps: comps = ['()']
        tup = comps[0] if len(comps) == 1 else '(%s)' % ', '.join(comps)
        if self.loop_stack and self.loop_stack[-1][0] == 'ctl':
            return pre + ['pure (Ctl.ret %s)' % tup]
        if self.loop_stack:
            raise Unsupported('return inside a loop translated without control state')
        return pre + ['pure %s' % tup]

    def assigned(self, s, acc=None):
        """set of Lean variable names that statement `s` may (re)bind"""
        if acc is None: acc = set()
        k = kind(s)
        if k in ('BinaryOperator', 'CompoundAssignOperator') and (s.get('opcode') == '=' or k == 'CompoundAssignOperator'):
            lhs = strip(s['inner'][0])
            if kind(lhs) == 'DeclRefExpr': acc.add(lean_id(lhs['referencedDecl']['name']))
            elif kind(lhs) == 'UnaryOperator' and lhs['opcode'] == '*':
                acc.add(lean_id(strip(lhs['inner'][0])['referencedDecl']['name'] + '_out'))
            elif kind(lhs) == 'MemberExpr':
                b = strip(lhs['inner'][0])
                if kind(b) == 'DeclRefExpr': acc.add(lean_id(b['referencedDecl']['name']))
                elif kind(b) == 'UnaryOperator' and b['opcode'] == '*':
                    acc.add(lean_id(strip(b['inner'][0])['referencedDecl']['name'] + '_out'))
        if k == 'UnaryOperator' and s.get('opcode') in ('++', '--'):
            acc.add(lean_id(strip(s['inner'][0])['referencedDecl']['name']))
        if k == 'CallExpr':
            callee = strip(s['inner'][0])
            for a in s['inner'][1:]:
                a0 = strip(a)
                if kind(a0) == 'DeclRefExpr' and self.vtype(a0['referencedDecl']['name']) == 'errpp' and not is_null(a):
                    acc.add('error')
                if kind(a0) == 'UnaryOperator' and a0['opcode'] == '&':
                    acc.add(lean_id(strip(a0['inner'][0])['referencedDecl']['name']))
                if kind(a0) == 'DeclRefExpr' and a0['referencedDecl']['name'] in self.outparams:
                    acc.add(lean_id(a0['referencedDecl']['name'] + '_out'))
        if k == 'DeclStmt':
            pass
        for c in inner(s):
            if isinstance(c, dict) and c:
                self.assigned(c, acc)
        return acc

    def declared(self, s, acc=None):
        if acc is None: acc = set()
        if kind(s) == 'VarDecl': acc.add(lean_id(s['name']))
        for c in inner(s):
            if isinstance(c, dict) and c: self.declared(c, acc)
        return acc

    def has_jump(self, s, kinds=('ReturnStmt',)):
        if kind(s) in kinds: return True
        for c in inner(s):
            if isinstance(c, dict) and c:
                if kind(c) in ('ForStmt', 'WhileStmt', 'SwitchStmt') and kinds in (('BreakStmt',), ('ContinueStmt',)):
                    continue
                if self.has_jump(c, kinds): return True
        return False

    def terminates(self, s):
        """statement never falls through"""
        k = kind(s)
        if k in ('ReturnStmt', 'BreakStmt', 'ContinueStmt'): return True
        if k == 'CompoundStmt':
            return any(self.terminates(c) for c in inner(s))
        if k == 'IfStmt':
            ii = inner(s)
            return len(ii) > 2 and self.terminates(ii[1]) and self.terminates(ii[2])
        return False

    def block(self, stmts, k):
        """translate statement list followed by continuation lines k (or None)"""
        if not stmts:
            if k is None: raise Unsupported('control reaches end of non-void function')
            return list(k)
        s, rest = stmts[0], stmts[1:]
        kd = kind(s)
        if kd == 'CompoundStmt':
            return self.block(inner(s) + rest, k)
        if kd == 'NullStmt':
            return self.block(rest, k)
        if kd == 'DeclStmt':
            out = []
            for v in inner(s):
                if kind(v) != 'VarDecl': raise Unsupported('decl %s' % kind(v))
                ty = ctype(qt(v))
                if ty.startswith('other:'):
                    raise Unsupported('local of type %s' % qt(v))
                self.locals[v['name']] = ty
                init = [c for c in inner(v) if kind(c) not in (None,) and 'Attr' not in kind(c)]
                if init:
                    if ty == 'errp':
                        if not is_null(init[0]): raise Unsupported('errp init')
                        out.append('let %s := Slot.empty' % lean_id(v['name']))
                    elif ty == 'complex':
                        raise Unsupported('complex initialiser')
                    else:
                        pre, t, ety = self.expr(init[0])
                        t = self.coerce(t, ety, ty)
                        out += pre + ['let %s := %s' % (lean_id(v['name']), t)]
                else:
                    out.append('let %s := %s' % (lean_id(v['name']), default_value(ty)))
            return out + self.block(rest, k)
        if kd == 'ReturnStmt':
            ii = inner(s)
            if not ii:
                return self.ret_lines([], None)
            pre, t, ty = self.expr(ii[0])
            t = self.coerce(t, ty, self.ret)
            return self.ret_lines(pre, t)
        if kd in ('BinaryOperator', 'CompoundAssignOperator', 'UnaryOperator', 'CallExpr'):
            return self.simple(s) + self.block(rest, k)
        if kd == 'BreakStmt':
            if not self.loop_stack or self.loop_stack[-1][0] != 'ctl': raise Unsupported('break outside loop')
            return ['pure (Ctl.brk %s)' % self.loop_stack[-1][1]]
        if kd == 'ContinueStmt':
            if not self.loop_stack: raise Unsupported('continue outside loop')
            if self.loop_stack[-1][0] == 'simple':
                return ['pure %s' % self.loop_stack[-1][1]]
            return ['pure (Ctl.next %s)' % self.loop_stack[-1][1]]
        if kd == 'IfStmt':
            return self.if_stmt(s, rest, k)
        if kd == 'ForStmt':
            return self.for_stmt(s, rest, k)
        if kd == 'SwitchStmt':
            return self.switch_stmt(s, rest, k)
        raise Unsupported('statement %s' % kd)

    def coerce(self, t, fromty, toty):
        if fromty == toty or toty is None: return t
        if fromty == 'int' and toty == 'double':
            m = re.fullmatch(r'\((-?\d+) : Int\)', t)
            if m: return lean_float(m.group(1))
            return '(XNum.ofInt %s : α)' % t
        if fromty == 'double' and toty == 'int':
            return '(XNum.toInt %s)' % t
        raise Unsupported('coerce %s -> %s' % (fromty, toty))

    def simple(self, s):
        kd = kind(s)
        if kd == 'CallExpr':
            callee = strip(s['inner'][0])
            fname = callee.get('referencedDecl', {}).get('name')
            args = s['inner'][1:]
            if fname in ('xrl_set_error_literal', 'xrl_set_error'):
                code = int(find_enum(args[1], self.tu))
                m = strip(args[2])
                if kind(m) != 'StringLiteral': raise Unsupported('non-literal error message')
                msg = m['value']
                if fname == 'xrl_set_error' and len(args) > 3:
                    # printf-style message: keep the format, the arguments are not modelled
                    msg = m['value']
                tgt = strip(args[0])
                if kind(tgt) == 'DeclRefExpr' and self.vtype(tgt['referencedDecl']['name']) == 'errpp':
                    return ['let error ← setErr error %d %s' % (code, msg)]
                raise Unsupported('set_error target')
            if fname == 'xrl_propagate_error':
                src = strip(args[1])['referencedDecl']['name']
                return ['let error ← propagateErr error %s' % lean_id(src)]
            if fname == 'xrl_clear_error':
                a0 = strip(args[0])
                if kind(a0) == 'UnaryOperator' and a0['opcode'] == '&':
                    return ['let %s := Slot.empty' % lean_id(strip(a0['inner'][0])['referencedDecl']['name'])]
                raise Unsupported('clear_error target')
            pre, t, ty = self.call(s, want_value=False)
            return pre
        if kd == 'UnaryOperator' and s['opcode'] in ('++', '--'):
            nm = lean_id(strip(s['inner'][0])['referencedDecl']['name'])
            op = '+' if s['opcode'] == '++' else '-'
            return ['let %s ← chkI "%s" (%s %s 1)' % (nm, s['opcode'], nm, op)]
        if kd in ('BinaryOperator', 'CompoundAssignOperator'):
            op = s['opcode']
            lhs = strip(s['inner'][0])
            if kd == 'BinaryOperator' and op != '=':
                raise Unsupported('expression statement %s' % op)
            # target
            if kind(lhs) == 'DeclRefExpr':
                nm = lhs['referencedDecl']['name']; tgt = lean_id(nm); tty = self.vtype(nm)
            elif kind(lhs) == 'UnaryOperator' and lhs['opcode'] == '*':
                nm = strip(lhs['inner'][0])['referencedDecl']['name']
                if nm not in self.outparams: raise Unsupported('store through pointer')
                tgt = lean_id(nm + '_out'); tty = 'double' if self.ptypes[nm] == 'doublep' else 'complex'
            elif kind(lhs) == 'MemberExpr':
                return self.member_store(s, lhs)
            else:
                raise Unsupported('assignment target %s' % kind(lhs))
            pre, t, ty = self.expr(s['inner'][1])
            if tty == 'complex' or ty == 'complex':
                if op != '=': raise Unsupported('complex compound assign')
                return pre + ['let %s := %s' % (tgt, t)]
            t = self.coerce(t, ty, tty)
            if op == '=':
                return pre + ['let %s := %s' % (tgt, t)]
            bop = op[:-1]
            if tty == 'double':
                if bop == '/':
                    s1 = strip(s['inner'][1])
                    if kind(s1) == 'FloatingLiteral' and float(s1['value']) != 0.0:
                        return pre + ['let %s := (%s / %s)' % (tgt, tgt, t)]
                    return pre + ['let %s ← ddiv %s %s' % (tgt, tgt, t)]
                return pre + ['let %s := (%s %s %s)' % (tgt, tgt, bop, t)]
            if tty == 'int':
                if bop == '/': raise Unsupported('int /=')
                return pre + ['let %s ← chkI "%s" (%s %s %s)' % (tgt, op, tgt, bop, t)]
            raise Unsupported('compound assign on %s' % tty)
        raise Unsupported('simple statement %s' % kd)

    def member_store(self, s, lhs):
        # result->re = …  /  z.re = …  on complex values
        fld = lhs['name']
        b = strip(lhs['inner'][0])
        if kind(b) == 'UnaryOperator' and b['opcode'] == '*':
            nm = strip(b['inner'][0])['referencedDecl']['name']; tgt = lean_id(nm + '_out')
        elif kind(b) == 'DeclRefExpr':
            nm = b['referencedDecl']['name']
            tgt = lean_id(nm + '_out') if nm in self.outparams else lean_id(nm)
        else:
            raise Unsupported('member store base')
        if s['opcode'] != '=': raise Unsupported('member compound store')
        pre, t, ty = self.expr(s['inner'][1])
        t = self.coerce(t, ty, 'double')
        if fld == 're': return pre + ['let %s := (%s, %s.2)' % (tgt, t, tgt)]
        if fld == 'im': return pre + ['let %s := (%s.1, %s)' % (tgt, tgt, t)]
        raise Unsupported('member store .%s' % fld)

    def join_vars(self, stmts):
        vs = set()
        decl = set()
        for s in stmts:
            self.assigned(s, vs); self.declared(s, decl)
        return sorted(v for v in vs if v not in decl)

    def if_stmt(self, s, rest, k):
        ii = inner(s)
        c, th = ii[0], ii[1]
        el = ii[2] if len(ii) > 2 else None
        pre, p = self.cond(c)
        th_term = self.terminates(th)
        el_term = el is not None and self.terminates(el)
        if th_term and el_term:
            return pre + ['if %s then' % p] + indent(self.block([th], None)) + ['else'] + indent(self.block([el], None))
        rest_lines = None
        def get_rest():
            nonlocal rest_lines
            if rest_lines is None:
                rest_lines = self.block(rest, k)
            return rest_lines
        if th_term:
            saved = dict(self.locals)
            a = self.block([th], None)
            b = self.block(([el] if el else []) + rest, k)
            return pre + ['if %s then' % p] + indent(a) + ['else'] + indent(b)
        if el_term:
            b = self.block([el], None)
            a = self.block([th] + rest, k)
            return pre + ['if %s then' % p] + indent(a) + ['else'] + indent(b)
        # both fall through (possibly with inner returns)
        jk = ('ReturnStmt', 'BreakStmt', 'ContinueStmt')
        jumps = self.has_jump(th, jk) or (el is not None and self.has_jump(el, jk))
        if jumps or not rest:
            # duplicate the continuation
            a = self.block([th] + rest, k)
            b = self.block(([el] if el else []) + rest, k)
            return pre + ['if %s then' % p] + indent(a) + ['else'] + indent(b)
        jv = self.join_vars([th] + ([el] if el else []))
        if not jv:
            # no visible effect (e.g. only declarations) – but calls may abort: keep them
            jv = []
        tup = tuple_text(jv)
        a = self.block([th], ['pure %s' % tup])
        b = self.block([el], ['pure %s' % tup]) if el else ['pure %s' % tup]
        j = self.fresh('j')
        out = pre + ['let %s ← (if %s then (do' % (j, p)] + indent(a, 4) + ['  ) else (do'] + indent(b, 4) + ['  ))']
        out += tuple_unpack(j, jv)
        return out + self.block(rest, k)

    def for_stmt(self, s, rest, k):
        ii = s['inner']
        init, _, cnd, inc, body = ii[0], ii[1], ii[2], ii[3], ii[4]
        # init:  i = lo     cond: i < hi | i <= hi     inc: i++
        if not init or kind(init) != 'BinaryOperator' or init['opcode'] != '=':
            raise Unsupported('for init')
        iv = strip(init['inner'][0])['referencedDecl']['name']
        plo, lo, tlo = self.expr(init['inner'][1])
        c0 = strip(cnd)
        if kind(c0) != 'BinaryOperator' or c0['opcode'] not in ('<', '<='):
            raise Unsupported('for condition')
        cl = c0['inner'][0]
        while kind(cl) in ('ImplicitCastExpr', 'ParenExpr', 'CStyleCastExpr'): cl = cl['inner'][0]
        if kind(cl) != 'DeclRefExpr' or cl['referencedDecl']['name'] != iv:
            raise Unsupported('for condition lhs')
        phi, hi, thi = self.for_bound(c0['inner'][1])
        if c0['opcode'] == '<=':
            m = re.fullmatch(r'\((-?\d+) : Int\)', hi)
            hi = '(%d : Int)' % (int(m.group(1)) + 1) if m else '(%s + 1)' % hi
        i0 = strip(inc)
        if not (kind(i0) == 'UnaryOperator' and i0['opcode'] == '++' and strip(i0['inner'][0])['referencedDecl']['name'] == iv):
            raise Unsupported('for increment')
        if lean_id(iv) in self.assigned(body):
            raise Unsupported('induction variable modified in loop body')
        jv = [v for v in self.join_vars([body]) if v != lean_id(iv)]
        has_ret = self.has_jump(body, ('ReturnStmt',))
        has_brk = self.has_jump(body, ('BreakStmt',))
        tup = tuple_text(jv)
        st = self.fresh('st')
        if not has_ret and not has_brk:
            self.loop_stack.append(('simple', tup))
            try:
                b = self.block([body], ['pure %s' % tup])
            finally:
                self.loop_stack.pop()
            out = plo + phi + ['let %s ← loopM %s %s %s (fun %s %s => do' % (st, lo, hi, tup, lean_id(iv), st + '_in')]
            out += indent(tuple_unpack(st + '_in', jv) + b, 4) + ['  )']
            out += tuple_unpack(st, jv)
            # C leaves the induction variable at hi after the loop
            out.append('let %s := (if %s ≤ %s then %s else %s)' % (lean_id(iv), lo, hi, hi, lo))
            return out + self.block(rest, k)
        self.loop_stack.append(('ctl', tup))
        try:
            b = self.block([body], ['pure (Ctl.next %s)' % tup])
        finally:
            self.loop_stack.pop()
        out = plo + phi + ['let %s ← loopCtlM %s %s %s (fun %s %s => do' % (st, lo, hi, tup, lean_id(iv), st + '_in')]
        out += indent(tuple_unpack(st + '_in', jv) + b, 4) + ['  )']
        after = tuple_unpack(st + '_s', jv)
        after.append('let %s := (if %s ≤ %s then %s else %s)' % (lean_id(iv), lo, hi, hi, lo))
        restl = self.block(rest, k)
        wrap = 'pure (Ctl.ret %s_r)' % st if (self.loop_stack and self.loop_stack[-1][0] == 'ctl') else 'pure %s_r' % st
        out += ['match %s with' % st, '| Sum.inl %s_r => %s' % (st, wrap), '| Sum.inr %s_s => do' % st] + indent(after + restl, 4)
        return out

    def for_bound(self, n):
        n0 = strip(n)
        if kind(n0) == 'BinaryOperator' and n0['opcode'] == '/' and kind(strip(n0['inner'][0])) == 'UnaryExprOrTypeTraitExpr':
            # sizeof(tbl)/sizeof(tbl[0])
            a = strip(n0['inner'][0])
            tq = a.get('inner', [{}])[0].get('type', {}).get('qualType', '') if a.get('inner') else a.get('argType', {}).get('qualType', '')
            m = re.search(r'\[(\d+)\]$', tq)
            if m: return [], '(%s : Int)' % m.group(1), 'int'
            raise Unsupported('sizeof bound')
        if kind(n) == 'ImplicitCastExpr' and n.get('castKind') == 'IntegralCast':
            return self.for_bound(n['inner'][0])
        return self.expr(n)

    def switch_stmt(self, s, rest, k):
        """switch over an int with constant labels, every non-empty segment ending in return/break: rewritten
        as an if/else chain (synthetic IfStmt nodes with an `XCaseCond` condition)"""
        ii = [c for c in inner(s) if c]
        scrut, body = ii[0], ii[-1]
        if kind(body) != 'CompoundStmt': raise Unsupported('switch body')
        segs = []; default = None; cur = None
        for st in inner(body):
            if kind(st) in ('CaseStmt', 'DefaultStmt'):
                labels = []; is_default = False
                node = st
                while kind(node) in ('CaseStmt', 'DefaultStmt'):
                    if kind(node) == 'DefaultStmt':
                        is_default = True; node = inner(node)[-1]
                    else:
                        labels.append(const_int(inner(node)[0], self.tu)); node = inner(node)[-1]
                cur = dict(labels=labels, default=is_default, stmts=[node])
                segs.append(cur)
            else:
                if cur is None: raise Unsupported('statement before first case')
                cur['stmts'].append(st)
        for sg in segs:
            if not sg['stmts'] or kind(sg['stmts'][-1]) not in ('BreakStmt', 'ReturnStmt'):
                if sg is not segs[-1]: raise Unsupported('switch fallthrough')
            if sg['stmts'] and kind(sg['stmts'][-1]) == 'BreakStmt': sg['stmts'] = sg['stmts'][:-1]
            for st in sg['stmts']:
                if self.has_jump(st, ('BreakStmt',)): raise Unsupported('nested break in switch')
        chain = None
        dflt = [sg for sg in segs if sg['default']]
        tail = {'kind': 'CompoundStmt', 'inner': dflt[0]['stmts']} if dflt else None
        for sg in reversed([sg for sg in segs if not sg['default']]):
            node = {'kind': 'IfStmt', 'inner': [{'kind': 'XCaseCond', 'scrut': scrut, 'labels': sg['labels']},
                                               {'kind': 'CompoundStmt', 'inner': sg['stmts']}] + ([tail] if tail else [])}
            tail = node
        if tail is None: return self.block(rest, k)
        return self.block([tail] + rest, k)

    # ---- whole function
    def translate(self):
        body = [c for c in inner(self.fn) if kind(c) == 'CompoundStmt'][0]
        ps = []
        for p in self.params:
            t = self.ptypes[p['name']]
            if t == 'errpp': continue
            if t in ('doublep', 'complexp'):
                ps.append('(%s_want : Bool)' % lean_id(p['name']))
                continue
            if t.startswith('other:'): raise Unsupported('parameter type %s' % qt(p))
            ps.append('(%s : %s)' % (lean_id(p['name']), LEAN_TY[t]))
        if self.has_error: ps.append('(error : Slot)')
        pre = []
        for o in self.outparams:
            pre.append('let %s := %s' % (lean_id(o + '_out'), default_value('double' if self.ptypes[o] == 'doublep' else 'complex')))
        k = None
        if self.ret == 'void':
            k = self.ret_lines([], None)
        lines = pre + self.block(inner(body), k)
        rty = self.result_type()
        fuel = '(fuel : Nat) ' if self.name in self.recursive else ''
        return ps, rty, lines

    def result_type(self):
        comps = []
        if self.ret != 'void': comps.append(LEAN_TY[self.ret])
        for o in self.outparams:
            comps.append('α' if self.ptypes[o] == 'doublep' else '(α × α)')
        if self.has_error: comps.append('Slot')
        if not comps: comps = ['Unit']
        return ' × '.join(comps)

def result_layout(fi):
    """projections of a call result r : val × outs… × slot"""
    n = (1 if fi['ret'] != 'void' else 0) + len(fi['outs']) + (1 if fi['has_error'] else 0)
    projs = []
    for i in range(n):
        if n == 1: projs.append('')
        elif i < n - 1: projs.append('.2' * i + '.1')
        else: projs.append('.2' * i)
    d = {'outs': []}
    i = 0
    if fi['ret'] != 'void': d['val'] = projs[0]; i = 1
    for o in fi['outs']:
        d['outs'].append(projs[i]); i += 1
    if fi['has_error']: d['slot'] = projs[i]
    return d

def default_value(ty):
    return {'int': '(0 : Int)', 'double': '(0.0 : α)', 'errp': 'Slot.empty', 'complex': '((0.0 : α), (0.0 : α))'}.get(ty, '()')

def tuple_text(vs):
    if not vs: return '()'
    if len(vs) == 1: return vs[0]
    return '(' + ', '.join(vs) + ')'

def tuple_unpack(j, vs):
    if not vs: return []
    if len(vs) == 1: return ['let %s := %s' % (vs[0], j)]
    out = []
    for i, v in enumerate(vs):
        pj = '.2' * i + ('.1' if i < len(vs) - 1 else '')
        out.append('let %s := %s%s' % (v, j, pj))
    return out

def indent(lines, n=2):
    return [' ' * n + l for l in lines]

def paren_block(pre, last):
    return 'do ' + '; '.join(pre + [last])

LEAN_KW = {'at', 'from', 'to', 'end', 'in', 'fun', 'let', 'do', 'then', 'else', 'if', 'open', 'by', 'show', 'have',
           'with', 'where', 'theorem', 'def', 'local', 'instance', 'variable', 'mu', 'lemma', 'Type', 'Prop', 'Sort'}
def lean_id(nm):
    if nm in LEAN_KW: return nm + '_'
    return nm

# --------------------------------------------------------------------------------------------

class TUInfo:
    def __init__(self, prog, path, ast):
        self.prog = prog
        self.path = path
        self.ast = ast
        self.arrays = prog.arrays
        self.enums = prog.enums
        self.scalars = {}
        self.static_tables = {}
        self.fnptr_tables = {}
        self.rec_types = {}
        self.used_static = set()
        for n in ast['inner']:
            if kind(n) == 'VarDecl':
                pa = parse_array_type(qt(n))
                if pa and n['name'] not in prog.arrays and n.get('storageClass') in ('extern', None) :
                    prog.arrays[n['name']] = pa
            if kind(n) == 'EnumDecl':
                v = -1
                for c in inner(n):
                    if kind(c) == 'EnumConstantDecl':
                        ci = [x for x in inner(c)]
                        if ci:
                            v = int(find_int(ci[0]))
                        else:
                            v += 1
                        prog.enums[c['name']] = v
        # static function-pointer tables and static struct tables
        last_rec = None
        for n in ast['inner']:
            if kind(n) == 'RecordDecl':
                last_rec = [(c['name'], ctype(qt(c))) for c in inner(n) if kind(c) == 'FieldDecl']
                if n.get('name'): self.rec_types[n['name']] = last_rec
            if kind(n) == 'VarDecl' and n.get('storageClass') == 'static' and 'inner' in n:
                q = qt(n)
                il = [c for c in inner(n) if kind(c) == 'InitListExpr']
                if not il: continue
                m = re.match(r'^(?:const )?int\s*\[(\d+)\]$', q)
                if m:
                    try:
                        vals = [const_int(e, self) for e in inner(il[0])]
                        if len(vals) == int(m.group(1)):
                            self.static_tables[n['name']] = dict(n=len(vals), kind='int', vals=vals)
                    except Unsupported:
                        pass
                    continue
                m = re.match(r'^(?:const )?struct (.*)\[(\d+)\]$', q)
                if m:
                    rn = m.group(1).strip()
                    fields = self.rec_types.get(rn) if not rn.startswith('(unnamed') else last_rec
                    if fields and all(t == 'int' for _, t in fields):
                        try:
                            rows = [[const_int(e, self) for e in inner(r)] for r in inner(il[0])]
                            if all(len(r) == len(fields) for r in rows) and len(rows) == int(m.group(2)):
                                self.static_tables[n['name']] = dict(n=len(rows), kind='rec',
                                    fields=[(fn, [r[i] for r in rows]) for i, (fn, _) in enumerate(fields)])
                        except Unsupported:
                            pass
                    continue
                if '(*' in q:
                    names = []
                    for e in inner(il[0]):
                        e0 = strip(e)
                        if kind(e0) == 'DeclRefExpr': names.append(e0['referencedDecl']['name'])
                        else: names = None; break
                    if names: self.fnptr_tables[n['name']] = names

    def enum_value(self, nm):
        if nm not in self.enums: raise Unsupported('enum %s' % nm)
        return self.enums[nm]


    def rec_field_type(self, rec, fld):
        return self.rec_types[rec][fld]

def const_int(n, tu):
    n0 = n
    while kind(n0) in ('ImplicitCastExpr', 'CStyleCastExpr', 'ParenExpr', 'ConstantExpr'):
        n0 = n0['inner'][0]
    if kind(n0) == 'IntegerLiteral': return int(n0['value'])
    if kind(n0) == 'DeclRefExpr' and n0['referencedDecl']['kind'] == 'EnumConstantDecl':
        return int(tu.enum_value(n0['referencedDecl']['name']))
    if kind(n0) == 'UnaryOperator' and n0['opcode'] == '-': return -const_int(n0['inner'][0], tu)
    if kind(n0) == 'BinaryOperator' and n0['opcode'] in '+-*':
        a = const_int(n0['inner'][0], tu); b = const_int(n0['inner'][1], tu)
        return {'+': a + b, '-': a - b, '*': a * b}[n0['opcode']]
    raise Unsupported('constant int expression %s' % kind(n0))

def find_enum(n, tu):
    n0 = n
    while kind(n0) in ('ImplicitCastExpr','CStyleCastExpr','ParenExpr','ConstantExpr'):
        n0 = n0['inner'][0]
    if kind(n0) == 'DeclRefExpr': return tu.enum_value(n0['referencedDecl']['name'])
    if kind(n0) == 'IntegerLiteral': return n0['value']
    raise Unsupported('error code expression')

def find_int(n):
    n0 = strip(n)
    if kind(n0) == 'IntegerLiteral': return n0['value']
    if kind(n0) == 'ConstantExpr' and 'value' in n0: return n0['value']
    if 'value' in n: return n['value']
    for c in inner(n):
        r = find_int(c)
        if r is not None: return r
    return None

class Program:
    """all translation units of one run"""
    def __init__(self, repo, flags, cache_dir=None):
        self.repo = repo
        self.flags = flags
        self.arrays = {}
        self.enums = {}
        self.funcs = {}
        self.counts = {}      # pointer table -> count table
        self.tus = {}
        self.fn_nodes = {}    # name -> (tu, node)
        self.cache_dir = cache_dir

    def load(self, cfile):
        src = os.path.join(self.repo, 'src', cfile) if not os.path.isabs(cfile) else cfile
        cmd = ['clang-14'] + self.flags + ['-Xclang', '-ast-dump=json', '-fsyntax-only', src]
        p = subprocess.run(cmd, capture_output=True, text=True)
        if p.returncode != 0:
            raise Unsupported('clang failed on %s: %s' % (cfile, p.stderr[-2000:]))
        return self.load_json(cfile, json.loads(p.stdout))

    def load_json(self, cfile, ast):
        src = os.path.join(self.repo, 'src', cfile) if not os.path.isabs(cfile) else cfile
        tu = TUInfo(self, cfile, ast)
        self.tus[cfile] = tu
        srcbase = os.path.basename(src)
        for n in ast['inner']:
            if kind(n) == 'FunctionDecl' and any(kind(c) == 'CompoundStmt' for c in inner(n)):
                f = n.get('loc', {})
                # only functions defined in this file (not static inline from headers)
                inc = f.get('includedFrom') or f.get('expansionLoc', {}).get('includedFrom')
                fl = f.get('file') or ''
                if inc and not fl.endswith(srcbase) and fl != '':
                    continue
                self.fn_nodes[n['name']] = (tu, n)
                params = [(c['name'], ctype(qt(c))) for c in inner(n) if kind(c) == 'ParmVarDecl']
                rq = qt(n).split('(')[0].strip()
                self.funcs[n['name']] = dict(
                    ret=ctype(rq) if rq != 'void' else 'void', params=params,
                    has_error=any(t == 'errpp' for _, t in params),
                    outs=[pn for pn, t in params if t in ('doublep', 'complexp')],
                    static=n.get('storageClass') == 'static', file=cfile, line=loc_line(n))
        return tu

def callees_of(node, acc=None, tu=None):
    if acc is None: acc = set()
    if kind(node) == 'DeclRefExpr' and node.get('referencedDecl', {}).get('kind') == 'FunctionDecl':
        acc.add(node['referencedDecl']['name'])
    if tu is not None and kind(node) == 'DeclRefExpr' and node.get('referencedDecl', {}).get('name') in tu.fnptr_tables:
        acc.update(tu.fnptr_tables[node['referencedDecl']['name']])
    for c in inner(node):
        if isinstance(c, dict) and c: callees_of(c, acc, tu)
    return acc

def sccs(graph):
    """Tarjan; returns list of SCCs in reverse topological order (callees first)"""
    index = {}; low = {}; st = []; on = set(); out = []; idx = [0]
    sys.setrecursionlimit(10000)
    def visit(v):
        index[v] = low[v] = idx[0]; idx[0] += 1; st.append(v); on.add(v)
        for w in sorted(graph.get(v, ())):
            if w not in graph: continue
            if w not in index:
                visit(w); low[v] = min(low[v], low[w])
            elif w in on:
                low[v] = min(low[v], index[w])
        if low[v] == index[v]:
            comp = []
            while True:
                w = st.pop(); on.discard(w); comp.append(w)
                if w == v: break
            out.append(comp)
    for v in sorted(graph):
        if v not in index: visit(v)
    return out

# --------------------------------------------------------------------------------------------
# whole-program emission

VARIABLES = ('variable {α : Type} [Add α] [Sub α] [Mul α] [Div α] [Neg α] [LT α] [LE α] [OfScientific α]\n'
             '  [DecidableLT α] [DecidableLE α] [XNum α]\n')

def lean_field_type(elem, dims, ptr):
    e = 'α' if elem in ('double', 'float') else 'Int'
    t = ' → '.join(['Nat'] * len(dims))
    if ptr: return '%s → Vec %s' % (t, e)
    return '%s → %s' % (t, e)

def src_sha(repo, fi):
    return None

class Emitter:
    def __init__(self, prog):
        self.prog = prog
        self.done = {}        # fname -> dict(params, rty, lines, calls, reads, recursive)
        self.failed = {}      # fname -> reason

    def translate_all(self, names, hand=()):
        prog = self.prog
        graph = {}
        for f in names:
            tu, node = prog.fn_nodes[f]
            graph[f] = {c for c in callees_of_body(node, tu) if c in names}
        comps = sccs(graph)
        order = []
        for comp in comps:
            rec = set(comp) if len(comp) > 1 or comp[0] in graph[comp[0]] else set()
            for f in sorted(comp):
                tu, node = prog.fn_nodes[f]
                tr = FnTranslator(tu, node, {'recursive': rec})
                try:
                    bad = [c for c in callees_of_body(node, tu) if c in self.failed]
                    if bad: raise Unsupported('calls untranslated %s' % bad[0])
                    ps, rty, lines = tr.translate()
                    self.done[f] = dict(params=ps, rty=rty, lines=lines, calls=tr.calls, reads=tr.reads,
                                        recursive=bool(rec), scc=sorted(comp))
                except Unsupported as e:
                    self.failed[f] = str(e)
                except (KeyError, IndexError, TypeError) as e:
                    self.failed[f] = 'translator error %r' % (e,)
            order.append(sorted(comp))
        # a failed member poisons its SCC
        for comp in order:
            if any(f in self.failed for f in comp):
                for f in comp:
                    if f in self.done:
                        del self.done[f]; self.failed[f] = 'SCC member untranslated'
        self.order = [[f for f in comp if f in self.done] for comp in order]
        self.order = [c for c in self.order if c]

    def fn_text(self, f, fuel_mode):
        d = self.done[f]
        ps = ' '.join(d['params'])
        if fuel_mode:
            head = 'def %s_fuel (fuel : Nat) (T : Tables α) %s : M (%s) :=' % (lean_id(f), ps, d['rty'])
            body = ['match fuel with', '| 0 => throw Abort.fuel', '| fuel+1 => do'] + indent(d['lines'], 4)
            return head + '\n' + '\n'.join(indent(body)) + '\n'
        head = 'def %s (T : Tables α) %s : M (%s) := do' % (lean_id(f), ps, d['rty'])
        return head + '\n' + '\n'.join(indent(d['lines'])) + '\n'

    def emit_fns(self):
        out = []
        for comp in self.order:
            rec = self.done[comp[0]]['recursive']
            if not rec:
                out.append(self.fn_text(comp[0], False))
                continue
            # inside the SCC, calls `f fuel` refer to f_fuel
            texts = []
            for f in comp:
                t = self.fn_text(f, True)
                for g in comp:
                    t = re.sub(r'← %s fuel T ' % re.escape(lean_id(g)), '← %s_fuel fuel T ' % lean_id(g), t)
                    t = re.sub(r'then %s fuel T ' % re.escape(lean_id(g)), 'then %s_fuel fuel T ' % lean_id(g), t)
                texts.append(t)
            if len(comp) > 1:
                out.append('mutual\n' + '\n'.join(texts) + 'end\n')
            else:
                out.append(texts[0])
            for f in comp:
                d = self.done[f]
                names = ' '.join(re.match(r'\((\w+) :', p).group(1) for p in d['params'])
                out.append('def %s (T : Tables α) %s : M (%s) := %s_fuel FUEL T %s\n' % (
                    lean_id(f), ' '.join(d['params']), d['rty'], lean_id(f), names))
        return out

def _emit_fns_grouped(self):
    """[(functions of one SCC, Lean text)] in dependency order"""
    out = []
    for comp in self.order:
        rec = self.done[comp[0]]['recursive']
        if not rec:
            out.append((comp, self.fn_text(comp[0], False))); continue
        texts = []
        for f in comp:
            t = self.fn_text(f, True)
            for g in comp:
                t = re.sub(r'← %s fuel T ' % re.escape(lean_id(g)), '← %s_fuel fuel T ' % lean_id(g), t)
                t = re.sub(r'then %s fuel T ' % re.escape(lean_id(g)), 'then %s_fuel fuel T ' % lean_id(g), t)
            texts.append(t)
        txt = ('mutual\n' + '\n'.join(texts) + 'end\n') if len(comp) > 1 else texts[0]
        for f in comp:
            d = self.done[f]
            names = ' '.join(re.match(r'\((\w+) :', p).group(1) for p in d['params'])
            txt += '\ndef %s (T : Tables α) %s : M (%s) := %s_fuel FUEL T %s\n' % (lean_id(f), ' '.join(d['params']), d['rty'], lean_id(f), names)
        out.append((comp, txt))
    return out
Emitter.emit_fns_grouped = _emit_fns_grouped

def callees_of_body(node, tu=None):
    body = [c for c in inner(node) if kind(c) == 'CompoundStmt']
    return callees_of(body[0], None, tu) if body else set()
