#!/usr/bin/env python3
"""gen_c20.py <bdir with config.h> <lean Gen dir> <aux dir> <exported-symbols file> [<file listing the sources the library was built from>]

Runs the C20 extractors on VERIF_REPO (default /repo), writes
  <Gen>/C20.lean   chunked tables for the kernel (names as Nat codes, sorted)
  <aux>/c20.json   the same entries with file/line/text, the entry-level comparison (what the violation search
                   reports), the known-finding lists
Exit 0: tables written.  Exit 3: broken tie (an extractor could not classify a line / C-side validation failed);
the reason is in <aux>/c20_tie.json."""
import os, sys, re, json
HERE = os.path.dirname(os.path.abspath(__file__))
sys.path.insert(0, HERE)
import extract_bindings as X
from l4common import TieError, nat_of, emit_table, write_if_changed, lean_int, dec_str

VERIF = os.path.dirname(HERE)
BINDINGS = ['fortran', 'pascal', 'cython', 'java', 'idl']
CASE_INSENSITIVE = {'fortran', 'pascal', 'idl'}
PROTO_SETS = ['fortran', 'pascal', 'cython']
LIBC = {'strlen': ('size_t', [('ptr', 'char')])}
FILE_OF = dict(fortran='fortran/xraylib_wrap.F90', pascal='pascal/xraylib_const.pas', cython='python/xraylib_np.pyx',
               java='java/Xraylib.java', idl='idl/xraylib.pro')


def load_findings(prop):
    """entries of /verif/known_findings.txt (the only file that can suppress a violation)"""
    out = []
    for p in (os.path.join(VERIF, 'known_findings.txt'),):
        try:
            for l in open(p):
                m = re.match(r'finding:\s+property=(C\d+)\s+key=\[([^\]]*)\]\s*(.*)', l.strip())
                if m and m.group(1) == prop: out.append((m.group(2), m.group(3)))
        except OSError:
            pass
    return out


def src_exported_decls(repo):
    """`XRL_EXTERN <declaration>;` inside src/*.c: functions exported by the library without a public header"""
    out = []
    for f in sorted(os.listdir(os.path.join(repo, 'src'))):
        if not f.endswith('.c'): continue
        txt = X.strip_c_comments(open(os.path.join(repo, 'src', f)).read())
        for m in re.finditer(r'^XRL_EXTERN\s+([^;{]+?\([^;{]*\))\s*;', txt, flags=re.M):
            out.append(('src/' + f, txt[:m.start()].count('\n') + 1, re.sub(r'\s+', ' ', m.group(1))))
    return out


def tcode(t):
    return X.ty_code(*t) if t[0] in X.ABI else None


def main(bdir, gen_dir, aux, exported_file, built_file=None):
    repo = os.environ.get('VERIF_REPO', '/repo')
    os.makedirs(aux, exist_ok=True)
    cc = X.c_constants(repo, bdir, aux)
    for n in cc:
        if n != n.upper():
            raise TieError(cc[n].file, cc[n].line, n, 'C constant with lower-case letters: case-insensitive bindings need a second table')
    cp = X.c_prototypes(repo, bdir, aux)
    public_fns = sorted(n for n, p in cp.items() if p.file.startswith('include/'))
    # exported-but-undeclared functions the bindings may bind to, and the libc functions Fortran binds
    extra = src_exported_decls(repo)
    for f, ln, decl in extra:
        m = re.match(r'(.+?)\b(\w+)\s*\((.*)\)$', decl)
        if not m: raise TieError(f, ln, decl, 'XRL_EXTERN declaration in a source file not understood')
        if m.group(2) in cp: continue
        args = []; names = []
        for a in m.group(3).split(','):
            a = a.strip()
            if a in ('void', ''): continue
            ma = re.fullmatch(r'(.*?[\s\*])(\w+)(\[\])?', a)
            if not ma: raise TieError(f, ln, a, 'parameter not understood')
            args.append(X.c_type(ma.group(1).strip() + (' *' if ma.group(3) else ''), f, ln)); names.append(ma.group(2))
        cp[m.group(2)] = X.Proto(m.group(2), X.c_type(m.group(1).strip(), f, ln), args, names, decl, f, ln)
    for n, (r, a) in LIBC.items():
        cp[n] = X.Proto(n, (r, '?'), a, [''] * len(a), 'libc', '<libc>', 0)

    consts = {}
    consts['fortran'] = X.fortran_constants(repo)
    cst = X.c_structs(repo, bdir, aux)
    pu = X.pascal_unit(repo, cst)
    consts['pascal'] = X.pascal_constants(repo) + pu['consts']
    cy_consts, cy_protos = X.cython_extract(repo, cc)
    consts['cython'] = cy_consts
    consts['java'], java_dynamic = X.java_constants(repo)
    jfeed = X.java_dynamic_feed(repo, java_dynamic, cc)
    consts['idl'], idl_info = X.idl_constants(repo)
    cy_bodies = X.cython_bodies(repo)
    protos = dict(fortran=X.fortran_protos(repo), pascal=X.pascal_protos(repo), cython=cy_protos)
    swig = X.swig_refs(repo, cp, cc)
    cpp = X.cpp_refs(repo, cp, cc)
    cpp_typed, cpp_info = X.cpp_wrapper_protos(repo, bdir, aux, {n: p_ for n, p_ in cp.items() if p_.file != '<libc>'})
    vers = X.versions(repo)
    fwr = X.fortran_wrappers(repo)
    bstructs = dict(fortran=X.fortran_structs(repo, cst), pascal=pu['structs'], cython=X.cython_structs(repo, cst))
    cpp_structs, cpp_members, cpp_members_info = X.cpp_class_members(repo, bdir, aux, cst)
    idlf = X.idl_functions(repo, [n for n in cp if cp[n].file != '<libc>'])
    libtool = X.libtool_versions(repo)
    swig_inv = X.swig_invocations(repo)
    bdef = X.library_build_definition(repo)
    built = sorted(set(l.strip() for l in open(built_file) if l.strip())) if built_file else None
    cup = {}
    for n in cp:
        if n.upper() in cup: raise TieError(cp[n].file, cp[n].line, n, 'two C functions that differ only in case: case-insensitive bindings cannot tell them apart')
        cup[n.upper()] = n
    def cspell(n): return cup.get(n.upper(), n)
    if 'xraylib.h' not in swig['includes']: raise TieError('src/xraylib.i', 0, '', 'the SWIG interface no longer %includes xraylib.h (extractor assumes constants and prototypes come from the C headers)')
    if 'xraylib.h' not in cpp['includes']: raise TieError('cplusplus/xraylib++.h', 0, '', 'the C++ header no longer includes xraylib.h')
    exported = sorted(set(l.strip() for l in open(exported_file) if l.strip()))

    findings = load_findings('C20')
    fkeys = {k for k, _ in findings}
    report = dict(diffs=[], tie=None)
    known = {}

    def key_of(b, c): return c.name.upper() if b in CASE_INSENSITIVE else c.name

    # ---- constants ------------------------------------------------------------------------------------
    tables = {}
    for b in BINDINGS:
        seen = {}
        for c in consts[b]:
            k = key_of(b, c)
            if k in seen and seen[k].val() == c.val(): continue      # identical re-declaration
            if k in seen:                                           # two different values under one name: keep both, the sortedness check fails
                report['diffs'].append(dict(kind='duplicate', binding=b, name=c.name, file=c.file, line=c.line, found=c.show(), expected=seen[k].show(),
                                            key='%s %s' % (c.file, c.name), what='declared twice with different values'))
            seen.setdefault(k, c)
        tab = sorted(seen.items(), key=lambda kv: nat_of(kv[0]))
        tables[b] = tab
        kn = []
        for k, c in tab:
            if k in cc and cc[k].val() != c.val():
                key = '%s %s' % (c.file, c.name)
                d = dict(kind='constant', binding=b, name=c.name, file=c.file, line=c.line, found=c.show(), expected=cc[k].show(),
                         cfile=cc[k].file, cline=cc[k].line, key=key, text=c.text,
                         what='%s:%d declares %s = %s, %s:%d has %s' % (c.file, c.line, c.name, c.show(), cc[k].file, cc[k].line, cc[k].show()),
                         known=key in fkeys)
                report['diffs'].append(d)
                if key in fkeys: kn.append(k)
        known['const_' + b] = kn
    # ---- Java constants without initialiser: XRayInit() reads them from the head of xraylib.dat, java/pr_data_java.c writes that head.
    #      (java field, value of the C expression written into its slot) must agree with the C macro of the field's name
    for c, sl, rd in jfeed['feed']:
        if c.name in cc and cc[c.name].val() != c.val():
            key = 'java/Xraylib.java %s' % c.name
            report['diffs'].append(dict(kind='constant-dynamic', binding='java', name=c.name, file='java/Xraylib.java', line=rd['line'], found='%s = %s' % (sl['expr'], c.show()), expected=cc[c.name].show(),
                                        cfile=cc[c.name].file, cline=cc[c.name].line, key=key, text=c.text,
                                        what='java/Xraylib.java:%d XRayInit() reads %s as scalar number %d of xraylib.dat; java/pr_data_java.c:%d writes `%s` there (`%s %s = %s;` at line %d) = %s; %s:%d has %s = %s' % (
                                            rd['line'], c.name, jfeed['reads'].index(rd) + 1, sl['line'], sl['var'], sl['ctype'], sl['var'], sl['expr'], sl['decl_line'], c.show(), cc[c.name].file, cc[c.name].line, c.name, cc[c.name].show()),
                                        known=key in fkeys))
    for pb in jfeed['problems']:
        key = ('java/Xraylib.java %s' % pb['field']) if pb['file'].endswith('.java') or not pb['field'].startswith('slot ') else 'java/pr_data_java.c %s' % pb['field']
        report['diffs'].append(dict(kind='constant-dynamic', binding='java', name=pb['field'], file=pb['file'], line=pb['line'], found=pb['found'], expected=pb['expected'], key=key,
                                    what='%s:%d: run-time loaded Java constant %s: %s' % (pb['file'], pb['line'], pb['field'], pb['found']), known=key in fkeys))
    # ---- families ---------------------------------------------------------------------------------------
    fam = {f: sorted((n for n in cc if X.family_of(n) == f), key=nat_of) for f in X.FAMILIES}
    publishes = {}
    for b in BINDINGS:
        names = {k for k, _ in tables[b]}
        publishes[b] = [f for f in X.FAMILIES if any(n in names for n in fam[f])]
        kn = []
        for f in X.FAMILIES:
            if f not in publishes[b]:
                # "exposed completely" fails for the family as a whole: one entry, not one per member
                key = '%s family %s' % (FILE_OF[b], f)
                report['diffs'].append(dict(kind='family', binding=b, family=f, name=f, file=FILE_OF[b], line=0, found='none of the %d %s constants is published' % (len(fam[f]), f),
                                            expected='%s … %s (%s)' % (fam[f][0], fam[f][-1], cc[fam[f][0]].file), key=key,
                                            what='%s publishes none of the %d constants of the %s family (%s … %s of %s)' % (FILE_OF[b], len(fam[f]), f, fam[f][0], fam[f][-1], cc[fam[f][0]].file),
                                            known=key in fkeys))
                if key in fkeys: kn += fam[f]
                continue
            for n in fam[f]:
                if n not in names:
                    key = '%s family %s' % (FILE_OF[b], n)
                    report['diffs'].append(dict(kind='family', binding=b, family=f, name=n, file=FILE_OF[b], line=0, found='absent', expected='%s = %s (%s:%d)' % (n, cc[n].show(), cc[n].file, cc[n].line),
                                                key=key, what='%s publishes the %s family but not %s' % (FILE_OF[b], f, n), known=key in fkeys))
                    if key in fkeys: kn.append(n)
        known['fam_' + b] = kn
    # ---- prototypes -------------------------------------------------------------------------------------
    def agree(b, c): return X.ABI[b[0]] == X.ABI[c[0]] and (b[1] == '?' or b[1] == c[1])
    for s in PROTO_SETS:
        kn = []
        for p in protos[s]:
            c = cp.get(p.cname)
            ok = c is not None and len(p.args) == len(c.args) and agree(p.ret, c.ret) and all(agree(x, y) for x, y in zip(p.args, c.args))
            if not ok:
                key = '%s proto %s' % (p.file, p.cname)
                exp = 'no such function in the C headers' if c is None else '%s  (%s:%d)' % (c.text, c.file, c.line)
                report['diffs'].append(dict(kind='prototype', binding=s, name=p.cname, file=p.file, line=p.line, found=p.text, expected=exp, key=key,
                                            found_types=[p.ret] + p.args, expected_types=None if c is None else [c.ret] + c.args,
                                            what='%s:%d declares %s with result/arguments %s; C has %s' % (p.file, p.line, p.cname, fmt_types(p), 'nothing' if c is None else fmt_types(c)),
                                            known=key in fkeys))
                if key in fkeys and p.cname not in kn: kn.append(p.cname)
        known['proto_' + s] = kn
    # ---- IDL: a constant is exposed to IDL procedures only through COMMON XRAYLIB ("exposed completely"): every assigned
    #      C name must be a member, and every member must receive its value
    for nm in idl_info['assigned_not_in_common']:
        key = 'idl/xraylib.pro common %s' % nm
        report['diffs'].append(dict(kind='idl-common', binding='idl', name=nm, file='idl/xraylib.pro', line=0, found='assigned, but not a member of COMMON XRAYLIB', expected='member of COMMON XRAYLIB', key=key,
                                    what='idl: %s receives a value but is not a member of COMMON XRAYLIB, so no IDL procedure can see it' % nm, known=key in fkeys))
    for nm in idl_info['common_never_assigned']:
        key = 'idl/xraylib.pro common %s' % nm
        report['diffs'].append(dict(kind='idl-common', binding='idl', name=nm, file='idl/xraylib.pro', line=0, found='member of COMMON XRAYLIB that never receives a value', expected='a name assigned in the idl/*.pro files', key=key,
                                    what='idl: COMMON XRAYLIB publishes %s, which no file assigns (not a C name)' % nm, known=key in fkeys))
    # ---- Cython: a wrapper published under a C function's name must call that C function
    for name, ln, calls in cy_bodies:
        if name in cp and calls:
            wrong = sorted({c for c in calls if c != name and c in cp})
            if name not in calls or wrong:
                key = 'python/xraylib_np.pyx body %s' % name
                report['diffs'].append(dict(kind='binding-body', binding='cython', name=name, file='python/xraylib_np.pyx', line=ln, found='calls xrl.%s' % ', xrl.'.join(sorted(set(calls))), expected='calls xrl.%s' % name, key=key,
                                            what='python/xraylib_np.pyx:%d: the wrapper published as %s calls %s' % (ln, name, ', '.join('xrl.' + c for c in sorted(set(calls)))), known=key in fkeys))
    # ---- SWIG / C++ references ---------------------------------------------------------------------------
    for who, info, f in (('swig', swig, 'src/xraylib.i'), ('cpp', cpp, 'cplusplus/xraylib++.h')):
        for r in info['refs']:
            if not r['ok']:
                key = '%s ref %s' % (f, r['text'])
                report['diffs'].append(dict(kind='reference', binding=who, name=r['text'], file=f, line=r['line'], found='%s %s' % (r['kind'], r['text']), expected=r['need'], key=key,
                                            what='%s:%d: %s `%s` names nothing in the C headers (%s)' % (f, r['line'], r['kind'], r['text'], r['need']), known=key in fkeys))
    # ---- wrapper name vs bound C symbol (Fortran, Pascal, IDL glue) ------------------------------------------
    def is_helper(c): return (c in cp and cp[c].ret[0] == 'void') or c in LIBC
    wr = {}
    def wrapper_set(lang, wrappers, direct):
        calls = []; named = []; native = []; dpairs = []
        for w in wrappers:
            me = cspell(w.name)
            for c in w.calls: calls.append((me, c))
            bad = [c for c in w.calls if c != me and not is_helper(c)]
            if me in cp and cp[me].file != '<libc>':
                named.append(me)
                if not w.binds: native.append(me)
                elif me not in w.calls and not bad: bad = list(w.calls)
            if bad:
                key = '%s wrapper %s' % (w.file, w.name)
                report['diffs'].append(dict(kind='wrapper-binding', binding=lang, name=w.name, file=w.file, line=w.line, found='binds and calls %s' % ', '.join(w.calls), expected='binds and calls %s (besides void helper functions)' % me, key=key,
                                            what='%s:%d: the wrapper published as %s binds and calls the C function(s) %s' % (w.file, w.line, w.name, ', '.join(bad)), known=key in fkeys))
        for w in direct:
            me = cspell(w.name); c = w.binds[0][1]; dpairs.append((me, c))
            if me != c:
                key = '%s wrapper %s' % (w.file, w.name)
                report['diffs'].append(dict(kind='wrapper-binding', binding=lang, name=w.name, file=w.file, line=w.line, found="bound to the C symbol '%s'" % c, expected="bound to the C symbol '%s'" % me, key=key,
                                            what="%s:%d: the foreign declaration published as %s is bound to the C symbol '%s'" % (w.file, w.line, w.name, c), known=key in fkeys))
        wr[lang] = dict(calls=sorted(set(calls), key=lambda x: (nat_of(x[0]), nat_of(x[1]))), named=sorted(set(named), key=nat_of), native=sorted(set(native), key=nat_of),
                        direct=sorted(set(dpairs), key=lambda x: (nat_of(x[0]), nat_of(x[1]))), wrappers=[w.js() for w in wrappers], direct_decls=[w.js() for w in direct])
    wrapper_set('fortran', [w for w in fwr if w.kind == 'wrapper'], [w for w in fwr if w.kind == 'direct'])
    wrapper_set('pascal', pu['wrappers'], pu['direct'])
    wrapper_set('idl', idlf['glue'], [])
    # ---- Pascal: the public (non-external) declarations against the C prototypes' visible signature; iface file vs definitions
    HIDDEN = {('ptr', 'xrl_error*'), ('ptr', 'int'), ('ptr', 'Crystal_Array')}
    def vis(c): return [a for a in c.args if a not in HIDDEN]
    for p_ in pu['public']:
        p_.cname = cspell(p_.name)
        c = cp.get(p_.cname)
        ok = c is not None and len(p_.args) == len(vis(c)) and agree(p_.ret, c.ret) and all(agree(x, y) for x, y in zip(p_.args, vis(c)))
        if not ok:
            key = '%s decl %s' % (p_.file, p_.name)
            exp = 'no such function in the C headers' if c is None else '%s  (%s:%d)' % (c.text, c.file, c.line)
            report['diffs'].append(dict(kind='public-signature', binding='pascal', name=p_.name, file=p_.file, line=p_.line, found=p_.text, expected=exp, key=key,
                                        what='%s:%d declares %s with result/arguments %s; the C function shows its caller %s' % (p_.file, p_.line, p_.name, fmt_types(p_), 'nothing' if c is None else fmt_types(X.Proto(c.name, c.ret, vis(c), [], '', c.file, c.line))),
                                        known=key in fkeys))
    iface = sorted(pu['iface'], key=lambda x: nat_of(x[0])); impl = sorted(pu['impl'], key=lambda x: nat_of(x[0]))
    di = {n: (t, l) for n, t, l in iface}; dm = {n: (t, l) for n, t, l in impl}
    for n in sorted(set(di) | set(dm)):
        if di.get(n, (None,))[0] != dm.get(n, (None,))[0]:
            key = 'pascal/xraylib_iface.pas decl %s' % n
            report['diffs'].append(dict(kind='iface-impl', binding='pascal', name=n, file='pascal/xraylib_iface.pas', line=di.get(n, (0, 0))[1], found=di.get(n, ('not declared',))[0], expected=dm.get(n, ('not defined in pascal/xraylib_impl.pas',))[0], key=key,
                                        what='pascal/xraylib_iface.pas declares %s, pascal/xraylib_impl.pas defines %s' % (di.get(n, ('nothing',))[0], dm.get(n, ('nothing',))[0]), known=key in fkeys))
    # ---- C++: declared parameter / result types of every wrapper (template instantiations, free functions, methods, forwarding free functions,
    #      copy constructor, destructor) against the visible signature of the C function it wraps
    for p_ in cpp_typed:
        c = cp.get(p_.cname)
        ok = c is not None and len(p_.args) == len(vis(c)) and agree(p_.ret, c.ret) and all(agree(x, y) for x, y in zip(p_.args, vis(c)))
        if not ok:
            key = '%s types %s' % (p_.file, p_.name)
            cv = None if c is None else X.Proto(c.name, c.ret, vis(c), [], '', c.file, c.line)
            bad = []
            if c is not None:
                if not agree(p_.ret, c.ret): bad.append('result: %s, C returns %s' % (fmt_types(X.Proto('', p_.ret, [], [], '', '', 0))[:-2], fmt_types(X.Proto('', c.ret, [], [], '', '', 0))[:-2]))
                if len(p_.args) != len(vis(c)): bad.append('%d parameters, the C function shows its caller %d' % (len(p_.args), len(vis(c))))
                else:
                    off = len(p_.args) - len(p_.argnames)       # a method: the member `cs` is argument 0
                    for i_, (x, y) in enumerate(zip(p_.args, vis(c))):
                        if not agree(x, y):
                            nm_ = p_.argnames[i_ - off] if 0 <= i_ - off < len(p_.argnames) else 'this->cs'
                            cn_ = [n_ for n_, t_ in zip(c.argnames, c.args) if t_ not in HIDDEN]
                            bad.append('parameter %d `%s` is declared %s, the C prototype has %s%s' % (i_ + 1, nm_, fmt_types(X.Proto('', x, [], [], '', '', 0))[:-2], fmt_types(X.Proto('', y, [], [], '', '', 0))[:-2],
                                       ' `%s`' % cn_[i_] if i_ < len(cn_) and cn_[i_] else ''))
            exp = 'no such function in the C headers' if c is None else '%s  (%s:%d)' % (c.text, c.file, c.line)
            report['diffs'].append(dict(kind='prototype-cpp', binding='cpp', name=p_.name, file=p_.file, line=p_.line, found=p_.text, expected=exp, key=key,
                                        found_types=[p_.ret] + p_.args, expected_types=None if c is None else [c.ret] + vis(c),
                                        what='%s:%d declares the wrapper %s of %s with result/arguments %s; the C function shows its caller %s%s' % (
                                            p_.file, p_.line, p_.name, p_.cname, fmt_types(p_), 'nothing' if cv is None else fmt_types(cv), (': ' + '; '.join(bad)) if bad else ''),
                                        known=key in fkeys))
    # ---- IDL: the two hand-written declaration sets against the C prototypes and against each other
    for src_, ents in (('idl/libxrlidl.dlm', idlf['dlm']), ('idl/xraylib_idl.c', idlf['sysfun'])):
        for e in ents:
            c = cp.get(e['name'])
            ok = c is not None and c.file != '<libc>' and e['min'] == e['max'] == len(vis(c)) and (e['kind'] == 'PROCEDURE' or c.ret[0] != 'void')
            if not ok:
                key = '%s routine %s' % (src_, e['idl'])
                exp = 'a function of the C headers' if c is None or c.file == '<libc>' else '%s with %d arguments: %s (%s:%d)' % ('PROCEDURE or FUNCTION' if c.ret[0] != 'void' else 'PROCEDURE', len(vis(c)), c.text, c.file, c.line)
                report['diffs'].append(dict(kind='idl-routine', binding='idl', name=e['idl'], file=src_, line=e['line'], found=e['text'], expected=exp, key=key,
                                            what='%s:%d declares %s %s with %d..%d arguments; C has %s' % (src_, e['line'], e['kind'], e['idl'], e['min'], e['max'], 'no such function' if c is None else '%s, visible arguments %d' % (c.text, len(vis(c)))),
                                            known=key in fkeys))
    rd = {e['idl']: e for e in idlf['dlm']}; rs = {e['idl']: e for e in idlf['sysfun']}
    if len(rd) != len(idlf['dlm']) or len(rs) != len(idlf['sysfun']):
        raise TieError('idl/libxrlidl.dlm', 0, '', 'an IDL routine is declared twice in one declaration set')
    for n in sorted(set(rd) | set(rs)):
        a, b_ = rd.get(n), rs.get(n)
        if a is None or b_ is None or (a['kind'], a['min'], a['max']) != (b_['kind'], b_['min'], b_['max']):
            key = 'idl routine %s' % n
            report['diffs'].append(dict(kind='idl-sources', binding='idl', name=n, file='idl/libxrlidl.dlm' if a else 'idl/xraylib_idl.c', line=(a or b_)['line'], found=a['text'] if a else 'not declared in idl/libxrlidl.dlm',
                                        expected=b_['text'] if b_ else 'not registered in idl/xraylib_idl.c', key=key,
                                        what='idl/libxrlidl.dlm has %s; idl/xraylib_idl.c registers %s' % (a['text'] if a else 'nothing', b_['text'] if b_ else 'nothing'), known=key in fkeys))
    # ---- record layouts
    for lang in ('fortran', 'pascal', 'cython'):
        ci = lang in CASE_INSENSITIVE
        for st in bstructs[lang]:
            c = cst[st.cname]
            def same(a, b): return a.upper() == b.upper() if ci else a == b
            if lang == 'cython':
                ok = all(any(same(n, cn) and agree(t, ct) for cn, ct in c.fields) for n, t in st.fields)
            else:
                ok = len(st.fields) == len(c.fields) and all(same(n, cn) and agree(t, ct) for (n, t), (cn, ct) in zip(st.fields, c.fields))
            if not ok:
                key = '%s struct %s' % (st.file, st.name)
                report['diffs'].append(dict(kind='struct', binding=lang, name=st.name, file=st.file, line=st.line, found=st.show(), expected='%s %s (%s:%d)' % (c.name, c.show(), c.file, c.line), key=key,
                                            what='%s:%d declares the record %s as %s; the C struct %s is %s' % (st.file, st.line, st.name, st.show(), c.name, c.show()), known=key in fkeys))
    # ---- C++ value classes: the declared type of every data member against the field of the C struct it is a copy of
    for r in cpp_members:
        c = cst[r['struct']]
        ct = dict(c.fields).get(r['field'])
        craw = next((q for n, _, q in (c.raw or []) if n == r['field']), None)
        t = tuple(r['type'])
        bad = []
        if ct is None: bad.append('struct %s has no field %s' % (c.name, r['field']))
        elif not agree(t, ct): bad.append('the member is declared `%s` (%s), the field is `%s %s` (%s)' % (r['declared'], 'stands for no C type of the C++ -> C type map' if t[0] == 'other' else 'stands for C ' + X.fmt_type(t), craw, r['field'], X.fmt_type(ct)))
        if r['count'] is not None:
            nt = dict(c.fields).get(r['count'])
            if nt is None or not agree(('int', '?'), nt): bad.append('the element count is taken from `%s`, which is %s of struct %s' % (r['count'], 'no field' if nt is None else 'not an int field', c.name))
        if bad:
            key = '%s member %s::%s' % (r['file'], r['cls'], r['member'])
            report['diffs'].append(dict(kind='struct-cpp', binding='cpp', name='%s::%s' % (r['cls'], r['member']), file=r['file'], line=r['line'], found='%s %s::%s' % (r['declared'], r['cls'], r['member']),
                                        expected='%s %s  (field of struct %s, %s:%d; the constructor at %s:%d copies it into the member)' % (craw or '(no such field)', r['field'], c.name, c.file, c.line, r['file'], r['ctor_line']), key=key,
                                        found_type=list(t), expected_type=None if ct is None else list(ct),
                                        what='%s:%d: data member %s of class %s, the C++ face of field %s of struct %s (%s:%d): %s' % (r['file'], r['line'], r['member'], r['cls'], r['field'], c.name, c.file, c.line, '; '.join(bad)),
                                        known=key in fkeys))
    # ---- build definition of the library; libtool triple; SWIG -includeall
    if bdef['meson'] != bdef['automake']:
        for f in sorted(set(bdef['meson']) ^ set(bdef['automake'])):
            key = 'build-sources %s' % f
            w_ = 'src/meson.build' if f in bdef['meson'] else 'src/Makefile.am'
            report['diffs'].append(dict(kind='build-sources', binding='libxrl', name=f, file=w_, line=0, found='only %s lists %s as a source of libxrl' % (w_, f), expected='both build definitions list the same sources', key=key,
                                        what='%s lists %s as a source of libxrl, the other build definition does not' % (w_, f), known=key in fkeys))
    mcfg = re.search(r'^#define XRL_EXTERN (.*)$', open(os.path.join(bdir, 'config.h')).read(), flags=re.M)
    if not mcfg: raise TieError('config.h', 0, '', 'the config.h this check built with does not define XRL_EXTERN')
    facts = [('src/meson.build builds libxrl with gnu_symbol_visibility hidden', bdef['visibility_hidden']['meson']),
             ('src/Makefile.am builds libxrl with -fvisibility=hidden', bool(bdef['visibility_hidden']['automake'])),
             ('meson.build defines XRL_EXTERN as this check does', mcfg.group(1).strip() in bdef['extern_meson']),
             ('configure.ac defines XRL_EXTERN as this check does', mcfg.group(1).strip() in bdef['extern_autoconf'])]
    for t_, ok in facts:
        if not ok: raise TieError('meson.build', 0, t_, 'the library this check links is not built as the repository builds it')
    if built is not None and built != bdef['meson']:
        raise TieError('src/meson.build', 0, ' '.join(sorted(set(built) ^ set(bdef['meson']))), 'the library this check linked was not built from the sources src/meson.build lists')
    ref = libtool[0]
    for t_ in libtool[1:]:
        if (t_['current'], t_['revision'], t_['age']) != (ref['current'], ref['revision'], ref['age']):
            key = 'libtool-version %s' % t_['file']
            report['diffs'].append(dict(kind='libtool-version', binding='build files', name=t_['file'], file=t_['file'], line=t_['line'], found=t_['text'], expected='%s (%s:%d)' % (ref['text'], ref['file'], ref['line']), key=key,
                                        what='%s:%d states the libtool version %s, %s:%d states %s' % (t_['file'], t_['line'], t_['text'], ref['file'], ref['line'], ref['text']), known=key in fkeys))
    for ln, text, num in pu['soname']:
        if num != ref['current'] - ref['age']:
            key = 'soname pascal/xraylib.pas:%d' % ln
            report['diffs'].append(dict(kind='libtool-version', binding='pascal', name='External_library', file='pascal/xraylib.pas', line=ln, found=text, expected='library major number %d = current - age of %s' % (ref['current'] - ref['age'], ref['file']), key=key,
                                        what='pascal/xraylib.pas:%d loads %s, the build files produce major number %d' % (ln, text, ref['current'] - ref['age']), known=key in fkeys))
    pub_h = X.public_headers(repo)
    swig_unincluded = sorted(h for h in pub_h if h not in swig['includes'])
    for iv in swig_inv:
        if not iv['flag'] and swig_unincluded:
            key = '%s swig -includeall' % iv['file']
            report['diffs'].append(dict(kind='swig-includeall', binding='swig', name=iv['file'], file=iv['file'], line=iv['line'], found=iv['text'], expected='-includeall (src/xraylib.i %%includes only %s; the constants and prototypes of %s are reached only through nested #include)' % (', '.join(swig['includes']), ', '.join(swig_unincluded[:4]) + ' …'), key=key,
                                        what='%s:%d runs SWIG on src/xraylib.i without -includeall: the declarations of %d public headers are not wrapped' % (iv['file'], iv['line'], len(swig_unincluded)), known=key in fkeys))
    # ---- exported / versions ------------------------------------------------------------------------------
    for n in public_fns:
        if n not in exported:
            key = 'export %s' % n
            report['diffs'].append(dict(kind='export', binding='libxrl', name=n, file=cp[n].file, line=cp[n].line, found='not among the dynamic symbols of the built library', expected='exported', key=key,
                                        what='%s:%d declares %s but the library built from the working tree does not export it' % (cp[n].file, cp[n].line, n), known=key in fkeys))
    hv = vers[0]['version']
    for v in vers[1:]:
        if v['version'] != hv:
            key = 'version %s' % v['file']
            report['diffs'].append(dict(kind='version', binding='build files', name=v['file'], file=v['file'], line=v['line'], found=v['version'], expected=hv, key=key,
                                        what='%s:%d states version %s, include/xraylib.h says %s' % (v['file'], v['line'], v['version'], hv), known=key in fkeys))

    # ============================================ Lean =====================================================
    L = ['/- GENERATED by tools/gen_c20.py from the binding interface files and the C headers of the repository — do not edit. -/',
         'import XrlL4.Table', 'namespace XrlL4.Gen.C20', '']
    KC = dict(int=0, dec=1, expr=2)
    def rE(kc): k, c = kc; return '⟨%d,%d,%s,%s⟩' % (nat_of(k), KC[c.kind], lean_int(c.a), lean_int(c.b))
    emit_table(L, 'cconst', 'E', sorted(cc.items(), key=lambda kv: nat_of(kv[0])), rE, 'constants of the public C headers (%d)' % len(cc))
    for b in BINDINGS:
        emit_table(L, 'const_' + b, 'E', tables[b], rE, 'constants published by the %s binding' % b)
        L.append('def names_%s : List Nat := const_%s.map (·.n)' % (b, b)); L.append('')
        emit_table(L, 'known_const_' + b, 'Nat', sorted(known['const_' + b], key=nat_of), lambda n: str(nat_of(n)), 'known findings (constants): ' + ' '.join(known['const_' + b]))
        emit_table(L, 'known_fam_' + b, 'Nat', sorted(known['fam_' + b], key=nat_of), lambda n: str(nat_of(n)), 'known findings (family members not published): ' + ' '.join(known['fam_' + b]))
    TC = dict(int=0, double=1)
    emit_table(L, 'const_java_dynamic', 'E', sorted(((c.name, c) for c, sl, rd in jfeed['feed']), key=lambda kv: nat_of(kv[0])), rE,
               'Java constants without initialiser (filled by XRayInit() from the head of xraylib.dat): (field name, value of the C expression java/pr_data_java.c writes into the slot the field is read from): '
               + ' '.join('%s<-%s' % (c.name, sl['expr']) for c, sl, rd in jfeed['feed']).replace('-/', '- /'))
    emit_table(L, 'java_dynamic_declared', '(Nat × Nat)', sorted(((nat_of(n), TC[ty]) for n, ty, ln in java_dynamic)), lambda x: '(%d,%d)' % x, '(field, type: 0 int / 1 double) of the `public static int|double NAME;` fields of java/Xraylib.java')
    emit_table(L, 'java_dynamic_read', '(Nat × Nat)', sorted(((nat_of(r['field']), TC[r['jtype']]) for r in jfeed['reads'])), lambda x: '(%d,%d)' % x, '(field, type of the get…() call) of the leading scalar reads of XRayInit()')
    emit_table(L, 'java_dynamic_unevaluated', 'Nat', sorted(nat_of(u['field']) for u in jfeed['unevaluated']), str, 'fields whose slot is written from an expression that is neither a macro name nor a literal (not evaluated by the extractor): ' + ' '.join('%s<-%s' % (u['field'], u['expr']) for u in jfeed['unevaluated']).replace('-/', '- /'))
    emit_table(L, 'java_dynamic_slot_types', 'Nat', [TC[sl['ctype']] for sl in jfeed['slots']], str, 'types of the leading scalar fwrite()s of java/pr_data_java.c, in file order')
    emit_table(L, 'java_dynamic_read_types', 'Nat', [TC[r['jtype']] for r in jfeed['reads']], str, 'types of the leading scalar reads of XRayInit(), in file order')
    for f in X.FAMILIES:
        emit_table(L, 'fam_' + f, 'Nat', fam[f], lambda n: str(nat_of(n)), 'C names of the %s family (%d)' % (f, len(fam[f])))
    def rP(p, name=None): return '⟨%d,%d,[%s]⟩' % (nat_of(name or p.cname), X.ty_code(*p.ret), ','.join(str(X.ty_code(*a)) for a in p.args))
    emit_table(L, 'cproto', 'P', sorted(cp.values(), key=lambda p: nat_of(p.name)), rP, 'C prototypes: public headers, src/xrf_cross_sections_aux.h, XRL_EXTERN declarations in src/*.c, libc strlen')
    for s in PROTO_SETS:
        emit_table(L, 'proto_' + s, 'P', sorted(protos[s], key=lambda p: nat_of(p.cname)), rP, 'foreign declarations of the %s binding, by C name' % s)
        emit_table(L, 'known_proto_' + s, 'Nat', sorted(known['proto_' + s], key=nat_of), lambda n: str(nat_of(n)), 'known findings (prototypes): ' + ' '.join(known['proto_' + s]))
    # reference tables
    structs = ['compoundData', 'compoundDataNIST', 'radioNuclideData', 'xrlComplex', 'Crystal_Array', 'Crystal_Struct', 'Crystal_Atom']
    decl_names = sorted(set(cp) | set(structs), key=nat_of)
    emit_table(L, 'c_decl_names', 'Nat', decl_names, lambda n: str(nat_of(n)), 'functions and struct types declared by the C headers')
    params = sorted({(nat_of(n), X.ty_code(*t)) for p in cp.values() for t, n in zip(p.args, p.argnames) if n} |
                    {(nat_of(p.name), X.ty_code(*p.ret)) for p in cp.values()})
    emit_table(L, 'c_params', '(Nat × Nat)', params, lambda x: '(%d,%d)' % x, '(parameter name, type) and (function name, result type) pairs of the C prototypes')
    def ref_tables(info, tag):
        names = []; pairs = []
        for r in info['refs']:
            if r['kind'] in ('ignore', 'newobject', '_XRL_FUNCTION', '::call'): names.append(nat_of(r['text']))
            else:
                m = re.fullmatch(r'(.*?)(\w+)', r['text'])
                ty = m.group(1).strip()
                try: t = X.c_type(ty, 'src/xraylib.i', r['line'])
                except TieError: t = ('ptr', 'char*')
                pairs.append((nat_of(m.group(2)), X.ty_code(*t)))
        emit_table(L, tag + '_name_refs', 'Nat', sorted(set(names)), str, 'C declarations named by hand in the %s file' % tag)
        emit_table(L, tag + '_param_refs', '(Nat × Nat)', sorted(set(pairs)), lambda x: '(%d,%d)' % x, 'typemap patterns (name, type) of the %s file' % tag)
    ref_tables(swig, 'swig'); ref_tables(cpp, 'cpp')
    emit_table(L, 'proto_cpp', 'P', sorted(cpp_typed, key=lambda p_: nat_of(p_.cname)), rP,
               'wrappers of cplusplus/xraylib++.h by the C function they wrap, C++ types mapped to C types (tools/extract_bindings.py cpp_type): %d template instantiations, %d free functions, '
               '%d methods of Crystal::Struct (member cs first), %d free functions forwarding to a method, copy constructor, destructor' % (
                   cpp_info['kinds'].get('inst', 0), cpp_info['kinds'].get('plain', 0), cpp_info['kinds'].get('method', 0), cpp_info['kinds'].get('delegate', 0)))
    # IDL COMMON block members vs assigned names; Cython wrapper (published name, called C function) pairs
    emit_table(L, 'idl_common', 'Nat', sorted(idl_info['common_names'], key=nat_of), lambda n: str(nat_of(n)), 'members of COMMON XRAYLIB in idl/xraylib.pro (upper case)')
    emit_table(L, 'idl_assigned', 'Nat', sorted(idl_info['assigned_names'], key=nat_of), lambda n: str(nat_of(n)), 'names assigned a value in idl/*.pro (upper case)')
    cyb = sorted({(nat_of(name), nat_of(c)) for name, ln, calls in cy_bodies if name in cp for c in calls if c in cp})
    emit_table(L, 'cython_calls', '(Nat × Nat)', cyb, lambda x: '(%d,%d)' % x, '(wrapper published in python/xraylib_np.pyx under a C function name, C function its body calls)')
    emit_table(L, 'declared', 'Nat', sorted(public_fns, key=nat_of), lambda n: str(nat_of(n)), 'functions declared in the public headers (%d)' % len(public_fns))
    emit_table(L, 'exported', 'Nat', sorted(exported, key=nat_of), lambda n: str(nat_of(n)), 'defined dynamic symbols of the shared library linked from the working tree (%d)' % len(exported))
    def vt(v):
        p = v['version'].split('.')
        if len(p) != 3 or not all(x.isdigit() for x in p): raise TieError(v['file'], v['line'], v['version'], 'version is not MAJOR.MINOR.MICRO')
        return '(%d,%s,%s,%s)' % (nat_of(v['file']), p[0], p[1], p[2])
    emit_table(L, 'versions', '(Nat × Int × Int × Int)', vers[1:], vt, 'version statements of the build and packaging files: ' + ' '.join(v['file'] for v in vers[1:]))
    # ---- tables of the clause audit: wrapper ↔ symbol, visible signatures, IDL routines, records, build definition
    pair = lambda x: '(%d,%d)' % (nat_of(x[0]), nat_of(x[1]))
    emit_table(L, 'libc_names', 'Nat', sorted(LIBC, key=nat_of), lambda n: str(nat_of(n)), 'libc functions the bindings bind besides the C API: ' + ' '.join(sorted(LIBC)))
    for lang, what in (('fortran', 'module procedure of fortran/xraylib_wrap*.F90'), ('pascal', 'procedure defined in the implementation section of pascal/xraylib.pas (+ xraylib_impl.pas)'), ('idl', 'routine registered in idl/xraylib_idl.c, through its glue function IDL_<x>')):
        w_ = wr[lang]
        emit_table(L, lang + '_calls', '(Nat × Nat)', w_['calls'], pair, '(%s — in C spelling when it is named after a C function, C symbol bound by a foreign declaration in its scope that its body references)' % what)
        emit_table(L, lang + '_named', 'Nat', w_['named'], lambda n: str(nat_of(n)), 'those of them that are named after a function of the C table')
        emit_table(L, lang + '_native', 'Nat', w_['native'], lambda n: str(nat_of(n)), 'named after a C function, written in the binding language without any foreign declaration: ' + ' '.join(w_['native']))
        if lang != 'idl':
            emit_table(L, lang + '_direct', '(Nat × Nat)', w_['direct'], pair, '(foreign declaration published under its own name, C symbol it is bound to)')
    emit_table(L, 'pascal_public', 'P', sorted(pu['public'], key=lambda p_: nat_of(p_.cname)), rP, 'non-external function declarations of the interface section of pascal/xraylib.pas (incl. xraylib_iface.pas), Pascal types')
    emit_table(L, 'pascal_iface', '(Nat × Nat)', iface, pair, '(name, normalised text) of the declarations of pascal/xraylib_iface.pas')
    emit_table(L, 'pascal_impl', '(Nat × Nat)', impl, pair, '(name, normalised header text) of the definitions of pascal/xraylib_impl.pas')
    def rR(e): return '⟨%d,%d,%d,%d⟩' % (nat_of(e['name']), 1 if e['kind'] == 'FUNCTION' else 0, e['min'], e['max'])
    emit_table(L, 'idl_dlm', 'R', sorted(idlf['dlm'], key=lambda e: nat_of(e['name'])), rR, 'routines declared by idl/libxrlidl.dlm (C spelling of the upper-case IDL name)')
    emit_table(L, 'idl_sysfun', 'R', sorted(idlf['sysfun'], key=lambda e: nat_of(e['name'])), rR, 'routines registered by the IDL_SYSFUN_DEF2 tables of idl/xraylib_idl.c')
    def rS(st, up): return '⟨%d,[%s]⟩' % (nat_of(st.cname), ','.join('(%d,%d)' % (nat_of(n.upper() if up else n), X.ty_code(*t)) for n, t in st.fields))
    cs_sorted = sorted(cst.values(), key=lambda st: nat_of(st.name))
    emit_table(L, 'struct_c', 'S', cs_sorted, lambda st: rS(st, False), 'structs of the public C headers: ' + ' '.join(st.name for st in cs_sorted))
    emit_table(L, 'struct_c_uc', 'S', cs_sorted, lambda st: rS(st, True), 'the same with upper-case field names (for the case-insensitive languages)')
    emit_table(L, 'struct_fortran', 'S', bstructs['fortran'], lambda st: rS(st, True), 'TYPE, BIND(C) of fortran/xraylib_wrap.F90: ' + ' '.join(st.name for st in bstructs['fortran']))
    emit_table(L, 'struct_pascal', 'S', bstructs['pascal'], lambda st: rS(st, True), 'records of pascal/xraylib.pas: ' + ' '.join(st.name for st in bstructs['pascal']))
    emit_table(L, 'struct_cython', 'S', bstructs['cython'], lambda st: rS(st, False), 'structs declared by python/xraylib_np_c.pxd: ' + ' '.join(st.name for st in bstructs['cython']))
    emit_table(L, 'struct_cpp', 'S', cpp_structs, lambda st: rS(st, False),
               'value classes of cplusplus/xraylib++.h by the C struct they mirror (a constructor takes a pointer / reference to it): (field the member is a copy of, declared type of the member mapped to C: '
               'int/double/float, std::string -> char *, std::vector<T> -> T *, std::vector<class mirroring S> -> S *, anything else -> 900 = no C type; the count field of a vector member as int): '
               + ' '.join('%s=%s' % (st.name, st.cname) for st in cpp_structs))
    emit_table(L, 'lib_sources_meson', 'Nat', sorted(bdef['meson'], key=nat_of), lambda n: str(nat_of(n)), "C sources of library('xrl', …) in src/meson.build")
    emit_table(L, 'lib_sources_automake', 'Nat', sorted(bdef['automake'], key=nat_of), lambda n: str(nat_of(n)), 'C sources in libxrl_la_SOURCES + nodist_libxrl_la_SOURCES of src/Makefile.am')
    emit_table(L, 'lib_sources_built', 'Nat', sorted(built if built is not None else bdef['meson'], key=nat_of), lambda n: str(nat_of(n)), 'C sources the library whose symbols are in `exported` was compiled from')
    emit_table(L, 'lib_build_facts', '(Nat × Nat)', facts, lambda x: '(%d,%d)' % (nat_of(x[0]), 1 if x[1] else 0), 'visibility / XRL_EXTERN of the two build definitions vs this check\'s build: ' + '; '.join(t_ for t_, _ in facts))
    emit_table(L, 'libtool_triples', '(Nat × Nat × Nat × Nat)', libtool, lambda t_: '(%d,%d,%d,%d)' % (nat_of(t_['file']), t_['current'], t_['revision'], t_['age']), 'libtool current:revision:age as stated by ' + ' and '.join(t_['file'] for t_ in libtool))
    emit_table(L, 'soname_refs', '(Nat × Nat)', pu['soname'], lambda x: '(%d,%d)' % (nat_of('pascal/xraylib.pas:%d' % x[0]), x[2]), 'library major numbers hard-coded in External_library strings of pascal/xraylib.pas')
    emit_table(L, 'swig_invocations', '(Nat × Nat)', swig_inv, lambda iv: '(%d,%d)' % (nat_of(iv['file']), 1 if iv['flag'] else 0), '(build file that runs SWIG on src/xraylib.i, 1 if with -includeall)')
    emit_table(L, 'swig_unincluded', 'Nat', sorted(swig_unincluded, key=nat_of), lambda n: str(nat_of(n)), 'public headers src/xraylib.i does not %include itself: ' + ' '.join(swig_unincluded))
    for n in ('XRAYLIB_MAJOR', 'XRAYLIB_MINOR', 'XRAYLIB_MICRO', 'compoundData', 'nAtomsAll', 'Crystal_Struct', 'atom'):
        L.append('/-- code of the name %s -/' % n); L.append('def name_%s : Nat := %d' % (n, nat_of(n)))
    L += ['', 'end XrlL4.Gen.C20', '']
    write_if_changed(os.path.join(gen_dir, 'C20.lean'), '\n'.join(L))

    js = dict(c=dict(constants={n: c.js() for n, c in cc.items()}, prototypes={n: p.js() for n, p in cp.items()}, public_functions=public_fns),
              bindings={b: [c.js() for _, c in tables[b]] for b in BINDINGS}, publishes=publishes,
              protos={s: [p.js() for p in protos[s]] for s in PROTO_SETS}, swig=swig, cpp=cpp, cpp_types=[p_.js() for p_ in cpp_typed], cpp_types_info=cpp_info, versions=vers, exported=len(exported),
              soft_tie=['%s:%d: the expression written into xraylib.dat for the Java constant %s is neither a macro name nor a literal, the extractor does not evaluate it: %s' % (u['file'], u['line'], u['field'], u['expr']) for u in jfeed['unevaluated']],
              java_dynamic=java_dynamic, java_dynamic_feed=[dict(field=c.name, c_expression=sl['expr'], value=c.show(), c_type=sl['ctype'], java_type=rd['jtype'], written_at='java/pr_data_java.c:%d' % sl['line'], read_at='java/Xraylib.java:%d' % rd['line'],
                                                                    c_header=cc[c.name].show() if c.name in cc else None) for c, sl, rd in jfeed['feed']], idl=idl_info, known=known, diffs=report['diffs'], findings=[list(f) for f in findings],
              wrappers={k: dict(calls=len(v['calls']), named=len(v['named']), native=v['native'], direct=len(v['direct'])) for k, v in wr.items()},
              structs=dict(c=[st.js() for st in cst.values()], **{k: [st.js() for st in v] for k, v in bstructs.items()}),
              cpp_members=cpp_members, cpp_members_info=cpp_members_info,
              pascal_public=[p_.js() for p_ in pu['public']], idl_routines=dict(dlm=idlf['dlm'], sysfun=idlf['sysfun'], defined_not_registered=idlf['unregistered']),
              build=dict(bdef, built=built, facts=[[t_, ok] for t_, ok in facts]), libtool=libtool, soname=[list(x) for x in pu['soname']], swig_invocations=swig_inv, swig_unincluded=swig_unincluded,
              counts=dict(c_constants=len(cc), c_prototypes=len(cp), java_dynamic=len(jfeed['feed']), **{'const_' + b: len(tables[b]) for b in BINDINGS}, **{'proto_' + s: len(protos[s]) for s in PROTO_SETS},
                          swig_refs=len(swig['refs']), cpp_refs=len(cpp['refs']), cpp_types=len(cpp_typed), cpp_wrapped_c_functions=cpp_info['wrapped_c_functions'], versions=len(vers), families={f: len(fam[f]) for f in fam},
                          **{'calls_' + k: len(v['calls']) + len(v['direct']) for k, v in wr.items()}, **{'struct_' + k: len(v) for k, v in bstructs.items()}, c_structs=len(cst), cpp_members=len(cpp_members), cpp_value_classes=len(cpp_structs),
                          pascal_public=len(pu['public']), pascal_iface=len(iface), idl_dlm=len(idlf['dlm']), idl_sysfun=len(idlf['sysfun']), lib_sources=len(bdef['meson']),
                          libtool=len(libtool) + len(pu['soname']), swig_invocations=len(swig_inv)))
    json.dump(js, open(os.path.join(aux, 'c20.json'), 'w'), indent=0, default=str)
    return 0


def fmt_types(p):
    def one(t): return t[0] + ('' if t[1] == '?' else ' to ' + t[1]) if t[0] == 'ptr' else t[0]
    return '%s(%s)' % (one(p.ret), ', '.join(one(a) for a in p.args))


if __name__ == '__main__':
    try:
        sys.exit(main(*sys.argv[1:6]))
    except TieError as e:
        json.dump(dict(file=e.file, line=e.line, text=e.text, why=e.why), open(os.path.join(sys.argv[3], 'c20_tie.json'), 'w'))
        print('TIE %s' % e, file=sys.stderr)
        sys.exit(3)
