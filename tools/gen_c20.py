#!/usr/bin/env python3
"""gen_c20.py <bdir with config.h> <lean Gen dir> <aux dir> <exported-symbols file>

Runs the C20 extractors on VERIF_REPO (default /repo), writes
  <Gen>/C20.lean   chunked tables for the kernel (names as Nat codes, sorted)
  <aux>/c20.json   the same entries with file/line/text, the entry-level comparison (what the violation search
                   reports), the known-finding lists
Exit 0: tables written.  Exit 3: broken tie (an extractor could not classify a line / C-side validation failed);
the reason is in <aux>/c20_tie.json."""
import os, sys, re, json
HERE = os.path.dirname(os.path.abspath(__file__))
sys.path.insert(0, HERE)
import extract_bindings as X
from l4common import TieError, nat_of, emit_table, write_if_changed, lean_int, dec_str

VERIF = os.path.dirname(HERE)
BINDINGS = ['fortran', 'pascal', 'cython', 'java', 'idl']
CASE_INSENSITIVE = {'fortran', 'pascal', 'idl'}
PROTO_SETS = ['fortran', 'pascal', 'cython']
LIBC = {'strlen': ('size_t', [('ptr', 'char')])}
FILE_OF = dict(fortran='fortran/xraylib_wrap.F90', pascal='pascal/xraylib_const.pas', cython='python/xraylib_np.pyx',
               java='java/Xraylib.java', idl='idl/xraylib.pro')


def load_findings(prop):
    """entries of /verif/known_findings.txt (the only file that can suppress a violation)"""
    out = []
    for p in (os.path.join(VERIF, 'known_findings.txt'),):
        try:
            for l in open(p):
                m = re.match(r'finding:\s+property=(C\d+)\s+key=\[([^\]]*)\]\s*(.*)', l.strip())
                if m and m.group(1) == prop: out.append((m.group(2), m.group(3)))
        except OSError:
            pass
    return out


def src_exported_decls(repo):
    """`XRL_EXTERN <declaration>;` inside src/*.c: functions exported by the library without a public header"""
    out = []
    for f in sorted(os.listdir(os.path.join(repo, 'src'))):
        if not f.endswith('.c'): continue
        txt = X.strip_c_comments(open(os.path.join(repo, 'src', f)).read())
        for m in re.finditer(r'^XRL_EXTERN\s+([^;{]+?\([^;{]*\))\s*;', txt, flags=re.M):
            out.append(('src/' + f, txt[:m.start()].count('\n') + 1, re.sub(r'\s+', ' ', m.group(1))))
    return out


def tcode(t):
    return X.ty_code(*t) if t[0] in X.ABI else None


def main(bdir, gen_dir, aux, exported_file):
    repo = os.environ.get('VERIF_REPO', '/repo')
    os.makedirs(aux, exist_ok=True)
    cc = X.c_constants(repo, bdir, aux)
    for n in cc:
        if n != n.upper():
            raise TieError(cc[n].file, cc[n].line, n, 'C constant with lower-case letters: case-insensitive bindings need a second table')
    cp = X.c_prototypes(repo, bdir, aux)
    public_fns = sorted(n for n, p in cp.items() if p.file.startswith('include/'))
    # exported-but-undeclared functions the bindings may bind to, and the libc functions Fortran binds
    extra = src_exported_decls(repo)
    for f, ln, decl in extra:
        m = re.match(r'(.+?)\b(\w+)\s*\((.*)\)$', decl)
        if not m: raise TieError(f, ln, decl, 'XRL_EXTERN declaration in a source file not understood')
        if m.group(2) in cp: continue
        args = []; names = []
        for a in m.group(3).split(','):
            a = a.strip()
            if a in ('void', ''): continue
            ma = re.fullmatch(r'(.*?[\s\*])(\w+)(\[\])?', a)
            if not ma: raise TieError(f, ln, a, 'parameter not understood')
            args.append(X.c_type(ma.group(1).strip() + (' *' if ma.group(3) else ''), f, ln)); names.append(ma.group(2))
        cp[m.group(2)] = X.Proto(m.group(2), X.c_type(m.group(1).strip(), f, ln), args, names, decl, f, ln)
    for n, (r, a) in LIBC.items():
        cp[n] = X.Proto(n, (r, '?'), a, [''] * len(a), 'libc', '<libc>', 0)

    consts = {}
    consts['fortran'] = X.fortran_constants(repo)
    consts['pascal'] = X.pascal_constants(repo)
    cy_consts, cy_protos = X.cython_extract(repo, cc)
    consts['cython'] = cy_consts
    consts['java'], java_dynamic = X.java_constants(repo)
    consts['idl'], idl_info = X.idl_constants(repo)
    cy_bodies = X.cython_bodies(repo)
    protos = dict(fortran=X.fortran_protos(repo), pascal=X.pascal_protos(repo), cython=cy_protos)
    swig = X.swig_refs(repo, cp, cc)
    cpp = X.cpp_refs(repo, cp, cc)
    vers = X.versions(repo)
    if 'xraylib.h' not in swig['includes']: raise TieError('src/xraylib.i', 0, '', 'the SWIG interface no longer %includes xraylib.h (extractor assumes constants and prototypes come from the C headers)')
    if 'xraylib.h' not in cpp['includes']: raise TieError('cplusplus/xraylib++.h', 0, '', 'the C++ header no longer includes xraylib.h')
    exported = sorted(set(l.strip() for l in open(exported_file) if l.strip()))

    findings = load_findings('C20')
    fkeys = {k for k, _ in findings}
    report = dict(diffs=[], tie=None)
    known = {}

    def key_of(b, c): return c.name.upper() if b in CASE_INSENSITIVE else c.name

    # ---- constants ------------------------------------------------------------------------------------
    tables = {}
    for b in BINDINGS:
        seen = {}
        for c in consts[b]:
            k = key_of(b, c)
            if k in seen and seen[k].val() == c.val(): continue      # identical re-declaration
            if k in seen:                                           # two different values under one name: keep both, the sortedness check fails
                report['diffs'].append(dict(kind='duplicate', binding=b, name=c.name, file=c.file, line=c.line, found=c.show(), expected=seen[k].show(),
                                            key='%s %s' % (c.file, c.name), what='declared twice with different values'))
            seen.setdefault(k, c)
        tab = sorted(seen.items(), key=lambda kv: nat_of(kv[0]))
        tables[b] = tab
        kn = []
        for k, c in tab:
            if k in cc and cc[k].val() != c.val():
                key = '%s %s' % (c.file, c.name)
                d = dict(kind='constant', binding=b, name=c.name, file=c.file, line=c.line, found=c.show(), expected=cc[k].show(),
                         cfile=cc[k].file, cline=cc[k].line, key=key, text=c.text,
                         what='%s:%d declares %s = %s, %s:%d has %s' % (c.file, c.line, c.name, c.show(), cc[k].file, cc[k].line, cc[k].show()),
                         known=key in fkeys)
                report['diffs'].append(d)
                if key in fkeys: kn.append(k)
        known['const_' + b] = kn
    # ---- families ---------------------------------------------------------------------------------------
    fam = {f: sorted((n for n in cc if X.family_of(n) == f), key=nat_of) for f in X.FAMILIES}
    publishes = {}
    for b in BINDINGS:
        names = {k for k, _ in tables[b]}
        publishes[b] = [f for f in X.FAMILIES if any(n in names for n in fam[f])]
        kn = []
        for f in publishes[b]:
            for n in fam[f]:
                if n not in names:
                    key = '%s family %s' % (FILE_OF[b], n)
                    report['diffs'].append(dict(kind='family', binding=b, family=f, name=n, file=FILE_OF[b], line=0, found='absent', expected='%s = %s (%s:%d)' % (n, cc[n].show(), cc[n].file, cc[n].line),
                                                key=key, what='%s publishes the %s family but not %s' % (FILE_OF[b], f, n), known=key in fkeys))
                    if key in fkeys: kn.append(n)
        known['fam_' + b] = kn
    # ---- prototypes -------------------------------------------------------------------------------------
    def agree(b, c): return X.ABI[b[0]] == X.ABI[c[0]] and (b[1] == '?' or b[1] == c[1])
    for s in PROTO_SETS:
        kn = []
        for p in protos[s]:
            c = cp.get(p.cname)
            ok = c is not None and len(p.args) == len(c.args) and agree(p.ret, c.ret) and all(agree(x, y) for x, y in zip(p.args, c.args))
            if not ok:
                key = '%s proto %s' % (p.file, p.cname)
                exp = 'no such function in the C headers' if c is None else '%s  (%s:%d)' % (c.text, c.file, c.line)
                report['diffs'].append(dict(kind='prototype', binding=s, name=p.cname, file=p.file, line=p.line, found=p.text, expected=exp, key=key,
                                            found_types=[p.ret] + p.args, expected_types=None if c is None else [c.ret] + c.args,
                                            what='%s:%d declares %s with result/arguments %s; C has %s' % (p.file, p.line, p.cname, fmt_types(p), 'nothing' if c is None else fmt_types(c)),
                                            known=key in fkeys))
                if key in fkeys and p.cname not in kn: kn.append(p.cname)
        known['proto_' + s] = kn
    # ---- IDL: a constant is exposed to IDL procedures only through COMMON XRAYLIB ("exposed completely"): every assigned
    #      C name must be a member, and every member must receive its value
    for nm in idl_info['assigned_not_in_common']:
        key = 'idl/xraylib.pro common %s' % nm
        report['diffs'].append(dict(kind='idl-common', binding='idl', name=nm, file='idl/xraylib.pro', line=0, found='assigned, but not a member of COMMON XRAYLIB', expected='member of COMMON XRAYLIB', key=key,
                                    what='idl: %s receives a value but is not a member of COMMON XRAYLIB, so no IDL procedure can see it' % nm, known=key in fkeys))
    for nm in idl_info['common_never_assigned']:
        key = 'idl/xraylib.pro common %s' % nm
        report['diffs'].append(dict(kind='idl-common', binding='idl', name=nm, file='idl/xraylib.pro', line=0, found='member of COMMON XRAYLIB that never receives a value', expected='a name assigned in the idl/*.pro files', key=key,
                                    what='idl: COMMON XRAYLIB publishes %s, which no file assigns (not a C name)' % nm, known=key in fkeys))
    # ---- Cython: a wrapper published under a C function's name must call that C function
    for name, ln, calls in cy_bodies:
        if name in cp and calls:
            wrong = sorted({c for c in calls if c != name and c in cp})
            if name not in calls or wrong:
                key = 'python/xraylib_np.pyx body %s' % name
                report['diffs'].append(dict(kind='binding-body', binding='cython', name=name, file='python/xraylib_np.pyx', line=ln, found='calls xrl.%s' % ', xrl.'.join(sorted(set(calls))), expected='calls xrl.%s' % name, key=key,
                                            what='python/xraylib_np.pyx:%d: the wrapper published as %s calls %s' % (ln, name, ', '.join('xrl.' + c for c in sorted(set(calls)))), known=key in fkeys))
    # ---- SWIG / C++ references ---------------------------------------------------------------------------
    for who, info, f in (('swig', swig, 'src/xraylib.i'), ('cpp', cpp, 'cplusplus/xraylib++.h')):
        for r in info['refs']:
            if not r['ok']:
                key = '%s ref %s' % (f, r['text'])
                report['diffs'].append(dict(kind='reference', binding=who, name=r['text'], file=f, line=r['line'], found='%s %s' % (r['kind'], r['text']), expected=r['need'], key=key,
                                            what='%s:%d: %s `%s` names nothing in the C headers (%s)' % (f, r['line'], r['kind'], r['text'], r['need']), known=key in fkeys))
    # ---- exported / versions ------------------------------------------------------------------------------
    for n in public_fns:
        if n not in exported:
            key = 'export %s' % n
            report['diffs'].append(dict(kind='export', binding='libxrl', name=n, file=cp[n].file, line=cp[n].line, found='not among the dynamic symbols of the built library', expected='exported', key=key,
                                        what='%s:%d declares %s but the library built from the working tree does not export it' % (cp[n].file, cp[n].line, n), known=key in fkeys))
    hv = vers[0]['version']
    for v in vers[1:]:
        if v['version'] != hv:
            key = 'version %s' % v['file']
            report['diffs'].append(dict(kind='version', binding='build files', name=v['file'], file=v['file'], line=v['line'], found=v['version'], expected=hv, key=key,
                                        what='%s:%d states version %s, include/xraylib.h says %s' % (v['file'], v['line'], v['version'], hv), known=key in fkeys))

    # ============================================ Lean =====================================================
    L = ['/- GENERATED by tools/gen_c20.py from the binding interface files and the C headers of the repository — do not edit. -/',
         'import XrlL4.Table', 'namespace XrlL4.Gen.C20', '']
    KC = dict(int=0, dec=1, expr=2)
    def rE(kc): k, c = kc; return '⟨%d,%d,%s,%s⟩' % (nat_of(k), KC[c.kind], lean_int(c.a), lean_int(c.b))
    emit_table(L, 'cconst', 'E', sorted(cc.items(), key=lambda kv: nat_of(kv[0])), rE, 'constants of the public C headers (%d)' % len(cc))
    for b in BINDINGS:
        emit_table(L, 'const_' + b, 'E', tables[b], rE, 'constants published by the %s binding' % b)
        L.append('def names_%s : List Nat := const_%s.map (·.n)' % (b, b)); L.append('')
        emit_table(L, 'known_const_' + b, 'Nat', sorted(known['const_' + b], key=nat_of), lambda n: str(nat_of(n)), 'known findings (constants): ' + ' '.join(known['const_' + b]))
        emit_table(L, 'known_fam_' + b, 'Nat', sorted(known['fam_' + b], key=nat_of), lambda n: str(nat_of(n)), 'known findings (family members not published): ' + ' '.join(known['fam_' + b]))
    for f in X.FAMILIES:
        emit_table(L, 'fam_' + f, 'Nat', fam[f], lambda n: str(nat_of(n)), 'C names of the %s family (%d)' % (f, len(fam[f])))
    def rP(p, name=None): return '⟨%d,%d,[%s]⟩' % (nat_of(name or p.cname), X.ty_code(*p.ret), ','.join(str(X.ty_code(*a)) for a in p.args))
    emit_table(L, 'cproto', 'P', sorted(cp.values(), key=lambda p: nat_of(p.name)), rP, 'C prototypes: public headers, src/xrf_cross_sections_aux.h, XRL_EXTERN declarations in src/*.c, libc strlen')
    for s in PROTO_SETS:
        emit_table(L, 'proto_' + s, 'P', sorted(protos[s], key=lambda p: nat_of(p.cname)), rP, 'foreign declarations of the %s binding, by C name' % s)
        emit_table(L, 'known_proto_' + s, 'Nat', sorted(known['proto_' + s], key=nat_of), lambda n: str(nat_of(n)), 'known findings (prototypes): ' + ' '.join(known['proto_' + s]))
    # reference tables
    structs = ['compoundData', 'compoundDataNIST', 'radioNuclideData', 'xrlComplex', 'Crystal_Array', 'Crystal_Struct', 'Crystal_Atom']
    decl_names = sorted(set(cp) | set(structs), key=nat_of)
    emit_table(L, 'c_decl_names', 'Nat', decl_names, lambda n: str(nat_of(n)), 'functions and struct types declared by the C headers')
    params = sorted({(nat_of(n), X.ty_code(*t)) for p in cp.values() for t, n in zip(p.args, p.argnames) if n} |
                    {(nat_of(p.name), X.ty_code(*p.ret)) for p in cp.values()})
    emit_table(L, 'c_params', '(Nat × Nat)', params, lambda x: '(%d,%d)' % x, '(parameter name, type) and (function name, result type) pairs of the C prototypes')
    def ref_tables(info, tag):
        names = []; pairs = []
        for r in info['refs']:
            if r['kind'] in ('ignore', 'newobject', '_XRL_FUNCTION', '::call'): names.append(nat_of(r['text']))
            else:
                m = re.fullmatch(r'(.*?)(\w+)', r['text'])
                ty = m.group(1).strip()
                try: t = X.c_type(ty, 'src/xraylib.i', r['line'])
                except TieError: t = ('ptr', 'char*')
                pairs.append((nat_of(m.group(2)), X.ty_code(*t)))
        emit_table(L, tag + '_name_refs', 'Nat', sorted(set(names)), str, 'C declarations named by hand in the %s file' % tag)
        emit_table(L, tag + '_param_refs', '(Nat × Nat)', sorted(set(pairs)), lambda x: '(%d,%d)' % x, 'typemap patterns (name, type) of the %s file' % tag)
    ref_tables(swig, 'swig'); ref_tables(cpp, 'cpp')
    # IDL COMMON block members vs assigned names; Cython wrapper (published name, called C function) pairs
    emit_table(L, 'idl_common', 'Nat', sorted(idl_info['common_names'], key=nat_of), lambda n: str(nat_of(n)), 'members of COMMON XRAYLIB in idl/xraylib.pro (upper case)')
    emit_table(L, 'idl_assigned', 'Nat', sorted(idl_info['assigned_names'], key=nat_of), lambda n: str(nat_of(n)), 'names assigned a value in idl/*.pro (upper case)')
    cyb = sorted({(nat_of(name), nat_of(c)) for name, ln, calls in cy_bodies if name in cp for c in calls if c in cp})
    emit_table(L, 'cython_calls', '(Nat × Nat)', cyb, lambda x: '(%d,%d)' % x, '(wrapper published in python/xraylib_np.pyx under a C function name, C function its body calls)')
    emit_table(L, 'declared', 'Nat', sorted(public_fns, key=nat_of), lambda n: str(nat_of(n)), 'functions declared in the public headers (%d)' % len(public_fns))
    emit_table(L, 'exported', 'Nat', sorted(exported, key=nat_of), lambda n: str(nat_of(n)), 'defined dynamic symbols of the shared library linked from the working tree (%d)' % len(exported))
    def vt(v):
        p = v['version'].split('.')
        if len(p) != 3 or not all(x.isdigit() for x in p): raise TieError(v['file'], v['line'], v['version'], 'version is not MAJOR.MINOR.MICRO')
        return '(%d,%s,%s,%s)' % (nat_of(v['file']), p[0], p[1], p[2])
    emit_table(L, 'versions', '(Nat × Int × Int × Int)', vers[1:], vt, 'version statements of the build and packaging files: ' + ' '.join(v['file'] for v in vers[1:]))
    for n in ('XRAYLIB_MAJOR', 'XRAYLIB_MINOR', 'XRAYLIB_MICRO'):
        L.append('/-- code of the name %s -/' % n); L.append('def name_%s : Nat := %d' % (n, nat_of(n)))
    L += ['', 'end XrlL4.Gen.C20', '']
    write_if_changed(os.path.join(gen_dir, 'C20.lean'), '\n'.join(L))

    js = dict(c=dict(constants={n: c.js() for n, c in cc.items()}, prototypes={n: p.js() for n, p in cp.items()}, public_functions=public_fns),
              bindings={b: [c.js() for _, c in tables[b]] for b in BINDINGS}, publishes=publishes,
              protos={s: [p.js() for p in protos[s]] for s in PROTO_SETS}, swig=swig, cpp=cpp, versions=vers, exported=len(exported),
              java_dynamic=java_dynamic, idl=idl_info, known=known, diffs=report['diffs'], findings=[list(f) for f in findings],
              counts=dict(c_constants=len(cc), c_prototypes=len(cp), **{'const_' + b: len(tables[b]) for b in BINDINGS}, **{'proto_' + s: len(protos[s]) for s in PROTO_SETS},
                          swig_refs=len(swig['refs']), cpp_refs=len(cpp['refs']), versions=len(vers), families={f: len(fam[f]) for f in fam}))
    json.dump(js, open(os.path.join(aux, 'c20.json'), 'w'), indent=0, default=str)
    return 0


def fmt_types(p):
    def one(t): return t[0] + ('' if t[1] == '?' else ' to ' + t[1]) if t[0] == 'ptr' else t[0]
    return '%s(%s)' % (one(p.ret), ', '.join(one(a) for a in p.args))


if __name__ == '__main__':
    try:
        sys.exit(main(*sys.argv[1:5]))
    except TieError as e:
        json.dump(dict(file=e.file, line=e.line, text=e.text, why=e.why), open(os.path.join(sys.argv[3], 'c20_tie.json'), 'w'))
        print('TIE %s' % e, file=sys.stderr)
        sys.exit(3)
