#!/usr/bin/env python3
"""Shared tooling of the C18 (C++ wrappers) and C19 (Java port) checks.

* `c_protos`       public C prototypes (and, for C19, the cascade helpers of src/xrf_cross_sections_aux.h and
                   ElectronConfig_Biggs) taken from the clang-14 JSON AST of the working tree's headers;
* `macro_ranges`   legal ranges of the shell / line / Coster-Kronig / Auger / NIST / radionuclide macros, read from
                   include/*.h on every run;
* `gen_c_driver`   C dispatch table for harness/xdrv.c speaking the line protocol
                       request :  <function> <arg>* E           ints decimal, doubles x<16 hex digits>, strings s<%-escaped>
                       answer  :  ok <value>* <E|F<code>> L<live-block delta> [m<%-escaped message>]
* `Space`          the seeded argument-space generator (discrete space enumerated, continuous part structured).
"""
import os, re, json, subprocess, struct, random, math, itertools

# ------------------------------------------------------------------------------------------------ helpers

def hx(x):
    return 'x%016x' % struct.unpack('<Q', struct.pack('<d', float(x)))[0]

def unhx(s):
    return struct.unpack('<d', struct.pack('<Q', int(s[1:], 16)))[0]

def esc(s):
    if isinstance(s, str): s = s.encode('utf-8', 'surrogateescape')
    return ''.join(chr(b) if (48 <= b <= 57 or 65 <= b <= 90 or 97 <= b <= 122 or b in b'()._-+,') else '%%%02x' % b for b in s)

def unesc(s):
    return re.sub(r'%([0-9a-f]{2})', lambda m: chr(int(m.group(1), 16)), s)

def sarg(s):
    return 's' + esc(s)

class ExtractError(Exception):
    pass

def clang_ast(args, src_text, workdir, name, cxx=False, filt=None):
    path = os.path.join(workdir, name)
    with open(path, 'w') as f: f.write(src_text)
    cmd = (['clang++-14', '-std=gnu++17'] if cxx else ['clang-14']) + list(args) + ['-Xclang', '-ast-dump=json']
    if filt: cmd += ['-Xclang', '-ast-dump-filter=' + filt]
    cmd += ['-fsyntax-only', path]
    p = subprocess.run(cmd, capture_output=True, text=True)
    if p.returncode != 0:
        raise ExtractError('clang failed on %s: %s' % (name, p.stderr[-3000:]))
    return p.stdout

def _loc_file(d, cur):
    loc = d.get('loc', {})
    for k in (loc, loc.get('expansionLoc', {}), loc.get('spellingLoc', {})):
        if 'file' in k: return k['file']
    return cur

# ------------------------------------------------------------------------------------------------ C prototypes

TY = {'int': 'int', 'double': 'double', 'const char *': 'str', 'xrl_error **': 'errpp', 'Crystal_Struct *': 'cs',
      'Crystal_Array *': 'carr', 'double *': 'outd', 'int *': 'outi', 'void': 'void', 'xrlComplex': 'cplx',
      'char *': 'cstr', 'char **': 'strlist', 'struct compoundData *': 'cd', 'struct compoundDataNIST *': 'cdn',
      'struct radioNuclideData *': 'rnd'}

def c_protos(repo, bdir, workdir, with_aux=False):
    """-> list of dict(name, ret, params=[(name, ty)], header, line, public) in declaration order."""
    inc = ['-I' + bdir, '-I' + repo, '-I' + os.path.join(repo, 'src'), '-I' + os.path.join(repo, 'include'), '-DHAVE_CONFIG_H']
    src = '#include "xraylib.h"\n'
    biggs = False
    if with_aux:
        src += '#include "xrf_cross_sections_aux.h"\n'
        try:
            if re.search(r'^double ElectronConfig_Biggs\(int Z, int shell, xrl_error \*\*error\)\s*\{', open(os.path.join(repo, 'src', 'comptonprofiles.c')).read(), re.M):
                src += 'double ElectronConfig_Biggs(int Z, int shell, xrl_error **error);\n'; biggs = True
        except OSError:
            pass
    j = json.loads(clang_ast(inc, src, workdir, 'protos.c'))
    out = []; cur = None; seen = set()
    incdir = os.path.realpath(os.path.join(repo, 'include'))
    srcdir = os.path.realpath(os.path.join(repo, 'src'))
    for d in j['inner']:
        cur = _loc_file(d, cur)
        if d['kind'] != 'FunctionDecl' or not cur or d['name'] in seen: continue
        rc = os.path.realpath(cur)
        public = rc.startswith(incdir + os.sep)
        aux = rc.startswith(srcdir + os.sep) or rc.endswith('protos.c')
        if not (public or (with_aux and aux)): continue
        ps = [(p.get('name', 'a%d' % i), p['type']['qualType']) for i, p in enumerate(x for x in d.get('inner', []) if x['kind'] == 'ParmVarDecl')]
        ret = d['type']['qualType'].split('(')[0].strip()
        seen.add(d['name'])
        out.append(dict(name=d['name'], ret=TY.get(ret, ret), cret=ret, params=[(n, TY.get(t, t)) for n, t in ps],
                        cparams=[t for n, t in ps], header=os.path.basename(cur), line=d.get('loc', {}).get('line', 0), public=public))
    if not out:
        raise ExtractError('no C prototypes found under %s/include' % repo)
    return out

def is_simple(p):
    """double|int f(int|double|const char* ..., xrl_error **)  — served by the generated dispatch"""
    if p['ret'] not in ('double', 'int'): return False
    if not p['params'] or p['params'][-1][1] != 'errpp': return False
    return all(t in ('int', 'double', 'str') for n, t in p['params'][:-1])

def macro_ranges(repo):
    """legal macro ranges, parsed from the public headers of the working tree"""
    def defs(fn, pat):
        vals = {}
        for m in re.finditer(r'^#define\s+(\w+)\s+(-?\d+)\s*(?:/\*.*)?$', open(os.path.join(repo, 'include', fn)).read(), re.M):
            if re.search(pat, m.group(1)): vals[m.group(1)] = int(m.group(2))
        return vals
    r = {}
    sh = defs('xraylib-shells.h', r'_SHELL$'); r['shell'] = (min(sh.values()), max(sh.values()))
    ln = defs('xraylib-lines.h', r'_LINE$'); ln.update(defs('xraylib.h', r'_LINE$')); r['line'] = (min(ln.values()), max(ln.values()))
    tr = defs('xraylib.h', r'_TRANS$'); r['trans'] = (min(tr.values()), max(tr.values()))
    au = defs('xraylib-auger.h', r'_AUGER$'); r['auger'] = (min(au.values()), max(au.values()))
    ni = defs('xraylib-nist-compounds.h', r'^NIST_COMPOUND_'); r['nist'] = (min(ni.values()), max(ni.values()))
    rn = defs('xraylib-radionuclides.h', r'^RADIO_NUCLIDE_'); r['nuclide'] = (min(rn.values()), max(rn.values()))
    r['names'] = dict(shell=sh, line=ln, trans=tr, auger=au)
    return r

# ------------------------------------------------------------------------------------------------ C driver generation

def gen_c_driver(protos, path):
    """dispatch for every `simple` prototype; the object-returning functions are hand-written in harness/xdrv.c"""
    decl = []; body = []
    for p in protos:
        if not is_simple(p): continue
        if not p['public']:
            decl.append('%s %s(%s);' % (p['cret'], p['name'], ', '.join(p['cparams'])))
        cd = []; ca = []
        for k, (n, t) in enumerate(p['params'][:-1]):
            if t == 'int': cd.append('int a%d = atoi(tok[%d]);' % (k, k + 1))
            elif t == 'double': cd.append('double a%d = pd(tok[%d]);' % (k, k + 1))
            else: cd.append('char *a%d = ps(tok[%d]);' % (k, k + 1))
            ca.append('a%d' % k)
        n = len(p['params'])
        body.append('  if (!strcmp(tok[0], "%s") && nt == %d) { %s BEGIN(); %s r = %s(%s&e); %s; END(); return 1; }' % (
            p['name'], n + 1, ' '.join(cd), p['ret'], p['name'], ''.join(a + ', ' for a in ca), 'pr_d(r)' if p['ret'] == 'double' else 'pr_i(r)'))
    with open(path, 'w') as f:
        f.write('/* GENERATED by tools/xapi.py from the prototypes of the working tree */\n' + '\n'.join(decl) +
                '\nstatic int dispatch_gen(char **tok, int nt) {\n' + '\n'.join(body) + '\n  return 0;\n}\n')
    return [p['name'] for p in protos if is_simple(p)]

# ------------------------------------------------------------------------------------------------ argument space

FORMULAS_OK = ['H2O', 'SiO2', 'Ca5(PO4)3F', 'C6H12O6', 'NaCl', 'Fe', 'Pb', 'U', 'CaCO3', 'Ca(HCO3)2', 'Al2(SO4)3', 'C', 'He',
               'H2SO4', 'FeSO4(H2O)7', 'Mg(OH)2', 'AuAg', 'UO2', 'PbSO4', 'Cu0.5Zn0.5', 'C2H5OH', 'Ca5(PO4)3(OH)', 'K2Cr2O7', 'Si', 'Ge',
               'GaAs', 'CdTe', 'Y3Al5O12', 'Lu2SiO5', 'Bi4Ge3O12', 'H', 'Fm', 'LiF', 'B4C', 'Al2O3', 'TiO2', 'ZrO2', 'W', 'Os', 'Pu']
FORMULAS_BAD = ['', ' ', 'h2o', 'H2O)', '(H2O', 'H2O(', 'Xx', 'H-2', '2H', 'H2O ', 'H 2O', 'Hh', 'CuI2ww', '()', 'Fe2()3', 'H2.O', 'H..2',
                '0', 'H0', '\xc3\xa9', 'C6H12O6;', 'Uu', 'Rf', 'RfO2', 'Md', 'Ha', 'H2O\t', 'A', 'Si)O2(', '((H2)O', 'jadfajlfa', '%', 's']

class Space:
    """Seeded argument-space generator.  Every random choice derives from `seed` through one PRNG."""
    def __init__(self, seed, tier, ranges, catalog):
        self.rng = random.Random(seed * 7919 + 18)
        self.tier = tier; self.r = ranges; self.cat = catalog       # catalog: dict(nist=[names], nuclides=[names], crystals=[names], edges={Z:[E...]})
        self.dist = {}

    # ---- discrete domains
    def dom_Z(self): return list(range(-3, 126))
    def dom(self, key):
        lo, hi = self.r[key]; return list(range(lo - 3, hi + 4))

    # ---- continuous domains (structured)
    def energies(self, Z=None, k=6):
        base = [0.0, -1.0, 1e-6, 0.0999999, 0.1, 0.1000001, 1.0, 1.0000001, 5.0, 10.0, 20.0, 59.54, 99.9, 100.0, 123.456, 299.9999, 300.0, 300.0001,
                799.9, 800.0, 800.1, 999.99, 1000.0, 1000.0001, 1001.0, 1e4, 1e6]
        ed = []
        if Z is not None and Z in self.cat.get('edges', {}):
            for e in self.cat['edges'][Z][:4]:
                ed += [e * (1 - 1e-9), e, e * (1 + 1e-9), e * 1.01]
        pool = base + ed
        pick = [pool[self.rng.randrange(len(pool))] for _ in range(max(1, k - 2))]
        pick.append(10 ** self.rng.uniform(-1, 3))
        pick.append(round(10 ** self.rng.uniform(0, 2), 3))
        return pick
    def angles(self, k=3):
        pool = [0.0, math.pi / 2, math.pi, -0.5, 7.0, math.pi / 4, 1e-9, 2 * math.pi, 1.0, 3.0]
        return [pool[self.rng.randrange(len(pool))] for _ in range(k - 1)] + [self.rng.uniform(0, math.pi)]
    def momenta(self, k=3):
        pool = [0.0, -1.0, 1e-3, 0.5, 1.0, 2.5, 10.0, 50.0, 99.0, 100.0, 101.0, 1e3, 1e9]
        return [pool[self.rng.randrange(len(pool))] for _ in range(k - 1)] + [10 ** self.rng.uniform(-2, 2)]
    def densities(self, k=2):
        pool = [1.0, 2.33, 0.0, -1.0, 19.3, 1e-3]
        return [pool[self.rng.randrange(len(pool))] for _ in range(k)]
    def prob(self):
        return self.rng.choice([0.0, 0.1, 0.5, 1.0, 2.0, 1e-3, 0.33])

    # ---- strings
    def gen_formula(self, depth=0):
        syms = self.cat['symbols']
        n = self.rng.randint(1, 4); out = ''
        for _ in range(n):
            if depth < 2 and self.rng.random() < 0.2:
                out += '(' + self.gen_formula(depth + 1) + ')'
            else:
                out += syms[self.rng.randrange(0, min(len(syms), 98))]
            c = self.rng.random()
            if c < 0.4: out += str(self.rng.randint(2, 12))
            elif c < 0.55: out += '%.3g' % self.rng.uniform(0.01, 9.0)
        return out
    def mutate(self, s):
        if not s: return 'x'
        i = self.rng.randrange(len(s)); c = self.rng.random()
        if c < 0.3: return s[:i] + s[i + 1:]
        if c < 0.6: return s[:i] + self.rng.choice('()0.x- Zq9') + s[i:]
        return s[:i] + self.rng.choice('()0.x- Zq9)') + s[i + 1:]
    def compounds(self, k):
        """valid formulas, NIST names, generated formulas, garbage"""
        out = []
        for _ in range(k):
            c = self.rng.random()
            if c < 0.30: out.append(self.rng.choice(FORMULAS_OK))
            elif c < 0.50: out.append(self.rng.choice(self.cat['nist']))
            elif c < 0.75: out.append(self.gen_formula())
            elif c < 0.90: out.append(self.rng.choice(FORMULAS_BAD))
            else: out.append(self.mutate(self.rng.choice(FORMULAS_OK + self.cat['nist'][:20])))
        return out

def subsample(rng, lst, k):
    if k is None or len(lst) <= k: return list(lst)
    idx = sorted(rng.sample(range(len(lst)), k))
    return [lst[i] for i in idx]
