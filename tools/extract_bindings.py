#!/usr/bin/env python3
"""C20 extractors: one small lexer per language, run on every check against the *current* files of the
repository (VERIF_REPO, default /repo).

  C headers      constants (own lexer, validated against the real preprocessor and compiler) and prototypes
                 (clang JSON AST, validated by compiling an assignment of every function to a pointer of the
                 extracted type with -Werror)
  Fortran        fortran/xraylib_wrap.F90 (PARAMETER constants, ENUM, interface bodies) + xraylib_wrap_generated.F90
  Pascal         pascal/xraylib_const.pas (constants), xraylib.pas + xraylib_impl.pas (`external` declarations)
  Cython         python/xraylib_np_c.pxd (aliases `int X "C_NAME"`, prototypes), python/xraylib_np.pyx (`X = xrl.Y`)
  Java           java/Xraylib.java (`public static final int`)
  IDL            idl/xraylib.pro + five included files (COMMON block, assignments)
  SWIG / C++     src/xraylib.i, cplusplus/xraylib++.h: re-use the C headers; what they add by hand (ignore lists,
                 typemap parameter patterns, wrapped function names) must name existing C declarations

A line inside a claimed region that fits none of the region's productions raises TieError."""
import os, re, sys, json, subprocess
sys.path.insert(0, os.path.dirname(os.path.abspath(__file__)))
from l4common import TieError, nat_of, dec_norm, dec_str

FAMILIES = ['SHELL', 'LINE', 'TRANS', 'AUGER', 'NIST_COMPOUND', 'RADIO_NUCLIDE']


def family_of(name):
    if name.startswith('NIST_COMPOUND_'): return 'NIST_COMPOUND'
    if name.startswith('RADIO_NUCLIDE_') and name != 'RADIO_NUCLIDE_STRING_LENGTH': return 'RADIO_NUCLIDE'
    m = re.search(r'_(SHELL|LINE|TRANS|AUGER)$', name)
    return m.group(1) if m else None


class Const:
    """kind: 'int' (a = value), 'dec' (a·10^b exactly, a not divisible by 10), 'expr' (a = Nat code of the canonical
    token string), after resolution of references inside the same language"""
    __slots__ = ('name', 'kind', 'a', 'b', 'text', 'file', 'line')
    def __init__(self, name, kind, a, b, text, file, line):
        self.name, self.kind, self.a, self.b, self.text, self.file, self.line = name, kind, a, b, text, file, line
    def val(self): return (self.kind, self.a, self.b)
    def show(self):
        if self.kind == 'int': return str(self.a)
        if self.kind == 'dec': return dec_str(self.a, self.b)
        return 'expr ' + self.text
    def js(self): return dict(name=self.name, kind=self.kind, a=self.a, b=self.b, text=self.text, file=self.file, line=self.line, shown=self.show())


def canon_expr(s):
    s = re.sub(r'\s+', '', s)
    while s.startswith('(') and s.endswith(')') and _balanced(s[1:-1]): s = s[1:-1]
    return s


def _balanced(s):
    d = 0
    for c in s:
        if c == '(': d += 1
        elif c == ')':
            d -= 1
            if d < 0: return False
    return d == 0


def classify_value(text, file, line, lang_suffix=r''):
    """-> ('int', n) | ('dec', m, e) | ('ref', NAME) | ('expr', canon)"""
    t = text.strip()
    while t.startswith('(') and t.endswith(')') and _balanced(t[1:-1]): t = t[1:-1].strip()
    if re.fullmatch(r'[-+]?\s*\d+', t): return ('int', int(t.replace(' ', '')))
    m = re.fullmatch(r'([-+]?\d+\.\d*(?:[eEdD][-+]?\d+)?|[-+]?\d+[eEdD][-+]?\d+)' + lang_suffix, t)
    if m:
        d = dec_norm(m.group(1))
        if d is None: raise TieError(file, line, text, 'decimal literal not understood')
        return ('dec',) + d
    if re.fullmatch(r'[A-Za-z_]\w*', t): return ('ref', t)
    if re.fullmatch(r'[\w\s+\-*/().]+', t): return ('expr', canon_expr(t))
    raise TieError(file, line, text, 'constant value not understood')


def resolve(raw, file_of=None, external=None, case_insensitive=False):
    """raw: list of (name, classified value, text, file, line) in declaration order -> dict name -> Const.
    References are resolved inside the language (declared earlier or later), then in `external` (C table, for
    Cython aliases)."""
    key = (lambda s: s.upper()) if case_insensitive else (lambda s: s)
    table = {}
    for name, v, text, f, l in raw:
        table.setdefault(key(name), []).append((name, v, text, f, l))
    out = []
    def res(name, v, text, f, l, depth=0):
        if depth > 20: raise TieError(f, l, text, 'cyclic constant reference')
        if v[0] == 'int': return Const(name, 'int', v[1], 0, text, f, l)
        if v[0] == 'dec': return Const(name, 'dec', v[1], v[2], text, f, l)
        if v[0] == 'expr': return Const(name, 'expr', nat_of(v[1]), 0, v[1], f, l)
        tgt = table.get(key(v[1]))
        if tgt:
            c = res(name, tgt[-1][1], text, f, l, depth + 1)
            return c
        if external is not None and v[1] in external:
            e = external[v[1]]
            return Const(name, e.kind, e.a, e.b, text, f, l)
        raise TieError(f, l, text, 'reference to an undeclared constant %s' % v[1])
    for name, v, text, f, l in raw:
        out.append(res(name, v, text, f, l))
    return out


# =====================================================================================================
# C side

def strip_c_comments(txt):
    def rep(m): return re.sub(r'[^\n]', ' ', m.group(0))
    return re.sub(r'/\*.*?\*/', rep, txt, flags=re.S)


def public_headers(repo):
    """headers reachable from include/xraylib.h through #include "…" inside include/ (the installed set)"""
    seen = []; todo = ['xraylib.h']
    while todo:
        h = todo.pop(0)
        if h in seen: continue
        p = os.path.join(repo, 'include', h)
        if not os.path.exists(p): continue
        seen.append(h)
        for m in re.finditer(r'^\s*#\s*include\s+"([^"]+)"', strip_c_comments(open(p).read()), flags=re.M):
            todo.append(m.group(1))
    return seen


NOT_CONSTANTS = {'XRL_EXTERN', 'XRL_DEPRECATED'}


def c_constants(repo, bdir, work):
    """own lexer over the public headers; every object-like #define with a body must classify"""
    raw = []; guards = set()
    for h in public_headers(repo):
        rel = 'include/' + h
        txt = strip_c_comments(open(os.path.join(repo, rel)).read()).replace('\\\n', ' \n')
        for ln, l in enumerate(txt.splitlines(), 1):
            m = re.match(r'\s*#\s*define\s+(\w+)(\(?)(.*)$', l)
            if not m: continue
            name, paren, body = m.group(1), m.group(2), m.group(3).strip()
            if paren == '(' and not l[m.start(2) - 1].isspace() and l[m.end(1)] == '(':
                continue                                   # function-like macro
            body = (paren + m.group(3)).strip()
            if body == '': guards.add(name); continue
            if name in NOT_CONSTANTS: continue
            raw.append((name, classify_value(body, rel, ln), body, rel, ln))
    # a macro defined twice (PI under #ifndef) is fine when textually identical
    consts = resolve(raw)
    byname = {}
    for c in consts:
        if c.name in byname and byname[c.name].val() != c.val():
            raise TieError(c.file, c.line, c.text, 'macro %s defined twice with different values' % c.name)
        byname.setdefault(c.name, c)
    # enum constants of xraylib-error.h
    etxt = strip_c_comments(open(os.path.join(repo, 'include/xraylib-error.h')).read())
    em = re.search(r'typedef\s+enum\s*\{(.*?)\}\s*xrl_error_code\s*;', etxt, flags=re.S)
    if not em: raise TieError('include/xraylib-error.h', 0, '', 'enum xrl_error_code not found')
    nxt = 0
    for it in em.group(1).split(','):
        it = it.strip()
        if not it: continue
        m = re.fullmatch(r'(\w+)(?:\s*=\s*(-?\d+))?', it)
        if not m: raise TieError('include/xraylib-error.h', 0, it, 'enumerator not understood')
        if m.group(2) is not None: nxt = int(m.group(2))
        ln = etxt[:etxt.index(m.group(1))].count('\n') + 1
        byname[m.group(1)] = Const(m.group(1), 'int', nxt, 0, it, 'include/xraylib-error.h', ln); nxt += 1
    validate_c_constants(repo, bdir, work, byname, guards)
    return byname


def validate_c_constants(repo, bdir, work, byname, guards):
    """the tie of the C-side lexer: same macro set as `clang -dM -E`, same values as the compiled program prints"""
    inc = ['-DHAVE_CONFIG_H', '-I' + bdir, '-I' + repo + '/include', '-I' + repo + '/src']
    base = set(subprocess.run(['clang-14', '-dM', '-E', '-x', 'c', '/dev/null'], capture_output=True, text=True).stdout.splitlines())
    cfg = os.path.join(work, 'cfg_only.c'); open(cfg, 'w').write('#include "config.h"\n#include <stddef.h>\n')
    base |= set(subprocess.run(['clang-14', '-dM', '-E'] + inc + [cfg], capture_output=True, text=True).stdout.splitlines())
    p = subprocess.run(['clang-14', '-dM', '-E'] + inc + [repo + '/include/xraylib.h'], capture_output=True, text=True)
    if p.returncode != 0: raise TieError('include/xraylib.h', 0, p.stderr[-300:], 'preprocessing failed')
    cpp = {}
    for l in p.stdout.splitlines():
        if l in base: continue
        m = re.match(r'#define (\w+)(\([^)]*\))?(?: (.*))?$', l)
        if not m: raise TieError('clang -dM', 0, l, 'preprocessor output line not understood')
        if m.group(2): continue
        cpp[m.group(1)] = (m.group(3) or '').strip()
    mine = {n for n, c in byname.items() if not n.startswith('XRL_ERROR_')}
    theirs = {n for n, b in cpp.items() if b != '' and n not in NOT_CONSTANTS}
    if mine != theirs:
        d = sorted(mine ^ theirs)
        raise TieError('include/*.h', 0, ' '.join(d[:8]), 'C-side lexer and preprocessor disagree on the set of constant macros (%d names)' % len(d))
    if {n for n, b in cpp.items() if b == ''} - guards - {'HAVE_CONFIG_H'}:
        raise TieError('include/*.h', 0, str(sorted({n for n, b in cpp.items() if b == ''} - guards)[:5]), 'empty macros not recognised as include guards')
    src = ['#include <stdio.h>', '#include "xraylib.h"',
           'static void pi(const char *n, long v) { printf("I %s %ld\\n", n, v); }',
           'static void pd(const char *n, double v) { printf("D %s %.17g\\n", n, v); }',
           '#define P(N) _Generic((N), int: pi, long: pi, unsigned: pi, unsigned long: pi, double: pd, float: pd)(#N, N)',
           'int main(void) {']
    for n in sorted(byname): src.append('  P(%s);' % n)
    src.append('  return 0; }')
    cpath = os.path.join(work, 'c20_hdrvals.c'); exe = os.path.join(work, 'c20_hdrvals')
    open(cpath, 'w').write('\n'.join(src) + '\n')
    p = subprocess.run(['clang-14', '-w'] + inc + [cpath, '-o', exe], capture_output=True, text=True)
    if p.returncode != 0: raise TieError('include/*.h', 0, p.stderr[-600:], 'header value program does not compile')
    got = {}
    for l in subprocess.run([exe], capture_output=True, text=True).stdout.splitlines():
        k, n, v = l.split(' ', 2); got[n] = (k, v)
    import math
    env = {'PI': None}
    for n, c in byname.items():
        if n not in got: raise TieError(c.file, c.line, n, 'compiled program printed no value')
        k, v = got[n]
        if c.kind == 'int':
            if k != 'I' or int(v) != c.a: raise TieError(c.file, c.line, c.text, 'lexer says int %d, compiler says %s %s' % (c.a, k, v))
        elif c.kind == 'dec':
            if k != 'D' or float(v) != float('%de%d' % (c.a, c.b)): raise TieError(c.file, c.line, c.text, 'lexer says %s, compiler says %s %s' % (c.show(), k, v))
        else:
            # expression macros: evaluate the canonical text over the other constants in double arithmetic
            def ev(name):
                d = byname[name]
                return d.a if d.kind == 'int' else float('%de%d' % (d.a, d.b)) if d.kind == 'dec' else eval(d.text, {'__builtins__': {}}, _Env(ev))
            val = eval(c.text, {'__builtins__': {}}, _Env(ev))
            if k != 'D' or abs(float(v) - val) > 4e-16 * abs(val):
                raise TieError(c.file, c.line, c.text, 'expression macro evaluates to %r, compiler says %s' % (val, v))


class _Env(dict):
    def __init__(self, ev): self.ev = ev
    def __missing__(self, k): return self.ev(k)


# ---- prototypes -------------------------------------------------------------------------------------

# ABI classes (first digit) and pointee codes; a binding type with pointee 0 matches any pointee
ABI = dict(void=0, int=1, double=2, ptr=3, complex=4, size_t=5, float=6, enum=1, cdata=7, other=9)
POINTEE = {'?': 0, 'char': 1, 'xrl_error*': 2, 'xrl_error': 3, 'int': 4, 'double': 5, 'Crystal_Struct': 6, 'Crystal_Array': 7,
           'compoundData': 8, 'compoundDataNIST': 9, 'radioNuclideData': 10, 'char*': 11, 'void': 12, 'Crystal_Atom': 13, 'xrlComplex': 14}


def ty_code(abi, pointee='?'):
    return ABI[abi] * 100 + POINTEE[pointee]


def c_type(q, file, line):
    """canonical (abi, pointee) of a C type spelling from clang"""
    t = re.sub(r'\bconst\b|\bstruct\b', '', q).strip()
    t = re.sub(r'\s+', ' ', t).replace(' *', '*')
    simple = {'int': ('int', '?'), 'double': ('double', '?'), 'void': ('void', '?'), 'float': ('float', '?'), 'xrlComplex': ('complex', '?'),
              'size_t': ('size_t', '?'), 'xrl_error_code': ('enum', '?'), 'unsigned long': ('size_t', '?'),
              'compoundData': ('cdata', '?')}
    if t in simple: return simple[t]
    if t.endswith('*'):
        base = t[:-1].strip()
        if base in POINTEE: return ('ptr', base)
    raise TieError(file, line, q, 'C type not in the type map')


class Proto:
    __slots__ = ('name', 'ret', 'args', 'argnames', 'text', 'file', 'line', 'cname')
    def __init__(self, name, ret, args, argnames, text, file, line, cname=None):
        self.name, self.ret, self.args, self.argnames, self.text, self.file, self.line = name, ret, args, argnames, text, file, line
        self.cname = cname or name
    def js(self): return dict(name=self.name, cname=self.cname, ret=self.ret, args=self.args, argnames=self.argnames, text=self.text, file=self.file, line=self.line)


_AST = {}


def c_ast(repo, bdir, work):
    """clang JSON AST of a translation unit that includes xraylib.h and xrf_cross_sections_aux.h (parsed once per run)"""
    k = (repo, bdir)
    if k not in _AST:
        inc = ['-DHAVE_CONFIG_H', '-I' + bdir, '-I' + repo + '/include', '-I' + repo + '/src']
        tu = os.path.join(work, 'c20_tu.c')
        open(tu, 'w').write('#include "xraylib.h"\n#include "xrf_cross_sections_aux.h"\n')
        p = subprocess.run(['clang-14', '-Xclang', '-ast-dump=json', '-fsyntax-only'] + inc + [tu], capture_output=True, text=True)
        if p.returncode != 0: raise TieError('include/xraylib.h', 0, p.stderr[-400:], 'clang could not parse the public headers')
        _AST[k] = json.loads(p.stdout)
    return _AST[k]


def _ast_files(ast):
    """yield (top-level declaration, file it is spelled in) — clang's JSON prints `file` only when it changes"""
    cur = [None]
    def note(loc):
        for k in ('spellingLoc', 'expansionLoc'):
            if k in loc: note(loc[k])
        if 'file' in loc: cur[0] = loc['file']
    for d in ast['inner']:
        rng = d.get('range', {})
        note(d.get('loc', {}))
        f = cur[0]
        if 'begin' in rng: note(rng['begin'])
        if 'end' in rng: note(rng['end'])
        yield d, f


def c_prototypes(repo, bdir, work):
    inc = ['-DHAVE_CONFIG_H', '-I' + bdir, '-I' + repo + '/include', '-I' + repo + '/src']
    ast = c_ast(repo, bdir, work)
    cur = [None]
    def note(loc):
        for k in ('spellingLoc', 'expansionLoc'):
            if k in loc: note(loc[k])
        if 'file' in loc: cur[0] = loc['file']
    protos = {}
    for d in ast['inner']:
        rng = d.get('range', {})
        note(d.get('loc', {}))
        f = cur[0]
        if 'begin' in rng: note(rng['begin'])
        if 'end' in rng: note(rng['end'])
        if d['kind'] != 'FunctionDecl' or f is None: continue
        if not (f.startswith(repo + '/include/') or f.endswith('src/xrf_cross_sections_aux.h')): continue
        rel = os.path.relpath(f, repo); line = d['loc'].get('line') or d['loc'].get('expansionLoc', {}).get('line', 0)
        q = d['type']['qualType']
        ret = q[:q.index('(')].strip()
        params = [x for x in d.get('inner', []) if x['kind'] == 'ParmVarDecl']
        args = [c_type(x['type']['qualType'], rel, line) for x in params]
        protos[d['name']] = Proto(d['name'], c_type(ret, rel, line), args, [x.get('name', '') for x in params], q, rel, line)
    # tie: the compiler accepts every function as a value of the extracted type (spelled from the AST), and the
    # header text contains exactly these names after XRL_EXTERN / XRL_DEPRECATED
    src = ['#include "xraylib.h"', '#include "xrf_cross_sections_aux.h"']
    for n, pr in sorted(protos.items()):
        q = pr.text; i = q.index('(')
        src.append('%s (*p_%s)%s = %s;' % (q[:i].strip(), n, q[i:], n))
    cp = os.path.join(work, 'c20_protos.c'); open(cp, 'w').write('\n'.join(src) + '\n')
    p = subprocess.run(['clang-14', '-fsyntax-only', '-Werror', '-Wno-deprecated-declarations'] + inc + [cp], capture_output=True, text=True)
    if p.returncode != 0: raise TieError('include/*.h', 0, p.stderr[-600:], 'extracted prototypes rejected by the compiler')
    textual = set()
    for h in public_headers(repo) + ['../src/xrf_cross_sections_aux.h']:
        txt = strip_c_comments(open(os.path.join(repo, 'include', h)).read())
        txt = re.sub(r'^\s*#[^\n]*', '', txt, flags=re.M)
        for m in re.finditer(r'\b(?:XRL_EXTERN|XRL_DEPRECATED)\s+([^;{]*?)\b(\w+)\s*\(', txt):
            if m.group(2) in ('__attribute__', '__declspec', 'deprecated'): continue
            textual.add(m.group(2))
    if textual != set(protos):
        raise TieError('include/*.h', 0, ' '.join(sorted(textual ^ set(protos))[:8]), 'AST and header text disagree on the declared functions')
    return protos


# ---- record types -------------------------------------------------------------------------------------

class Struct:
    """fields: [(name, (abi, pointee))] in declaration order; `cname`: the C record it stands for"""
    __slots__ = ('name', 'cname', 'fields', 'file', 'line', 'text', 'raw')
    def __init__(self, name, cname, fields, file, line, text=''):
        self.name, self.cname, self.fields, self.file, self.line, self.text, self.raw = name, cname, fields, file, line, text, None
    def js(self): return dict(name=self.name, cname=self.cname, fields=[[n, list(t)] for n, t in self.fields], file=self.file, line=self.line, text=self.text)
    def show(self): return '{ ' + '; '.join('%s: %s' % (n, fmt_type(t)) for n, t in self.fields) + ' }'


def fmt_type(t):
    return t[0] + ('' if t[1] == '?' else ' to ' + t[1]) if t[0] == 'ptr' else t[0]


def c_structs(repo, bdir, work):
    """every record type completely defined in the public headers -> {C name: Struct}.  The name is the typedef name when the
    record is only reachable through one (`typedef struct {…} xrlComplex`, `typedef struct _xrl_error xrl_error`), else the tag.
    Tie: the compiler accepts, for every record, that the extracted fields have the extracted types and strictly increasing
    offsets and that nothing lies behind the last one; the header text (own lexer) lists the same field names in the same order."""
    ast = c_ast(repo, bdir, work)
    recs = {}; order = []; tdef = {}
    def rec_ids(node, out):
        if isinstance(node, dict):
            for k in ('ownedTagDecl', 'decl'):
                v = node.get(k)
                if isinstance(v, dict) and v.get('kind') == 'RecordDecl': out.append(v['id'])
            for v in node.values(): rec_ids(v, out)
        elif isinstance(node, list):
            for v in node: rec_ids(v, out)
    for d, f in _ast_files(ast):
        if f is None or not f.startswith(repo + '/include/'): continue
        rel = os.path.relpath(f, repo); line = d.get('loc', {}).get('line') or d.get('loc', {}).get('expansionLoc', {}).get('line', 0)
        if d['kind'] == 'RecordDecl' and d.get('completeDefinition'):
            if d.get('tagUsed') != 'struct': raise TieError(rel, line, d.get('name', ''), 'record in the public headers that is not a struct')
            fields = []
            for x in d.get('inner', []):
                if x['kind'] == 'FieldDecl':
                    if x.get('isBitfield'): raise TieError(rel, line, x.get('name', ''), 'bit-field in a public struct')
                    fields.append((x['name'], c_type(x['type']['qualType'], rel, line), x['type']['qualType']))
                elif x['kind'] not in ('FullComment', 'MaxFieldAlignmentAttr'):
                    raise TieError(rel, line, x['kind'], 'member of a public struct that is not a field')
            ids = [d['id']] + ([d['previousDecl']] if 'previousDecl' in d else [])
            recs[d['id']] = dict(tag=d.get('name'), fields=fields, file=rel, line=line, ids=ids); order.append(d['id'])
        elif d['kind'] == 'TypedefDecl':
            out = []; rec_ids(d.get('inner', []), out)
            for i in out: tdef.setdefault(i, d['name'])
    structs = {}
    for i in order:
        r = recs[i]
        td = next((tdef[j] for j in r['ids'] if j in tdef), None)
        if r['tag'] and not td: name, spell = r['tag'], 'struct ' + r['tag']
        elif td: name, spell = td, td
        else: raise TieError(r['file'], r['line'], '', 'anonymous struct without a typedef name')
        if name in structs: raise TieError(r['file'], r['line'], name, 'two public structs under one name')
        st = Struct(name, name, [(n, t) for n, t, _ in r['fields']], r['file'], r['line'], spell)
        st.raw = r['fields']; structs[name] = st
    # ---- tie 1: the compiler
    src = ['#include <stddef.h>', '#include "xraylib.h"', '#include "xrf_cross_sections_aux.h"']
    for st in structs.values():
        prev = None
        for n, t, q in st.raw:
            src.append('_Static_assert(_Generic(((%s *)0)->%s, %s: 1, default: 0), "type of %s.%s");' % (st.text, n, q, st.name, n))
            if prev: src.append('_Static_assert(offsetof(%s, %s) < offsetof(%s, %s), "order %s.%s");' % (st.text, prev, st.text, n, st.name, n))
            else: src.append('_Static_assert(offsetof(%s, %s) == 0, "first %s.%s");' % (st.text, n, st.name, n))
            prev = n
        if prev:
            src.append('_Static_assert(offsetof(%s, %s) + sizeof(((%s *)0)->%s) + _Alignof(%s) > sizeof(%s), "tail of %s");' % (st.text, prev, st.text, prev, st.text, st.text, st.name))
    cp = os.path.join(work, 'c20_structs.c'); open(cp, 'w').write('\n'.join(src) + '\n')
    inc = ['-DHAVE_CONFIG_H', '-I' + bdir, '-I' + repo + '/include', '-I' + repo + '/src']
    p = subprocess.run(['clang-14', '-fsyntax-only', '-Werror', '-Wno-deprecated-declarations'] + inc + [cp], capture_output=True, text=True)
    if p.returncode != 0: raise TieError('include/*.h', 0, p.stderr[-600:], 'extracted struct layouts rejected by the compiler')
    # ---- tie 2: own lexer over the header text
    textual = {}
    for h in public_headers(repo):
        txt = strip_c_comments(open(os.path.join(repo, 'include', h)).read())
        txt = re.sub(r'^\s*#[^\n]*', '', txt, flags=re.M)
        for m in re.finditer(r'\b(typedef\s+)?struct\s*(\w*)\s*\{([^{}]*)\}\s*(\w*)\s*;', txt):
            nm = m.group(4) if m.group(1) else m.group(2)
            names = []
            for decl in m.group(3).split(';'):
                decl = decl.strip()
                if not decl: continue
                for part in decl.split(','):
                    mm = re.search(r'(\w+)\s*(?:\[[^\]]*\])?\s*$', part.strip())
                    if not mm: raise TieError('include/' + h, 0, decl, 'struct member not understood')
                    names.append(mm.group(1))
            textual[nm] = names
    # `typedef struct _x x;` + `struct _x {…}`: the text knows the tag, the AST table the typedef name
    for st in structs.values():
        tag = next((recs[i]['tag'] for i in order if recs[i]['fields'] is st.raw), None)
        names = textual.get(st.name) or textual.get(tag or '')
        if names != [n for n, _ in st.fields]:
            raise TieError(st.file, st.line, '%s: %s' % (st.name, names), 'AST and header text disagree on the members of a public struct')
    if len(textual) != len(structs):
        raise TieError('include/*.h', 0, ' '.join(sorted(set(textual) ^ set(structs))), 'AST and header text disagree on the set of public structs')
    return structs


def match_c_struct(name, cstructs, strip, file, line):
    """the C record a binding-side record type stands for: binding name with the language's decoration removed, compared
    without case and underscores"""
    def norm(s): return s.replace('_', '').upper()
    cands = [name] + [f(name) for f in strip]
    for c in cands:
        hits = [k for k in cstructs if norm(k) == norm(c)]
        if len(hits) == 1: return hits[0]
    raise TieError(file, line, name, 'record type of the binding that corresponds to no struct of the C headers')


# =====================================================================================================
# Fortran

def fortran_logical_lines(path, rel):
    """(line number, text) with `!` comments removed and `&` continuations joined; cpp lines kept"""
    out = []; acc = ''; start = 0
    for ln, l in enumerate(open(path, errors='replace').read().splitlines(), 1):
        # strip comment (no string literal in the regions we read contains '!')
        s = l
        if '!' in s:
            q = re.match(r"""^((?:[^!'"]|'[^']*'|"[^"]*")*)!""", s)
            if q: s = q.group(1)
        s = s.rstrip()
        if not acc: start = ln
        if s.lstrip().startswith('&'): s = s.lstrip()[1:]
        if s.endswith('&'):
            acc += s[:-1] + ' '; continue
        acc += s
        if acc.strip(): out.append((start, acc.strip()))
        acc = ''
    return out


def fortran_constants(repo):
    rel = 'fortran/xraylib_wrap.F90'
    lines = fortran_logical_lines(os.path.join(repo, rel), rel)
    defines = {}
    raw = []
    state = 'head'
    enum_next = None
    for ln, l in lines:
        u = l.upper()
        if state == 'head':
            m = re.match(r'#define\s+(\w+)\s+(\S+)$', l)
            if m: defines[m.group(1)] = m.group(2); continue
            if re.match(r'ENUM\s*,\s*BIND\s*\(\s*C\s*\)', u): state = 'enum'; enum_next = 0; continue
            if re.search(r'\bPARAMETER\b', u): state = 'const'     # first constant: the region starts here
            else: continue
        if state == 'enum':
            if re.match(r'END\s*ENUM', u): state = 'head'; continue
            m = re.match(r'ENUMERATOR\s*::\s*(\w+)(?:\s*=\s*(-?\d+))?$', l, flags=re.I)
            if not m: raise TieError(rel, ln, l, 'line inside ENUM, BIND(C) not understood')
            if m.group(2): enum_next = int(m.group(2))
            raw.append((m.group(1), ('int', enum_next), l, rel, ln)); enum_next += 1
            continue
        if state == 'const':
            if re.match(r'INTERFACE\b', u): state = 'done'; break
            m = re.match(r'(INTEGER|REAL)\s*\(\s*(?:KIND\s*=\s*)?(\w+)\s*\)\s*,\s*PARAMETER\s*::\s*(\w+)\s*=\s*(.+)$', l, flags=re.I)
            if not m: raise TieError(rel, ln, l, 'line in the PARAMETER region is not a constant declaration')
            ty, kind, name, val = m.group(1).upper(), m.group(2).upper(), m.group(3), m.group(4).strip()
            if val in defines: val = defines[val]
            v = classify_value(val, rel, ln, lang_suffix=r'(?:_C_DOUBLE|_C_FLOAT)?')
            if ty == 'INTEGER' and kind != 'C_INT': raise TieError(rel, ln, l, 'integer constant not of kind C_INT')
            if ty == 'REAL' and kind != 'C_DOUBLE': raise TieError(rel, ln, l, 'real constant not of kind C_DOUBLE')
            if ty == 'INTEGER' and v[0] not in ('int', 'ref'): raise TieError(rel, ln, l, 'INTEGER parameter with a non-integer value')
            raw.append((name, v, val, rel, ln))
    if state != 'done': raise TieError(rel, 0, '', 'PARAMETER region not terminated by INTERFACE')
    return resolve(raw, case_insensitive=True)


F_TYPES = [
    (r'INTEGER\s*\(\s*(?:KIND\s*=\s*)?C_INT\s*\)', ('int', '?')),
    (r'REAL\s*\(\s*(?:KIND\s*=\s*)?C_DOUBLE\s*\)', ('double', '?')),
    (r'INTEGER\s*\(\s*(?:KIND\s*=\s*)?C_SIZE_T\s*\)', ('size_t', '?')),
    (r'TYPE\s*\(\s*C_PTR\s*\)', ('ptr', '?')),
    (r'TYPE\s*\(\s*XRLCOMPLEX_C\s*\)', ('complex', '?')),
    (r'CHARACTER\s*\(\s*(?:KIND\s*=\s*)?C_CHAR\s*\)', ('char', '?')),
    (r'TYPE\s*\(\s*CRYSTAL_STRUCT_C\s*\)', ('struct:Crystal_Struct', '?')),
]


def fortran_protos(repo):
    """every interface body with BIND(C,NAME='…') in the two Fortran sources"""
    out = []
    for rel in ('fortran/xraylib_wrap.F90', 'fortran/xraylib_wrap_generated.F90'):
        lines = fortran_logical_lines(os.path.join(repo, rel), rel)
        i = 0
        while i < len(lines):
            ln, l = lines[i]
            m = re.match(r'(?:PURE\s+)?(FUNCTION|SUBROUTINE)\s+(\w+)\s*\(([^)]*)\)\s*(.*)$', l, flags=re.I)
            if not (m and re.search(r'BIND\s*\(\s*C', m.group(4), flags=re.I)):
                if re.search(r'BIND\s*\(\s*C\s*,\s*NAME', l, flags=re.I) and not re.match(r'(TYPE|ENUM)\b', l, flags=re.I):
                    raise TieError(rel, ln, l, 'BIND(C,NAME=…) on a line that is not a FUNCTION/SUBROUTINE header')
                i += 1; continue
            kind, fname, argl, tail = m.group(1).upper(), m.group(2), m.group(3), m.group(4)
            mb = re.search(r"BIND\s*\(\s*C\s*,\s*NAME\s*=\s*'(\w+)'\s*\)", tail, flags=re.I)
            if not mb: raise TieError(rel, ln, l, 'BIND(C) without NAME=')
            mr = re.search(r'RESULT\s*\(\s*(\w+)\s*\)', tail, flags=re.I)
            resname = (mr.group(1) if mr else fname).upper()
            argnames = [a.strip() for a in argl.split(',') if a.strip()]
            decl = {}
            i += 1
            while i < len(lines):
                ln2, l2 = lines[i]; u2 = l2.upper()
                if re.match(r'END\s*(FUNCTION|SUBROUTINE)\b', u2): break
                if re.match(r'(USE\b|IMPLICIT\b|IMPORT\b)', u2): i += 1; continue
                mm = re.match(r'(.+?)::\s*(.+)$', l2)
                if not mm: raise TieError(rel, ln2, l2, 'line in a BIND(C) interface body not understood')
                spec, names = mm.group(1), mm.group(2)
                base = None
                for pat, t in F_TYPES:
                    mt = re.match(r'\s*' + pat, spec, flags=re.I)
                    if mt: base = t; attrs = spec[mt.end():].upper(); break
                if base is None: raise TieError(rel, ln2, l2, 'Fortran type not in the type map')
                byval = bool(re.search(r'\bVALUE\b', attrs)); dim = bool(re.search(r'DIMENSION\s*\(', attrs))
                for nm in re.split(r',(?![^()]*\))', names):
                    nm = nm.strip(); isarr = dim or '(' in nm
                    nm = re.sub(r'\(.*\)', '', nm).strip()
                    if base[0] in ('int', 'double', 'size_t', 'complex', 'ptr') and byval and not isarr: t = base
                    elif base[0] == 'char': t = ('ptr', 'char')
                    elif base[0] == 'int' and not byval: t = ('ptr', 'int') if nm.upper() != resname else base
                    elif base[0] == 'double' and not byval: t = ('ptr', 'double') if nm.upper() != resname else base
                    elif base[0] == 'struct:Crystal_Struct': t = ('ptr', 'Crystal_Struct')
                    elif base[0] in ('ptr', 'complex', 'size_t') and not byval: t = base if nm.upper() == resname else ('ptr', '?')
                    else: raise TieError(rel, ln2, l2, 'argument passing mode not understood')
                    decl[nm.upper()] = t
                i += 1
            else:
                raise TieError(rel, ln, l, 'interface body not terminated')
            args = []
            for a in argnames:
                if a.upper() not in decl: raise TieError(rel, ln, l, 'dummy argument %s has no declaration' % a)
                args.append(decl[a.upper()])
            if kind == 'FUNCTION':
                if resname not in decl: raise TieError(rel, ln, l, 'function result %s has no declaration' % resname)
                ret = decl[resname]
            else:
                ret = ('void', '?')
            out.append(Proto(fname, ret, args, argnames, l, rel, ln, cname=mb.group(1)))
            i += 1
    return out


F_HDR = re.compile(r'(?:(?:PURE|ELEMENTAL|RECURSIVE)\s+)*(FUNCTION|SUBROUTINE)\s+(\w+)\s*(?:\(([^)]*)\))?\s*(.*)$', re.I)


class Wrapper:
    """a procedure the binding publishes: `binds` = [(local name, C symbol, line)] foreign declarations in its scope, `calls` = the C
    symbols of those its body really references; kind 'direct': the foreign declaration itself is what is published"""
    __slots__ = ('name', 'kind', 'file', 'line', 'binds', 'calls', 'text')
    def __init__(self, name, kind, file, line, binds=None, calls=None, text=''):
        self.name, self.kind, self.file, self.line, self.binds, self.calls, self.text = name, kind, file, line, binds or [], calls or [], text
    def js(self): return dict(name=self.name, kind=self.kind, file=self.file, line=self.line, binds=[list(b) for b in self.binds], calls=self.calls, text=self.text)


def fortran_wrappers(repo):
    """module procedures of the two Fortran sources with the `BIND(C,NAME=…)` interface bodies declared inside them, and the
    interface bodies of the module's own INTERFACE block (published under their own name).  Every interface body must be
    referenced by the procedure that declares it."""
    out = []
    for rel in ('fortran/xraylib_wrap.F90', 'fortran/xraylib_wrap_generated.F90'):
        lines = fortran_logical_lines(os.path.join(repo, rel), rel)
        cur = None; inner = None; inter = 0; body = []
        for ln, l in lines:
            u = l.upper()
            if re.match(r'INTERFACE\b', u):
                if re.match(r'INTERFACE\s+\w', u): raise TieError(rel, ln, l, 'named (generic) INTERFACE: the extractor assumes plain interface blocks')
                inter += 1; continue
            if re.match(r'END\s*INTERFACE\b', u):
                if inter == 0: raise TieError(rel, ln, l, 'END INTERFACE without INTERFACE')
                inter -= 1; continue
            if re.match(r'END\s*(FUNCTION|SUBROUTINE)\b', u):
                if inner is not None: inner = None
                elif cur is not None:
                    for loc, c, bl in cur.binds:
                        if any(re.search(r'\b%s\b' % re.escape(loc), b, flags=re.I) for b in body): 
                            if c not in cur.calls: cur.calls.append(c)
                        else: raise TieError(rel, bl, loc, 'interface body that the enclosing procedure %s never references' % cur.name)
                    cur = None; body = []
                else: raise TieError(rel, ln, l, 'END FUNCTION/SUBROUTINE without an open procedure')
                continue
            m = F_HDR.match(l)
            if m:
                name, tail = m.group(2), m.group(4)
                mb = re.search(r"BIND\s*\(\s*C\s*,\s*NAME\s*=\s*'(\w+)'\s*\)", tail, flags=re.I)
                if inter:
                    if inner is not None: raise TieError(rel, ln, l, 'procedure header inside an interface body')
                    if not mb: raise TieError(rel, ln, l, 'interface body without BIND(C,NAME=…)')
                    if cur is None: out.append(Wrapper(name, 'direct', rel, ln, [(name, mb.group(1), ln)], [mb.group(1)], l))
                    else: cur.binds.append((name, mb.group(1), ln))
                    inner = name
                else:
                    if cur is not None: raise TieError(rel, ln, l, 'procedure nested in procedure %s outside an INTERFACE block' % cur.name)
                    if mb: raise TieError(rel, ln, l, 'BIND(C) procedure outside an INTERFACE block')
                    cur = Wrapper(name, 'wrapper', rel, ln, text=l); out.append(cur); body = []
                continue
            if re.match(r'[A-Z ()_=,0-9]*\bFUNCTION\s+\w+\s*\(', u) and '::' not in u and not u.startswith('END'):
                raise TieError(rel, ln, l, 'function header with a type prefix: not understood')
            if cur is not None and not inter and inner is None: body.append(l)
        if cur is not None or inter: raise TieError(rel, 0, '', 'unterminated procedure or INTERFACE block')
    return out


def fortran_structs(repo, cstructs):
    """`TYPE, BIND(C) :: name … ENDTYPE` of fortran/xraylib_wrap.F90 (module level and local to a procedure)"""
    rel = 'fortran/xraylib_wrap.F90'
    lines = fortran_logical_lines(os.path.join(repo, rel), rel)
    out = []; cur = None
    for ln, l in lines:
        u = l.upper()
        m = re.match(r'TYPE\s*,\s*BIND\s*\(\s*C\s*\)\s*::\s*(\w+)$', l, flags=re.I)
        if m:
            if cur is not None: raise TieError(rel, ln, l, 'TYPE inside TYPE')
            cur = Struct(m.group(1), match_c_struct(m.group(1), cstructs, [lambda s: re.sub(r'_?C$', '', s, flags=re.I)], rel, ln), [], rel, ln, l); continue
        if re.match(r'TYPE\s*,.*BIND', u): raise TieError(rel, ln, l, 'TYPE, BIND(C) header not understood')
        if cur is None: continue
        if re.match(r'END\s*TYPE\b', u): out.append(cur); cur = None; continue
        mm = re.match(r'(.+?)::\s*(.+)$', l)
        if not mm: raise TieError(rel, ln, l, 'line inside TYPE, BIND(C) not understood')
        base = None
        for pat, t in F_TYPES:
            mt = re.match(r'\s*' + pat, mm.group(1), flags=re.I)
            if mt: base = t; attrs = mm.group(1)[mt.end():].strip(); break
        if base is None or base[0] not in ('int', 'double', 'size_t', 'ptr', 'complex'): raise TieError(rel, ln, l, 'component type of a BIND(C) type not in the type map')
        if attrs.strip(' ,'): raise TieError(rel, ln, l, 'component attributes in a BIND(C) type')
        for nm in mm.group(2).split(','):
            nm = nm.strip()
            if not re.fullmatch(r'\w+', nm): raise TieError(rel, ln, l, 'component declarator not understood')
            cur.fields.append((nm, base))
    if cur is not None: raise TieError(rel, 0, cur.name, 'TYPE, BIND(C) not terminated')
    return out


# =====================================================================================================
# Pascal

def pascal_strip(txt):
    def rep(m): return re.sub(r'[^\n]', ' ', m.group(0))
    txt = re.sub(r'\(\*.*?\*\)', rep, txt, flags=re.S)
    txt = re.sub(r'\{(?!\$).*?\}', rep, txt, flags=re.S)
    return re.sub(r'//[^\n]*', '', txt)


def pascal_constants(repo):
    rel = 'pascal/xraylib_const.pas'
    txt = pascal_strip(open(os.path.join(repo, rel)).read())
    raw = []
    for ln, l in enumerate(txt.splitlines(), 1):
        s = l.strip()
        if not s or s.lower() == 'const' or re.fullmatch(r'\{\$(IFNDEF|IFDEF|ENDIF|ELSE)\b[^}]*\}', s, flags=re.I): continue
        m = re.fullmatch(r'(\w+)\s*=\s*([^;]+);', s)
        if not m: raise TieError(rel, ln, l, 'line of the constants unit is not `NAME = value;`')
        raw.append((m.group(1), classify_value(m.group(2), rel, ln), m.group(2).strip(), rel, ln))
    return resolve(raw, case_insensitive=True)


P_TYPES = {'longint': ('int', '?'), 'double': ('double', '?'), 'pansichar': ('ptr', 'char'), 'ppxrl_error': ('ptr', 'xrl_error*'),
           'pxrl_error': ('ptr', 'xrl_error'), 'pcrystalstruct': ('ptr', 'Crystal_Struct'), 'pcompounddata': ('ptr', 'compoundData'),
           'pcompounddatanist': ('ptr', 'compoundDataNIST'), 'pradionuclidedata': ('ptr', 'radioNuclideData'), 'xrlcomplex': ('complex', '?'),
           'pointer': ('ptr', '?'), 'ppansichar': ('ptr', 'char*'), 'integer': ('int', '?'), 'pcrystalstruct_c': ('ptr', 'Crystal_Struct'),
           'pcompounddata_c': ('ptr', 'compoundData'), 'pcompounddatanist_c': ('ptr', 'compoundDataNIST'), 'pradionuclidedata_c': ('ptr', 'radioNuclideData')}
P_VAR = {'longint': ('ptr', 'int'), 'double': ('ptr', 'double')}


def pascal_protos(repo):
    out = []
    for rel in ('pascal/xraylib.pas', 'pascal/xraylib_impl.pas'):
        txt = pascal_strip(open(os.path.join(repo, rel)).read())
        for ln, l in enumerate(txt.splitlines(), 1):
            if not re.search(r'\bexternal\b', l, flags=re.I): continue
            m = re.match(r'\s*(function|procedure)\s+(\w+)\s*(?:\(([^)]*)\))?\s*(?::\s*(\w+))?\s*;\s*cdecl\s*;\s*external\s+(\w+)\s+name\s+\'(\w+)\'\s*;\s*$', l, flags=re.I)
            if not m: raise TieError(rel, ln, l, '`external` declaration not understood')
            kind, pname, argl, rett, lib, cname = m.groups()
            args = []; names = []
            for grp in (argl or '').split(';'):
                grp = grp.strip()
                if not grp: continue
                mg = re.fullmatch(r'(var\s+|const\s+)?([\w\s,]+):\s*(\w+)', grp, flags=re.I)
                if not mg: raise TieError(rel, ln, grp, 'Pascal parameter group not understood')
                mode = (mg.group(1) or '').strip().lower(); ty = mg.group(3).lower()
                for nm in mg.group(2).split(','):
                    nm = nm.strip()
                    if mode == 'var':
                        if ty not in P_VAR: raise TieError(rel, ln, grp, 'Pascal var-parameter type not in the type map')
                        args.append(P_VAR[ty])
                    else:
                        if ty not in P_TYPES: raise TieError(rel, ln, grp, 'Pascal type not in the type map')
                        args.append(P_TYPES[ty])
                    names.append(nm)
            if kind.lower() == 'function':
                if not rett or rett.lower() not in P_TYPES: raise TieError(rel, ln, l, 'Pascal result type not in the type map')
                ret = P_TYPES[rett.lower()]
            else:
                ret = ('void', '?')
            out.append(Proto(pname, ret, args, names, l.strip(), rel, ln, cname=cname))
    return out


P_PUBLIC = dict(P_TYPES, string=('ptr', 'char'), tstringarray=('ptr', 'char*'))
P_FIELD = {'longint': ('int', '?'), 'double': ('double', '?'), 'pansichar': ('ptr', 'char'), 'xrl_error_code': ('enum', '?'),
           'array of longint': ('ptr', 'int'), 'array of double': ('ptr', 'double'), 'array of tcrystalatom': ('ptr', 'Crystal_Atom')}
P_DECL = re.compile(r'\s*(function|procedure)\s+(\w+)\s*(?:\(([^)]*)\))?\s*(?::\s*(\w+))?\s*;(.*)$', re.I)


def pascal_params(argl, rel, ln, types):
    args = []; names = []
    for grp in (argl or '').split(';'):
        grp = grp.strip()
        if not grp: continue
        mg = re.fullmatch(r'(var\s+|const\s+)?([\w\s,]+):\s*(\w+)', grp, flags=re.I)
        if not mg: raise TieError(rel, ln, grp, 'Pascal parameter group not understood')
        mode = (mg.group(1) or '').strip().lower(); ty = mg.group(3).lower()
        for nm in mg.group(2).split(','):
            if mode == 'var':
                if ty not in P_VAR: raise TieError(rel, ln, grp, 'Pascal var-parameter type not in the type map')
                args.append(P_VAR[ty])
            else:
                if ty not in types: raise TieError(rel, ln, grp, 'Pascal type not in the type map')
                args.append(types[ty])
            names.append(nm.strip())
    return args, names


def pascal_unit(repo, cstructs):
    """pascal/xraylib.pas with its `{$I …}` includes expanded: the unit as the Pascal compiler sees it.
    -> dict(consts, structs, direct, public, wrappers, iface, impl)
       consts    constants of the unit's own `const` sections (the included xraylib_const.pas is read by pascal_constants) and the
                 enumerators of `xrl_error_code`
       soname    [(line, text, number)] of the External_library strings
       structs   record types
       direct    `external` declarations of the interface section (published under their own name)
       public    non-external function declarations of the interface section (incl. xraylib_iface.pas): Proto with the Pascal types
       wrappers  procedures defined in the implementation section with the `external` declarations their bodies reference
       iface/impl  the declarations of xraylib_iface.pas and the headers of the definitions of xraylib_impl.pas as normalised text"""
    main = 'pascal/xraylib.pas'
    lines = []            # (file, line, text)
    def load(rel, depth=0):
        path = os.path.join(repo, rel)
        if not os.path.exists(path): raise TieError(rel, 0, '', 'Pascal source file missing')
        for ln, l in enumerate(pascal_strip(open(path).read()).splitlines(), 1):
            mi = re.fullmatch(r'\s*\{\$I(?:NCLUDE)?\s+([\w.]+)\s*\}\s*', l, flags=re.I)
            if mi:
                if depth: raise TieError(rel, ln, l, 'nested include')
                load('pascal/' + mi.group(1), 1); continue
            if re.search(r'\{\$I(?:NCLUDE)?\s', l, flags=re.I): raise TieError(rel, ln, l, 'include directive not understood')
            lines.append((rel, ln, l))
    load(main)
    if not {'pascal/xraylib_const.pas', 'pascal/xraylib_iface.pas', 'pascal/xraylib_impl.pas'} <= {f for f, _, _ in lines}:
        raise TieError(main, 0, '', 'the unit no longer includes xraylib_const.pas, xraylib_iface.pas and xraylib_impl.pas')
    section = 'head'; block = None
    consts = []; soname = []; structs = []; direct = []; public = []; wrappers = []; iface = []; impl = []
    externals = {}       # local name (lower) -> (C symbol, file, line), implementation section
    i = 0; n = len(lines)
    def directive(t): return re.fullmatch(r'(\{\$[^}]*\}\s*)+', t) is not None
    while i < n:
        rel, ln, l = lines[i]; t = l.strip(); tl = t.lower(); i += 1
        if not t or directive(t): continue
        if rel == 'pascal/xraylib_const.pas': continue                      # pascal_constants reads it (and aborts on any other line)
        if section == 'head':
            if tl == 'interface': section = 'interface'
            elif not re.fullmatch(r'unit\s+\w+\s*;', tl): raise TieError(rel, ln, l, 'line before `interface` not understood')
            continue
        if tl == 'implementation':
            if section != 'interface': raise TieError(rel, ln, l, '`implementation` out of place')
            section = 'implementation'; block = None; continue
        if tl in ('const', 'type', 'uses'): block = tl; continue
        if re.fullmatch(r'end\s*\.', tl): section = 'done'; continue
        if section == 'done': raise TieError(rel, ln, l, 'text after `end.`')
        md = P_DECL.match(t)
        if md:
            block = None
            kind, name, argl, rett, tail = md.groups(); tail = tail.strip()
            me = re.fullmatch(r"cdecl\s*;\s*external\s+(\w+)\s+name\s+'(\w+)'\s*;", tail, flags=re.I)
            if me:
                if section == 'interface': direct.append(Wrapper(name, 'direct', rel, ln, [(name, me.group(2), ln)], [me.group(2)], t))
                else:
                    if name.lower() in externals: raise TieError(rel, ln, l, 'external declared twice')
                    externals[name.lower()] = (me.group(2), rel, ln, name)
                continue
            if tail: raise TieError(rel, ln, l, 'text after a function declaration not understood')
            if rel == 'pascal/xraylib_iface.pas': iface.append((name, re.sub(r'\s+', '', t).lower(), ln))
            if section == 'interface':
                args, names = pascal_params(argl, rel, ln, P_PUBLIC)
                if kind.lower() == 'function':
                    if not rett or rett.lower() not in P_PUBLIC: raise TieError(rel, ln, l, 'Pascal result type not in the type map')
                    ret = P_PUBLIC[rett.lower()]
                else: ret = ('void', '?')
                public.append(Proto(name, ret, args, names, t, rel, ln)); continue
            # a definition: optional var section, then begin … end;
            if rel == 'pascal/xraylib_impl.pas': impl.append((name, re.sub(r'\s+', '', t).lower(), ln))
            w = Wrapper(name, 'wrapper', rel, ln, text=t); body = []; depth = 0; started = False
            while i < n:
                r2, l2n, l2 = lines[i]; i += 1
                for tok in re.findall(r"'[^']*'|\w+", l2):
                    k = tok.lower()
                    if k in ('begin', 'case', 'try', 'asm', 'record'): depth += 1; started = True
                    elif k == 'end': depth -= 1
                    elif k in ('function', 'procedure') and not started: raise TieError(r2, l2n, l2, 'nested procedure: not understood')
                body.append(l2)
                if started and depth == 0: break
            else:
                raise TieError(rel, ln, l, 'definition without a terminated begin … end block')
            w.text = '\n'.join(body); wrappers.append(w); continue
        if re.match(r'(function|procedure)\b', tl): raise TieError(rel, ln, l, 'function declaration not understood')
        if block == 'uses':
            if not re.fullmatch(r'[\w\s,]+;?', t): raise TieError(rel, ln, l, 'uses clause not understood')
            if t.endswith(';'): block = None
            continue
        if block == 'const':
            mc = re.fullmatch(r"(\w+)\s*=\s*([^;]+);", t)
            if not mc: raise TieError(rel, ln, l, 'line of a const section is not `NAME = value;`')
            ms = re.fullmatch(r"'lib(\w+?)[.-](?:so\.)?(\d+)(?:\.dylib|\.dll)?'", mc.group(2).strip())
            if mc.group(1).lower() == 'external_library':
                if not ms or ms.group(1) != 'xrl': raise TieError(rel, ln, l, 'External_library string not understood')
                soname.append((ln, t, int(ms.group(2)))); continue
            consts.append((mc.group(1), classify_value(mc.group(2), rel, ln), mc.group(2).strip(), rel, ln)); continue
        if block == 'type':
            # multi-line type declarations: collect up to the terminating `;` at nesting depth 0
            decl = t; start = ln
            def open_rec(x): return len(re.findall(r'\brecord\b', x, flags=re.I)) - len(re.findall(r'\bend\b', x, flags=re.I))
            while (open_rec(decl) > 0 or not decl.rstrip().endswith(';')) and i < n:
                decl += ' ' + lines[i][2].strip(); i += 1
            mr = re.fullmatch(r'(\w+)\s*=\s*record\b(.*)\bend\s*;', decl, flags=re.I | re.S)
            if mr:
                fields = []
                for fd in mr.group(2).split(';'):
                    fd = fd.strip()
                    if not fd: continue
                    mf = re.fullmatch(r'([\w\s,]+):\s*(.+)', fd)
                    if not mf: raise TieError(rel, start, fd, 'record field not understood')
                    ty = re.sub(r'\s+', ' ', mf.group(2).strip().lower())
                    if ty not in P_FIELD: raise TieError(rel, start, fd, 'record field type not in the type map')
                    for nm in mf.group(1).split(','): fields.append((nm.strip(), P_FIELD[ty]))
                structs.append(Struct(mr.group(1), match_c_struct(mr.group(1), cstructs, [lambda x: re.sub(r'^T', '', x)], rel, start), fields, rel, start, decl)); continue
            me = re.fullmatch(r'(\w+)\s*=\s*\(([\w\s,]+)\)\s*;', decl)
            if me:
                for k, en in enumerate(x.strip() for x in me.group(2).split(',')):
                    consts.append((en, ('int', k), '%s (enumerator %d of %s)' % (en, k, me.group(1)), rel, start))
                continue
            if re.fullmatch(r'\w+\s*=\s*(\^\s*\w+|array of \w+)\s*;', decl, flags=re.I): continue      # pointer / array aliases
            raise TieError(rel, start, decl, 'type declaration not understood')
        raise TieError(rel, ln, l, 'line of the Pascal unit not understood')
    if section != 'done': raise TieError(main, 0, '', 'unit not terminated by `end.`')
    used = set()
    for w in wrappers:
        for loc, (c, f, el, nm) in externals.items():
            if re.search(r'\b%s\b' % re.escape(loc), w.text, flags=re.I):
                w.binds.append((nm, c, el)); w.calls.append(c); used.add(loc)
        w.text = ''
    for loc, (c, f, el, nm) in externals.items():
        if loc not in used: raise TieError(f, el, nm, '`external` declaration of the implementation section that no procedure references')
    return dict(consts=resolve(consts, case_insensitive=True), soname=soname, structs=structs, direct=direct, public=public, wrappers=wrappers,
                iface=iface, impl=impl)


# =====================================================================================================
# Cython

def cython_extract(repo, cconst):
    rel = 'python/xraylib_np_c.pxd'
    lines = open(os.path.join(repo, rel)).read().splitlines()
    alias = {}      # pxd name -> (C name, type)
    protos = []
    block = None; sub = None
    for ln, l in enumerate(lines, 1):
        s = re.sub(r'#.*', '', l).rstrip()
        if not s.strip(): continue
        ind = len(s) - len(s.lstrip())
        t = s.strip()
        if ind == 0:
            m = re.fullmatch(r'cdef extern from "([^"]+)"(?:\s+nogil)?\s*:', t)
            if not m: raise TieError(rel, ln, l, 'top-level pxd line is not `cdef extern from`')
            block = m.group(1); sub = None; continue
        if block is None: raise TieError(rel, ln, l, 'indented line outside a cdef extern block')
        if ind >= 8 and sub: continue                    # members of an enum / struct (not constants of the C API tables)
        sub = None
        if re.fullmatch(r'(cdef\s+enum|ctypedef\s+struct|cdef\s+struct|struct|ctypedef\s+enum)\s+\w+\s*:', t): sub = t; continue
        m = re.fullmatch(r'(int|double|char\s*\*)\s*(\w+)\s+"(\w+)"', t)
        if m:
            alias[m.group(2)] = (m.group(3), m.group(1), ln); continue
        m = re.fullmatch(r'(int|double)\s+(\w+)', t)
        if m:
            alias[m.group(2)] = (m.group(2), m.group(1), ln); continue
        m = re.fullmatch(r'([\w\s\*]+?)\s*\b(\w+)\s*\(([^)]*)\)', t)
        if m and block != 'config.h':
            ret, name, argl = m.group(1).strip(), m.group(2), m.group(3)
            args = []; names = []
            for a in argl.split(','):
                a = a.strip()
                if not a: continue
                ma = re.fullmatch(r'(.*?[\s\*])(\w+)(\[\])?', a)
                if ma and ma.group(1).strip() not in ('const', 'struct', ''):
                    ty, nm = ma.group(1).strip(), ma.group(2)
                    if ma.group(3): ty += ' *'
                else:
                    ty, nm = a, ''
                args.append(cy_type(ty, rel, ln)); names.append(nm)
            protos.append(Proto(name, cy_type(ret, rel, ln), args, names, t, rel, ln)); continue
        raise TieError(rel, ln, l, 'pxd declaration not understood')
    # published constants: pyx `NAME = xrl.X`
    rel2 = 'python/xraylib_np.pyx'
    raw = []
    for ln, l in enumerate(open(os.path.join(repo, rel2)).read().splitlines(), 1):
        if re.match(r'(def|cdef|class|cpdef)\b', l): break          # constants block precedes the first definition
        s = re.sub(r'#.*', '', l).strip()
        if not s or re.match(r'(import|from|cimport)\b', s) or re.fullmatch(r'c?np\.import_array\(\)', s): continue
        m = re.fullmatch(r'(\w+)\s*=\s*xrl\.(\w+)(\.decode\("utf-8"\))?', s)
        if not m: raise TieError(rel2, ln, l, 'line of the pyx constants block is not `NAME = xrl.X`')
        if m.group(3): continue                                      # version string
        if m.group(2) not in alias: raise TieError(rel2, ln, l, 'xrl.%s is not declared in the pxd' % m.group(2))
        cname, ty, pl = alias[m.group(2)]
        if cname not in cconst: raise TieError(rel, pl, cname, 'pxd aliases a C macro that the headers do not define')
        c = cconst[cname]
        if (ty == 'int') != (c.kind == 'int'): raise TieError(rel, pl, '%s %s' % (ty, cname), 'pxd declares the wrong C type for this macro')
        raw.append(Const(m.group(1), c.kind, c.a, c.b, '%s -> pxd %s "%s"' % (s, m.group(2), cname), rel2, ln))
    unused = [a for a in alias if alias[a][0] not in cconst and alias[a][1] != 'char *']
    if unused: raise TieError(rel, alias[unused[0]][2], unused[0], 'pxd aliases a C macro that the headers do not define')
    return raw, protos


def cython_bodies(repo):
    """python/xraylib_np.pyx: for every `def NAME(` the list of `xrl.<fn>(` calls in its body -> [(NAME, line, [fn, …])]"""
    rel = 'python/xraylib_np.pyx'
    out = []; cur = None
    for ln, l in enumerate(open(os.path.join(repo, rel)).read().splitlines(), 1):
        m = re.match(r'def\s+(\w+)\s*\(', l)
        if m:
            cur = (m.group(1), ln, []); out.append(cur); continue
        if cur is not None and (l.startswith(' ') or l.startswith('\t') or not l.strip()):
            cur[2].extend(re.findall(r'\bxrl\.(\w+)\s*\(', re.sub(r'#.*', '', l)))
        elif l.strip():
            cur = None
    return out


def cython_structs(repo, cstructs):
    """`ctypedef struct NAME:` / `cdef struct NAME:` blocks of python/xraylib_np_c.pxd with their members (`type name`).  These are
    `cdef extern` declarations: Cython takes the layout from the C header, the declared member names and types are what it
    generates accesses and conversions from."""
    rel = 'python/xraylib_np_c.pxd'
    out = []; cur = None; cur_ind = None
    for ln, l in enumerate(open(os.path.join(repo, rel)).read().splitlines(), 1):
        s = re.sub(r'#.*', '', l).rstrip()
        if not s.strip(): continue
        ind = len(s) - len(s.lstrip()); t = s.strip()
        if cur is not None and ind > cur_ind:
            m = re.fullmatch(r'([\w\s\*]+?)\s*\b(\w+)', t)
            if not m: raise TieError(rel, ln, l, 'struct member in the pxd not understood')
            ty = m.group(1).strip()
            cur.fields.append((m.group(2), ('enum', '?') if ty == 'xrl_error_code' else cy_type(ty, rel, ln))); continue
        if cur is not None: out.append(cur); cur = None
        m = re.fullmatch(r'(?:ctypedef\s+struct|cdef\s+struct|struct)\s+(\w+)\s*:', t)
        if m:
            cur = Struct(m.group(1), match_c_struct(m.group(1), cstructs, [], rel, ln), [], rel, ln, t); cur_ind = ind
    if cur is not None: out.append(cur)
    return out


def cy_type(t, file, line):
    t = re.sub(r'\s+', ' ', t.replace('*', ' * ')).strip()
    t = re.sub(r'\bconst\b|\bstruct\b', '', t); t = re.sub(r'\s+', ' ', t).strip().replace(' *', '*')
    simple = {'int': ('int', '?'), 'double': ('double', '?'), 'void': ('void', '?'), 'xrlComplex': ('complex', '?'), 'float': ('float', '?')}
    if t in simple: return simple[t]
    if t.endswith('*') and t[:-1].strip() in POINTEE: return ('ptr', t[:-1].strip())
    raise TieError(file, line, t, 'Cython type not in the type map')


# =====================================================================================================
# Java

def java_constants(repo):
    rel = 'java/Xraylib.java'
    raw = []; dynamic = []
    for ln, l in enumerate(open(os.path.join(repo, rel)).read().splitlines(), 1):
        s = re.sub(r'//.*', '', l).strip()
        if not re.match(r'public\s+static\b', s): continue
        if re.match(r'public\s+static\s+final\s+String\b', s): continue       # error-message strings: no C counterpart in the public headers
        m = re.fullmatch(r'public\s+static\s+final\s+(int|double)\s+(\w+)\s*=\s*([^;]+);', s)
        if m:
            raw.append((m.group(2), classify_value(m.group(3), rel, ln), m.group(3).strip(), rel, ln)); continue
        m = re.fullmatch(r'public\s+static\s+(int|double)\s+(\w+)\s*;', s)
        if m: dynamic.append((m.group(2), m.group(1), ln)); continue           # filled from xraylib.dat at class load (pr_data_java.c writes the C macros)
        if re.match(r'public\s+static\s+final\b', s): raise TieError(rel, ln, l, '`public static final` field not understood')
    return resolve(raw), dynamic


def java_dynamic_feed(repo, dynamic, cc):
    """the Java constants WITHOUT initialiser (`public static double R_E;`): `XRayInit()` fills them from the head of xraylib.dat, and
    java/pr_data_java.c writes that head.  Lexes both ends:
      slots  the leading `fwrite(&<local>, sizeof(<T>), 1, f);` statements of main() of java/pr_data_java.c, in order, each with the
             initialiser expression of `<T> <local> = <expr>;` (a local that is assigned again, or whose address escapes, aborts)
      reads  the leading `<FIELD> = byte_buffer.get(Int|Double)();` statements of XRayInit() of java/Xraylib.java, in order
    -> dict(slots=[…], reads=[…], feed=[Const named by the Java field, with the value of the C expression of its slot], problems=[…],
       unevaluated=[slots whose expression is neither a macro name nor a literal]).
    Anything inside these two regions that is not of the expected shape is a TieError."""
    crel = 'java/pr_data_java.c'; jrel = 'java/Xraylib.java'
    ctxt = re.sub(r'//[^\n]*', '', strip_c_comments(open(os.path.join(repo, crel)).read()))
    m = re.search(r'^\s*int\s+main\s*\([^)]*\)\s*\{', ctxt, flags=re.M)
    if not m: raise TieError(crel, 0, '', 'main() of the Java data generator not found')
    body = ctxt[m.end():]; off = ctxt[:m.end()].count('\n')
    def cline(pos): return off + body[:pos].count('\n') + 1
    # statements of main in order (macros such as PR_MATD(x); are statements too)
    locs = {}
    for d in re.finditer(r'(?<![\w])(int|double)\s+(\w+)\s*=\s*([^;,]+);', body):
        if d.group(2) in locs: raise TieError(crel, cline(d.start()), d.group(0), 'local declared twice')
        locs[d.group(2)] = (d.group(1), d.group(3).strip(), cline(d.start()))
    fo = re.search(r'\bf\s*=\s*fopen\s*\(', body)
    if not fo: raise TieError(crel, 0, '', 'the generator no longer opens its output as `f = fopen(…)`')
    slots = []; pos = body.index(';', fo.end()) + 1
    while True:
        st = re.match(r'\s*([^;{}]*(?:\{[^{}]*\}[^;{}]*)*);', body[pos:])        # next statement (an `if (…) { … }` block travels with what follows it)
        if not st: raise TieError(crel, cline(pos), body[pos:pos + 80], 'statement after the scalar head of xraylib.dat not understood')
        text = st.group(1).strip(); ln = cline(pos + st.start(1))
        w = re.fullmatch(r'fwrite\s*\(\s*&\s*(\w+)\s*,\s*sizeof\s*\(\s*(\w+)\s*\)\s*,\s*1\s*,\s*f\s*\)', text)
        if w:
            v, ty = w.group(1), w.group(2)
            if v not in locs: raise TieError(crel, ln, text, 'the written object is not a local of main() with an initialiser')
            if locs[v][0] != ty: raise TieError(crel, ln, text, 'sizeof(%s) for a local of type %s' % (ty, locs[v][0]))
            slots.append(dict(var=v, ctype=ty, expr=locs[v][1], line=ln, decl_line=locs[v][2])); pos += st.end(); continue
        if re.match(r'if\s*\(\s*f\s*==\s*NULL\s*\)', text) and 'fwrite' not in text.split('}')[0]:
            # `if (f == NULL) { perror(…); }` directly after fopen: the block ends inside this match; go on after it
            blk = re.match(r'\s*if\s*\([^)]*\)\s*\{[^{}]*\}', body[pos:])
            if not blk: raise TieError(crel, ln, text, 'error check after fopen not understood')
            pos += blk.end(); continue
        if re.match(r'(fwrite|fprintf|fputs|fputc|putc)\b', text): raise TieError(crel, ln, text, 'write into the head of xraylib.dat that is not `fwrite(&local, sizeof(T), 1, f)`')
        break                                                            # first statement of another kind: the tables begin
    for sl in slots:
        # the local still holds its initialiser when it is written: no other assignment, no other use of its address
        uses = [u for u in re.finditer(r'(?<![\w.>])%s\b' % re.escape(sl['var']), body)]
        if len(uses) != 2: raise TieError(crel, sl['decl_line'], sl['var'], 'the local written into xraylib.dat is mentioned %d times in main() (expected: its declaration and its fwrite)' % len(uses))
    if len({sl['var'] for sl in slots}) != len(slots): raise TieError(crel, 0, '', 'one local is written twice into the head of xraylib.dat')
    # ---- Java side
    jl = open(os.path.join(repo, jrel)).read().splitlines()
    start = next((i for i, l in enumerate(jl) if re.search(r'\bvoid\s+XRayInit\s*\(', l)), None)
    if start is None: raise TieError(jrel, 0, '', 'XRayInit() not found')
    i = start; order_line = None
    while i < len(jl) and i < start + 40:
        if re.search(r'byte_buffer\.order\(\s*ByteOrder\.LITTLE_ENDIAN\s*\)\s*;', jl[i]): order_line = i; break
        i += 1
    if order_line is None: raise TieError(jrel, start + 1, jl[start], 'XRayInit() no longer sets the byte order LITTLE_ENDIAN before reading (the generator writes native x86 byte order)')
    reads = []; i = order_line + 1
    while i < len(jl):
        t = re.sub(r'//.*', '', jl[i]).strip(); i += 1
        if not t: continue
        r = re.fullmatch(r'(\w+)\s*=\s*byte_buffer\.get(Int|Double)\(\)\s*;', t)
        if not r: break
        reads.append(dict(field=r.group(1), jtype='int' if r.group(2) == 'Int' else 'double', line=i))
    if len({r['field'] for r in reads}) != len(reads): raise TieError(jrel, reads[0]['line'], '', 'a field is read twice from the head of xraylib.dat')
    dyn = {n: (ty, ln) for n, ty, ln in dynamic}
    head_lines = {r['line'] for r in reads}
    for k, l in enumerate(jl, 1):
        a = re.match(r'\s*(?:Xraylib\.)?(\w+)\s*(?:[-+*/]?=)(?!=)', re.sub(r'//.*', '', l))
        if a and a.group(1) in dyn and k not in head_lines:
            raise TieError(jrel, k, l, 'the run-time loaded constant %s is assigned outside the head of XRayInit()' % a.group(1))
    problems = []
    for n, (ty, ln) in dyn.items():
        if n not in {r['field'] for r in reads}:
            problems.append(dict(field=n, line=ln, file=jrel, found='declared without initialiser and never read from xraylib.dat: stays 0', expected='a value'))
    feed = []; unevaluated = []
    for k, r in enumerate(reads):
        if r['field'] not in dyn:
            raise TieError(jrel, r['line'], r['field'], 'XRayInit() reads a field from the head of xraylib.dat that is not a `public static int|double` field without initialiser')
        if dyn[r['field']][0] != r['jtype']:
            problems.append(dict(field=r['field'], line=r['line'], file=jrel, found='declared %s, read with get%s()' % (dyn[r['field']][0], r['jtype'].capitalize()), expected='the same type'))
        if k >= len(slots):
            problems.append(dict(field=r['field'], line=r['line'], file=jrel, found='read as scalar number %d of xraylib.dat, but java/pr_data_java.c writes only %d scalars before the tables' % (k + 1, len(slots)), expected='a scalar written for it'))
            continue
        sl = slots[k]
        if sl['ctype'] != r['jtype']:
            problems.append(dict(field=r['field'], line=r['line'], file=jrel, found='read with get%s(), java/pr_data_java.c:%d writes sizeof(%s)' % (r['jtype'].capitalize(), sl['line'], sl['ctype']), expected='the same type on both sides'))
        v = classify_value(sl['expr'], crel, sl['decl_line'])
        if v[0] == 'ref':
            if v[1] not in cc: raise TieError(crel, sl['decl_line'], sl['expr'], 'the expression written into xraylib.dat names no constant of the public C headers')
            e = cc[v[1]]; c = Const(r['field'], e.kind, e.a, e.b, sl['expr'], crel, sl['decl_line'])
        elif v[0] == 'int': c = Const(r['field'], 'int', v[1], 0, sl['expr'], crel, sl['decl_line'])
        elif v[0] == 'dec': c = Const(r['field'], 'dec', v[1], v[2], sl['expr'], crel, sl['decl_line'])
        else:
            # a composite expression: not evaluated here (the observation of the running class decides); reported as a tie problem, and the
            # theorem java_dynamic_fields_exact demands that there is none
            unevaluated.append(dict(field=r['field'], expr=sl['expr'], file=crel, line=sl['decl_line'])); continue
        if sl['ctype'] == 'int' and c.kind != 'int':
            problems.append(dict(field=r['field'], line=sl['decl_line'], file=crel, found='`int %s = %s` truncates %s' % (sl['var'], sl['expr'], c.show()), expected='a double slot'))
        feed.append((c, sl, r))
    for sl in slots[len(reads):]:
        problems.append(dict(field='slot ' + sl['expr'], line=sl['line'], file=crel, found='scalar written into the head of xraylib.dat that XRayInit() does not read as a scalar (everything after it is shifted)', expected='one read per scalar'))
    return dict(slots=slots, reads=reads, feed=feed, problems=problems, unevaluated=unevaluated)


# =====================================================================================================
# IDL

def idl_constants(repo):
    main = 'idl/xraylib.pro'
    common = []; raw = []; files = [main]; runs = []
    def lex(rel, top):
        txt = open(os.path.join(repo, rel)).read().splitlines()
        i = 0; started = False
        while i < len(txt):
            ln = i + 1; s = re.sub(r';.*', '', txt[i]).strip(); i += 1
            if not s: continue
            while s.endswith('$'):
                s = s[:-1] + ' ' + re.sub(r';.*', '', txt[i]).strip(); i += 1
            if re.match(r'COMMON\s+XRAYLIB\s*,', s, flags=re.I):
                if not top: raise TieError(rel, ln, s, 'COMMON block outside the main file')
                names = [x.strip() for x in re.sub(r'^COMMON\s+XRAYLIB\s*,', '', s, flags=re.I).split(',')]
                for n in names:
                    if not re.fullmatch(r'\w+', n): raise TieError(rel, ln, n, 'COMMON member not understood')
                common.extend(names); continue
            m = re.fullmatch(r'\.run\s+(\w+)', s, flags=re.I)
            if m:
                if not top: raise TieError(rel, ln, s, 'nested .run')
                runs.append(m.group(1)); lex('idl/%s.pro' % m.group(1), False); files.append('idl/%s.pro' % m.group(1)); continue
            if re.fullmatch(r'\.compile\s+\w+', s, flags=re.I): continue
            if s.upper() == 'END' and not top: continue
            m = re.fullmatch(r'(\w+)\s*=\s*(.+)', s)
            if not m: raise TieError(rel, ln, txt[ln - 1], 'IDL line is neither COMMON, assignment, .run, .compile nor END')
            raw.append((m.group(1), classify_value(m.group(2), rel, ln), m.group(2).strip(), rel, ln))
    lex(main, True)
    consts = resolve(raw, case_insensitive=True)
    cu = {c.upper() for c in common}
    assigned = {c.name.upper() for c in consts}
    not_common = sorted(c.name for c in consts if c.name.upper() not in cu)
    not_assigned = sorted(c for c in common if c.upper() not in assigned)
    return consts, dict(common=len(common), assigned_not_in_common=not_common, common_never_assigned=not_assigned, files=files,
                        common_names=sorted({c.upper() for c in common}), assigned_names=sorted(assigned))


def idl_functions(repo, cnames):
    """the two hand-written IDL declaration sets and the glue they name:
       dlm      idl/libxrlidl.dlm: `FUNCTION|PROCEDURE NAME min max`
       sysfun   idl/xraylib_idl.c: entries `{{IDL_x},"NAME", min, max, 0, 0}` of the IDL_SYSFUN_DEF2 tables xrl_functions / xrl_procedures
       glue     Wrapper per registered `IDL_x` with the C API functions its body calls (definitions written out by hand, or by a
                `XRL_…(name)` macro whose body is `IDL_ ## name(…) { … name(…) … }`)
    Names are IDL's (upper case); `cnames` (C function names) gives them their C spelling."""
    up = {}
    for c in cnames:
        if c.upper() in up: raise TieError('include/*.h', 0, c, 'two C functions that differ only in case: case-insensitive bindings cannot tell them apart')
        up[c.upper()] = c
    def cspell(n): return up.get(n.upper(), n)
    rel = 'idl/libxrlidl.dlm'
    dlm = []; hdr = set()
    for ln, l in enumerate(open(os.path.join(repo, rel)).read().splitlines(), 1):
        t = l.strip()
        if not t or t.startswith('#'): continue
        m = re.fullmatch(r'(FUNCTION|PROCEDURE)\s+(\w+)\s+(\d+)\s+(\d+)(\s+\w+)*', t)
        if m:
            if m.group(5): raise TieError(rel, ln, l, 'DLM routine with options (KEYWORDS/OBSOLETE): not understood')
            dlm.append(dict(kind=m.group(1), idl=m.group(2), name=cspell(m.group(2)), min=int(m.group(3)), max=int(m.group(4)), file=rel, line=ln, text=t)); continue
        m = re.match(r'(MODULE|DESCRIPTION|VERSION|SOURCE|BUILD_DATE|CHECKSUM)\b', t)
        if not m: raise TieError(rel, ln, l, 'line of the DLM file not understood')
        hdr.add(m.group(1))
    rel = 'idl/xraylib_idl.c'
    txt = strip_c_comments(open(os.path.join(repo, rel)).read())
    sysfun = []; tables = {}
    for m in re.finditer(r'static\s+IDL_SYSFUN_DEF2\s+(\w+)\s*\[\s*\]\s*=\s*\{(.*?)\n\}\s*;', txt, flags=re.S):
        tab = m.group(1); base = txt[:m.start(2)].count('\n') + 1
        if tab not in ('xrl_functions', 'xrl_procedures'): raise TieError(rel, base, tab, 'unexpected IDL_SYSFUN_DEF2 table')
        tables[tab] = 0
        for k, el in enumerate(m.group(2).splitlines()):
            t = el.strip()
            if not t: continue
            me = re.fullmatch(r'\{\s*\{\s*(?:\(IDL_SYSRTN_GENERIC\)\s*)?IDL_(\w+)\s*\}\s*,\s*"(\w+)"\s*,\s*(\d+)\s*,\s*(\d+)\s*,\s*0\s*,\s*0\s*\}\s*,?', t)
            if not me: raise TieError(rel, base + k, el, 'entry of the IDL_SYSFUN_DEF2 table not understood')
            tables[tab] += 1
            sysfun.append(dict(kind='FUNCTION' if tab == 'xrl_functions' else 'PROCEDURE', ident=me.group(1), idl=me.group(2), name=cspell(me.group(2)),
                               min=int(me.group(3)), max=int(me.group(4)), file=rel, line=base + k, text=t))
    if set(tables) != {'xrl_functions', 'xrl_procedures'}: raise TieError(rel, 0, str(sorted(tables)), 'IDL_SYSFUN_DEF2 tables xrl_functions / xrl_procedures not found')
    mreg = re.search(r'IDL_SysRtnAdd\(\s*xrl_functions\s*,\s*TRUE\s*,.*?IDL_SysRtnAdd\(\s*xrl_procedures\s*,\s*FALSE\s*,', txt, flags=re.S)
    if not mreg: raise TieError(rel, 0, '', 'IDL_Load no longer registers xrl_functions as functions and xrl_procedures as procedures')
    # ---- glue definitions
    defs = {}      # ident -> (line, [C API calls])
    api = re.compile(r'\b(%s)\s*\(' % '|'.join(sorted(map(re.escape, cnames), key=len, reverse=True)))
    joined = txt.replace('\\\n', ' \x01')            # macro continuation lines joined, \x01 keeps the line count recoverable
    macros = {}
    for m in re.finditer(r'^#define\s+(XRL_\w+)\((\w+)\)\s+(.*)$', joined, flags=re.M):
        body = m.group(3); par = m.group(2); ln = joined[:m.start()].count('\n') + joined[:m.start()].count('\x01') + 1
        if not re.match(r'IDL_VPTR\s+IDL_CDECL\s+IDL_\s*##\s*%s\s*\(' % par, body): raise TieError(rel, ln, m.group(1), 'wrapper macro does not define IDL_ ## name')
        rest = re.sub(r'^IDL_VPTR\s+IDL_CDECL\s+IDL_\s*##\s*%s\s*\(' % par, '', body)
        own = len(re.findall(r'(?<!\w)%s\s*\(' % par, rest)); other = api.findall(rest)
        if own != 1 or other: raise TieError(rel, ln, m.group(1), 'wrapper macro body is not a single call of its parameter')
        macros[m.group(1)] = ln
    plain = re.sub(r'^#define[^\n]*$', lambda m: '\x01' * m.group(0).count('\x01'), joined, flags=re.M)
    for m in re.finditer(r'^(XRL_\w+)\((\w+)\)\s*;?\s*$', plain, flags=re.M):
        ln = plain[:m.start()].count('\n') + plain[:m.start()].count('\x01') + 1
        if m.group(1) not in macros: raise TieError(rel, ln, m.group(0), 'invocation of an unknown wrapper macro')
        if m.group(2) in defs: raise TieError(rel, ln, m.group(0), 'glue function defined twice')
        defs[m.group(2)] = (ln, [m.group(2)])
    for m in re.finditer(r'^(?:IDL_VPTR|void)\s+IDL_CDECL\s+IDL_(\w+)\s*\(\s*int\s+argc\s*,\s*IDL_VPTR\s+argv\[\]\s*\)\s*\{', plain, flags=re.M):
        ln = plain[:m.start()].count('\n') + plain[:m.start()].count('\x01') + 1
        depth = 1; j = m.end()
        while j < len(plain) and depth:
            if plain[j] == '{': depth += 1
            elif plain[j] == '}': depth -= 1
            j += 1
        if depth: raise TieError(rel, ln, m.group(1), 'glue function body not terminated')
        body = re.sub(r'"(?:[^"\\\n]|\\.)*"', '""', plain[m.end():j])
        if m.group(1) in defs: raise TieError(rel, ln, m.group(1), 'glue function defined twice')
        calls = []
        for c in api.findall(body):
            if c not in calls: calls.append(c)
        defs[m.group(1)] = (ln, calls)
    glue = []
    for e in sysfun:
        if e['ident'] not in defs: raise TieError(rel, e['line'], e['ident'], 'registered glue function IDL_%s has no definition the extractor recognises' % e['ident'])
        ln, calls = defs[e['ident']]
        glue.append(Wrapper(e['name'], 'wrapper', rel, ln, [(e['ident'], c, ln) for c in calls], list(calls), 'IDL_%s registered as "%s"' % (e['ident'], e['idl'])))
    registered = {e['ident'] for e in sysfun}
    unregistered = sorted(d for d in defs if d not in registered)
    return dict(dlm=dlm, sysfun=sysfun, glue=glue, unregistered=unregistered, dlm_header=sorted(hdr), macros=len(macros))


# =====================================================================================================
# SWIG and C++: hand-written references to C declarations

def swig_refs(repo, protos, cconst):
    """names the interface file mentions that must exist in the C headers: %ignore / %newobject targets that are
    functions, typemap patterns `type name` with a parameter name, `%apply … { … }` patterns"""
    rel = 'src/xraylib.i'
    txt = open(os.path.join(repo, rel)).read()
    refs = []      # (kind, text, line, ok, detail)
    includes = re.findall(r'^%include\s+"([^"]+)"', txt, flags=re.M)
    params = {}    # (abi type, name) present in some C prototype
    rets = set()
    for p in protos.values():
        for t, n in zip(p.args, p.argnames): params.setdefault(n, set()).add(t)
        rets.add((p.ret, p.name))
    structs = {'compoundData', 'compoundDataNIST', 'radioNuclideData', 'xrlComplex', 'Crystal_Array', 'Crystal_Struct', 'Crystal_Atom'}
    for ln, l in enumerate(txt.splitlines(), 1):
        m = re.match(r'%(ignore|newobject)\s+(\w+)\s*;', l)
        if m:
            n = m.group(2)
            refs.append((m.group(1), n, ln, n in protos or n in structs, 'function or type of the C headers'))
            continue
        m = re.match(r'%typemap\(([^)]*)\)\s*(.+?)\s*(?:\(.*\))?\s*\{?\s*\}?\s*$', l)
        if m:
            pat = m.group(2).strip()
            pat = re.sub(r'\s*\(.*$', '', pat)
            mm = re.fullmatch(r'((?:struct\s+)?[\w]+(?:\s*\*+)?\s*\*?)\s*(\w+)?', pat)
            if not mm: raise TieError(rel, ln, l, 'typemap pattern not understood')
            ty, nm = mm.group(1).strip(), mm.group(2)
            try: t = c_type(ty, rel, ln)
            except TieError:
                if ty == 'char **': t = ('ptr', 'char*')
                else: raise
            if nm:
                if m.group(1).startswith('out'):
                    ok = (t, nm) in rets
                else:
                    ok = nm in params and t in params[nm]
                refs.append(('typemap ' + m.group(1), pat, ln, ok, 'a C prototype has a parameter (or result) of this type and name'))
            continue
        m = re.match(r'%apply\s+.*\{(.*)\}', l)
        if m:
            for pat in m.group(1).split(','):
                mm = re.fullmatch(r'\s*([\w]+\s*\*?)\s*(\w+)\s*', pat)
                if not mm: raise TieError(rel, ln, l, '%apply pattern not understood')
                t = c_type(mm.group(1), rel, ln)
                refs.append(('apply', pat.strip(), ln, mm.group(2) in params and t in params[mm.group(2)], 'a C prototype has a parameter of this type and name'))
            continue
        if re.match(r'%constant\b|#define\s+\w+\s+[-\d.]', l):
            mm = re.match(r'(?:%constant\s+\w+\s+|#define\s+)(\w+)', l)
            if mm and mm.group(1) in cconst: raise TieError(rel, ln, l, 'the SWIG interface re-declares a C constant (extractor assumes it does not)')
    return dict(includes=includes, refs=[dict(kind=k, text=t, line=ln, ok=ok, need=d) for k, t, ln, ok, d in refs])


def cpp_refs(repo, protos, cconst):
    rel = 'cplusplus/xraylib++.h'
    txt = strip_c_comments(open(os.path.join(repo, rel)).read())
    txt = re.sub(r'//[^\n]*', '', txt)
    refs = []
    for ln, l in enumerate(txt.splitlines(), 1):
        m = re.match(r'\s*_XRL_FUNCTION\((\w+)\)', l)
        if m and m.group(1) != '_name':
            refs.append(dict(kind='_XRL_FUNCTION', text=m.group(1), line=ln, ok=m.group(1) in protos, need='function of the C headers'))
        for m in re.finditer(r'::(\w+)\s*\(', l):
            if m.start() > 0 and (l[m.start() - 1].isalnum() or l[m.start() - 1] in '_>'): continue     # std::x, a::b
            if m.group(1) == '_name': continue                                                          # the macro's own parameter
            refs.append(dict(kind='::call', text=m.group(1), line=ln, ok=m.group(1) in protos, need='function of the C headers'))
        m = re.match(r'\s*#\s*define\s+(\w+)\s+\S', l)
        if m and m.group(1) in cconst: raise TieError(rel, ln, l, 'the C++ header re-declares a C constant (extractor assumes it does not)')
    inc = re.findall(r'#\s*include\s+[<"]([^>"]+)[>"]', txt)
    return dict(includes=inc, refs=refs)


# =====================================================================================================
# C++: declared parameter and result types of every wrapper of cplusplus/xraylib++.h

def cpp_type(q, role, where):
    """C type (abi, pointee) that a C++ type of the header stands for: `std::string` / `const char *` <-> `const char *`, `std::complex<double>` <-> xrlComplex,
    `Struct &` and a returned `Struct` <-> `Crystal_Struct *`, the value classes <-> pointers to the C structs they are built from, a returned
    `std::vector<std::string>` <-> `char **`.  Anything else is a broken tie (the map must be extended by hand, never guessed)."""
    t = re.sub(r'\bconst\b', '', q).strip()
    t = re.sub(r'\s+', ' ', t)
    t = re.sub(r'\bxrlpp::(Crystal::)?', '', t)
    t = re.sub(r'\bstd::(__cxx11::)?basic_string<char(, std::char_traits<char>, std::allocator<char> ?)?>', 'std::string', t)
    t = re.sub(r'\s*&&?$', '', t).strip()
    simple = {'int': ('int', '?'), 'double': ('double', '?'), 'void': ('void', '?'), 'float': ('float', '?'),
              'std::string': ('ptr', 'char'), 'char *': ('ptr', 'char'), 'std::complex<double>': ('complex', '?'), 'xrlComplex': ('complex', '?'),
              'Struct': ('ptr', 'Crystal_Struct'), 'Crystal_Struct *': ('ptr', 'Crystal_Struct'), 'double *': ('ptr', 'double'), 'int *': ('ptr', 'int'),
              'compoundData': ('ptr', 'compoundData'), 'compoundDataNIST': ('ptr', 'compoundDataNIST'), 'radioNuclideData': ('ptr', 'radioNuclideData'),
              'std::vector<std::string>': ('ptr', 'char*'), 'std::vector<std::string, std::allocator<std::string>>': ('ptr', 'char*')}
    if t in simple: return simple[t]
    raise TieError('cplusplus/xraylib++.h', where[1], q, 'C++ %s type of the wrapper %s is not in the C++ -> C type map' % (role, where[0]))


_CPP_EX = {}
def _cpp_typed_extractor(repo, bdir, aux):
    """C18's extractor (tools/extract_cpp.py, imported, not modified) run once on cplusplus/xraylib++.h, with the DECLARED types added from the same AST
    nodes: `raw_params` / `raw_ret` of every wrapper, and `member_types` = [(class, member, declared type, line)] of every non-static data member."""
    if (repo, bdir, aux) in _CPP_EX: return _CPP_EX[(repo, bdir, aux)]
    import extract_cpp as XC
    class Typed(XC.Extractor):
        def visit_fn(self, d, prefix, kind):
            n0 = len(self.wrappers)
            XC.Extractor.visit_fn(self, d, prefix, kind)
            params = [x for x in d.get('inner', []) if x.get('kind') == 'ParmVarDecl']
            qt = d.get('type', {}).get('qualType', '')
            depth = 0; cut = len(qt)
            for i, ch in enumerate(qt):
                if ch == '<': depth += 1
                elif ch == '>': depth -= 1
                elif ch == '(' and depth == 0: cut = i; break
            for w in self.wrappers[n0:]:
                w['raw_params'] = [(x.get('name', ''), x['type'].get('qualType', '')) for x in params]
                w['raw_ret'] = qt[:cut].strip()
        def visit_scope(self, n, prefix):
            if not hasattr(self, 'member_types'): self.member_types = []
            for d in n.get('inner', []) or []:
                if d.get('kind') == 'CXXRecordDecl' and d.get('completeDefinition'):
                    for x in d.get('inner', []) or []:
                        if x.get('kind') == 'FieldDecl':
                            self.member_types.append((prefix + d['name'], x.get('name', ''), x['type'].get('qualType', ''), x['type'].get('desugaredQualType', ''), self.line_of(x)))
            XC.Extractor.visit_scope(self, n, prefix)
    try:
        ex = Typed(repo, bdir, aux).run()
    except XC.ExtractError as e:
        raise TieError('cplusplus/xraylib++.h', 0, str(e)[:300], 'the C++ header could not be evaluated by clang (tools/extract_cpp.py)')
    if ex.unclassified: raise TieError('cplusplus/xraylib++.h', 0, '; '.join(ex.unclassified)[:300], 'wrapper(s) of the C++ header not classified by tools/extract_cpp.py')
    _CPP_EX[(repo, bdir, aux)] = ex
    return ex


def cpp_wrapper_protos(repo, bdir, aux, cprotos):
    """-> (list of Proto keyed by the wrapped C function, info).  The wrapper table is C18's (tools/extract_cpp.py evaluates xraylib++.h with clang and
    records, for every function / method / constructor / destructor of namespace xrlpp and for every instantiation of a wrapper template, the C function it
    forwards to); here the DECLARED parameter and result types of each of them are read from the same AST and mapped to C types.  What a wrapper shows
    its caller is compared with the visible signature of the C function (the error slot, the `int *` count out-parameter and the `Crystal_Array *`
    catalogue argument are supplied by the wrapper: dropped on the C side, as for the Pascal unit):
      * a free function / a template instantiation: its parameters, its result;
      * a method of `Crystal::Struct` that passes the member `cs`: `Crystal_Struct *` first, then its parameters;
      * a free function that forwards to such a method (`Crystal::Bragg_angle(Struct &cs, …)` -> `cs.Bragg_angle(…)`): its own parameters and result,
        against the C function the METHOD wraps;
      * the copy constructor (`Crystal_MakeCopy`): its parameter, result `Crystal_Struct *`; the destructor (`Crystal_Free`): `Crystal_Struct *`, void.
    Uninstantiated template patterns (`const T... args`) carry no types of their own and are skipped; every template must have an instantiation row."""
    ex = _cpp_typed_extractor(repo, bdir, aux)
    rel = 'cplusplus/xraylib++.h'
    methods = {(w['scope'], w['base']): w for w in ex.wrappers if w['kind'] == 'method'}
    out = []; skipped = []; templates = set(); instantiated = set()
    for w in ex.wrappers:
        k = w['kind']; where = (w['name'], w['line'])
        if k == 'pattern': templates.add(w['base']); continue
        if k == 'inst': instantiated.add(w['base'])
        callee = w['callee']
        if k == 'delegate':
            m = methods.get((w['scope'] + 'Struct::', callee))
            if m is None: raise TieError(rel, w['line'], w['name'], 'free function forwards to the method %s, which wraps no C function' % callee)
            callee = m['callee']
        if not callee or callee not in cprotos or callee in ('xrl_malloc', 'xrl_strdup'):
            skipped.append(dict(name=w['name'], kind=k, line=w['line'], why='wraps no function of the C headers')); continue
        args = [cpp_type(t, 'parameter', where) for _, t in w['raw_params']]
        if k in ('method', 'dtor') and w['args'] and w['args'][0] == ('thisCs',): args = [('ptr', 'Crystal_Struct')] + args
        if k == 'ctor': ret = ('ptr', 'Crystal_Struct') if w['scope'].endswith('Struct::') else cpp_type(w['scope'].rstrip(':').rsplit('::', 1)[-1], 'result', where)
        else: ret = cpp_type(w['raw_ret'], 'result', where)
        text = '%s %s%s(%s)%s' % (w['raw_ret'] if k not in ('ctor', 'dtor') else '', 'xrlpp::' + w['scope'], w['base'], ', '.join(('%s %s' % (t, n)).strip() for n, t in w['raw_params']),
                                 '  [%s]' % {'inst': 'instantiation of the wrapper template', 'method': 'method: the member cs is passed first', 'delegate': 'forwards to the method of the same name',
                                             'ctor': 'constructor', 'dtor': 'destructor: the member cs is passed', 'plain': 'free function'}[k])
        out.append(Proto('xrlpp::' + w['scope'] + w['base'] + w['sig'], ret, args, [n for n, _ in w['raw_params']], text.strip(), rel, w['line'], cname=callee))
    never = sorted(templates - instantiated)
    if never: raise TieError(rel, 0, ' '.join(never)[:300], 'wrapper template(s) without an instantiation row: their C prototype has arguments the template cannot take')
    return out, dict(skipped=skipped, kinds={k: sum(1 for w in ex.wrappers if w['kind'] == k) for k in sorted({w['kind'] for w in ex.wrappers})},
                     templates=len(templates), wrapped_c_functions=len({p.cname for p in out}))


# =====================================================================================================
# C++: declared types of the data members of the value classes of cplusplus/xraylib++.h against the fields of the C structs they mirror

def cpp_member_type(q, desugared, mirrors):
    """C type (abi, pointee) that the declared type of a data member stands for: `int` / `double` / `float` <-> the same scalar, `std::string` <-> `char *`,
    `std::vector<T>` <-> `T *` (the C struct carries the count in another field), `std::vector<class that mirrors struct S>` <-> `S *`, a raw pointer <-> itself.
    `mirrors`: {unqualified class name: C struct}.  A type outside the map stands for NO C type (`('other', '?')`: agrees with nothing) - it is never guessed."""
    def norm(t):
        t = re.sub(r'\bconst\b|\bvolatile\b|\bmutable\b|\bstruct\b|\bclass\b', '', t)
        t = re.sub(r'\bxrlpp::(Crystal::)?', '', t)
        t = re.sub(r'\bstd::(__cxx11::)?basic_string<char(, std::char_traits<char>, std::allocator<char> ?)?>', 'std::string', t)
        return re.sub(r'\s+', ' ', t).strip()
    scalars = {'int': ('int', '?'), 'double': ('double', '?'), 'float': ('float', '?')}
    for cand in (q, desugared):
        if not cand: continue
        t = norm(cand)
        if t in scalars: return scalars[t]
        if t in ('std::string', 'char *'): return ('ptr', 'char')
        m = re.fullmatch(r'std::vector<\s*(.+?)\s*(,\s*std::allocator<.*>\s*)?>', t)
        if m:
            e = m.group(1).strip()
            if e in ('int', 'double'): return ('ptr', e)
            if e == 'std::string': return ('ptr', 'char*')
            if e in mirrors and mirrors[e] in POINTEE: return ('ptr', mirrors[e])
            continue
        m = re.fullmatch(r'(\w+) ?\*', t)
        if m and m.group(1) in POINTEE and m.group(1) != '?': return ('ptr', m.group(1))
    return ('other', '?')


def cpp_class_members(repo, bdir, aux, cst):
    """-> (list of Struct keyed by the mirrored C struct, rows, info).  A class of namespace xrlpp MIRRORS the C struct S when it has a constructor whose only
    parameter is a pointer / reference to S (C18's class maps: `compoundData(_compoundDataPod *cd)`, `Atom(const Crystal_Atom &)`, `Struct(Crystal_Struct *)`);
    that constructor's member-initialiser list says which field each data member is a copy of (`nAtomsAll(cd->nAtomsAll)`, `Elements(cd->Elements, cd->Elements +
    cd->nElements)`, `name(cd->name)`, the atom vector built from `atom` / `n_atom`).  One row per data member: (class, member, declared type mapped by
    `cpp_member_type`) against (struct, that field); a member without such an initialiser is paired with the field of its own name; a member that has neither
    (the private `Crystal_Struct *cs`, which holds the C object itself) is listed as skipped.  For a vector member the count field named by the initialiser
    must be an `int` field of the struct (row `(count field, int)`)."""
    ex = _cpp_typed_extractor(repo, bdir, aux)
    rel = 'cplusplus/xraylib++.h'
    maps = [cm for cm in ex.class_maps if cm.get('src') in cst]
    mirrors = {}
    for cm in maps:
        short = cm['cls'].rsplit('::', 1)[-1]
        if mirrors.setdefault(short, cm['src']) != cm['src']: raise TieError(rel, cm['line'], cm['cls'], 'two classes of this (unqualified) name mirror different C structs')
    rows = []; skipped = []; structs = []
    for cm in maps:
        cls, sname = cm['cls'], cm['src']
        cfields = dict(cst[sname].fields)
        inits = {}
        for m_, f in cm['inits']: inits.setdefault(m_, tuple(f))
        mem = [x for x in ex.member_types if x[0] == cls]
        if not mem: raise TieError(rel, cm['line'], cls, 'class with a constructor from a C struct, but no data member was found')
        fields = []
        for _, m_, q, dq, ln in mem:
            f = inits.get(m_, ('none',)); count = None
            if f[0] in ('scalar', 'string'): field = f[1]
            elif f[0] in ('range', 'atoms'): field, count = f[1], f[2]
            elif f[0] == 'adopt': skipped.append(dict(cls=cls, member=m_, declared=q, line=ln, why='holds the pointer to the C struct itself')); continue
            elif m_ in cfields: field = m_
            else: skipped.append(dict(cls=cls, member=m_, declared=q, line=ln, why='not initialised from a field of struct %s and no field of that name' % sname)); continue
            t = cpp_member_type(q, dq, mirrors)
            rows.append(dict(cls='xrlpp::' + cls, member=m_, declared=q, type=list(t), struct=sname, field=field, count=count, line=ln, file=rel, ctor_line=cm['line'], init=f[0]))
            if (field, t) not in fields: fields.append((field, t))
            if count is not None and (count, ('int', '?')) not in fields: fields.append((count, ('int', '?')))
        structs.append(Struct('xrlpp::' + cls, sname, fields, rel, cm['line'], 'class ' + cls))
    return structs, rows, dict(skipped=skipped, classes={('xrlpp::' + cm['cls']): cm['src'] for cm in maps},
                               other_classes=sorted({x[0] for x in ex.member_types} - {cm['cls'] for cm in maps}))


# =====================================================================================================
# versions

def versions(repo):
    """every place that states the version -> list of dict(file, line, what, version tuple as text)"""
    out = []
    def add(rel, ln, what, v, text): out.append(dict(file=rel, line=ln, what=what, version=v, text=text.strip()[:160]))
    def grep(rel, pat, what, conv=lambda m: m.group(1), required=True, first=True):
        p = os.path.join(repo, rel)
        if not os.path.exists(p):
            if required: raise TieError(rel, 0, '', 'file that should state the version is missing')
            return
        n = 0
        for ln, l in enumerate(open(p, errors='replace').read().splitlines(), 1):
            m = re.search(pat, l)
            if m:
                add(rel, ln, what, conv(m), l); n += 1
                if first: break
        if n == 0 and required: raise TieError(rel, 0, pat, 'version statement not found where expected')
    h = open(os.path.join(repo, 'include/xraylib.h')).read()
    mm = [re.search(r'^#define XRAYLIB_%s (\d+)' % k, h, flags=re.M) for k in ('MAJOR', 'MINOR', 'MICRO')]
    if not all(mm): raise TieError('include/xraylib.h', 0, '', 'XRAYLIB_MAJOR/MINOR/MICRO not found')
    add('include/xraylib.h', h[:mm[0].start()].count('\n') + 1, 'XRAYLIB_MAJOR.MINOR.MICRO', '.'.join(m.group(1) for m in mm), mm[0].group(0))
    grep('meson.build', r"^\s*version\s*:\s*'([\d.]+)'", 'project version')
    grep('configure.ac', r'AC_INIT\(\[xraylib\],\s*\[([\d.]+)\]', 'AC_INIT')
    grep('xraylib.spec', r'^Version:\s*([\d.]+)', 'Version')
    grep('pyproject.toml', r'^\s*version\s*=\s*"([\d.]+)"', 'version')
    grep('CITATION.cff', r'^version:\s*"?([\d.]+)"?', 'version')
    grep('Changelog', r'^Version\s+(\d+\.\d+\.\d+)\b', 'first (= newest) Changelog entry')
    grep('.bumpversion.cfg', r'^current_version\s*=\s*([\d.]+)', 'current_version')
    for rel in sorted(os.listdir(os.path.join(repo, 'windows'))) if os.path.isdir(os.path.join(repo, 'windows')) else []:
        p = 'windows/' + rel
        if os.path.isfile(os.path.join(repo, p)):
            grep(p, r'(?i)(?:AppVersion|MY_VERSION|define\s+MyAppVersion|VERSION)\s*[= ]\s*"?(\d+\.\d+\.\d+)"?', 'installer version', required=False)
    grep('idl/libxrlidl.dlm', r'^VERSION\s+([\d.]+)', 'DLM VERSION')
    # not read: windows/dotNetSrc (the separately maintained .NET wrapper; its AssemblyVersion 4.1.0 / VERSION_MINOR = 0 and the
    # example programs' 1.0.0 are that project's own assembly versions — the wrapper is not among the binding interfaces the
    # property lists and .bumpversion.cfg, the mechanism the property anchors, does not manage those files)
    grep('java/build.gradle.in', r"^\s*version\s*=?\s*'([\d.]+)'", 'gradle version')
    grep('doc/Doxyfile', r'^PROJECT_NUMBER\s*=\s*([\d.]+)', 'doxygen', required=False)
    # every file that bumpversion rewrites must be one we read (a new version-bearing file must not go unnoticed)
    bp = os.path.join(repo, '.bumpversion.cfg')
    if os.path.exists(bp):
        for ln, l in enumerate(open(bp).read().splitlines(), 1):
            m = re.match(r'\[bumpversion:file:(.+)\]', l)
            if m and m.group(1) not in {o['file'] for o in out}:
                raise TieError('.bumpversion.cfg', ln, l, 'bumpversion rewrites a file whose version statement the extractor does not read')
    return out


def libtool_versions(repo):
    """the libtool interface triple current:revision:age, stated independently by the two build systems, and the places that
    hard-code the resulting soname number (current - age): -> (triples, sonames)"""
    triples = []
    def one(rel, pats, what):
        txt = open(os.path.join(repo, rel)).read().splitlines()
        vals = []; where = 0
        for key, pat in pats:
            hit = [(ln, re.match(pat, l)) for ln, l in enumerate(txt, 1) if re.match(pat, l)]
            if len(hit) != 1: raise TieError(rel, 0, key, 'libtool version component not stated exactly once')
            vals.append(int(hit[0][1].group(1))); where = where or hit[0][0]
        triples.append(dict(file=rel, line=where, what=what, current=vals[0], revision=vals[1], age=vals[2], text='%d:%d:%d' % tuple(vals)))
    one('configure.ac', [('LIB_CURRENT', r'LIB_CURRENT=(\d+)\s*$'), ('LIB_REVISION', r'LIB_REVISION=(\d+)\s*$'), ('LIB_AGE', r'LIB_AGE=(\d+)\s*$')], 'LIB_CURRENT:LIB_REVISION:LIB_AGE')
    one('meson.build', [('lib_current', r'lib_current\s*=\s*(\d+)\s*$'), ('lib_revision', r'lib_revision\s*=\s*(\d+)\s*$'), ('lib_age', r'lib_age\s*=\s*(\d+)\s*$')], 'lib_current:lib_revision:lib_age')
    # how the two build systems turn the triple into the library version must stay what the comparison assumes
    mk = open(os.path.join(repo, 'src/Makefile.am')).read()
    if not re.search(r'libxrl_la_LDFLAGS\s*=\s*-version-info\s+@LIB_CURRENT@:@LIB_REVISION@:@LIB_AGE@', mk):
        raise TieError('src/Makefile.am', 0, 'libxrl_la_LDFLAGS', 'libxrl is no longer linked with -version-info @LIB_CURRENT@:@LIB_REVISION@:@LIB_AGE@')
    ms = open(os.path.join(repo, 'meson.build')).read()
    if not re.search(r"^version\s*=\s*'@0@\.@1@\.@2@'\.format\(\(lib_current - lib_age\), lib_age, lib_revision\)", ms, flags=re.M):
        raise TieError('meson.build', 0, 'version =', 'meson no longer derives the library version as (current-age).age.revision')
    return triples


def swig_invocations(repo):
    """the commands that run SWIG on src/xraylib.i in the six build files; xraylib.i %includes only xraylib.h, whose nested
    #includes SWIG follows only with -includeall -> [(file, line, has -includeall, text)]"""
    out = []
    for rel in ('lua/Makefile.am', 'perl/Makefile.am', 'php/Makefile.am', 'ruby/Makefile.am', 'python/Makefile.am'):
        p = os.path.join(repo, rel)
        if not os.path.exists(p): raise TieError(rel, 0, '', 'build file of a SWIG binding is missing')
        hits = []; acc = ''; start = 0
        for ln, l in enumerate(open(p).read().splitlines(), 1):
            if not acc: start = ln
            if l.endswith('\\'): acc += l[:-1] + ' '; continue
            acc += l
            if re.search(r'\$[({]SWIG[)}]', acc) and 'xraylib.i' in acc: hits.append((start, acc))
            acc = ''
        if not hits: raise TieError(rel, 0, '$(SWIG) … xraylib.i', 'no SWIG invocation found in the build file of a SWIG binding')
        for ln, l in hits:
            out.append(dict(file=rel, line=ln, flag=bool(re.search(r'(?<!\S)-includeall(?!\S)', l)), text=re.sub(r'\s+', ' ', l.strip())[:200]))
    rel = 'python/meson.build'
    p = os.path.join(repo, rel)
    if not os.path.exists(p): raise TieError(rel, 0, '', 'build file of a SWIG binding is missing')
    txt = open(p).read()
    cmds = [m for m in re.finditer(r'command\s*:\s*\[(.*?)\]', txt, flags=re.S) if re.search(r'(?<![\w\'])swig\s*,', m.group(1))]
    if not cmds: raise TieError(rel, 0, 'command : [swig, …]', 'no SWIG invocation found in python/meson.build')
    for m in cmds:
        args = re.findall(r"'([^']*)'", m.group(1))
        out.append(dict(file=rel, line=txt[:m.start()].count('\n') + 1, flag='-includeall' in args, text=re.sub(r'\s+', ' ', m.group(0))[:200]))
    return out


def meson_list_expr(txt, name, rel, depth=0):
    """value of a meson variable that is built from `files(…)`, `[…]` and `+` only -> list of strings (identifiers inside
    `[…]` are kept as `<name>`)"""
    if depth > 8: raise TieError(rel, 0, name, 'cyclic meson variable')
    ms = list(re.finditer(r'^%s\s*(\+?=)\s*' % re.escape(name), txt, flags=re.M))
    if not ms: raise TieError(rel, 0, name, 'meson variable not found')
    out = []
    for m in ms:
        i = m.end(); items = []
        while True:
            mt = re.compile(r'\s*(files\s*\(|\[|\w+)').match(txt, i)
            if not mt: raise TieError(rel, txt[:i].count('\n') + 1, name, 'meson expression not understood')
            tok = mt.group(1)
            if tok.startswith('files') or tok == '[':
                close = ')' if tok != '[' else ']'
                j = txt.index(close, mt.end())
                inner = txt[mt.end():j]
                for part in inner.split(','):
                    part = re.sub(r'#.*', '', part).strip()
                    if not part: continue
                    ms2 = re.fullmatch(r"'([^']+)'", part)
                    if ms2: items.append(ms2.group(1))
                    elif re.fullmatch(r'\w+', part) and tok == '[': items.append('<%s>' % part)
                    else: raise TieError(rel, txt[:mt.end()].count('\n') + 1, part, 'meson list element not understood')
                i = j + 1
            else:
                items += meson_list_expr(txt[:m.start()], tok, rel, depth + 1); i = mt.end()
            mp = re.compile(r'[ \t]*\+').match(txt, i)
            if mp: i = mp.end(); continue
            if not re.compile(r'[ \t]*(#[^\n]*)?\n').match(txt, i): raise TieError(rel, txt[:i].count('\n') + 1, name, 'meson expression not understood')
            break
        out = items if m.group(1) == '=' else out + items
    return out


def library_build_definition(repo):
    """what the repository's own build files say the shared library is made of:
         src/meson.build   library('xrl', <sources>, …, gnu_symbol_visibility: 'hidden'); custom_target xrayglob_inline.c
         src/Makefile.am   libxrl_la_SOURCES + nodist_libxrl_la_SOURCES, libxrl_la_CFLAGS with $(HIDDEN_VISIBILITY_CFLAGS)
         meson.build / configure.ac   the ELF definition of XRL_EXTERN
    -> dict(meson=[.c files], automake=[.c files], extern_meson, extern_autoconf, visibility_hidden)"""
    rel = 'src/meson.build'
    txt = open(os.path.join(repo, rel)).read()
    ml = re.search(r"\blibrary\s*\(\s*'xrl'\s*,\s*(\w+)\s*,(.*?)\n\)", txt, flags=re.S)
    if not ml: raise TieError(rel, 0, "library('xrl', …)", 'definition of the shared library not found')
    srcs = meson_list_expr(txt, ml.group(1), rel)
    gen = []
    for s_ in list(srcs):
        m = re.fullmatch(r'<(\w+)>', s_)
        if not m: continue
        mc = re.search(r"^%s\s*=\s*custom_target\s*\(\s*'([^']+)'\s*,\s*output\s*:\s*\[\s*'([^']+)'\s*\]" % m.group(1), txt, flags=re.M)
        if not mc: raise TieError(rel, 0, s_, 'non-file source of libxrl is not a custom_target with one output')
        srcs[srcs.index(s_)] = mc.group(2); gen.append(mc.group(2))
    vis = re.search(r"gnu_symbol_visibility\s*:\s*'(\w+)'", ml.group(2))
    rel2 = 'src/Makefile.am'
    mk = re.sub(r'#[^\n]*', '', open(os.path.join(repo, rel2)).read()).replace('\\\n', ' ')
    def var(name):
        m = re.search(r'^%s\s*=\s*(.*)$' % re.escape(name), mk, flags=re.M)
        if not m: raise TieError(rel2, 0, name, 'automake variable not found')
        return m.group(1).split()
    am = [x for x in var('libxrl_la_SOURCES') + var('nodist_libxrl_la_SOURCES') if x != '$(NULL)']
    for x in am:
        if not re.fullmatch(r'[\w.+-]+', x): raise TieError(rel2, 0, x, 'source list element not understood')
    am_vis = '$(HIDDEN_VISIBILITY_CFLAGS)' in var('libxrl_la_CFLAGS')
    top = open(os.path.join(repo, 'meson.build')).read()
    ext_m = re.findall(r"config_h_data\.set\('XRL_EXTERN',\s*'([^']*)'\)", top)
    ac = open(os.path.join(repo, 'configure.ac')).read()
    ext_a = re.findall(r'AC_DEFINE\(\[XRL_EXTERN\],\s*\[([^\]]*)\]', ac)
    if not ext_m: raise TieError('meson.build', 0, 'XRL_EXTERN', 'definition of XRL_EXTERN not found')
    if not ext_a: raise TieError('configure.ac', 0, 'XRL_EXTERN', 'definition of XRL_EXTERN not found')
    return dict(meson=sorted(x for x in srcs if x.endswith('.c')), automake=sorted(x for x in am if x.endswith('.c')), generated=gen,
                meson_all=srcs, automake_all=am, extern_meson=ext_m, extern_autoconf=ext_a,
                visibility_hidden=dict(meson=bool(vis and vis.group(1) == 'hidden'), automake=am_vis and 'HIDDEN_VISIBILITY_CFLAGS="-fvisibility=hidden"' in ac))


def emit_json(path, obj):
    json.dump(obj, open(path, 'w'), indent=0, sort_keys=True)
