#!/usr/bin/env python3
"""Footprint extraction for C16/C17 (DESIGN §2.3 side table 1), regenerated on every run.

From the clang-14 JSON AST of EVERY translation unit that goes into libxrl (vlib.cbuild.LIBXRL; the
generated xrayglob_inline.c is not parsed: its tables are the named globals of src/xrayglob.h and friends)
compute for every function definition

  reads     file-scope / `static` objects referenced
  writes    file-scope / `static` objects that may be WRITTEN: assignments, ++/--, compound assignment, and
            stores through pointers that may alias such an object, including a pointer handed to a callee
            (translated or libc) that writes through its parameter
  statics   local `static` variables (they are objects named `<function>::<var>`)
  callees   functions of the program that are called or whose address is taken
  exts      external functions (libc / libm) called; a stdio output call carries its stream: `fprintf@stderr`,
            `fprintf@stdout`, `fprintf@other` (stream argument not one of the three standard objects);
            the pseudo-callee `errno@read` = the function READS errno and lets the value influence what it does (see
            `errno reads` below): a dependence on what EARLIER calls left in that thread-local

Rows `<f>@user` (class `usermut`) are the crystal-array mutators analysed under the assumption that their
Crystal_Array* argument is not NULL (see `VARIANT analysis` below): the per-ARGUMENT footprint of the exemption clause.

The points-to analysis is a small flow-sensitive may-analysis over abstract regions

  G:<name>   a file-scope/static object and everything reachable from it      (collapsed)
  P:<i>      whatever the i-th parameter points to, transitively (caller-owned)  (collapsed)
  X          memory returned by an unknown external function                    (collapsed)
  L:<id>     a local variable                H:<id>  a heap block allocated at call site <id>
  S          string literals                 T       thread-local (errno)

with field sensitivity and strong updates on singular L/H regions (needed for the copy-then-overwrite idiom
of Crystal_MakeCopy); everything else is over-approximated.  Interprocedural summaries (parameters written
through, regions stored into parameters, regions returned) are iterated to a fixpoint.

errno reads.  `errno` is `*__errno_location()`; libc WRITES it on failure (allow-listed), but a library function that READS it depends
on hidden per-thread state unless the value it reads was produced inside the same call.  Every read is classified:
  report   the value is handed straight to `strerror` (the text of an error message after a failing libc call)
  saved    it initialises / is assigned to a local that is used for nothing but `errno = <that local>` (save and restore)
  cleared  an `errno = <expression without errno>` STATEMENT of an enclosing block precedes it, with no label / case label in between
           (so every path to the read passes the clearing: what is read was produced by this call)
  control  anything else: a stale value may decide the result -> pseudo-callee `errno@read` in `exts`, outside every allow-list

Usage:  footprint.py <build dir with config.h> <out Lean file> <out json>      (env VERIF_REPO)
The Lean file defines XrlSched.Gen.{fns, …Entries, localeProtocols}; see lean-sched/XrlSched/Hand/Footprint.lean.
"""
import sys, os, re, json, subprocess, hashlib
from concurrent.futures import ThreadPoolExecutor

HERE = os.path.dirname(os.path.abspath(__file__))
sys.path.insert(0, os.path.dirname(HERE)); sys.path.insert(0, HERE)
from vlib import cbuild

# ---- classification of the public entry points (everything not listed is a QUERY and held to the read-only standard)
MUTATORS = {'Crystal_AddCrystal', 'Crystal_ReadFile', 'Crystal_ArrayFree'}
ALLOC = {'xrl_malloc', 'xrl_strdup', 'xrl_strndup', 'xrlFree', 'FreeCompoundData', 'FreeCompoundDataNIST',
         'FreeRadioNuclideData', 'Crystal_Free', 'Crystal_ArrayInit'}
ERRORAPI = {'xrl_error_free', 'xrl_error_copy', 'xrl_error_matches', 'xrl_propagate_error', 'xrl_clear_error'}
DEPRECATED = {'SetHardExit', 'SetExitStatus', 'GetExitStatus', 'SetErrorMessages', 'GetErrorMessages'}

LIBC_OBJECTS = {'stdin', 'stdout', 'stderr', 'environ', '__environ', 'optarg', 'optind', 'opterr', 'optopt',
                'signgam', 'daylight', 'timezone', 'tzname', '__tzname', '__daylight', '__timezone', 'sys_nerr', 'sys_errlist',
                '_sys_nerr', '_sys_errlist'}

# external functions: which argument regions they write, what they return
ALLOCS = {'malloc', 'calloc', 'strdup', 'strndup', '__strdup', '__strndup', 'fopen', 'fdopen', 'tmpfile'}
EXT_WRITES = {   # name -> indices of pointer arguments written through ('rest:k' = every argument from k on)
    'free': [0], 'realloc': [0], 'memcpy': [0], 'memmove': [0], 'strcpy': [0], 'strncpy': [0], 'strcat': [0], 'strncat': [0],
    'memset': [0], 'sprintf': [0], 'snprintf': [0], 'vsprintf': [0], 'vsnprintf': [0], 'qsort': [0],
    'strtod': [1], 'strtol': [1], 'strtoul': [1], 'strtof': [1], 'strtold': [1], 'strtoll': [1],
    'vasprintf': [0], 'asprintf': [0], 'sscanf': 'rest:2', 'fscanf': 'rest:0', 'scanf': 'rest:1', 'fgets': [0, 2],
    'fclose': [0], 'fseek': [0], 'ftell': [0], 'feof': [0], 'rewind': [0], 'fread': [0, 3], 'fwrite': [3], 'fflush': [0],
    'getline': [0, 1, 2], 'frexp': [1], 'modf': [1], 'sincos': [1, 2], 'remquo': [2],
}
EXT_READONLY = {'strcmp', 'strncmp', 'strcasecmp', 'strlen', 'strchr', 'strrchr', 'strstr', 'memcmp', 'bsearch', 'lfind',
                'fprintf', 'vfprintf', 'printf', 'puts', 'fputs', 'perror', 'setlocale', 'strerror', 'abs', 'labs', 'atoi', 'atof',
                'isalpha', 'isdigit', 'islower', 'isupper', 'isspace', 'isalnum', 'tolower', 'toupper', '__ctype_b_loc',
                '__ctype_tolower_loc', '__ctype_toupper_loc', '__errno_location', 'exit', 'abort', '__assert_fail', 'getenv',
                'exp', 'log', 'log10', 'sqrt', 'pow', 'sin', 'cos', 'tan', 'asin', 'acos', 'atan', 'atan2', 'fabs', 'floor', 'ceil',
                'fmod', 'sinh', 'cosh', 'tanh', 'expm1', 'log1p', 'hypot', 'cbrt', 'round', 'trunc', 'fmax', 'fmin', 'ldexp',
                'isnan', 'isinf', 'finite', '__builtin_inf', '__builtin_nan', '__builtin_huge_val', '__builtin_isnan',
                '__builtin_va_start', '__builtin_va_end', '__builtin_va_copy', '__builtin_expect'}
RET_ARG = {'memcpy': 0, 'memmove': 0, 'strcpy': 0, 'strncpy': 0, 'strcat': 0, 'strncat': 0, 'memset': 0, 'fgets': 0,
           'bsearch': 1, 'lfind': 1, 'strchr': 0, 'strrchr': 0, 'strstr': 0, 'realloc': 0}
COPY_CONTENTS = {'memcpy': (0, 1), 'memmove': (0, 1), 'strcpy': (0, 1), 'strncpy': (0, 1)}
CALLBACK_FNS = {'qsort', 'bsearch', 'lfind', 'lsearch'}
# stdio output functions: index of the FILE* argument.  The footprint records WHICH stream (`fprintf@stderr`): only diagnostics on
# stderr are exempted by the property, so the allow-list of Props/C16.lean names `fprintf@stderr` and nothing else of this family
STREAM_ARG = {'fprintf': 0, 'vfprintf': 0, 'fputs': 1, 'fputc': 1, 'putc': 1, 'fwrite': 3, 'fflush': 0}
# integer types wide enough to carry a pointer through a (u)intptr_t round trip: values of these types keep their regions
PTRINT = {'long', 'unsigned long', 'long long', 'unsigned long long', 'size_t', 'ssize_t', 'uintptr_t', 'intptr_t', 'ptrdiff_t',
          '__int128', 'unsigned __int128', 'long int', 'unsigned long int', 'long unsigned int', 'long long int', 'unsigned long long int'}
VARIANT_SUFFIX = '@user'
VARIANT_PARAM_TYPE = 'Crystal_Array *'

def kind(n): return n.get('kind')
def inner(n): return [c for c in n.get('inner', []) if isinstance(c, dict) and c]
def qt(n): return n.get('type', {}).get('qualType', '')

COLLAPSED = ('G', 'P', 'X')

class State:
    """(region, field) -> set of regions.  field '@' = the object itself / whole value, '*' = unknown part"""
    def __init__(self, d=None): self.d = d if d is not None else {}
    def copy(self): return State({k: set(v) for k, v in self.d.items()})
    def lookup(self, key):
        r, f = key
        if f in ('@', '*'): return self.d.get(key, set())
        while True:
            if (r, f) in self.d: return self.d[(r, f)]
            if '.' not in f: break
            f = f.rsplit('.', 1)[0]
        return self.d.get((r, '@'), set())
    def load(self, key):
        r, f = key
        out = set()
        if r[0] in COLLAPSED: out.add(r)
        if f in ('@', '*'):
            for (r2, f2), v in self.d.items():
                if r2 == r: out |= v
        else:
            out |= self.lookup(key) | self.d.get((r, '*'), set())
        return out
    def store(self, key, vals, strong):
        r, f = key
        if r[0] in COLLAPSED or f == '*': strong = False
        if r[0] in COLLAPSED: key = (r, '*')
        if strong:
            if f == '@':
                for k in [k for k in self.d if k[0] == r]: del self.d[k]
            self.d[key] = set(vals)
        else:
            if f not in ('@', '*') and key not in self.d:
                self.d[key] = set(self.d.get((r, '@'), set()))
            self.d.setdefault(key, set()).update(vals)
    def join(self, other):
        out = {}
        for k in set(self.d) | set(other.d):
            out[k] = set(self.lookup(k)) | set(other.lookup(k))
        return State(out)
    def __eq__(self, o): return self.d == o.d
    def regions_of(self, r):
        out = set()
        for (r2, f2), v in self.d.items():
            if r2 == r: out |= v
        return out
    def reach(self, regs):
        seen = set(); todo = list(regs)
        while todo:
            r = todo.pop()
            if r in seen: continue
            seen.add(r)
            todo += [x for x in self.regions_of(r) if x not in seen]
        return seen

class Summary:
    def __init__(self):
        self.pw = set()        # parameter indices written through
        self.pc = {}           # parameter index -> exported regions stored into it
        self.ret = set()       # exported regions returned
        self.hc = set()        # exported regions stored into heap blocks that escape
    def key(self): return (frozenset(self.pw), frozenset((k, frozenset(v)) for k, v in self.pc.items()), frozenset(self.ret), frozenset(self.hc))

class FnInfo:
    def __init__(self, name, tu, node):
        self.name = name; self.tu = tu; self.node = node
        self.params = [c for c in inner(node) if kind(c) == 'ParmVarDecl']
        self.reads = set(); self.writes = set(); self.statics = set(); self.callees = set(); self.exts = set()
        self.unknown_writes = set()
        self.sum = Summary()
        self.locale_ops = []     # extracted setlocale protocol
        self.locale_complex = False
        self.assume = None       # VARIANT rows: indices of the pointer parameters assumed non-NULL on entry
        self.errno_reads = {}    # class (report / saved / cleared / control) -> number of reads of errno

class TU:
    def __init__(self, path, ast):
        self.path = path; self.ast = ast
        self.gvars = {}      # decl id -> name (file-scope objects of the library)
        self.libc_objs = {}  # decl id -> name
        self.fnptr_tables = {}
        self.rec_by_id = {}; self.name2rec = {}; self.arith_names = set(); self.wide_names = set()
        def rec_id(t):
            for c in inner(t):
                if kind(c) == 'RecordType': return ('rec', c.get('decl', {}).get('id'))
                if kind(c) in ('EnumType', 'BuiltinType'): return ('arith', qt(c))
                r = rec_id(c)
                if r: return r
            return None
        for n in ast['inner']:
            if kind(n) == 'RecordDecl' and n.get('completeDefinition'):
                self.rec_by_id[n['id']] = [(c['name'], c['type'].get('desugaredQualType') or c['type']['qualType']) for c in inner(n) if kind(c) == 'FieldDecl' and 'name' in c]
                if n.get('name'): self.name2rec[n.get('tagUsed', 'struct') + ' ' + n['name']] = n['id']
            if kind(n) == 'TypedefDecl':
                r = rec_id(n)
                if r and r[0] == 'rec': self.name2rec[n['name']] = r[1]
                elif r:
                    self.arith_names.add(n['name'])
                    if r[1] in PTRINT: self.wide_names.add(n['name'])
            if kind(n) == 'EnumDecl' and n.get('name'): self.arith_names.add('enum ' + n['name'])
        for n in ast['inner']:
            if kind(n) == 'VarDecl':
                nm = n['name']
                has_init = any(kind(c) and not kind(c).endswith('Attr') and not kind(c).endswith('Comment') for c in inner(n))
                if nm in LIBC_OBJECTS or nm.startswith('_IO_') or (nm.startswith('__') and n.get('storageClass') == 'extern' and not has_init):
                    self.libc_objs[n['id']] = nm
                else:
                    self.gvars[n['id']] = nm
                    if '(*' in qt(n):
                        names = set()
                        def coll(x):
                            if kind(x) == 'DeclRefExpr' and x.get('referencedDecl', {}).get('kind') == 'FunctionDecl':
                                names.add(x['referencedDecl']['name'])
                            for c in inner(x): coll(c)
                        coll(n)
                        self.fnptr_tables[nm] = names

ARITH = {'int', 'unsigned int', 'unsigned', 'long', 'unsigned long', 'long long', 'unsigned long long', 'short', 'unsigned short',
         'char', 'signed char', 'unsigned char', 'double', 'float', 'long double', '_Bool', 'void', 'size_t', 'ssize_t', '__int128', 'unsigned __int128'}

def ptr_fields(tu, t, depth=0):
    """None: `t` cannot hold a pointer.  []: it is (or may be) a pointer itself / unknown.  [f, …]: record; these fields may hold pointers"""
    t = re.sub(r'\b(const|volatile|restrict)\b', '', t).strip()
    t = re.sub(r'\s+', ' ', t)
    if '*' in t or '(' in t: return []
    if '[' in t: return ptr_fields(tu, t[:t.index('[')], depth)
    if t in PTRINT or t in tu.wide_names: return []        # may carry a pointer value (int <-> pointer casts)
    if t in ARITH or t.startswith('enum ') or t in tu.arith_names: return None
    rid = tu.name2rec.get(t) or tu.name2rec.get('struct ' + t) or tu.name2rec.get('union ' + t)
    if rid is None and t.startswith('struct '): rid = tu.name2rec.get(t[7:])
    if rid is None or rid not in tu.rec_by_id or depth > 6: return []
    fs = [fn for fn, ft in tu.rec_by_id[rid] if ptr_fields(tu, ft, depth + 1) is not None]
    return fs if fs else None

def type_of(n):
    t = n.get('type', {})
    return t.get('desugaredQualType') or t.get('qualType') or ''

class Analyzer:
    def __init__(self, repo, flags):
        self.repo = repo; self.flags = flags
        self.tus = {}; self.fns = {}; self.visible = set()
        self.problems = []
        self.variants = {}        # function name -> None (every `Crystal_Array *` parameter) or a list of parameter indices

    def load(self, cfile):
        src = cfile if os.path.isabs(cfile) else os.path.join(self.repo, 'src', cfile)
        p = subprocess.run(['clang-14'] + self.flags + ['-Xclang', '-ast-dump=json', '-fsyntax-only', src], capture_output=True, text=True)
        if p.returncode != 0:
            raise RuntimeError('clang failed on %s: %s' % (cfile, p.stderr[-2000:]))
        return cfile, json.loads(p.stdout)

    def add_tu(self, cfile, ast):
        tu = TU(cfile, ast); self.tus[cfile] = tu
        for n in ast['inner']:
            if kind(n) != 'FunctionDecl': continue
            if any(kind(c) == 'VisibilityAttr' for c in inner(n)): self.visible.add(n['name'])
            if not any(kind(c) == 'CompoundStmt' for c in inner(n)): continue
            name = n['name']
            if name.startswith('__'): continue       # static inline helpers of system headers
            if name in self.fns:
                if n.get('storageClass') == 'static' or self.fns[name].node.get('storageClass') == 'static':
                    name = '%s:%s' % (cfile, name)
                else:
                    self.problems.append('function %s defined in %s and %s' % (name, self.fns[name].tu.path, cfile)); continue
            self.fns[name] = FnInfo(name, tu, n)
            if n['name'] in self.variants:
                # VARIANT analysis: the same body under the assumption that the listed pointer parameters are not NULL on entry
                v = FnInfo(name + VARIANT_SUFFIX, tu, n)
                idxs = self.variants[n['name']]
                if idxs is None: idxs = [i for i, p_ in enumerate(v.params) if qt(p_).replace('const ', '').strip() in (VARIANT_PARAM_TYPE, VARIANT_PARAM_TYPE.replace(' *', '*'))]
                v.assume = frozenset(idxs)
                self.fns[v.name] = v

    def resolve(self, tu, name):
        """function name as seen from `tu` -> key in self.fns"""
        k = '%s:%s' % (tu.path, name)
        if k in self.fns: return k
        return name if name in self.fns else None

    def run(self):
        for it in range(12):
            before = {k: f.sum.key() for k, f in self.fns.items()}
            for f in self.fns.values():
                FnWalk(self, f).analyze()
            if before == {k: f.sum.key() for k, f in self.fns.items()}: break
        else:
            self.problems.append('summaries did not stabilise')

class FnWalk:
    def __init__(self, an, f):
        self.an = an; self.f = f; self.tu = f.tu
        self.st = State()
        self.multi = set()        # regions that may stand for several objects (allocated in a loop)
        self.frames = []          # enclosing loops / switches: states at their break / continue statements
        self.loop = 0
        self.static_locals = {}
        self.param_idx = {p['id']: i for i, p in enumerate(f.params)}
        self.rets = set(); self.ret_exp = set()
        self.array_locals = set()
        self.flow_insensitive = False
        self.addr_taken = set(); self.dead = set(); self.invariant_nonnull = set(); self.nonnull = set()
        self.var_types = {p['id']: qt(p) for p in f.params}
        def pre(n):
            if kind(n) in ('GotoStmt', 'IndirectGotoStmt'): self.flow_insensitive = True
            if kind(n) == 'VarDecl':
                if n.get('storageClass') == 'static':
                    self.static_locals[n['id']] = '%s::%s' % (f.name, n['name'])
                if '[' in qt(n): self.array_locals.add(n['id'])
                self.var_types[n['id']] = qt(n)
            if kind(n) == 'UnaryOperator' and n.get('opcode') == '&':
                y = inner(n)[0]
                while kind(y) in ('ParenExpr',): y = inner(y)[0]
                if kind(y) == 'DeclRefExpr': self.addr_taken.add(y.get('referencedDecl', {}).get('id'))
            for c in inner(n): pre(c)
        pre(self.body())
        if f.assume: self.find_dead_branches()

    # ---- VARIANT analysis: NULL tests on pointer parameters that are assumed non-NULL ------------------------------------
    @staticmethod
    def _strip(y, kinds=('ParenExpr', 'ImplicitCastExpr', 'CStyleCastExpr')):
        while kind(y) in kinds: y = inner(y)[-1]
        return y
    def nulltest(self, cond):
        """-> (decl id, True) if `cond` holds exactly when that pointer variable is NULL, (id, False) if exactly when it is not; else None"""
        y = self._strip(cond, ('ParenExpr',))
        def var(z):
            z = self._strip(z)
            if kind(z) == 'DeclRefExpr' and z.get('referencedDecl', {}).get('kind') in ('VarDecl', 'ParmVarDecl'):
                i = z['referencedDecl']['id']
                if '*' in self.var_types.get(i, ''): return i
            return None
        def isnull(z):
            z = self._strip(z)
            return kind(z) == 'GNUNullExpr' or (kind(z) == 'IntegerLiteral' and z.get('value') == '0')
        if kind(y) == 'BinaryOperator' and y.get('opcode') in ('==', '!='):
            a, b = inner(y)
            for u, w in ((a, b), (b, a)):
                if isnull(w) and var(u) is not None: return (var(u), y['opcode'] == '==')
            return None
        if kind(y) == 'UnaryOperator' and y.get('opcode') == '!':
            i = var(inner(y)[0])
            return (i, True) if i is not None else None
        i = var(y)
        return (i, False) if i is not None else None
    def find_dead_branches(self):
        """branches that cannot be taken when the assumed parameters are non-NULL.  A parameter counts only while nothing in the LIVE part
        of the body assigns it or takes its address (so it still holds its entry value at every test)."""
        pid = {self.f.params[i]['id'] for i in self.f.assume if i < len(self.f.params)}
        inv = {i for i in pid if i not in self.addr_taken}
        # greatest fixpoint: start from "every assumed parameter keeps its entry value", drop a parameter as soon as LIVE code assigns it
        # (sound by induction over an execution: only live code runs, and live code never assigns a parameter that is still in `inv`)
        for rnd in range(len(pid) + 2):
            dead = set()
            def find(n):
                if kind(n) == 'IfStmt':
                    c = inner(n); nt = self.nulltest(c[0])
                    if nt and nt[0] in inv:
                        if nt[1]: dead.add(c[1]['id'])
                        elif len(c) > 2: dead.add(c[2]['id'])
                for c in inner(n): find(c)
            find(self.body())
            assigned = set()
            def scan(n):
                if n.get('id') in dead: return
                k = kind(n)
                if k in ('BinaryOperator', 'CompoundAssignOperator') and (n.get('opcode') == '=' or k == 'CompoundAssignOperator'):
                    z = self._strip(inner(n)[0], ('ParenExpr',))
                    if kind(z) == 'DeclRefExpr': assigned.add(z.get('referencedDecl', {}).get('id'))
                if k == 'UnaryOperator' and n.get('opcode') in ('++', '--'):
                    z = self._strip(inner(n)[0], ('ParenExpr',))
                    if kind(z) == 'DeclRefExpr': assigned.add(z.get('referencedDecl', {}).get('id'))
                for c in inner(n): scan(c)
            scan(self.body())
            inv2 = inv - assigned
            self.dead = dead; self.invariant_nonnull = inv
            if inv2 == inv: break
            inv = inv2
        else:
            self.dead = set(); self.invariant_nonnull = set()
    @classmethod
    def exits(cls, n):
        if kind(n) in ('ReturnStmt', 'GotoStmt'): return True
        if kind(n) == 'CompoundStmt':
            st = inner(n)
            return bool(st) and cls.exits(st[-1])
        return False
    def arg_nonnull(self, a):
        y = self._strip(a)
        if kind(y) == 'UnaryOperator' and y.get('opcode') == '&': return True
        if kind(y) == 'DeclRefExpr': return y.get('referencedDecl', {}).get('id') in (self.nonnull | self.invariant_nonnull)
        return False
    def kill_nonnull(self, keys):
        for (r, _) in keys:
            if r.startswith('L:'): self.nonnull.discard(r[2:])

    def body(self):
        return [c for c in inner(self.f.node) if kind(c) == 'CompoundStmt'][0]

    def analyze(self):
        f = self.f
        f.statics = set(self.static_locals.values())
        for i, p in enumerate(f.params):
            self.st.store(('L:' + p['id'], '@'), {'P:%d' % i}, True)
        if self.flow_insensitive:
            # goto: no strong updates, iterate the body until the (monotonically growing) state is stable
            for it in range(12):
                before = self.st.copy(); self.nonnull = set(); self.stmt(self.body())
                if self.st == before: break
        else:
            self.nonnull = set(); self.stmt(self.body())
        self.snapshot()
        f.sum.ret |= self.ret_exp
        self.extract_locale()
        self.errno_scan()

    def snapshot(self):
        """export the summaries as they stand at a return point (or at the end of the body)"""
        s = self.f.sum
        self.ret_exp |= self.export(self.rets)
        for (r, fld), v in list(self.st.d.items()):
            if r.startswith('P:'):
                e = self.export(v) - {r}
                if e: s.pc.setdefault(int(r[2:]), set()).update(e)
            if r.startswith('H:'):
                s.hc |= self.export(v)

    def export(self, regs):
        out = set()
        for r in self.st.reach(regs) if regs else ():
            if r.startswith('L:'): continue
            out.add('H' if r.startswith('H:') else r)
        return out

    # ---- effects ----------------------------------------------------------------------------
    def write(self, keys):
        for (r, fld) in keys:
            if r.startswith('G:'): self.f.writes.add(r[2:])
            elif r.startswith('P:'): self.f.sum.pw.add(int(r[2:]))
            elif r == 'X': self.f.unknown_writes.add('?unknown-pointer')
    def singular(self, r):
        if r in self.multi or self.flow_insensitive: return False
        if r.startswith('L:'): return r[2:] not in self.array_locals
        if r.startswith('H:'): return True
        return False
    def assign(self, keys, vals):
        self.write(keys)
        keys = list(keys); self.kill_nonnull(keys)
        strong = len(keys) == 1 and self.singular(keys[0][0])
        for k in keys: self.st.store(k, vals, strong)

    # ---- lvalues -----------------------------------------------------------------------------
    def loc(self, n):
        k = kind(n)
        if k == 'DeclRefExpr':
            rd = n.get('referencedDecl', {}); rk = rd.get('kind'); i = rd.get('id')
            if rk in ('VarDecl', 'ParmVarDecl'):
                if i in self.static_locals:
                    self.f.reads.add(self.static_locals[i]); return {('G:' + self.static_locals[i], '@')}
                if i in self.tu.gvars:
                    self.f.reads.add(self.tu.gvars[i]); return {('G:' + self.tu.gvars[i], '@')}
                if i in self.tu.libc_objs:
                    self.f.reads.add('libc:' + self.tu.libc_objs[i]); return {('X', '@')}
                return {('L:' + i, '@')}
            return set()
        if k == 'MemberExpr':
            fld = n.get('name', '?')
            base = inner(n)[0]
            if n.get('isArrow'):
                keys = {(r, '@') for r in self.val(base)}
            else:
                keys = self.loc(base)
            out = set()
            for (r, f0) in keys:
                if f0 == '@': out.add((r, fld))
                elif f0 == '*': out.add((r, '*'))
                else: out.add((r, f0 + '.' + fld))
            return out
        if k == 'ArraySubscriptExpr':
            a, b = inner(n)[0], inner(n)[1]
            regs = self.val(a) | self.val(b)          # the index is arithmetic: the typed `val` returns no region for it
            return {(r, '*') for r in regs}
        if k == 'UnaryOperator':
            op = n.get('opcode')
            if op == '*': return {(r, '@') for r in self.val(inner(n)[0])}
            if op in ('__extension__', '__real', '__imag'): return self.loc(inner(n)[0])
            if op in ('++', '--'):
                self.val(n); return self.loc(inner(n)[0])
        if k in ('ParenExpr', 'ImplicitCastExpr', 'CStyleCastExpr', 'ConstantExpr'):
            return self.loc(inner(n)[-1])
        if k == 'StringLiteral': return {('S', '@')}
        if k in ('ConditionalOperator',):
            c = inner(n); self.val(c[0]); return self.loc(c[1]) | self.loc(c[2])
        if k in ('CallExpr', 'CompoundLiteralExpr', 'VAArgExpr', 'StmtExpr', 'BinaryOperator', 'CompoundAssignOperator'):
            v = self.val(n)
            key = ('L:tmp' + n.get('id', ''), '@')
            self.st.store(key, v, True)
            return {key}
        self.an.problems.append('%s: unhandled lvalue kind %s' % (self.f.name, k))
        return {('X', '@')}

    # ---- rvalues ----------------------------------------------------------------------------
    def loadkeys(self, keys):
        out = set()
        for key in keys: out |= self.st.load(key)
        return out

    def val(self, n):
        r = self.val0(n)
        if r and 'type' in n and ptr_fields(self.tu, type_of(n)) is None: return set()
        return r

    def assign_typed(self, lhs_node, keys, v):
        """assignment; a record-typed target is expanded into its pointer-holding fields"""
        fs = ptr_fields(self.tu, type_of(lhs_node)) if 'type' in lhs_node else []
        if fs:
            self.write(keys)
            ks = list(keys); self.kill_nonnull(ks)
            for (r, f0) in ks:
                strong = len(ks) == 1 and self.singular(r) and f0 != '*'
                if strong and f0 == '@': self.st.store((r, '@'), set(), True)
                for fld in fs:
                    self.st.store((r, fld if f0 == '@' else ('*' if f0 == '*' else f0 + '.' + fld)), v, strong)
        else:
            self.assign(keys, v if fs is not None else set())

    def val0(self, n):
        k = kind(n)
        if k == 'ImplicitCastExpr':
            ck = n.get('castKind'); c = inner(n)[0]
            if ck == 'LValueToRValue': return self.loadkeys(self.loc(c))
            if ck == 'ArrayToPointerDecay': return {r for r, _ in self.loc(c)}
            if ck == 'FunctionToPointerDecay': self.fnref(c); return set()
            if ck == 'NullToPointer': return set()
            return self.val(c)
        if k in ('ParenExpr', 'CStyleCastExpr', 'ConstantExpr'):
            return self.val(inner(n)[-1])
        if k in ('IntegerLiteral', 'FloatingLiteral', 'CharacterLiteral', 'UnaryExprOrTypeTraitExpr', 'GNUNullExpr', 'ImplicitValueInitExpr', 'OffsetOfExpr'):
            return set()
        if k == 'StringLiteral': return {'S'}
        if k == 'DeclRefExpr':
            rk = n.get('referencedDecl', {}).get('kind')
            if rk == 'FunctionDecl': self.fnref(n); return set()
            if rk == 'EnumConstantDecl': return set()
            return self.loadkeys(self.loc(n))
        if k in ('MemberExpr', 'ArraySubscriptExpr'):
            return self.loadkeys(self.loc(n))
        if k == 'UnaryOperator':
            op = n.get('opcode'); c = inner(n)[0]
            if op == '&':
                if kind(c) == 'DeclRefExpr' and c.get('referencedDecl', {}).get('kind') == 'FunctionDecl':
                    self.fnref(c); return set()
                return {r for r, _ in self.loc(c)}
            if op == '*': return self.loadkeys(self.loc(n))
            if op in ('++', '--'):
                keys = self.loc(c); self.write(keys); self.kill_nonnull(keys); return self.loadkeys(keys)
            return self.val(c) if op in ('__extension__', '+') else (self.val(c) and set())
        if k == 'BinaryOperator':
            op = n.get('opcode'); a, b = inner(n)
            if op == '=':
                v = self.val(b); keys = self.loc(a); self.assign_typed(a, keys, v); return v
            if op == ',': self.val(a); return self.val(b)
            va = self.val(a); vb = self.val(b)
            if op == '-' and '*' in type_of(a) and '*' in type_of(b): return set()      # a difference of two pointers is an offset
            return (va | vb) if op in ('+', '-') else set()
        if k == 'CompoundAssignOperator':
            a, b = inner(n)
            v = self.val(b); keys = self.loc(a); self.write(keys); self.kill_nonnull(keys)
            for key in keys: self.st.store(key, v, False)
            return self.loadkeys(keys)
        if k in ('ConditionalOperator', 'BinaryConditionalOperator'):
            c = inner(n); self.val(c[0])
            out = set()
            for x in c[1:]: out |= self.val(x)
            return out
        if k == 'CallExpr': return self.call(n)
        if k == 'AtomicExpr':
            # __atomic_* / __c11_atomic_* builtins: the AST does not say which one, so every one of them is taken to WRITE through its
            # first (pointer) operand — fetch_add, store, exchange, compare_exchange do; a pure load is over-approximated
            c = inner(n)
            regs = self.val(c[0]) if c else set()
            v = set()
            for x in c[1:]: v |= self.val(x)
            keys = {(r, '*') for r in regs}
            self.write(keys)
            for key in keys: self.st.store(key, v, False)
            for x in c[1:]:                                    # compare_exchange writes `expected` too
                if '*' in type_of(x): self.write({(r, '*') for r in self.val(x)})
            return self.loadkeys(keys)
        if k == 'VAArgExpr':
            for c in inner(n): self.val(c)
            return {'X'}
        if k == 'StmtExpr':
            for c in inner(n): self.stmt(c)
            return {'X'}
        out = set()
        for c in inner(n): out |= self.val(c)     # InitListExpr, CompoundLiteralExpr, …
        return out

    def fnref(self, n):
        nm = n.get('referencedDecl', {}).get('name')
        key = self.an.resolve(self.tu, nm)
        if key: self.f.callees.add(key)
        return key

    # ---- calls ------------------------------------------------------------------------------
    def call(self, n):
        c = inner(n)
        callee = c[0]; args = c[1:]
        targets = []      # program functions possibly called
        ext = None
        x = callee
        while kind(x) in ('ImplicitCastExpr', 'ParenExpr', 'CStyleCastExpr'): x = inner(x)[0]
        if kind(x) == 'DeclRefExpr' and x.get('referencedDecl', {}).get('kind') == 'FunctionDecl':
            nm = x['referencedDecl']['name']
            key = self.an.resolve(self.tu, nm)
            if key and self.f.assume is not None and (key + VARIANT_SUFFIX) in self.an.fns:
                va_ = self.an.fns[key + VARIANT_SUFFIX]
                if va_.assume and all(i < len(args) and self.arg_nonnull(args[i]) for i in va_.assume): key = key + VARIANT_SUFFIX
            if key: targets.append(key); self.f.callees.add(key)
            else:
                ext = nm; label = nm
                if nm in STREAM_ARG:
                    i = STREAM_ARG[nm]; tag = 'other'
                    if i < len(args):
                        y = self._strip(args[i])
                        if kind(y) == 'DeclRefExpr':
                            tag = self.tu.libc_objs.get(y.get('referencedDecl', {}).get('id'), 'other')
                            if tag not in ('stderr', 'stdout', 'stdin'): tag = 'other'
                    label = '%s@%s' % (nm, tag)
                self.f.exts.add(label)
        else:
            # indirect: through a constant function-pointer table, or unknown
            found = set()
            def coll(y):
                if kind(y) == 'DeclRefExpr':
                    nm = y.get('referencedDecl', {}).get('name')
                    if nm in self.tu.fnptr_tables: found.update(self.tu.fnptr_tables[nm])
                for z in inner(y): coll(z)
            coll(callee); self.val(callee)
            for nm in found:
                key = self.an.resolve(self.tu, nm)
                if key: targets.append(key); self.f.callees.add(key)
            if not found:
                ext = '?indirect-call'; self.f.exts.add(ext)
        avals = [self.val(a) for a in args]
        areach = [self.st.reach(v) for v in avals]
        # functions passed as arguments (comparators): assume called with every parameter aliasing every other argument
        fnargs = []
        for a in args:
            y = a
            while kind(y) in ('ImplicitCastExpr', 'ParenExpr', 'CStyleCastExpr') or (kind(y) == 'UnaryOperator' and y.get('opcode') == '&'): y = inner(y)[0]
            if kind(y) == 'DeclRefExpr' and y.get('referencedDecl', {}).get('kind') == 'FunctionDecl':
                key = self.an.resolve(self.tu, y['referencedDecl']['name'])
                if key: fnargs.append(key)
                else: self.f.exts.add(y['referencedDecl']['name'])
        allregs = set().union(*areach) if areach else set()
        for g in fnargs:
            gs = self.an.fns[g].sum
            if gs.pw: self.write({(r, '*') for r in allregs})
        result = set()
        site = 'H:' + n.get('id', '?')
        for t in targets:
            s = self.an.fns[t].sum
            def subst(regs):
                out = set()
                for r in regs:
                    if r.startswith('P:'):
                        i = int(r[2:])
                        if i < len(areach): out |= areach[i]
                    elif r == 'H':
                        out.add(site)
                    else: out.add(r)
                return out
            for i in s.pw:
                if i < len(areach): self.write({(r, '*') for r in areach[i]})
            for i, regs in s.pc.items():
                if i < len(areach):
                    v = subst(regs)
                    for r in areach[i]: self.st.store((r, '*'), v, False)
            rv = subst(s.ret)
            if site in rv:
                if self.loop: self.multi.add(site)
                self.st.store((site, '*'), subst(s.hc), False)
            result |= rv
        if ext is not None:
            if ext in ALLOCS:
                if self.loop: self.multi.add(site)
                result.add(site)
            w = EXT_WRITES.get(ext)
            targ = avals             # a libc function writes the block it is handed, not what that block points to
            if w is None and ext not in EXT_READONLY and ext not in ALLOCS:
                w = 'rest:0'; targ = areach        # unknown external function: everything reachable from any pointer argument
                result.add('X')
            if isinstance(w, str):
                w = list(range(int(w.split(':')[1]), len(args)))
            for i in (w or []):
                if i < len(targ): self.write({(r, '*') for r in targ[i]})
            if ext in RET_ARG and RET_ARG[ext] < len(avals): result |= avals[RET_ARG[ext]]
            if ext == 'realloc':
                if self.loop: self.multi.add(site)
                result.add(site)
                if avals: self.st.store((site, '*'), self.loadkeys({(r, '*') for r in avals[0]}), False)
            if ext in COPY_CONTENTS:
                d, s_ = COPY_CONTENTS[ext]
                src = args[s_] if s_ < len(args) else {}
                while kind(src) in ('ImplicitCastExpr', 'CStyleCastExpr', 'ParenExpr') and src.get('castKind') in ('BitCast', 'NoOp', None) and '*' in type_of(inner(src)[0]): src = inner(src)[0]
                pointee = type_of(src).rsplit('*', 1)[0] if '*' in type_of(src) else 'void *'
                if max(d, s_) < len(avals) and ptr_fields(self.tu, pointee) is not None and pointee.strip() not in ('void', 'const void'):
                    v = self.loadkeys({(r, '*') for r in avals[s_]})
                    for r in avals[d]: self.st.store((r, '*'), v, False)
            if ext in ('strtod', 'strtol', 'strtoul', 'strtof') and len(avals) > 1:
                for r in avals[1]: self.st.store((r, '*'), avals[0], False)
            if ext in ('vasprintf', 'asprintf') and avals:
                if self.loop: self.multi.add(site)
                for r in avals[0]: self.st.store((r, '*'), {site}, False)
            if ext in ('setlocale', 'strerror', 'getenv', '__ctype_b_loc', '__ctype_tolower_loc', '__ctype_toupper_loc'): result.add('X')
            if ext == '__errno_location': result.add('T')
        return result

    # ---- statements -------------------------------------------------------------------------
    def stmt(self, n):
        k = kind(n)
        if k is None: return
        if k == 'CompoundStmt':
            for c in inner(n): self.stmt(c)
        elif k == 'DeclStmt':
            for d in inner(n):
                if kind(d) == 'VarDecl':
                    init = [c for c in inner(d) if kind(c) not in (None,) and not kind(c).endswith('Attr')]
                    if d.get('storageClass') == 'static':
                        for c in init: self.val(c)
                        continue
                    if init:
                        v = set()
                        for c in init: v |= self.val(c)
                        self.assign_typed(d, {('L:' + d['id'], '@')}, v)
        elif k == 'IfStmt':
            c = inner(n)
            self.val(c[0])
            s0 = self.st.copy(); nn0 = set(self.nonnull)
            outs = []
            if c[1].get('id') not in self.dead:
                self.stmt(c[1]); outs.append(self.st)
            self.st = s0.copy(); self.nonnull = set(nn0)
            if len(c) > 2:
                if c[2].get('id') not in self.dead:
                    self.stmt(c[2]); outs.append(self.st)
            else:
                outs.append(self.st)
            st = outs[0] if outs else s0
            for o in outs[1:]: st = st.join(o)
            self.st = st
            # what was learnt inside a branch does not survive the join; a test `if (v == NULL) { …; return/goto }` teaches v != NULL below
            self.nonnull = nn0
            nt = self.nulltest(c[0])
            if nt and nt[1] and self.exits(c[1]) and nt[0] not in self.addr_taken:
                self.nonnull.add(nt[0])
        elif k in ('ForStmt', 'WhileStmt', 'DoStmt'):
            raw = n.get('inner', [])
            if k == 'ForStmt':
                init, _, cond, inc, body = (raw + [{}] * 5)[:5]
                if init: self.stmt(init)
            elif k == 'WhileStmt':
                cond, body = raw[0], raw[-1]; inc = {}
            else:
                body, cond = raw[0], raw[1]; inc = {}
            self.loop += 1
            breaks = []; nn0 = set(self.nonnull)
            for it in range(10):
                s_in = self.st.copy(); self.nonnull = set(nn0)
                fr = dict(kind='loop', breaks=[], continues=[]); self.frames.append(fr)
                if cond and k != 'DoStmt': self.val(cond)
                if body: self.stmt(body)
                for c_ in fr['continues']: self.st = self.st.join(c_)
                if inc: self.stmt(inc)
                if cond and k == 'DoStmt': self.val(cond)
                self.frames.pop(); breaks += fr['breaks']
                self.st = s_in.join(self.st)
                if self.st == s_in: break
            else:
                self.an.problems.append('%s: loop state did not stabilise' % self.f.name)
            for b_ in breaks: self.st = self.st.join(b_)
            self.loop -= 1; self.nonnull = nn0
        elif k == 'SwitchStmt':
            c = inner(n); self.val(c[0]); nn0 = set(self.nonnull)
            fr = dict(kind='switch', breaks=[], continues=[], entry=self.st.copy(), nn=nn0); self.frames.append(fr)
            self.stmt(c[-1])
            self.frames.pop(); self.nonnull = nn0
            self.st = self.st.join(fr['entry'])          # no case taken / fall out of the last case
            for b_ in fr['breaks']: self.st = self.st.join(b_)
        elif k in ('CaseStmt', 'DefaultStmt'):
            sw = [f_ for f_ in self.frames if f_['kind'] == 'switch']
            if sw: self.st = self.st.join(sw[-1]['entry']); self.nonnull = set(sw[-1]['nn'])    # a label is reached from the switch head too
            for c in inner(n):
                if kind(c) and ('Stmt' in kind(c)): self.stmt(c)
                else: self.val(c)
        elif k in ('LabelStmt', 'AttributedStmt'):
            if k == 'LabelStmt': self.nonnull = set()        # reachable from a goto: nothing learnt on the way here holds
            for c in inner(n):
                if kind(c) and ('Stmt' in kind(c)): self.stmt(c)
                else: self.val(c)
        elif k == 'ReturnStmt':
            for c in inner(n): self.rets |= self.val(c)
            self.snapshot()
        elif k == 'BreakStmt':
            if self.frames: self.frames[-1]['breaks'].append(self.st.copy())
        elif k == 'ContinueStmt':
            lp = [f_ for f_ in self.frames if f_['kind'] == 'loop']
            if lp: lp[-1]['continues'].append(self.st.copy())
        elif k == 'NullStmt':
            pass
        elif k in ('GotoStmt', 'IndirectGotoStmt'):
            pass          # functions with goto are analysed flow-insensitively (see analyze)
        else:
            self.val(n)

    # ---- reads of errno ---------------------------------------------------------------------------
    @classmethod
    def is_errno(cls, n):
        """`n` denotes errno: *__errno_location() (glibc), *__error() / *_errno() elsewhere"""
        y = cls._strip(n)
        if kind(y) != 'UnaryOperator' or y.get('opcode') != '*': return False
        c = cls._strip(inner(y)[0])
        if kind(c) != 'CallExpr': return False
        cal = cls._strip(inner(c)[0])
        return kind(cal) == 'DeclRefExpr' and cal.get('referencedDecl', {}).get('name') in ('__errno_location', '__error', '_errno')
    def errno_scan(self):
        reads = []          # (path from the body down to the read)
        def has_read(n):
            if kind(n) == 'ImplicitCastExpr' and n.get('castKind') == 'LValueToRValue' and self.is_errno(inner(n)[0]): return True
            if kind(n) == 'CompoundAssignOperator' and self.is_errno(inner(n)[0]): return True
            if kind(n) == 'UnaryOperator' and n.get('opcode') in ('++', '--') and self.is_errno(inner(n)[0]): return True
            return any(has_read(c) for c in inner(n))
        def walk(n, path):
            path = path + [n]
            k = kind(n)
            if (k == 'ImplicitCastExpr' and n.get('castKind') == 'LValueToRValue' and self.is_errno(inner(n)[0])) or \
               (k == 'CompoundAssignOperator' and self.is_errno(inner(n)[0])) or \
               (k == 'UnaryOperator' and n.get('opcode') in ('++', '--') and self.is_errno(inner(n)[0])) or \
               (k == 'UnaryOperator' and n.get('opcode') == '&' and self.is_errno(inner(n)[0])):       # &errno escapes: whoever gets it may read it
                reads.append(path); return
            for c in inner(n): walk(c, path)
        walk(self.body(), [])
        if not reads: self.f.errno_reads = {}; return
        def is_clear(st):
            y = self._strip(st, ('ParenExpr',))
            return kind(y) == 'BinaryOperator' and y.get('opcode') == '=' and self.is_errno(inner(y)[0]) and not has_read(inner(y)[1])
        def has_label(n):
            return kind(n) in ('LabelStmt', 'CaseStmt', 'DefaultStmt') or any(has_label(c) for c in inner(n))
        def cleared(path):
            for d in range(len(path) - 1):
                B = path[d]
                if kind(B) != 'CompoundStmt': continue
                kids = inner(B); idx = [i for i, c in enumerate(kids) if c is path[d + 1]]
                if not idx: continue
                for c in range(idx[0] - 1, -1, -1):
                    if is_clear(kids[c]):
                        # every way to the read passes the clearing unless control can enter between the two: a label / case label
                        if not any(has_label(x) for x in kids[c + 1:idx[0] + 1]): return True
                        break
            return False
        def uses_of(var_id):
            out = []
            def w(n, par):
                if kind(n) == 'DeclRefExpr' and n.get('referencedDecl', {}).get('id') == var_id: out.append(par)
                for c in inner(n): w(c, [n] + par)
            w(self.body(), [])
            return out
        def saved(path):
            """the read only initialises / is assigned to a local whose every other use is the right-hand side of `errno = v`"""
            up = [x for x in reversed(path[:-1]) if kind(x) not in ('ParenExpr', 'ImplicitCastExpr', 'CStyleCastExpr')]
            if not up: return False
            p0 = up[0]; vid = None
            if kind(p0) == 'VarDecl' and p0.get('storageClass') != 'static': vid = p0['id']
            elif kind(p0) == 'BinaryOperator' and p0.get('opcode') == '=':
                lhs = self._strip(inner(p0)[0])
                if kind(lhs) == 'DeclRefExpr' and lhs.get('referencedDecl', {}).get('kind') == 'VarDecl' and lhs['referencedDecl']['id'] not in self.tu.gvars \
                   and lhs['referencedDecl']['id'] not in self.static_locals: vid = lhs['referencedDecl']['id']
                if len(up) > 1 and kind(up[1]) not in ('CompoundStmt', 'IfStmt', 'ForStmt', 'WhileStmt', 'DoStmt', 'LabelStmt', 'CaseStmt', 'DefaultStmt', 'SwitchStmt'): return False   # value of the assignment used
            if vid is None or vid in self.addr_taken: return False
            for par in uses_of(vid):
                anc = [x for x in par if kind(x) not in ('ParenExpr', 'ImplicitCastExpr', 'CStyleCastExpr')]
                if not anc: return False
                a0 = anc[0]
                if kind(a0) == 'BinaryOperator' and a0.get('opcode') == '=':
                    lhs = self._strip(inner(a0)[0])
                    if kind(lhs) == 'DeclRefExpr' and lhs.get('referencedDecl', {}).get('id') == vid: continue      # v = errno (the save itself)
                    if self.is_errno(inner(a0)[0]): continue                                                         # errno = v
                return False
            return True
        def reported(path):
            up = [x for x in reversed(path[:-1]) if kind(x) not in ('ParenExpr', 'ImplicitCastExpr', 'CStyleCastExpr')]
            if not up or kind(up[0]) != 'CallExpr': return False
            if kind(path[-1]) != 'ImplicitCastExpr': return False
            cal = self._strip(inner(up[0])[0])
            return kind(cal) == 'DeclRefExpr' and cal.get('referencedDecl', {}).get('name') in ('strerror', 'strerror_l', 'strerrorname_np', 'strerrordesc_np')
        out = {}
        for path in reads:
            c = 'report' if reported(path) else 'saved' if saved(path) else 'cleared' if cleared(path) else 'control'
            out[c] = out.get(c, 0) + 1
        self.f.errno_reads = out
        if out.get('control'): self.f.exts.add('errno@read')

    # ---- the setlocale protocol -----------------------------------------------------------------
    def extract_locale(self):
        """sequence of setlocale calls of this function in source order: (category, argument, variable receiving the result)"""
        ops = []; complex_ = [False]
        def strip(y):
            while kind(y) in ('ImplicitCastExpr', 'ParenExpr', 'CStyleCastExpr'): y = inner(y)[0]
            return y
        def is_setlocale(y):
            y = strip(y)
            if kind(y) != 'CallExpr': return None
            cal = strip(inner(y)[0])
            if kind(cal) == 'DeclRefExpr' and cal.get('referencedDecl', {}).get('name') == 'setlocale': return y
            if kind(cal) == 'DeclRefExpr' and cal.get('referencedDecl', {}).get('name') in ('strdup', 'xrl_strdup', '__strdup') and len(inner(y)) == 2:
                return is_setlocale(inner(y)[1])
            return None
        def describe(call, target):
            a = inner(call)[1:]
            cat = strip(a[0]); arg = strip(a[1]) if len(a) > 1 else {}
            catv = int(cat['value']) if kind(cat) == 'IntegerLiteral' else -1
            if kind(arg) == 'IntegerLiteral' and arg.get('value') == '0': av = ('null',)
            elif kind(arg) == 'StringLiteral': av = ('lit', json.loads(arg['value']))
            elif kind(arg) == 'DeclRefExpr': av = ('var', arg['referencedDecl']['name'])
            else: av = ('other',)
            ops.append(dict(cat=catv, arg=av, target=target))
        def walk(y, depth):
            k = kind(y)
            if k in ('ForStmt', 'WhileStmt', 'DoStmt', 'IfStmt', 'SwitchStmt', 'ConditionalOperator'): depth += 1
            if k == 'BinaryOperator' and y.get('opcode') == '=':
                lhs = strip(inner(y)[0]); call = is_setlocale(inner(y)[1])
                if call is not None:
                    if depth: complex_[0] = True
                    describe(call, lhs['referencedDecl']['name'] if kind(lhs) == 'DeclRefExpr' else None); return
            if k == 'VarDecl':
                for c in inner(y):
                    call = is_setlocale(c)
                    if call is not None:
                        if depth: complex_[0] = True
                        describe(call, y['name']); return
            call = is_setlocale(y) if k == 'CallExpr' else None
            if call is not None and strip(y) is call:
                if depth: complex_[0] = True
                describe(call, None); return
            if k == 'ReturnStmt' and ops and not depth:
                ops.append(dict(ret=True))
            for c in inner(y): walk(c, depth)
        # top-level statements only count as depth 0
        for s in inner(self.body()): walk(s, 0)
        # an early `return` between two setlocale calls makes the protocol path dependent
        real = [o for o in ops if 'ret' not in o]
        if real:
            last = max(i for i, o in enumerate(ops) if 'ret' not in o)
            if any('ret' in o for o in ops[:last]): complex_[0] = True
        self.f.locale_ops = real; self.f.locale_complex = complex_[0]

# --------------------------------------------------------------------------------------------------

def enc(name):
    v = 0
    for b in name.encode():
        v = v * 256 + b
    return v

def public_from_headers(repo):
    out = set()
    for fn in sorted(os.listdir(os.path.join(repo, 'include'))):
        if not fn.endswith('.h'): continue
        txt = open(os.path.join(repo, 'include', fn)).read()
        txt = re.sub(r'/\*.*?\*/', ' ', txt, flags=re.S)
        txt = re.sub(r'^[ \t]*#.*$', ' ', txt, flags=re.M)
        for m in re.finditer(r'\b(?:XRL_EXTERN|XRL_DEPRECATED)\b([^;{]*?)\(', txt):
            ids = re.findall(r'[A-Za-z_]\w*', m.group(1))
            if ids and 'define' not in m.group(1): out.add(ids[-1])
    return out

def locale_lean(ops):
    """ops -> Lean list of LocaleOp"""
    out = []; targets = {}
    for i, o in enumerate(ops):
        a = o['arg']
        if a[0] == 'null': t = '.query %d' % o['cat']
        elif a[0] == 'lit': t = '.setLit %d %d' % (o['cat'], enc(a[1]))
        elif a[0] == 'var' and a[1] in targets: t = '.setRet %d %d' % (o['cat'], targets[a[1]])
        else: t = '.setOther %d' % o['cat']
        out.append(t)
        if o.get('target'): targets[o['target']] = i
    return '[' + ', '.join(out) + ']'

def chunks(lst, n=40):
    return [lst[i:i + n] for i in range(0, len(lst), n)] or [[]]

def nat_list(xs): return '[' + ', '.join(str(x) for x in xs) + ']'

def emit(an, repo, lean_path, json_path):
    names = sorted(an.fns)
    idx = {n: i for i, n in enumerate(names)}
    hdr = public_from_headers(repo)
    public = sorted(n for n in (hdr | an.visible) if n in an.fns)
    undefined = sorted(n for n in hdr if n not in an.fns)
    cls = {}
    for n in public:
        cls[n] = ('mutator' if n in MUTATORS else 'alloc' if n in ALLOC else 'error' if n in ERRORAPI else
                  'deprecated' if n in DEPRECATED else 'query')
    L = ['-- GENERATED by tools/footprint.py from the clang-14 AST of %s/src — do not edit; regenerated on every run' % repo,
         'import XrlSched.Hand.Footprint', 'namespace XrlSched.Gen', 'open XrlSched', '']
    rows = []
    for n in names:
        f = an.fns[n]
        w = sorted(f.writes | f.unknown_writes)
        rows.append('  ⟨%d, %s, %s, %s, %s, %s⟩  -- %d %s  [%s]  W=%s X=%s' % (
            enc(n), nat_list(enc(x) for x in sorted(f.reads)), nat_list(enc(x) for x in w), nat_list(enc(x) for x in sorted(f.statics)),
            nat_list(idx[c] for c in sorted(f.callees)), nat_list(enc(x) for x in sorted(f.exts)),
            idx[n], n, f.tu.path, ','.join(w) or '-', ','.join(sorted(f.exts)) or '-'))
    cs = chunks(rows)
    for i, c in enumerate(cs):
        L.append('def fns_%d : List Fn := [' % i)
        for j, r in enumerate(c):
            code, com = r.split('  -- ', 1)
            L.append(code + (',' if j < len(c) - 1 else '') + '  -- ' + com)
        L.append(']')
    L.append('def fns : List Fn := ' + ' ++ '.join('fns_%d' % i for i in range(len(cs))))
    L.append('')
    for c in ('query', 'alloc', 'error', 'deprecated', 'mutator'):
        ent = [n for n in public if cls[n] == c]
        L.append('/-- %s entry points: %s -/' % (c, ' '.join(ent)))
        parts = chunks([idx[n] for n in ent], 50)
        for i, p in enumerate(parts): L.append('def %sEntries_%d : List Nat := %s' % (c, i, nat_list(p)))
        L.append('def %sEntries : List Nat := %s' % (c, ' ++ '.join('%sEntries_%d' % (c, i) for i in range(len(parts)))))
    um = [n for n in names if an.fns[n].assume is not None and n[:-len(VARIANT_SUFFIX)] in MUTATORS]
    L.append('/-- the crystal-array mutators analysed under the assumption that their Crystal_Array* argument is NOT NULL (a user array): %s -/' % ' '.join(um))
    L.append('def userMutatorEntries : List Nat := %s' % nat_list(idx[n] for n in um))
    L.append('-- reads of errno (class: count; `control` = pseudo-callee errno@read in the row): %s' % (' '.join('%s{%s}' % (n, ','.join('%s:%d' % kv for kv in sorted(an.fns[n].errno_reads.items()))) for n in names if an.fns[n].errno_reads) or 'none'))
    L.append('-- functions that call fprintf/fputs/… on stderr (names; cf. `diagSites` of Props/C16.lean): %s' % ' '.join(n for n in names if any(x.endswith('@stderr') for x in an.fns[n].exts)))
    L.append('')
    # what every public function lets ESCAPE to its caller: the regions of the returned pointer, of everything stored into escaping heap blocks and of
    # everything stored through a parameter (error slots, out-parameters, the array handed to a mutator) — `H` = memory allocated during the call
    esc_rows = []; esc_bad = []
    for c in ('query', 'alloc', 'error', 'deprecated', 'mutator'):
        for n in public:
            if cls[n] != c: continue
            f = an.fns[n]; ptypes = [qt(p_) for p_ in f.params]
            ret_ok = not ((set(f.sum.ret) | set(f.sum.hc)) - {'H'})
            out_ok = not (set().union(*f.sum.pc.values()) - {'H'}) if f.sum.pc else True
            cw = sorted(i for i in f.sum.pw if i < len(ptypes) and re.search(r'\bconst\b[^*]*\*', ptypes[i]))
            if not ret_ok or cw or not (out_ok or n == 'xrl_propagate_error'): esc_bad.append(n)
            esc_rows.append((n, '  ⟨%d, %d, %s, %s, %s, %s⟩' % (idx[n], enc(n), 'true' if '*' in qt(f.node).split('(')[0] else 'false', 'true' if ret_ok else 'false',
                                                                    'true' if out_ok else 'false', 'true' if cw else 'false'),
                             'ret=%s heap=%s out=%s const-written=%s' % (','.join(sorted(f.sum.ret)) or '-', ','.join(sorted(f.sum.hc)) or '-',
                                                                         ';'.join('%d:%s' % (k, ','.join(sorted(v))) for k, v in sorted(f.sum.pc.items())) or '-', cw or '-')))
    L.append('/-- per public function (order: query, alloc, error, deprecated, mutator entries): ⟨index, name, returns a pointer, the returned object and every heap block')
    L.append('it reaches are memory allocated during the call and reach nothing else, the same for everything stored through a parameter, writes through a `const T *` parameter⟩ -/')
    parts = chunks(esc_rows, 50)
    for i, p in enumerate(parts):
        L.append('def escapes_%d : List Escape := [' % i)
        for j, (n, code, com) in enumerate(p): L.append(code + (',' if j < len(p) - 1 else '') + '  -- %s  %s' % (n, com))
        L.append(']')
    L.append('def escapes : List Escape := ' + ' ++ '.join('escapes_%d' % i for i in range(len(parts))))
    L.append('')
    protos = [(n, an.fns[n]) for n in names if an.fns[n].locale_ops and an.fns[n].assume is None]
    L.append('/-- setlocale protocol of every function that calls setlocale (source order; `complex` = not straight-line) -/')
    L.append('def localeProtocols : List LocaleProto := [' + ', '.join(
        '⟨%d, %s, %s⟩' % (idx[n], 'true' if f.locale_complex else 'false', locale_lean(f.locale_ops)) for n, f in protos) + ']')
    L.append('')
    L.append('end XrlSched.Gen')
    os.makedirs(os.path.dirname(lean_path), exist_ok=True)
    txt = '\n'.join(L) + '\n'
    old = None
    try: old = open(lean_path).read()
    except OSError: pass
    if old != txt: open(lean_path, 'w').write(txt)
    meta = dict(repo=repo, functions={n: dict(index=idx[n], file=an.fns[n].tu.path, reads=sorted(an.fns[n].reads), writes=sorted(an.fns[n].writes),
                                                 unknown_writes=sorted(an.fns[n].unknown_writes), statics=sorted(an.fns[n].statics),
                                                 callees=sorted(an.fns[n].callees), exts=sorted(an.fns[n].exts),
                                                 param_writes=sorted(an.fns[n].sum.pw), returns=sorted(an.fns[n].sum.ret),
                                                 locale_ops=an.fns[n].locale_ops, locale_complex=an.fns[n].locale_complex, errno_reads=an.fns[n].errno_reads,
                                                 ret=qt(an.fns[n].node).split('(')[0].strip(),
                                                 params=[[p_.get('name', ''), qt(p_)] for p_ in an.fns[n].params]) for n in names},
                classes=cls, user_mutators=um, undefined_public=undefined, problems=an.problems,
                escapes={n: com for n, code, com in esc_rows}, escapes_bad=sorted(esc_bad),
                sha256=hashlib.sha256(txt.encode()).hexdigest())
    json.dump(meta, open(json_path, 'w'), indent=1)
    return meta

def analyze(repo, bdir):
    flags = cbuild.cflags(repo, bdir)
    an = Analyzer(repo, flags)
    an.variants = {m: None for m in MUTATORS}
    with ThreadPoolExecutor(max_workers=16) as ex:
        res = list(ex.map(an.load, cbuild.LIBXRL))
    for cfile, ast in res: an.add_tu(cfile, ast)
    an.run()
    return an

def selftest(path=None):
    """analyse harness/footprint_selftest.c and compare with its EXPECT annotations -> list of disagreements"""
    path = path or os.path.join(os.path.dirname(HERE), 'harness', 'footprint_selftest.c')
    an = Analyzer('/nonexistent', [])
    src_txt = open(path).read()
    an.variants = {m.group(1): [int(x) for x in m.group(2).split(',')] for m in re.finditer(r'VARIANT (\w+): nonnull=([\d,]+)', src_txt)}
    cfile, ast = an.load(path)
    an.add_tu(os.path.basename(path), ast)
    an.run()
    bad = list(an.problems); n = 0
    for m in re.finditer(r'EXPECTX ([\w@]+): X=([\w:,@]*)', src_txt):
        fn, exp = m.group(1), set(x for x in m.group(2).split(',') if x)
        n += 1
        if fn not in an.fns: bad.append('selftest: function %s not found' % fn); continue
        got = set(x for x in an.fns[fn].exts if not x.startswith('__builtin'))
        if got != exp: bad.append('selftest %s: expected external calls %s, extractor reports %s' % (fn, sorted(exp), sorted(got)))
    def trans(fn):
        seen = {fn}; todo = [fn]; w = set()
        while todo:
            g = an.fns[todo.pop()]; w |= set(g.writes) | set(g.unknown_writes)
            for c_ in g.callees:
                if c_ not in seen: seen.add(c_); todo.append(c_)
        return w
    for m in re.finditer(r'EXPECTT ([\w@]+): W=([\w:,@]*)', src_txt):      # transitive (over the call graph), as Lean's checkEntries sees it
        fn, exp = m.group(1), set(x for x in m.group(2).split(',') if x)
        n += 1
        if fn not in an.fns: bad.append('selftest: function %s not found' % fn); continue
        if trans(fn) != exp: bad.append('selftest %s: expected transitive writes %s, extractor reports %s' % (fn, sorted(exp), sorted(trans(fn))))
    for m in re.finditer(r'EXPECTS ([\w@]+): ret=([\w:,]*) pw=([\d,]*)', src_txt):      # summaries: regions returned (incl. reachable), parameters written through
        fn, er, ep = m.group(1), sorted(x for x in m.group(2).split(',') if x), sorted(int(x) for x in m.group(3).split(',') if x)
        n += 1
        if fn not in an.fns: bad.append('selftest: function %s not found' % fn); continue
        got = (sorted(set(an.fns[fn].sum.ret) | set(an.fns[fn].sum.hc)), sorted(an.fns[fn].sum.pw))
        if got != (er, ep): bad.append('selftest %s: expected summary ret=%s pw=%s, extractor reports ret=%s pw=%s' % (fn, er, ep, got[0], got[1]))
    for m in re.finditer(r'EXPECT ([\w@]+): W=([\w:,@]*)', src_txt):
        fn, exp = m.group(1), set(x for x in m.group(2).split(',') if x)
        n += 1
        if fn not in an.fns: bad.append('selftest: function %s not found' % fn); continue
        got = set(an.fns[fn].writes) | set(an.fns[fn].unknown_writes)
        if got != exp: bad.append('selftest %s: expected writes %s, extractor reports %s' % (fn, sorted(exp), sorted(got)))
    return n, bad

def main():
    if sys.argv[1:2] == ['--selftest']:
        n, bad = selftest()
        for b in bad: print('PROBLEM', b)
        print('selftest: %d idioms, %d disagreements' % (n, len(bad)))
        return 3 if bad else 0
    bdir, lean_path, json_path = sys.argv[1:4]
    repo = os.environ.get('VERIF_REPO', cbuild.REPO)
    an = analyze(repo, bdir)
    meta = emit(an, repo, lean_path, json_path)
    for p in sorted(set(meta['problems'])): print('PROBLEM', p)
    print('functions %d, public %d, undefined public %s' % (len(meta['functions']), len(meta['classes']), meta['undefined_public']))
    return 3 if meta['problems'] else 0

if __name__ == '__main__':
    sys.exit(main())
