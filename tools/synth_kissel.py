#!/usr/bin/env python3
"""Second data configuration of the C19 check: a *synthetic* data/kissel_pe.dat.

In the working tree data/kissel_pe.dat is empty, so every method built on the Kissel photoionisation tables
(CS_Photo_Partial, CS_FluorLine_Kissel*, the cascade functions PL1…PM5, CS_Total_Kissel, ElectronConfig) only
reports errors, in C and in Java alike.  To compare the *code* of those methods, both implementations are also
built on the same synthetic table: well-formed (format of src/xrayfiles.c:590-628), shape-preserving
(per-electron cross sections falling like E^-3 above each edge with a mild curvature, natural-spline second derivatives,
ground-state occupations of the shells that have an edge in data/edges.dat), **not physical**.  Nothing is
claimed about the values; only Java == C on equal tables.

The low-energy end of a sub-shell table exercises every branch of the edge-to-first-knot extension of CSb_Photo_Partial
(src/kissel_pe.c:134-153; property C02): by (Z + shell) mod 4 the table starts AT the edge (no gap, class 0) or at
1.3 x edge with a first-interval slope d ln(sigma)/d ln(E) of +1.6 (class 1: above 1, limited to 1), of -0.4 or +0.4
(class 2: inside [-1, 1], used as it is) or of about -2.9 (class 3: below -1, limited to -1).

usage: synth_kissel.py <edges: lines "Z shell E"> <out file>   (edges come from the C driver's EdgeEnergy)"""
import sys, math

SHELLNUM_K = 31
SHELLNUM = 28
# ground-state capacities in the shell order of include/xraylib-shells.h (K L1 L2 L3 M1..M5 N1..N7 O1..O7 P1..P5 Q1..Q3)
CAP = [2, 2, 2, 4, 2, 2, 4, 4, 6, 2, 2, 4, 4, 6, 6, 8, 2, 2, 4, 4, 6, 6, 8, 2, 2, 4, 4, 6, 2, 2, 4]

def natural_spline_y2(x, y):
    n = len(x); y2 = [0.0] * n; u = [0.0] * n
    for i in range(1, n - 1):
        sig = (x[i] - x[i - 1]) / (x[i + 1] - x[i - 1])
        p = sig * y2[i - 1] + 2.0
        y2[i] = (sig - 1.0) / p
        u[i] = (y[i + 1] - y[i]) / (x[i + 1] - x[i]) - (y[i] - y[i - 1]) / (x[i] - x[i - 1])
        u[i] = (6.0 * u[i] / (x[i + 1] - x[i - 1]) - sig * u[i - 1]) / p
    for k in range(n - 2, -1, -1):
        y2[k] = y2[k] * y2[k + 1] + u[k]
    return y2

GAP = 1.3          # first knot at GAP x edge for the classes 1..3

def slope_class(Z, shell):
    """which branch of the extension the sub-shell table of (Z, shell) exercises: 0 no gap, 1 slope > 1, 2 |slope| <= 1, 3 slope < -1"""
    return (Z + shell) % 4

def table(e_lo, zeff, shell, n=24, e_hi=1200.0, first_slope=None):
    """ln E -> ln sigma (barn per electron) from e_lo to e_hi; `first_slope`: slope of the first knot interval (None: as it falls)"""
    x0 = math.log(e_lo); x1 = math.log(e_hi)
    xs = [x0 + (x1 - x0) * i / (n - 1) for i in range(n)]
    a = math.log(30.0 * zeff ** 2 / (1 + shell))          # magnitude at the edge
    ys = [a - 2.9 * (x - x0) - 0.03 * (x - x0) ** 2 for x in xs]
    if first_slope is not None:
        ys[0] = ys[1] - first_slope * (xs[1] - xs[0])
    return xs, ys, natural_spline_y2(xs, ys)

def main():
    edges = {}
    for l in open(sys.argv[1]):
        Z, s, E = l.split(); edges[(int(Z), int(s))] = float(E)
    out = []
    for Z in range(1, 99):
        # occupations: fill the shells that have an edge, in order
        occ = [0.0] * SHELLNUM_K; left = Z
        for s in range(SHELLNUM):
            if left <= 0: break
            if edges.get((Z, s), 0.0) > 0.0:
                occ[s] = float(min(CAP[s], left)); left -= occ[s]
        if left > 0:       # put the rest on the outermost shell that has an edge
            last = max([s for s in range(SHELLNUM) if occ[s] > 0] or [0]); occ[last] += left
        # total table: from 1 keV (ln-ln), sum of the partials is what the library uses; keep it well-formed
        xs, ys, y2 = table(1.0, Z, 0, n=30)
        out.append('%d' % len(xs))
        for x, y, d in zip(xs, ys, y2): out.append('%.10E %.10E %.10E' % (x, y + math.log(max(Z, 1)), d))
        out.append(' '.join('%.6f' % o for o in occ))
        for s in range(SHELLNUM_K):
            e = edges.get((Z, s), 0.0) if s < SHELLNUM else 0.0
            if occ[s] <= 0 or e <= 0:
                out.append('0'); continue
            c = slope_class(Z, s)
            if c == 0: xs, ys, y2 = table(e, Z, s)
            else: xs, ys, y2 = table(GAP * e, Z, s, first_slope={1: 1.6, 2: (-0.4 if Z % 2 else 0.4), 3: None}[c])
            out.append('%d' % len(xs))
            out.append('%.10E' % e)
            for x, y, d in zip(xs, ys, y2): out.append('%.10E %.10E %.10E' % (x, y, d))
    open(sys.argv[2], 'w').write('\n'.join(out) + '\n')

if __name__ == '__main__':
    main()
