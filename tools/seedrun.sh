#!/bin/bash
# seedrun.sh <ID> <n> <check ids...>   — seeded change /tmp/mut-<ID>/patch<n>.diff (n=1 -> patch.diff), demo<n>.c
# 1. confirm in a fresh scratch worktree: suite still 33/4, demo passes without and fails with the change
# 2. run the given checks from a COPY of /verif ($SEEDCOPY) against the patched worktree (VERIF_REPO), so that
#    neither /repo nor /verif/lean are disturbed
ID=$1; N=$2; shift 2
SEEDCOPY=${SEEDCOPY:-/var/tmp/verif-seed}
D=/tmp/mut-$ID; [ "$N" -ge 3 ] && D=/tmp/mut2-$ID; [ "$N" -ge 5 ] && D=/tmp/mut3-$ID; [ "$N" -ge 7 ] && D=/tmp/mut4-$ID; [ "$N" -ge 9 ] && D=/tmp/mut5-$ID; [ "$N" -ge 11 ] && D=/tmp/mut6-$ID    # round 2 changes are numbered 3, 4; round 3: 5, 6; round 4: 7, 8
if [ "$N" = 1 ]; then P=$D/patch.diff; DEMO=demo.c; else P=$D/patch$N.diff; DEMO=demo$N.c; fi
if [ ! -f $D/$DEMO ]; then if [ "$N" = 1 ]; then DEMO=$(ls $D | grep "^demo\." | head -1); else DEMO=$(ls $D | grep "^demo$N\." | head -1); fi; fi
WT=/tmp/wts-$ID-$N
OUT=/verif/notes/seedresults/$ID-$N.txt; mkdir -p /verif/notes/seedresults; : > $OUT
git -C /repo worktree remove --force $WT >/dev/null 2>&1
for try in 1 2 3 4 5; do git -C /repo worktree add --detach $WT HEAD -q && break; sleep 3; done; [ -d $WT ] || exit 2
( cd $WT && meson setup _build >/dev/null 2>&1 && meson compile -C _build >/dev/null 2>&1 ) || echo "clean build FAILED" >> $OUT
( cd $D && RUN=$N ./run_demo.sh $WT $DEMO >/tmp/seed_clean_$ID$N.log 2>&1 ); echo "demo on clean tree: exit $?" >> $OUT
git -C $WT apply "$P" 2>>$OUT || { echo "patch does not apply" >> $OUT; exit 2; }
# the meson target that generates the compiled-in tables does not list data/*.dat as inputs: force its regeneration for data changes
grep -q '^+++ b/data/' "$P" && rm -f $WT/_build/src/xrayglob_inline.c $WT/_build/src/prdata* 2>/dev/null
( cd $WT && meson compile -C _build >/dev/null 2>&1 ) || echo "build with patch FAILED" >> $OUT
( cd $WT && meson test -C _build 2>&1 | grep -E "^Ok|^Fail" | tr -s ' ' | tr '\n' ' ' ) >> $OUT; echo >> $OUT
( cd $D && RUN=$N ./run_demo.sh $WT $DEMO >/tmp/seed_mut_$ID$N.log 2>&1 ); echo "demo on changed tree: exit $? ($(tail -1 /tmp/seed_mut_$ID$N.log | cut -c1-150))" >> $OUT
rm -rf $WT/_build
for c in "$@"; do
  r=$(cd $SEEDCOPY && VERIF_REPO=$WT ./check $c 2>&1 | grep -E "^VIOLATION|exit [01]" | tr '\n' '|' | cut -c1-400)
  echo "CHECK $c: $r" >> $OUT
  rp=$(echo "$r" | grep -o "replay=[^ |]*" | head -1 | cut -d= -f2)
  if [ -n "$rp" ] && [ -f $SEEDCOPY/$rp ]; then echo "  replay head: $(grep -v '^#' $SEEDCOPY/$rp | head -2 | tr '\n' ';' | cut -c1-200) $(grep '^# theorems\|^# correspondence\|^# expected' $SEEDCOPY/$rp | head -2 | tr '\n' ';' | cut -c1-300)" >> $OUT; fi
done
git -C /repo worktree remove --force $WT
cat $OUT
