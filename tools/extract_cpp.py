#!/usr/bin/env python3
"""Extract the wrapper table of cplusplus/xraylib++.h from the clang-14 JSON AST (property C18).

For every function, method and constructor below namespace `xrlpp` that calls a public C function (or forwards to a
method), record: qualified name, parameter types, the C callee, the forwarded arguments in order (which wrapper
parameter / `.c_str()` / `&error` / `nullptr` / member `cs` each one is), whether `_process_error(error)` is the next
statement, how the C result is released, and the RETURN EXPRESSION as a term over the C call's result (`rv` unchanged,
`std::complex<double>(rv.re, rv.im)`, `std::string(rv)`, a vector of `std::string(list[i])` for i < the count the C
function stored, an object built through a constructor of the header …), obtained by evaluating the body symbolically.
The member-initialiser lists of the value classes and of `Crystal::Struct` (field maps), the C struct declarations they
read from, the assignments of the public `Struct` constructor to the C struct it builds, and the enumerators of
`xrl_error_code` are extracted as tables as well.  `_XRL_FUNCTION` overloads are recorded as uninstantiated patterns and as
instantiations with the argument types of the C prototype of the same name.  `_process_error` itself is read into a
`PE` description (case labels, exception classes, message passing, release of the error object).

Outputs: <aux>/cpp_tables.json, <gen>/Tables.lean (Lean tables, chunked), <aux>/cppdrv_gen.inc (C++ dispatch for
harness/cppdrv.cpp).  Anything the extractor cannot classify is reported as `UNCLASSIFIED …` (broken tie), never dropped.
"""
import os, sys, re, json
HERE = os.path.dirname(os.path.abspath(__file__))
sys.path.insert(0, HERE)
import xapi
from xapi import ExtractError

CXX_TY = {'int': 'int', 'const int': 'int', 'double': 'double', 'const double': 'double', 'const std::string &': 'str',
          'const std::string': 'str', 'std::string': 'str', 'double *': 'outd', 'int *': 'outi',
          'const char *': 'str', 'const char *const': 'str', 'const T...': 'other'}

def cxx_ty(t):
    if t in CXX_TY: return CXX_TY[t]
    if re.fullmatch(r'(xrlpp::Crystal::)?Struct &', t): return 'cs'
    if re.fullmatch(r'const (xrlpp::Crystal::)?Struct &', t): return 'cs'
    if t in ('Crystal_Struct *',): return 'cs'
    return 'other'

def strip(e):
    while e and e.get('kind') in ('ImplicitCastExpr', 'ParenExpr', 'CStyleCastExpr', 'ExprWithCleanups', 'MaterializeTemporaryExpr',
                                  'CXXBindTemporaryExpr', 'CXXFunctionalCastExpr', 'ConstantExpr') and e.get('inner'):
        e = e['inner'][0]
    return e

def walk(n):
    yield n
    for c in n.get('inner', []) or []:
        if isinstance(c, dict):
            yield from walk(c)

def parse_filtered(txt):
    dec = json.JSONDecoder(); i = 0; objs = []
    while i < len(txt):
        while i < len(txt) and txt[i].isspace(): i += 1
        if i >= len(txt): break
        if txt.startswith('Dumping ', i):      # clang prints "Dumping <name>:" before each filtered decl in some versions
            i = txt.index('\n', i) + 1; continue
        o, i = dec.raw_decode(txt, i); objs.append(o)
    return objs

class Extractor:
    def __init__(self, repo, bdir, workdir):
        self.repo = repo; self.bdir = bdir; self.work = workdir
        self.inc = ['-I' + bdir, '-I' + os.path.join(repo, 'include'), '-I' + os.path.join(repo, 'cplusplus'), '-DHAVE_CONFIG_H']
        self.protos = xapi.c_protos(repo, bdir, workdir)
        self.pnames = {p['name']: p for p in self.protos}
        self.unclassified = []
        self.wrappers = []
        self.pe = None
        self.hdr_text = open(os.path.join(repo, 'cplusplus', 'xraylib++.h')).read()
        self.release_fns = {'FreeCompoundData', 'FreeCompoundDataNIST', 'FreeRadioNuclideData', 'xrlFree', 'Crystal_Free'}
        self.aliases = dict(re.findall(r'using\s+(\w+)\s*=\s*struct\s+(\w+)\s*;', self.hdr_text))      # _compoundDataPod -> compoundData
        self.class_maps = []; self.own_ctors = []; self.helpers = []; self.class_members = {}; self._call_id = None
        self.c_structs, self.error_codes = self.c_records()

    # ---- C side: the structs the value classes are built from, and the enumerators of xrl_error_code
    def c_records(self):
        inc = ['-I' + self.bdir, '-I' + os.path.join(self.repo, 'include'), '-DHAVE_CONFIG_H']
        j = json.loads(xapi.clang_ast(inc, '#include "xraylib.h"\n', self.work, 'records.c'))
        want = {'compoundData', 'compoundDataNIST', 'radioNuclideData', 'Crystal_Struct', 'Crystal_Atom', 'xrlComplex'}
        recs = {}; anon = {}; codes = []
        def kind_of(q):
            q = q.strip()
            if q in ('int', 'double', 'float'): return 'scalar'
            if q in ('char *', 'const char *'): return 'string'
            if q in ('int *', 'double *'): return 'array'
            if q in ('Crystal_Atom *',): return 'atoms'
            return 'other'
        def fields(d): return [(f['name'], kind_of(f['type']['qualType'])) for f in d.get('inner', []) or [] if f.get('kind') == 'FieldDecl']
        for d in j.get('inner', []):
            k = d.get('kind')
            if k == 'RecordDecl' and d.get('completeDefinition'):
                if d.get('name') in want: recs[d['name']] = fields(d)
                elif not d.get('name'): anon[d['id']] = fields(d)
            elif k == 'TypedefDecl' and d.get('name') in want:
                for n in walk(d):
                    if n.get('kind') == 'RecordType' and n.get('decl', {}).get('id') in anon: recs[d['name']] = anon[n['decl']['id']]
            elif k == 'EnumDecl':
                cs = [c for c in d.get('inner', []) or [] if c.get('kind') == 'EnumConstantDecl']
                if any(c['name'] == 'XRL_ERROR_MEMORY' for c in cs):
                    v = -1
                    for c in cs:
                        val = [n for n in walk(c) if n.get('kind') == 'ConstantExpr' and 'value' in n]
                        v = int(val[0]['value']) if val else v + 1
                        codes.append((c['name'], v))
        missing = sorted(want - set(recs))
        if missing: raise ExtractError('C struct declarations not found in include/*.h: %s' % missing)
        if not codes: raise ExtractError('enum xrl_error_code not found in include/xraylib-error.h')
        return recs, codes

    # ---- pass 1: which templates exist
    def template_names(self):
        txt = xapi.clang_ast(self.inc, '#include "xraylib++.h"\n', self.work, 'hdr.cpp', cxx=True, filt='xrlpp')
        ns = [o for o in parse_filtered(txt) if o.get('kind') == 'NamespaceDecl' and o.get('name') == 'xrlpp']
        if not ns: raise ExtractError('namespace xrlpp not found in xraylib++.h')
        names = []
        for d in ns[0].get('inner', []):
            if d.get('kind') == 'FunctionTemplateDecl' and d['name'] not in names: names.append(d['name'])
        return names

    def inst_source(self, tnames):
        src = ['#include "xraylib++.h"', 'void xv_instantiate() {', '  std::string s; int i = 0; double d = 0; (void)i; (void)d;']
        for n in tnames:
            p = self.pnames.get(n)
            if not p or not xapi.is_simple(p):
                self.unclassified.append('template wrapper %s has no C prototype of its own name with int/double/string arguments' % n); continue
            args = [{'int': 'i', 'double': 'd', 'str': 's'}[t] for _, t in p['params'][:-1]]
            src.append('  (void)xrlpp::%s(%s);' % (n, ', '.join(args)))
        src.append('}')
        return '\n'.join(src) + '\n'

    # ---- pass 2
    def run(self):
        tnames = self.template_names()
        txt = xapi.clang_ast(self.inc, self.inst_source(tnames), self.work, 'inst.cpp', cxx=True, filt='xrlpp')
        ns = [o for o in parse_filtered(txt) if o.get('kind') == 'NamespaceDecl' and o.get('name') == 'xrlpp'][0]
        self.visit_scope(ns, '')
        if self.pe is None: raise ExtractError('_process_error not found in namespace xrlpp')
        return self

    def visit_scope(self, n, prefix):
        for d in n.get('inner', []) or []:
            k = d.get('kind')
            if k == 'NamespaceDecl': self.visit_scope(d, prefix + d['name'] + '::')
            elif k == 'CXXRecordDecl' and d.get('completeDefinition'):
                self.class_members[prefix + d['name']] = [x['name'] for x in d.get('inner', []) or [] if x.get('kind') == 'FieldDecl']
                self.visit_scope(d, prefix + d['name'] + '::')
            elif k == 'FunctionTemplateDecl':
                fds = [x for x in d.get('inner', []) if x.get('kind') == 'FunctionDecl']
                for j, fd in enumerate(fds):
                    self.visit_fn(fd, prefix, 'pattern' if j == 0 else 'inst')
            elif k in ('FunctionDecl', 'CXXMethodDecl', 'CXXConstructorDecl', 'CXXDestructorDecl'):
                if d.get('isImplicit'): continue
                if d.get('name') == '_process_error': self.visit_pe(d)
                else: self.visit_fn(d, prefix, {'FunctionDecl': 'plain', 'CXXMethodDecl': 'method', 'CXXConstructorDecl': 'ctor', 'CXXDestructorDecl': 'dtor'}[k])

    # ---- _process_error
    def visit_pe(self, d):
        body = [x for x in d.get('inner', []) if x.get('kind') == 'CompoundStmt']
        if not body: return
        body = body[0]
        line = self.line_of(d)
        # locals that carry error->message / error->code
        msgvars = set();
        for n in walk(body):
            if n.get('kind') == 'VarDecl' and any(m.get('kind') == 'MemberExpr' and m.get('name') == 'message' for m in walk(n)): msgvars.add(n.get('name'))
        def throw_info(stmt):
            th = [n for n in walk(stmt) if n.get('kind') == 'CXXThrowExpr']
            if len(th) != 1: return None
            t = th[0]; ty = None; carries = False
            for n in walk(t):
                q = n.get('type', {}).get('qualType', '')
                if ty is None and q.startswith('std::') and n.get('kind') in ('CXXTemporaryObjectExpr', 'CXXConstructExpr', 'CXXFunctionalCastExpr', 'CXXBindTemporaryExpr'): ty = q
                if n.get('kind') == 'MemberExpr' and n.get('name') == 'message': carries = True
                if n.get('kind') == 'DeclRefExpr' and n.get('referencedDecl', {}).get('name') in msgvars: carries = True
            frees_here = any(n.get('kind') == 'CallExpr' and strip(n['inner'][0]).get('referencedDecl', {}).get('name') in ('xrl_error_free', 'xrl_clear_error') for n in walk(stmt))
            kind = {'std::bad_alloc': 'badAlloc', 'std::invalid_argument': 'invalidArgument', 'std::runtime_error': 'runtimeError'}.get(ty)
            if kind is None: self.unclassified.append('_process_error throws %s' % ty); kind = 'runtimeError'
            return kind, carries, frees_here
        sw = [n for n in walk(body) if n.get('kind') == 'SwitchStmt']
        if len(sw) != 1:
            # not the switch form.  An if-chain `if (code == K) throw X; ... throw Y;` is read as the same kind of table (so that the table
            # theorem `process_error_every_code` decides about it and the executable model predicts it); any other shape is reported as
            # unclassified with a placeholder description - the three-way run must still take place (seeded change C18-11: the check
            # stopped with a build error here and never reached the calls on which C reports XRL_ERROR_MEMORY).
            free_call = lambda st: any(n.get('kind') == 'CallExpr' and strip(n['inner'][0]).get('referencedDecl', {}).get('name') in ('xrl_error_free', 'xrl_clear_error') for n in walk(st))
            codes = dict(self.error_codes)
            cases = []; dflt = None; frees_top = False; frees_all = True; ok = (len(sw) == 0)
            def cond_val(c):
                c = strip(c)
                if c.get('kind') != 'BinaryOperator' or c.get('opcode') != '==': return None
                for side in c.get('inner', []):
                    for n in walk(side):
                        if n.get('kind') == 'DeclRefExpr' and n.get('referencedDecl', {}).get('kind') == 'EnumConstantDecl': return codes.get(n['referencedDecl'].get('name'))
                        if n.get('kind') == 'IntegerLiteral': return int(n.get('value'))
                return None
            def chain(st):
                """an if statement of the chain -> False when not of the recognised shape"""
                nonlocal dflt, frees_all
                inner = st.get('inner', [])
                if st.get('hasInit') or st.get('hasVar') or len(inner) not in (2, 3): return False
                v = cond_val(inner[0]); ti = throw_info(inner[1])
                if v is None or ti is None: return False
                if not (ti[2] or frees_top): frees_all = False
                if all(c[0] != v for c in cases): cases.append((v, ti[0], ti[1]))
                if len(inner) == 3:
                    if inner[2].get('kind') == 'IfStmt': return chain(inner[2])
                    te = throw_info(inner[2])
                    if te is None: return False
                    if not (te[2] or frees_top): frees_all = False
                    dflt = (te[0], te[1])
                return True
            for st in body.get('inner', []):
                if not ok or dflt is not None: break
                k = st.get('kind')
                if k == 'IfStmt':
                    c0 = strip(st['inner'][0]) if st.get('inner') else {}
                    # the leading `if (!error) return;` guard
                    if not any(n.get('kind') == 'CXXThrowExpr' for n in walk(st)) and any(n.get('kind') == 'ReturnStmt' for n in walk(st)) and not cases: continue
                    ok = chain(st)
                elif any(n.get('kind') == 'CXXThrowExpr' for n in walk(st)):
                    ti = throw_info(st)
                    if ti is None: ok = False; break
                    if not (ti[2] or frees_top): frees_all = False
                    dflt = (ti[0], ti[1])
                elif free_call(st): frees_top = True
            if ok and dflt is not None:
                self.pe = dict(cases=cases, dflt=dflt, frees=bool(frees_all), line=line)
                return
            self.unclassified.append('_process_error: neither one switch statement over the code nor an if-chain ending in a throw (switch statements: %d); '
                                     'described as "every code -> runtime_error(message)" for the run, its table theorems cannot hold' % len(sw))
            self.pe = dict(cases=[], dflt=('runtimeError', True), frees=any(free_call(st) for st in body.get('inner', [])), line=line)
            return
        # release of the error object before the switch
        frees_top = False
        for st in body.get('inner', []):
            if st is sw[0] or st.get('id') == sw[0].get('id'): break
            if any(n.get('kind') == 'CallExpr' and strip(n['inner'][0]).get('referencedDecl', {}).get('name') in ('xrl_error_free', 'xrl_clear_error') for n in walk(st)): frees_top = True
        cases = []; dflt = None; frees_all = True
        swbody = [x for x in sw[0].get('inner', []) if x.get('kind') == 'CompoundStmt'][0]
        pending = []      # case labels that fall through to the next statement
        def handle(label_node):
            nonlocal dflt, frees_all
            inner = label_node.get('inner', [])
            if label_node['kind'] == 'CaseStmt':
                val = None
                for n in walk(inner[0]):
                    if n.get('kind') == 'ConstantExpr' and 'value' in n: val = int(n['value']); break
                sub = inner[-1]; labels = pending + [('case', val)]
            else:
                sub = inner[-1]; labels = pending + [('default', None)]
            pending.clear()
            if sub.get('kind') in ('CaseStmt', 'DefaultStmt'):
                pending.extend(labels); handle(sub); return
            ti = throw_info(sub)
            if ti is None:
                self.unclassified.append('_process_error: a switch label does not throw exactly once'); return
            kind, carries, fh = ti
            if not (fh or frees_top): frees_all = False
            for lk, lv in labels:
                if lk == 'case': cases.append((lv, kind, carries))
                else: dflt = (kind, carries)
        for st in swbody.get('inner', []):
            if st.get('kind') in ('CaseStmt', 'DefaultStmt'): handle(st)
            else: self.unclassified.append('_process_error: statement outside a label in the switch: %s' % st.get('kind'))
        if dflt is None:
            self.unclassified.append('_process_error: no default label (codes without a label would not throw)'); dflt = ('runtimeError', True)
        self.pe = dict(cases=cases, dflt=dflt, frees=bool(frees_all), line=line)

    def line_of(self, d):
        loc = d.get('loc', {})
        for k in (loc.get('expansionLoc', {}), loc):
            if 'offset' in k:
                f = k.get('file') or k.get('includedFrom', {}).get('file')
                return self.hdr_text.count('\n', 0, k['offset']) + 1
        return 0

    def add(self, **w):
        w['scope'], w['base'], w['sig'] = self._parts
        self.wrappers.append(w)

    # ---- a wrapper
    def classify_arg(self, e, pidx, locals_):
        e = strip(e); k = e.get('kind')
        if k == 'DeclRefExpr':
            rd = e.get('referencedDecl', {})
            if rd.get('id') in pidx: return ('param', pidx[rd['id']])
            if rd.get('kind') == 'VarDecl': return ('local', rd.get('name'))
        if k == 'PackExpansionExpr':
            s = strip(e['inner'][0]); rd = s.get('referencedDecl', {})
            if rd.get('id') in pidx: return ('pack', pidx[rd['id']])
        if k == 'CXXMemberCallExpr':
            me = strip(e['inner'][0])
            if me.get('kind') == 'MemberExpr' and me.get('name') == 'c_str':
                b = strip(me['inner'][0]); rd = b.get('referencedDecl', {})
                if rd.get('id') in pidx: return ('cstr', pidx[rd['id']])
        if k == 'UnaryOperator' and e.get('opcode') == '&':
            s = strip(e['inner'][0]); rd = s.get('referencedDecl', {})
            if rd.get('kind') == 'VarDecl':
                if rd.get('name') == 'error' and rd.get('type', {}).get('qualType') == 'xrl_error *': return ('err',)
                return ('outLocal', rd.get('name'), rd.get('id'))
        if k in ('CXXNullPtrLiteralExpr', 'GNUNullExpr'): return ('null',)
        if k == 'MemberExpr' and e.get('name') == 'cs':
            b = strip(e['inner'][0])
            if b.get('kind') == 'CXXThisExpr': return ('thisCs',)
            rd = b.get('referencedDecl', {})
            if rd.get('id') in pidx: return ('paramCs', pidx[rd['id']])
        return ('other', k)

    # ---- symbolic evaluation of wrapper bodies: the returned value as a term over the C call's result
    #   ('res',) the value of the forwarded call        ('param', i)              ('outArg', k) the local whose address is C argument k
    #   ('field', t, name)  t.name / t->name            ('complex', re, im)       ('string', t)  std::string(t)
    #   ('elems', ctor, t, count)  vector of ctor(t[i]) for i = 0 .. count-1     ('object', cls, t)  cls constructed from t
    #   ('adopt', t)  stored in the member `cs`         ('none',)                 ('other', why)
    @staticmethod
    def norm_ty(n):
        t = n.get('type', {}); q = t.get('desugaredQualType') or t.get('qualType', '')
        q = re.sub(r'^const ', '', q.strip()); q = re.sub(r'\s*&&?$', '', q); q = re.sub(r'^const ', '', q)
        return q
    @staticmethod
    def is_string_ty(q):
        return q in ('std::string', 'std::basic_string<char>', 'std::vector<std::basic_string<char>>::value_type', 'std::vector<std::string>::value_type')
    @staticmethod
    def cls_of(q):
        m = re.fullmatch(r'(?:xrlpp::)?((?:Crystal::)?(?:Struct|Atom)|compoundData|compoundDataNIST|radioNuclideData)', q)
        if not m: return None
        c = m.group(1)
        return 'Crystal::' + c if c in ('Struct', 'Atom') else c

    def sym(self, e, env):
        e = strip(e) or {}
        k = e.get('kind')
        if k == 'DeclRefExpr': return env.get(e.get('referencedDecl', {}).get('id'), ('other', 'name ' + str(e.get('referencedDecl', {}).get('name'))))
        if k == 'CXXThisExpr': return ('this',)
        if k == 'IntegerLiteral': return ('lit', int(e.get('value', '0')))
        if k == 'MemberExpr':
            b = self.sym(e['inner'][0], env)
            return b if b[0] == 'other' else ('field', b, e.get('name'))
        if k == 'ArraySubscriptExpr': return ('index', self.sym(e['inner'][0], env), self.sym(e['inner'][1], env))
        if k == 'CXXOperatorCallExpr':
            cal = strip(e['inner'][0])
            if cal.get('referencedDecl', {}).get('name') == 'operator[]' and len(e['inner']) == 3:
                return ('index', self.sym(e['inner'][1], env), self.sym(e['inner'][2], env))
            return ('other', 'operator call')
        if k == 'UnaryExprOrTypeTraitExpr' and e.get('name') == 'sizeof': return ('sizeof', e.get('argType', {}).get('qualType', '?'))
        if k == 'BinaryOperator' and e.get('opcode') in ('*', '+'):
            return ({'*': 'mul', '+': 'add'}[e['opcode']], self.sym(e['inner'][0], env), self.sym(e['inner'][1], env))
        if k in ('CXXTemporaryObjectExpr', 'CXXConstructExpr'):
            args = [a for a in e.get('inner', []) or [] if a.get('kind') != 'CXXDefaultArgExpr']
            ty = self.norm_ty(e)
            if not args: return ('empty', ty)
            if ty.startswith('std::complex<double>') and len(args) == 2: return ('complex', self.sym(args[0], env), self.sym(args[1], env))
            if len(args) == 1:
                a = self.sym(args[0], env); aty = self.norm_ty(strip(args[0]))
                if aty == ty or (self.cls_of(aty) and self.cls_of(aty) == self.cls_of(ty)): return a          # copy / move construction: the same value
                if self.is_string_ty(ty) and aty in ('char *', 'const char *'): return ('string', a)
                if self.cls_of(ty): return ('object', self.cls_of(ty), a)                                # a converting constructor of the header
                return ('other', 'construction of %s from %s' % (ty, aty))
            if len(args) == 2 and ty.startswith('std::vector<'):                                           # vector(first, last)
                lo = self.sym(args[0], env); hi = self.sym(args[1], env)
                if hi[0] == 'add' and hi[1] == lo: return ('range', lo, hi[2])
                return ('other', 'vector range whose end is not <begin> + <count>')
            return ('other', 'construction of %s from %d arguments' % (ty, len(args)))
        if k == 'CallExpr':
            if e.get('id') == self._call_id: return ('res',)
            fn = strip(e['inner'][0]).get('referencedDecl', {}).get('name')
            a = [self.sym(x, env) for x in e['inner'][1:]]
            if fn == '_create_atom_vector' and len(a) == 2: return ('atomvec', a[0], a[1])
            if fn == 'xrl_strdup' and len(a) == 1: return ('strdup', a[0])
            if fn == 'xrl_malloc' and len(a) == 1: return ('malloc', a[0])
            return ('other', 'call of %s' % fn)
        if k == 'CXXMemberCallExpr':
            if e.get('id') == self._call_id: return ('res',)
            me = strip(e['inner'][0])
            if me.get('kind') == 'MemberExpr' and me.get('name') in ('size', 'c_str') and len(e['inner']) == 1:
                return ({'size': 'size', 'c_str': 'cstr'}[me['name']], self.sym(me['inner'][0], env))
            return ('other', 'member call')
        return ('other', str(k))

    def for_loop(self, st, env):
        """`for (int i = 0; i < N; i++) { … }` -> (ok, count term, body statements, environment inside the body)"""
        inner = st.get('inner', []) or []
        if len(inner) != 5: return False, ('other', 'for'), [], env
        init, _, cond, inc, body = inner
        ivar = None
        if init.get('kind') == 'DeclStmt' and len(init.get('inner', [])) == 1 and init['inner'][0].get('kind') == 'VarDecl':
            v = init['inner'][0]; i0 = [x for x in v.get('inner', []) if isinstance(x, dict)]
            if i0 and strip(i0[0]).get('kind') == 'IntegerLiteral' and int(strip(i0[0]).get('value', '1')) == 0: ivar = v['id']
        env2 = dict(env)
        if ivar: env2[ivar] = ('idx',)
        ok = ivar is not None
        count = ('other', 'loop bound')
        c = strip(cond) or {}
        if c.get('kind') == 'BinaryOperator' and c.get('opcode') == '<' and self.sym(c['inner'][0], env2) == ('idx',): count = self.sym(c['inner'][1], env)
        else: ok = False
        u = strip(inc) or {}
        if not (u.get('kind') == 'UnaryOperator' and u.get('opcode') == '++' and self.sym(u['inner'][0], env2) == ('idx',)): ok = False
        stmts = body.get('inner', []) if body.get('kind') == 'CompoundStmt' else [body]
        return ok, count, stmts or [], env2

    def eval_body(self, stmts, pidx, call_id, outpos):
        """-> (return term, [(lhs term, rhs term)] assignments of the body, [(count, [(lhs, rhs)])] assignment loops)"""
        self._call_id = call_id
        env = {pid: ('param', i) for pid, i in pidx.items()}
        ret = ('none',); assigns = []; loops = []
        for st in stmts:
            k = st.get('kind')
            if k == 'DeclStmt':
                for v in st.get('inner', []) or []:
                    if v.get('kind') != 'VarDecl': continue
                    ini = [x for x in v.get('inner', []) or [] if isinstance(x, dict) and x.get('kind')]
                    if v['id'] in outpos: env[v['id']] = ('outArg', outpos[v['id']])
                    elif v.get('init') and ini: env[v['id']] = self.sym(ini[0], env)
                    else: env[v['id']] = ('other', 'uninitialised local ' + v.get('name', '?'))
            elif k == 'ForStmt':
                ok, count, body, env2 = self.for_loop(st, env)
                las = []
                for b in body:
                    bs = strip(b) or {}
                    if bs.get('kind') == 'CXXMemberCallExpr':
                        me = strip(bs['inner'][0])
                        if me.get('kind') == 'MemberExpr' and me.get('name') == 'push_back' and len(bs['inner']) == 2:
                            vid = strip(me['inner'][0]).get('referencedDecl', {}).get('id')
                            el = self.sym(bs['inner'][1], env2)
                            cur = env.get(vid, ('other', 'push_back on a non-local'))
                            if not ok or cur[0] != 'empty': env[vid] = ('other', 'loop shape')
                            elif el[0] == 'string' and el[1][0] == 'index' and el[1][2] == ('idx',): env[vid] = ('elems', 'std::string', el[1][1], count)
                            elif el[0] == 'object' and el[2][0] == 'index' and el[2][2] == ('idx',): env[vid] = ('elems', el[1], el[2][1], count)
                            else: env[vid] = ('other', 'pushed element is not <ctor>(<array>[i])')
                    elif bs.get('kind') == 'BinaryOperator' and bs.get('opcode') == '=':
                        las.append((self.sym(bs['inner'][0], env2), self.sym(bs['inner'][1], env2)))
                    elif bs.get('kind') == 'CallExpr' and strip(bs['inner'][0]).get('referencedDecl', {}).get('name') in self.release_fns: pass
                    else: las.append((('other', 'statement %s in a loop' % bs.get('kind')), ('other', '')))
                if las: loops.append((count if ok else ('other', 'loop shape'), las))
            elif k == 'ReturnStmt':
                ri = [x for x in st.get('inner', []) or [] if isinstance(x, dict) and x.get('kind')]
                ret = self.sym(ri[0], env) if ri else ('none',)
            else:
                bs = strip(st) or {}
                if bs.get('kind') == 'BinaryOperator' and bs.get('opcode') == '=':
                    lhs = self.sym(bs['inner'][0], env); rhs = self.sym(bs['inner'][1], env)
                    if lhs == ('field', ('this',), 'cs') and rhs == ('res',): ret = ('adopt', ('res',))
                    else: assigns.append((lhs, rhs))
        return ret, assigns, loops

    def ctor_tables(self, d, name, sig, params, pidx, stmts):
        """member-initialiser list of a constructor -> class map; body of the public Struct constructor -> own-constructor table"""
        env = {pid: ('param', i) for pid, i in pidx.items()}
        self._call_id = None
        inits = []
        for x in d.get('inner', []) or []:
            if x.get('kind') != 'CXXCtorInitializer' or 'anyInit' not in x: continue
            m = x['anyInit'].get('name'); ini = [y for y in x.get('inner', []) or [] if isinstance(y, dict) and y.get('kind')]
            t = self.sym(ini[0], env) if ini else ('other', 'no initialiser')
            def fld(u): return u[2] if u[0] == 'field' and u[1] == ('param', 0) else None
            if fld(t): f = ('scalar', fld(t))
            elif t[0] == 'string' and fld(t[1]): f = ('string', fld(t[1]))
            elif t[0] == 'range' and fld(t[1]) and fld(t[2]): f = ('range', fld(t[1]), fld(t[2]))
            elif t[0] == 'atomvec' and fld(t[1]) and fld(t[2]): f = ('atoms', fld(t[1]), fld(t[2]))
            elif t[0] == 'param': f = ('adopt',) if (m == 'cs' and params and params[0]['type']['qualType'] == 'Crystal_Struct *') else ('param', t[1])
            elif t[0] == 'size' and t[1][0] == 'param': f = ('sizeOf', t[1][1])
            else: f = ('other', str(t))
            inits.append((m, f))
        pty = params[0]['type']['qualType'] if params else ''
        src = re.sub(r'^const ', '', re.sub(r'\s*[\*&]$', '', pty.strip()))
        src = self.aliases.get(src, src)
        cls = name[:-len(sig)] if sig else name
        cls = cls.rsplit('::', 1)[0]                  # "Crystal::Struct::Struct" -> "Crystal::Struct"
        if self.cls_of(src) == cls and '_' not in pty: src = 'self'          # copy constructor: the parameter is an object of the class itself
        self.class_maps.append(dict(cls=cls, sig=sig, src=src if len(params) == 1 else '', inits=inits, line=self.line_of(d)))
        if any(f == ('other',) or f[0] == 'other' for _, f in inits): self.unclassified.append('%s: member initialiser not classified: %s' % (name, [i for i in inits if i[1][0] == 'other']))
        # the public constructor builds the C struct itself
        if any(n.get('kind') == 'CallExpr' and strip(n['inner'][0]).get('referencedDecl', {}).get('name') == 'xrl_malloc' for s_ in stmts for n in walk(s_)):
            _, assigns, loops = self.eval_body(stmts, pidx, None, {})
            def cs_field(l):
                if l == ('field', ('this',), 'cs'): return ''
                if l[0] == 'field' and l[1] == ('field', ('this',), 'cs'): return l[2]
                return None
            def src_of(r):
                if r[0] == 'param': return ('param', r[1])
                if r[0] == 'field' and r[1] == ('this',): return ('member', r[2])
                if r[0] == 'strdup' and r[1][0] == 'cstr' and r[1][1][0] == 'param': return ('strdupParam', r[1][1][1])
                if r[0] == 'malloc' and r[1] == ('sizeof', 'Crystal_Struct'): return ('allocStruct',)
                if r[0] == 'malloc' and r[1][0] == 'mul' and r[1][1] == ('sizeof', 'Crystal_Atom'): return ('allocAtoms', src_of(r[1][2]))
                return ('other', str(r))
            own = dict(sig=sig, assigns=[], loops=[], line=self.line_of(d))
            for l, r in assigns:
                f = cs_field(l)
                own['assigns'].append((f if f is not None else '?', src_of(r) if f is not None else ('other', str(l))))
            for count, las in loops:
                items = []
                for l, r in las:
                    # cs->atom[i].F = <vector parameter>[i].G
                    ok = (l[0] == 'field' and l[1][0] == 'index' and l[1][2] == ('idx',) and cs_field(l[1][1]) is not None and
                          r[0] == 'field' and r[1][0] == 'index' and r[1][2] == ('idx',) and r[1][1][0] == 'param')
                    items.append((cs_field(l[1][1]), l[2], r[2], ('param', r[1][1][1])) if ok else ('?', '?', '?', ('other', '%s = %s' % (l, r))))
                own['loops'].append((src_of(count), items))
            self.own_ctors.append(own)

    def visit_fn(self, d, prefix, kind):
        params = [x for x in d.get('inner', []) if x.get('kind') == 'ParmVarDecl']
        pidx = {p['id']: i for i, p in enumerate(params)}
        ptys = [cxx_ty(p['type']['qualType']) for p in params]
        body = [x for x in d.get('inner', []) if x.get('kind') == 'CompoundStmt']
        sig = ''
        if kind == 'ctor':
            # copy constructor / adopting constructor / public constructor are distinguished by their parameter
            pt = [p['type']['qualType'] for p in params]
            sig = '(' + ','.join(pt) + ')'
        name = prefix + d['name'] + sig
        self._parts = (prefix, d['name'], sig)
        if not body: return
        stmts = body[0].get('inner', []) or []
        ccalls = []; dcalls = []; releases = []
        # constructor initialisers are children of the decl (CXXCtorInitializer), the body follows
        roots = [('init', x) for x in d.get('inner', []) if x.get('kind') == 'CXXCtorInitializer'] + [(i, s) for i, s in enumerate(stmts)]
        adopt = False
        for si, st in roots:
            if si == 'init':
                # cs(_struct): the pointer parameter is stored -> the object adopts the C struct
                if st.get('anyInit', {}).get('name') == 'cs':
                    for n in walk(st):
                        if n.get('kind') == 'DeclRefExpr' and n.get('referencedDecl', {}).get('id') in pidx: adopt = True
                continue
            for n in walk(st):
                if n.get('kind') == 'CallExpr':
                    cal = strip(n['inner'][0]); rd = cal.get('referencedDecl', {})
                    if cal.get('kind') == 'DeclRefExpr' and rd.get('kind') == 'FunctionDecl':
                        fn = rd.get('name')
                        if fn in self.release_fns: releases.append(fn)
                        elif fn in self.pnames and fn not in ('xrl_malloc', 'xrl_strdup', 'xrl_strndup'):
                            ccalls.append((si, fn, [self.classify_arg(a, pidx, None) for a in n['inner'][1:]], n.get('id')))
                elif n.get('kind') == 'CXXMemberCallExpr':
                    me = strip(n['inner'][0])
                    if me.get('kind') == 'MemberExpr' and me.get('name') != 'c_str':
                        b = strip(me['inner'][0]); rd = b.get('referencedDecl', {})
                        if rd.get('id') in pidx and ptys[pidx[rd['id']]] == 'cs':
                            dcalls.append((si, me.get('name'), pidx[rd['id']], [self.classify_arg(a, pidx, None) for a in n['inner'][1:]], n.get('id')))
        line = self.line_of(d)
        if kind == 'dtor':
            self.add(**dict(name=name, kind='dtor', params=[], callee=releases[0] if releases else '', args=[('thisCs',)], checked=False,
                                      release=releases[0] if releases else '', ret=('none',), line=line))
            return
        if kind == 'ctor': self.ctor_tables(d, name, sig, params, pidx, stmts)
        if not ccalls and not dcalls:
            if kind == 'ctor' and adopt:
                self.add(name=name, kind='ctor', params=ptys, callee='', args=[], checked=False, release='adopt', ret=('none',), line=line)
            elif kind == 'plain' and d['name'].startswith('_'):
                # helper of the header without a C call (_create_atom_vector): its result as a term over its parameters
                r, _, _ = self.eval_body(stmts, pidx, None, {})
                self.helpers.append(dict(name=name, params=[p_['type']['qualType'] for p_ in params], ret=r, line=line))
                if r[0] == 'other': self.unclassified.append('%s: returned value not classified: %s' % (name, r))
            elif kind == 'ctor' and any(n.get('kind') == 'CallExpr' and strip(n['inner'][0]).get('referencedDecl', {}).get('name') == 'xrl_malloc' for s in stmts for n in walk(s)):
                self.add(name=name, kind='ctor', params=ptys, callee='xrl_malloc', args=[], checked=False, release='own', ret=('none',), line=line)
            return       # helper without a C call (Atom constructor, _create_atom_vector)
        if dcalls and not ccalls:
            if len(dcalls) != 1: self.unclassified.append('%s: %d forwarded method calls' % (name, len(dcalls)))
            si, mname, obj, args, cid = dcalls[0]
            r, _, _ = self.eval_body(stmts, pidx, cid, {})
            self.add(name=name, kind='delegate', params=ptys, callee=mname, args=[('param', obj)] + args, checked=False, release='', ret=r, line=line)
            return
        if len(ccalls) != 1:
            self.unclassified.append('%s calls %d C functions: %s' % (name, len(ccalls), [c[1] for c in ccalls]));
        si, fn, args, cid = ccalls[0]
        # is the next top-level statement `_process_error(error)`?
        checked = False
        if isinstance(si, int) and si + 1 < len(stmts):
            nx = stmts[si + 1]
            if nx.get('kind') == 'CallExpr':
                cal = strip(nx['inner'][0])
                a0 = strip(nx['inner'][1]) if len(nx['inner']) > 1 else {}
                if cal.get('referencedDecl', {}).get('name') == '_process_error' and a0.get('referencedDecl', {}).get('name') == 'error': checked = True
        ret = self.pnames[fn]['ret']
        if ret in ('cd', 'cdn', 'rnd', 'cstr', 'strlist'):
            rel = sorted(set(releases))
            if ret == 'strlist': release = 'xrlFree*' if releases.count('xrlFree') >= 2 else (rel[0] if rel else '')
            else: release = rel[0] if len(rel) == 1 else '+'.join(rel)
        elif ret == 'cs':
            # result handed to a Struct constructor taking the pointer (GetCrystal) or stored in `cs` (copy constructor)
            release = 'adopt'
        else:
            release = ''
        for a in args:
            if a[0] in ('other', 'local'): self.unclassified.append('%s: argument of %s not classified: %s' % (name, fn, a))
        # the value handed back, as a term over the C result (the locals passed by address are named by their argument position)
        outpos = {a[2]: k_ for k_, a in enumerate(args) if a[0] == 'outLocal'}
        rterm, _, _ = self.eval_body(stmts, pidx, cid, outpos)
        self.add(name=name, kind=kind, params=ptys, callee=fn, args=args, checked=checked, release=release, ret=rterm, line=line)

# ------------------------------------------------------------------------------------------------ emit

def lean_str(s): return '"' + s.replace('\\', '\\\\').replace('"', '\\"') + '"'
def lean_ty(t): return '.' + (t if t in ('int', 'double', 'str', 'errpp', 'cs', 'carr', 'outd', 'outi', 'void', 'cplx', 'cstr', 'strlist', 'cd', 'cdn', 'rnd') else 'other')
def lean_arg(a):
    if a[0] in ('param', 'cstr', 'pack', 'paramCs'): return '.%s %d' % (a[0], a[1])
    if a[0] in ('err', 'null', 'thisCs', 'outLocal'): return '.' + a[0]
    return '.other'

def lean_ret(t):
    k = t[0]
    if k in ('res', 'none'): return '.' + k
    if k in ('param', 'outArg'): return '(.%s %d)' % (k, t[1])
    if k == 'field': return '(.field %s %s)' % (lean_ret(t[1]), lean_str(t[2]))
    if k == 'complex': return '(.complex %s %s)' % (lean_ret(t[1]), lean_ret(t[2]))
    if k in ('string', 'adopt'): return '(.%s %s)' % (k, lean_ret(t[1]))
    if k == 'elems': return '(.elems %s %s %s)' % (lean_str(t[1]), lean_ret(t[2]), lean_ret(t[3]))
    if k == 'object': return '(.object %s %s)' % (lean_str(t[1]), lean_ret(t[2]))
    return '.other'

def lean_finit(f):
    k = f[0]
    if k in ('scalar', 'string'): return '.%s %s' % (k, lean_str(f[1]))
    if k in ('range', 'atoms'): return '.%s %s %s' % (k, lean_str(f[1]), lean_str(f[2]))
    if k in ('param', 'sizeOf'): return '.%s %d' % (k, f[1])
    if k == 'adopt': return '.adopt'
    return '.other'

def lean_cssrc(c):
    k = c[0]
    if k in ('param', 'strdupParam'): return '(.%s %d)' % (k, c[1])
    if k == 'member': return '(.member %s)' % lean_str(c[1])
    if k == 'allocStruct': return '.allocStruct'
    if k == 'allocAtoms': return '(.allocAtoms %s)' % lean_cssrc(c[1])
    return '.other'

def emit_lean(ex, path):
    out = ['/- GENERATED by tools/extract_cpp.py from cplusplus/xraylib++.h and include/*.h of the working tree — do not edit. -/',
           'import XrlCpp.Hand.Cpp', 'namespace XrlCpp.Gen', 'open XrlCpp', '']
    def chunks(name, ty, items):
        names = []
        for k in range(0, max(len(items), 1), 40):
            nm = '%s_%d' % (name, k // 40); names.append(nm)
            out.append('def %s : List %s := [\n  %s]' % (nm, ty, ',\n  '.join(items[k:k + 40])))
        out.append('def %s : List %s := %s\n' % (name, ty, ' ++ '.join(names)))
    chunks('cProtos', 'CProto', ['{ name := %s, ret := %s, params := [%s] }' % (lean_str(p['name']), lean_ty(p['ret']), ', '.join(lean_ty(t) for _, t in p['params']))
                                  for p in ex.protos])
    chunks('wrappers', 'Wrapper', ['{ scope := %s, base := %s, sig := %s, kind := .%s, params := [%s], callee := %s, args := [%s], checked := %s, release := %s, ret := %s }' % (
        lean_str(w['scope']), lean_str(w['base']), lean_str(w['sig']), w['kind'], ', '.join(lean_ty(t) for t in w['params']), lean_str(w['callee']), ', '.join(lean_arg(a) for a in w['args']),
        'true' if w['checked'] else 'false', lean_str(w['release']), lean_ret(w['ret'])) for w in ex.wrappers if w['kind'] != 'dtor'])
    dt = [w for w in ex.wrappers if w['kind'] == 'dtor']
    out.append('/-- release function called by `Crystal::Struct::~Struct` on the member `cs` -/')
    out.append('def structDtorRelease : String := %s\n' % lean_str(dt[0]['release'] if dt else ''))
    out.append('/-- constructors of the classes of the header: member initialisers (field maps) -/')
    out.append('def classMaps : List ClassMap := [\n  %s]\n' % ',\n  '.join(
        '{ cls := %s, sig := %s, src := %s,\n    inits := [%s] }' % (lean_str(m['cls']), lean_str(m['sig']), lean_str(m['src']),
            ', '.join('(%s, %s)' % (lean_str(n), lean_finit(f)) for n, f in m['inits'])) for m in ex.class_maps))
    out.append('/-- non-static data members of the classes of the header, in declaration order -/')
    out.append('def classMembers : List (String × List String) := [\n  %s]\n' % ',\n  '.join(
        '(%s, [%s])' % (lean_str(c), ', '.join(lean_str(x) for x in ms)) for c, ms in ex.class_members.items()))
    out.append('/-- the C structs of include/*.h the classes are built from -/')
    out.append('def cStructs : List CStruct := [\n  %s]\n' % ',\n  '.join(
        '{ name := %s, fields := [%s] }' % (lean_str(n), ', '.join('(%s, .%s)' % (lean_str(f), k) for f, k in fs)) for n, fs in sorted(ex.c_structs.items())))
    out.append('/-- body of the public constructor(s) of `Crystal::Struct` that build the C struct from values -/')
    out.append('def ownCtors : List OwnCtor := [\n  %s]\n' % ',\n  '.join(
        '{ sig := %s,\n    assigns := [%s],\n    loops := [%s] }' % (lean_str(o['sig']), ', '.join('(%s, %s)' % (lean_str(f), lean_cssrc(c)) for f, c in o['assigns']),
            ', '.join('(%s, [%s])' % (lean_cssrc(cnt), ', '.join('{ arr := %s, fld := %s, src := %s, vec := %s }' % (lean_str(a), lean_str(f), lean_str(g), lean_cssrc(v)) for a, f, g, v in items))
                      for cnt, items in o['loops'])) for o in ex.own_ctors))
    out.append('def helpers : List Helper := [%s]\n' % ', '.join('{ name := %s, ret := %s }' % (lean_str(h['name']), lean_ret(h['ret'])) for h in ex.helpers))
    out.append('/-- enumerators of `xrl_error_code` (include/xraylib-error.h) with their values -/')
    out.append('def errorCodes : List (String × Nat) := [%s]\n' % ', '.join('(%s, %d)' % (lean_str(n), v) for n, v in ex.error_codes))
    pe = ex.pe
    out.append('/-- `_process_error` (xraylib++.h:%s) as extracted -/' % pe['line'])
    out.append('def pe : PE :=\n  { cases := [%s],\n    dflt := (.%s, %s),\n    frees := %s }\n' % (
        ', '.join('(%d, .%s, %s)' % (c, k, 'true' if m else 'false') for c, k, m in pe['cases']), pe['dflt'][0], 'true' if pe['dflt'][1] else 'false',
        'true' if pe['frees'] else 'false'))
    out.append('end XrlCpp.Gen\n')
    txt = '\n'.join(out)
    os.makedirs(os.path.dirname(path), exist_ok=True)
    try:
        if open(path).read() == txt: return False
    except OSError: pass
    open(path, 'w').write(txt)
    return True

HAND_DISPATCH = {'SymbolToAtomicNumber'}      # served by hand-written code in harness/cppdrv.cpp

def generic_wrappers(ex):
    """wrappers the generated dispatch serves: every `_XRL_FUNCTION` instantiation, and every hand-written free function
    of namespace xrlpp that carries the name of a C function with int/double/string arguments (so that a template
    replaced by an explicit wrapper is still exercised)"""
    out = []; done = set()
    for w in ex.wrappers:
        if w['kind'] not in ('inst', 'plain') or w['scope'] != '' or w['name'] in done or w['name'] in HAND_DISPATCH: continue
        pw = ex.pnames.get(w['name'])
        if pw is None or not xapi.is_simple(pw): continue
        if any(t not in ('int', 'double', 'str') for t in w['params']): continue
        done.add(w['name']); out.append((w, pw))
    return out

def emit_cppdrv(ex, path):
    """one call per generic wrapper; argument values are parsed according to the *wrapper's* parameter types"""
    body = []
    for w, pw in generic_wrappers(ex):
        cd = []; ca = []
        for k, t in enumerate(w['params']):
            if t == 'int': cd.append('int a%d = atoi(tok[%d]);' % (k, k + 1))
            elif t == 'double': cd.append('double a%d = pd(tok[%d]);' % (k, k + 1))
            else: cd.append('std::string a%d = ps(tok[%d]);' % (k, k + 1))
            ca.append('a%d' % k)
        pr = 'pr_d' if pw['ret'] == 'double' else 'pr_i'
        body.append('  if (!strcmp(tok[0], "%s") && nt == %d) { %s CALL(%s(xrlpp::%s(%s))); return 1; }' % (w['name'], len(w['params']) + 2, ' '.join(cd), pr, w['name'], ', '.join(ca)))
    with open(path, 'w') as f:
        f.write('/* GENERATED by tools/extract_cpp.py */\nstatic int dispatch_gen(char **tok, int nt) {\n' + '\n'.join(body) + '\n  return 0;\n}\n')

def main():
    repo = os.environ.get('VERIF_REPO', '/repo')
    bdir, gen, aux = sys.argv[1], sys.argv[2], sys.argv[3]
    os.makedirs(aux, exist_ok=True)
    try:
        ex = Extractor(repo, bdir, aux).run()
    except ExtractError as e:
        print('EXTRACT-FAILED ' + str(e).replace('\n', ' | ')[:3000]); sys.exit(3)
    for u in ex.unclassified: print('UNCLASSIFIED ' + u)
    emit_lean(ex, os.path.join(gen, 'Tables.lean'))
    emit_cppdrv(ex, os.path.join(aux, 'cppdrv_gen.inc'))
    xapi.gen_c_driver(ex.protos, os.path.join(aux, 'xdrv_gen.inc'))
    json.dump(dict(protos=ex.protos, wrappers=ex.wrappers, pe=ex.pe, unclassified=ex.unclassified, generic=[w['name'] for w, _ in generic_wrappers(ex)],
                   class_maps=ex.class_maps, class_members=ex.class_members, c_structs=ex.c_structs, own_ctors=ex.own_ctors, helpers=ex.helpers,
                   error_codes=ex.error_codes), open(os.path.join(aux, 'cpp_tables.json'), 'w'), indent=1)
    print('extract_cpp: %d C prototypes, %d wrapper entries, pe=%s' % (len(ex.protos), len(ex.wrappers), ex.pe), file=sys.stderr)
    sys.exit(3 if ex.unclassified else 0)

if __name__ == '__main__':
    main()
