#!/usr/bin/env python3
"""Extract the wrapper table of cplusplus/xraylib++.h from the clang-14 JSON AST (property C18).

For every function, method and constructor below namespace `xrlpp` that calls a public C function (or forwards to a
method), record: qualified name, parameter types, the C callee, the forwarded arguments in order (which wrapper
parameter / `.c_str()` / `&error` / `nullptr` / member `cs` each one is), whether `_process_error(error)` is the next
statement, and how the C result is released.  `_XRL_FUNCTION` overloads are recorded as uninstantiated patterns and as
instantiations with the argument types of the C prototype of the same name.  `_process_error` itself is read into a
`PE` description (case labels, exception classes, message passing, release of the error object).

Outputs: <aux>/cpp_tables.json, <gen>/Tables.lean (Lean tables, chunked), <aux>/cppdrv_gen.inc (C++ dispatch for
harness/cppdrv.cpp).  Anything the extractor cannot classify is reported as `UNCLASSIFIED …` (broken tie), never dropped.
"""
import os, sys, re, json
HERE = os.path.dirname(os.path.abspath(__file__))
sys.path.insert(0, HERE)
import xapi
from xapi import ExtractError

CXX_TY = {'int': 'int', 'const int': 'int', 'double': 'double', 'const double': 'double', 'const std::string &': 'str',
          'const std::string': 'str', 'std::string': 'str', 'double *': 'outd', 'int *': 'outi',
          'const char *': 'str', 'const char *const': 'str', 'const T...': 'other'}

def cxx_ty(t):
    if t in CXX_TY: return CXX_TY[t]
    if re.fullmatch(r'(xrlpp::Crystal::)?Struct &', t): return 'cs'
    if re.fullmatch(r'const (xrlpp::Crystal::)?Struct &', t): return 'cs'
    if t in ('Crystal_Struct *',): return 'cs'
    return 'other'

def strip(e):
    while e and e.get('kind') in ('ImplicitCastExpr', 'ParenExpr', 'CStyleCastExpr', 'ExprWithCleanups', 'MaterializeTemporaryExpr',
                                  'CXXBindTemporaryExpr', 'CXXFunctionalCastExpr', 'ConstantExpr') and e.get('inner'):
        e = e['inner'][0]
    return e

def walk(n):
    yield n
    for c in n.get('inner', []) or []:
        if isinstance(c, dict):
            yield from walk(c)

def parse_filtered(txt):
    dec = json.JSONDecoder(); i = 0; objs = []
    while i < len(txt):
        while i < len(txt) and txt[i].isspace(): i += 1
        if i >= len(txt): break
        if txt.startswith('Dumping ', i):      # clang prints "Dumping <name>:" before each filtered decl in some versions
            i = txt.index('\n', i) + 1; continue
        o, i = dec.raw_decode(txt, i); objs.append(o)
    return objs

class Extractor:
    def __init__(self, repo, bdir, workdir):
        self.repo = repo; self.bdir = bdir; self.work = workdir
        self.inc = ['-I' + bdir, '-I' + os.path.join(repo, 'include'), '-I' + os.path.join(repo, 'cplusplus'), '-DHAVE_CONFIG_H']
        self.protos = xapi.c_protos(repo, bdir, workdir)
        self.pnames = {p['name']: p for p in self.protos}
        self.unclassified = []
        self.wrappers = []
        self.pe = None
        self.hdr_text = open(os.path.join(repo, 'cplusplus', 'xraylib++.h')).read()
        self.release_fns = {'FreeCompoundData', 'FreeCompoundDataNIST', 'FreeRadioNuclideData', 'xrlFree', 'Crystal_Free'}

    # ---- pass 1: which templates exist
    def template_names(self):
        txt = xapi.clang_ast(self.inc, '#include "xraylib++.h"\n', self.work, 'hdr.cpp', cxx=True, filt='xrlpp')
        ns = [o for o in parse_filtered(txt) if o.get('kind') == 'NamespaceDecl' and o.get('name') == 'xrlpp']
        if not ns: raise ExtractError('namespace xrlpp not found in xraylib++.h')
        names = []
        for d in ns[0].get('inner', []):
            if d.get('kind') == 'FunctionTemplateDecl' and d['name'] not in names: names.append(d['name'])
        return names

    def inst_source(self, tnames):
        src = ['#include "xraylib++.h"', 'void xv_instantiate() {', '  std::string s; int i = 0; double d = 0; (void)i; (void)d;']
        for n in tnames:
            p = self.pnames.get(n)
            if not p or not xapi.is_simple(p):
                self.unclassified.append('template wrapper %s has no C prototype of its own name with int/double/string arguments' % n); continue
            args = [{'int': 'i', 'double': 'd', 'str': 's'}[t] for _, t in p['params'][:-1]]
            src.append('  (void)xrlpp::%s(%s);' % (n, ', '.join(args)))
        src.append('}')
        return '\n'.join(src) + '\n'

    # ---- pass 2
    def run(self):
        tnames = self.template_names()
        txt = xapi.clang_ast(self.inc, self.inst_source(tnames), self.work, 'inst.cpp', cxx=True, filt='xrlpp')
        ns = [o for o in parse_filtered(txt) if o.get('kind') == 'NamespaceDecl' and o.get('name') == 'xrlpp'][0]
        self.visit_scope(ns, '')
        if self.pe is None: raise ExtractError('_process_error not found in namespace xrlpp')
        return self

    def visit_scope(self, n, prefix):
        for d in n.get('inner', []) or []:
            k = d.get('kind')
            if k == 'NamespaceDecl': self.visit_scope(d, prefix + d['name'] + '::')
            elif k == 'CXXRecordDecl' and d.get('completeDefinition'): self.visit_scope(d, prefix + d['name'] + '::')
            elif k == 'FunctionTemplateDecl':
                fds = [x for x in d.get('inner', []) if x.get('kind') == 'FunctionDecl']
                for j, fd in enumerate(fds):
                    self.visit_fn(fd, prefix, 'pattern' if j == 0 else 'inst')
            elif k in ('FunctionDecl', 'CXXMethodDecl', 'CXXConstructorDecl', 'CXXDestructorDecl'):
                if d.get('isImplicit'): continue
                if d.get('name') == '_process_error': self.visit_pe(d)
                else: self.visit_fn(d, prefix, {'FunctionDecl': 'plain', 'CXXMethodDecl': 'method', 'CXXConstructorDecl': 'ctor', 'CXXDestructorDecl': 'dtor'}[k])

    # ---- _process_error
    def visit_pe(self, d):
        body = [x for x in d.get('inner', []) if x.get('kind') == 'CompoundStmt']
        if not body: return
        body = body[0]
        line = self.line_of(d)
        # locals that carry error->message / error->code
        msgvars = set();
        for n in walk(body):
            if n.get('kind') == 'VarDecl' and any(m.get('kind') == 'MemberExpr' and m.get('name') == 'message' for m in walk(n)): msgvars.add(n.get('name'))
        def throw_info(stmt):
            th = [n for n in walk(stmt) if n.get('kind') == 'CXXThrowExpr']
            if len(th) != 1: return None
            t = th[0]; ty = None; carries = False
            for n in walk(t):
                q = n.get('type', {}).get('qualType', '')
                if ty is None and q.startswith('std::') and n.get('kind') in ('CXXTemporaryObjectExpr', 'CXXConstructExpr', 'CXXFunctionalCastExpr', 'CXXBindTemporaryExpr'): ty = q
                if n.get('kind') == 'MemberExpr' and n.get('name') == 'message': carries = True
                if n.get('kind') == 'DeclRefExpr' and n.get('referencedDecl', {}).get('name') in msgvars: carries = True
            frees_here = any(n.get('kind') == 'CallExpr' and strip(n['inner'][0]).get('referencedDecl', {}).get('name') in ('xrl_error_free', 'xrl_clear_error') for n in walk(stmt))
            kind = {'std::bad_alloc': 'badAlloc', 'std::invalid_argument': 'invalidArgument', 'std::runtime_error': 'runtimeError'}.get(ty)
            if kind is None: self.unclassified.append('_process_error throws %s' % ty); kind = 'runtimeError'
            return kind, carries, frees_here
        sw = [n for n in walk(body) if n.get('kind') == 'SwitchStmt']
        if len(sw) != 1:
            self.unclassified.append('_process_error: expected exactly one switch statement, found %d' % len(sw)); return
        # release of the error object before the switch
        frees_top = False
        for st in body.get('inner', []):
            if st is sw[0] or st.get('id') == sw[0].get('id'): break
            if any(n.get('kind') == 'CallExpr' and strip(n['inner'][0]).get('referencedDecl', {}).get('name') in ('xrl_error_free', 'xrl_clear_error') for n in walk(st)): frees_top = True
        cases = []; dflt = None; frees_all = True
        swbody = [x for x in sw[0].get('inner', []) if x.get('kind') == 'CompoundStmt'][0]
        pending = []      # case labels that fall through to the next statement
        def handle(label_node):
            nonlocal dflt, frees_all
            inner = label_node.get('inner', [])
            if label_node['kind'] == 'CaseStmt':
                val = None
                for n in walk(inner[0]):
                    if n.get('kind') == 'ConstantExpr' and 'value' in n: val = int(n['value']); break
                sub = inner[-1]; labels = pending + [('case', val)]
            else:
                sub = inner[-1]; labels = pending + [('default', None)]
            pending.clear()
            if sub.get('kind') in ('CaseStmt', 'DefaultStmt'):
                pending.extend(labels); handle(sub); return
            ti = throw_info(sub)
            if ti is None:
                self.unclassified.append('_process_error: a switch label does not throw exactly once'); return
            kind, carries, fh = ti
            if not (fh or frees_top): frees_all = False
            for lk, lv in labels:
                if lk == 'case': cases.append((lv, kind, carries))
                else: dflt = (kind, carries)
        for st in swbody.get('inner', []):
            if st.get('kind') in ('CaseStmt', 'DefaultStmt'): handle(st)
            else: self.unclassified.append('_process_error: statement outside a label in the switch: %s' % st.get('kind'))
        if dflt is None:
            self.unclassified.append('_process_error: no default label (codes without a label would not throw)'); dflt = ('runtimeError', True)
        self.pe = dict(cases=cases, dflt=dflt, frees=bool(frees_all), line=line)

    def line_of(self, d):
        loc = d.get('loc', {})
        for k in (loc.get('expansionLoc', {}), loc):
            if 'offset' in k:
                f = k.get('file') or k.get('includedFrom', {}).get('file')
                return self.hdr_text.count('\n', 0, k['offset']) + 1
        return 0

    def add(self, **w):
        w['scope'], w['base'], w['sig'] = self._parts
        self.wrappers.append(w)

    # ---- a wrapper
    def classify_arg(self, e, pidx, locals_):
        e = strip(e); k = e.get('kind')
        if k == 'DeclRefExpr':
            rd = e.get('referencedDecl', {})
            if rd.get('id') in pidx: return ('param', pidx[rd['id']])
            if rd.get('kind') == 'VarDecl': return ('local', rd.get('name'))
        if k == 'PackExpansionExpr':
            s = strip(e['inner'][0]); rd = s.get('referencedDecl', {})
            if rd.get('id') in pidx: return ('pack', pidx[rd['id']])
        if k == 'CXXMemberCallExpr':
            me = strip(e['inner'][0])
            if me.get('kind') == 'MemberExpr' and me.get('name') == 'c_str':
                b = strip(me['inner'][0]); rd = b.get('referencedDecl', {})
                if rd.get('id') in pidx: return ('cstr', pidx[rd['id']])
        if k == 'UnaryOperator' and e.get('opcode') == '&':
            s = strip(e['inner'][0]); rd = s.get('referencedDecl', {})
            if rd.get('kind') == 'VarDecl':
                if rd.get('name') == 'error' and rd.get('type', {}).get('qualType') == 'xrl_error *': return ('err',)
                return ('outLocal',)
        if k in ('CXXNullPtrLiteralExpr', 'GNUNullExpr'): return ('null',)
        if k == 'MemberExpr' and e.get('name') == 'cs':
            b = strip(e['inner'][0])
            if b.get('kind') == 'CXXThisExpr': return ('thisCs',)
            rd = b.get('referencedDecl', {})
            if rd.get('id') in pidx: return ('paramCs', pidx[rd['id']])
        return ('other', k)

    def visit_fn(self, d, prefix, kind):
        params = [x for x in d.get('inner', []) if x.get('kind') == 'ParmVarDecl']
        pidx = {p['id']: i for i, p in enumerate(params)}
        ptys = [cxx_ty(p['type']['qualType']) for p in params]
        body = [x for x in d.get('inner', []) if x.get('kind') == 'CompoundStmt']
        sig = ''
        if kind == 'ctor':
            # copy constructor / adopting constructor / public constructor are distinguished by their parameter
            pt = [p['type']['qualType'] for p in params]
            sig = '(' + ','.join(pt) + ')'
        name = prefix + d['name'] + sig
        self._parts = (prefix, d['name'], sig)
        if not body: return
        stmts = body[0].get('inner', []) or []
        ccalls = []; dcalls = []; releases = []
        # constructor initialisers are children of the decl (CXXCtorInitializer), the body follows
        roots = [('init', x) for x in d.get('inner', []) if x.get('kind') == 'CXXCtorInitializer'] + [(i, s) for i, s in enumerate(stmts)]
        adopt = False
        for si, st in roots:
            if si == 'init':
                # cs(_struct): the pointer parameter is stored -> the object adopts the C struct
                if st.get('anyInit', {}).get('name') == 'cs':
                    for n in walk(st):
                        if n.get('kind') == 'DeclRefExpr' and n.get('referencedDecl', {}).get('id') in pidx: adopt = True
                continue
            for n in walk(st):
                if n.get('kind') == 'CallExpr':
                    cal = strip(n['inner'][0]); rd = cal.get('referencedDecl', {})
                    if cal.get('kind') == 'DeclRefExpr' and rd.get('kind') == 'FunctionDecl':
                        fn = rd.get('name')
                        if fn in self.release_fns: releases.append(fn)
                        elif fn in self.pnames and fn not in ('xrl_malloc', 'xrl_strdup', 'xrl_strndup'):
                            ccalls.append((si, fn, [self.classify_arg(a, pidx, None) for a in n['inner'][1:]]))
                elif n.get('kind') == 'CXXMemberCallExpr':
                    me = strip(n['inner'][0])
                    if me.get('kind') == 'MemberExpr' and me.get('name') != 'c_str':
                        b = strip(me['inner'][0]); rd = b.get('referencedDecl', {})
                        if rd.get('id') in pidx and ptys[pidx[rd['id']]] == 'cs':
                            dcalls.append((si, me.get('name'), pidx[rd['id']], [self.classify_arg(a, pidx, None) for a in n['inner'][1:]]))
        line = self.line_of(d)
        if kind == 'dtor':
            self.add(**dict(name=name, kind='dtor', params=[], callee=releases[0] if releases else '', args=[('thisCs',)], checked=False,
                                      release=releases[0] if releases else '', line=line))
            return
        if not ccalls and not dcalls:
            if kind == 'ctor' and adopt:
                self.add(name=name, kind='ctor', params=ptys, callee='', args=[], checked=False, release='adopt', line=line)
            elif kind == 'ctor' and any(n.get('kind') == 'CallExpr' and strip(n['inner'][0]).get('referencedDecl', {}).get('name') == 'xrl_malloc' for s in stmts for n in walk(s)):
                self.add(name=name, kind='ctor', params=ptys, callee='xrl_malloc', args=[], checked=False, release='own', line=line)
            return       # helper without a C call (Atom constructor, _create_atom_vector)
        if dcalls and not ccalls:
            if len(dcalls) != 1: self.unclassified.append('%s: %d forwarded method calls' % (name, len(dcalls)))
            si, mname, obj, args = dcalls[0]
            self.add(name=name, kind='delegate', params=ptys, callee=mname, args=[('param', obj)] + args, checked=False, release='', line=line)
            return
        if len(ccalls) != 1:
            self.unclassified.append('%s calls %d C functions: %s' % (name, len(ccalls), [c[1] for c in ccalls]));
        si, fn, args = ccalls[0]
        # is the next top-level statement `_process_error(error)`?
        checked = False
        if isinstance(si, int) and si + 1 < len(stmts):
            nx = stmts[si + 1]
            if nx.get('kind') == 'CallExpr':
                cal = strip(nx['inner'][0])
                a0 = strip(nx['inner'][1]) if len(nx['inner']) > 1 else {}
                if cal.get('referencedDecl', {}).get('name') == '_process_error' and a0.get('referencedDecl', {}).get('name') == 'error': checked = True
        ret = self.pnames[fn]['ret']
        if ret in ('cd', 'cdn', 'rnd', 'cstr', 'strlist'):
            rel = sorted(set(releases))
            if ret == 'strlist': release = 'xrlFree*' if releases.count('xrlFree') >= 2 else (rel[0] if rel else '')
            else: release = rel[0] if len(rel) == 1 else '+'.join(rel)
        elif ret == 'cs':
            # result handed to a Struct constructor taking the pointer (GetCrystal) or stored in `cs` (copy constructor)
            release = 'adopt'
        else:
            release = ''
        for a in args:
            if a[0] in ('other', 'local'): self.unclassified.append('%s: argument of %s not classified: %s' % (name, fn, a))
        self.add(name=name, kind=kind, params=ptys, callee=fn, args=args, checked=checked, release=release, line=line)

# ------------------------------------------------------------------------------------------------ emit

def lean_str(s): return '"' + s.replace('\\', '\\\\').replace('"', '\\"') + '"'
def lean_ty(t): return '.' + (t if t in ('int', 'double', 'str', 'errpp', 'cs', 'carr', 'outd', 'outi', 'void', 'cplx', 'cstr', 'strlist', 'cd', 'cdn', 'rnd') else 'other')
def lean_arg(a):
    if a[0] in ('param', 'cstr', 'pack', 'paramCs'): return '.%s %d' % (a[0], a[1])
    if a[0] in ('err', 'null', 'thisCs', 'outLocal'): return '.' + a[0]
    return '.other'

def emit_lean(ex, path):
    out = ['/- GENERATED by tools/extract_cpp.py from cplusplus/xraylib++.h and include/*.h of the working tree — do not edit. -/',
           'import XrlCpp.Hand.Cpp', 'namespace XrlCpp.Gen', 'open XrlCpp', '']
    def chunks(name, ty, items):
        names = []
        for k in range(0, max(len(items), 1), 40):
            nm = '%s_%d' % (name, k // 40); names.append(nm)
            out.append('def %s : List %s := [\n  %s]' % (nm, ty, ',\n  '.join(items[k:k + 40])))
        out.append('def %s : List %s := %s\n' % (name, ty, ' ++ '.join(names)))
    chunks('cProtos', 'CProto', ['{ name := %s, ret := %s, params := [%s] }' % (lean_str(p['name']), lean_ty(p['ret']), ', '.join(lean_ty(t) for _, t in p['params']))
                                  for p in ex.protos])
    chunks('wrappers', 'Wrapper', ['{ scope := %s, base := %s, sig := %s, kind := .%s, params := [%s], callee := %s, args := [%s], checked := %s, release := %s }' % (
        lean_str(w['scope']), lean_str(w['base']), lean_str(w['sig']), w['kind'], ', '.join(lean_ty(t) for t in w['params']), lean_str(w['callee']), ', '.join(lean_arg(a) for a in w['args']),
        'true' if w['checked'] else 'false', lean_str(w['release'])) for w in ex.wrappers if w['kind'] != 'dtor'])
    dt = [w for w in ex.wrappers if w['kind'] == 'dtor']
    out.append('/-- release function called by `Crystal::Struct::~Struct` on the member `cs` -/')
    out.append('def structDtorRelease : String := %s\n' % lean_str(dt[0]['release'] if dt else ''))
    pe = ex.pe
    out.append('/-- `_process_error` (xraylib++.h:%s) as extracted -/' % pe['line'])
    out.append('def pe : PE :=\n  { cases := [%s],\n    dflt := (.%s, %s),\n    frees := %s }\n' % (
        ', '.join('(%d, .%s, %s)' % (c, k, 'true' if m else 'false') for c, k, m in pe['cases']), pe['dflt'][0], 'true' if pe['dflt'][1] else 'false',
        'true' if pe['frees'] else 'false'))
    out.append('end XrlCpp.Gen\n')
    txt = '\n'.join(out)
    os.makedirs(os.path.dirname(path), exist_ok=True)
    try:
        if open(path).read() == txt: return False
    except OSError: pass
    open(path, 'w').write(txt)
    return True

HAND_DISPATCH = {'SymbolToAtomicNumber'}      # served by hand-written code in harness/cppdrv.cpp

def generic_wrappers(ex):
    """wrappers the generated dispatch serves: every `_XRL_FUNCTION` instantiation, and every hand-written free function
    of namespace xrlpp that carries the name of a C function with int/double/string arguments (so that a template
    replaced by an explicit wrapper is still exercised)"""
    out = []; done = set()
    for w in ex.wrappers:
        if w['kind'] not in ('inst', 'plain') or w['scope'] != '' or w['name'] in done or w['name'] in HAND_DISPATCH: continue
        pw = ex.pnames.get(w['name'])
        if pw is None or not xapi.is_simple(pw): continue
        if any(t not in ('int', 'double', 'str') for t in w['params']): continue
        done.add(w['name']); out.append((w, pw))
    return out

def emit_cppdrv(ex, path):
    """one call per generic wrapper; argument values are parsed according to the *wrapper's* parameter types"""
    body = []
    for w, pw in generic_wrappers(ex):
        cd = []; ca = []
        for k, t in enumerate(w['params']):
            if t == 'int': cd.append('int a%d = atoi(tok[%d]);' % (k, k + 1))
            elif t == 'double': cd.append('double a%d = pd(tok[%d]);' % (k, k + 1))
            else: cd.append('std::string a%d = ps(tok[%d]);' % (k, k + 1))
            ca.append('a%d' % k)
        pr = 'pr_d' if pw['ret'] == 'double' else 'pr_i'
        body.append('  if (!strcmp(tok[0], "%s") && nt == %d) { %s CALL(%s(xrlpp::%s(%s))); return 1; }' % (w['name'], len(w['params']) + 2, ' '.join(cd), pr, w['name'], ', '.join(ca)))
    with open(path, 'w') as f:
        f.write('/* GENERATED by tools/extract_cpp.py */\nstatic int dispatch_gen(char **tok, int nt) {\n' + '\n'.join(body) + '\n  return 0;\n}\n')

def main():
    repo = os.environ.get('VERIF_REPO', '/repo')
    bdir, gen, aux = sys.argv[1], sys.argv[2], sys.argv[3]
    os.makedirs(aux, exist_ok=True)
    try:
        ex = Extractor(repo, bdir, aux).run()
    except ExtractError as e:
        print('EXTRACT-FAILED ' + str(e).replace('\n', ' | ')[:3000]); sys.exit(3)
    for u in ex.unclassified: print('UNCLASSIFIED ' + u)
    emit_lean(ex, os.path.join(gen, 'Tables.lean'))
    emit_cppdrv(ex, os.path.join(aux, 'cppdrv_gen.inc'))
    xapi.gen_c_driver(ex.protos, os.path.join(aux, 'xdrv_gen.inc'))
    json.dump(dict(protos=ex.protos, wrappers=ex.wrappers, pe=ex.pe, unclassified=ex.unclassified, generic=[w['name'] for w, _ in generic_wrappers(ex)]), open(os.path.join(aux, 'cpp_tables.json'), 'w'), indent=1)
    print('extract_cpp: %d C prototypes, %d wrapper entries, pe=%s' % (len(ex.protos), len(ex.wrappers), ex.pe), file=sys.stderr)
    sys.exit(3 if ex.unclassified else 0)

if __name__ == '__main__':
    main()
