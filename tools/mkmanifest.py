#!/usr/bin/env python3
"""Assemble /verif/MANIFEST.json from props/*.manifest.json (one entry per claimed property) + the fixed header."""
import json, os, glob, sys
V = os.path.dirname(os.path.dirname(os.path.abspath(__file__)))
props = [json.loads(l) for l in open(os.path.join(V, 'properties.jsonl'))]
entries = {}
claimed = set(open(os.path.join(V, 'props', 'claimed.txt')).read().split())
for p in sorted(glob.glob(os.path.join(V, 'props', 'c[0-9][0-9].manifest.json'))):
    e = json.load(open(p))
    if e['property_id'] in claimed: entries[e['property_id']] = e
na_reasons = json.load(open(os.path.join(V, 'props', 'not_applicable.json'))) if os.path.exists(os.path.join(V, 'props', 'not_applicable.json')) else {}
engines = {}
for e in entries.values():
    engines.setdefault(e.get('engine', 'lean-proof'), []).append(e['property_id'])
ENG = {
 'lean-proof': ('lean/', 'Lean 4 theorems over a model regenerated from the C sources on every run (tools/c2lean.py), plus correspondence of the model\'s Float reading with the library built from the working tree (ASan+UBSan)'),
}
man = {
 'version': 1,
 'setup_cmd': './setup.sh',
 'hooks': {'guard': 'XRAYLIB_VERIF',
           'enable': 'checks compile the sources of /repo themselves with -DXRAYLIB_VERIF (clang-14, sanitizers) in a scratch directory outside /repo; no source hook is currently needed',
           'baseline_off_cmd': 'meson test -C /repo/_build', 'source_commits': [], 'add_only': True},
 'engines': [dict(name=k, path=ENG.get(k, (k, ''))[0], serves_properties=sorted(v), kind_free_text=ENG.get(k, ('', 'Lean 4 model + theorems + correspondence check'))[1]) for k, v in sorted(engines.items())],
 'checks': [entries[k] for k in sorted(entries)],
 'notes': 'Approach, trusted base, findings: DESIGN.md. Known findings: known_findings.txt. Seeded breaking changes: seeded/.',
 'not_applicable': [dict(property_id=p['id'], reason=na_reasons.get(p['id'], 'check under construction in this round (DESIGN.md §3); not claimed until its theorems and tie run green'))
                    for p in props if p['id'] not in entries],
}
json.dump(man, open(os.path.join(V, 'MANIFEST.json'), 'w'), indent=1)
print('claimed:', sorted(entries), ' not claimed:', [x['property_id'] for x in man['not_applicable']])

# never leave an invalid MANIFEST behind: minimal structural validation (the full schema is checked by python3-vt where available)
REQUIRED = ('property_id', 'quick_cmd', 'evidence_file', 'level_claimed', 'level_note')
_m = json.load(open(os.path.join(V, 'MANIFEST.json')))
_bad = [c.get('property_id') for c in _m['checks'] if any(k not in c for k in REQUIRED)]
if _bad:
    print('INVALID MANIFEST entries:', _bad); sys.exit(1)
