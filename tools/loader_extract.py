#!/usr/bin/env python3
"""loader_extract.py <bdir with config.h> <out LoaderGen/Names.lean> [<out json>]

The name tables the data-file loaders search (ShellName, LineName, TransName, AugerName, AugerNameTotal of
src/xrayvars.c), the macro families of the public headers that designate their slots, and the dimensions — all taken
from the working tree (VERIF_REPO or /repo) THROUGH THE REAL COMPILER: a generated C program `#include`s
src/xrayvars.c (so `sizeof` gives the true table lengths and row widths) and the public header, and prints names as
hex and macro values as the compiler computes them.  Only the *classification* of a macro (which family, literal or
alias) is read from the header text.  Anything unexpected raises: the check reports a broken tie.

Emits LoaderGen/Names.lean (chunked character-code literals + the `Loader.NameTables` the driver uses, decoded from them) and, optionally, the same content as JSON for props/c01_loader.py."""
import os, re, subprocess, sys, json, tempfile, shutil

REPO = os.environ.get('VERIF_REPO', '/repo')
CHUNK = 40
TABLES = ['ShellName', 'LineName', 'TransName', 'AugerName', 'AugerNameTotal']
DIMS = ['ZMAX', 'SHELLNUM', 'SHELLNUM_K', 'SHELLNUM_C', 'SHELLNUM_A', 'LINENUM', 'TRANSNUM', 'AUGERNUM']
FAMILIES = [  # family, header, suffix
    ('line', 'include/xraylib-lines.h', '_LINE'),
    ('shell', 'include/xraylib-shells.h', '_SHELL'),
    ('auger', 'include/xraylib-auger.h', '_AUGER'),
    ('trans', 'include/xraylib.h', '_TRANS'),
    ('lineAlias', 'include/xraylib.h', '_LINE'),
]


class ExtractError(Exception):
    pass


def header_macros(repo):
    """family -> [(macro, body)] in file order; literal = body is an integer literal, alias = body is an identifier"""
    out = {}
    for fam, hdr, suf in FAMILIES:
        items = []
        txt = open(os.path.join(repo, hdr)).read()
        txt = re.sub(r'/\*.*?\*/', ' ', txt, flags=re.S)
        for m in re.finditer(r'^[ \t]*#[ \t]*define[ \t]+(\w+%s)[ \t]+(\S.*?)[ \t]*$' % suf, txt, re.M):
            items.append((m.group(1), m.group(2)))
        out[fam] = items
    return out


def extract(repo, bdir, work):
    hm = header_macros(repo)
    lit = {}      # family -> [macro]
    alias = []    # [(macro, target)]
    for fam, items in hm.items():
        for name, body in items:
            if re.fullmatch(r'-?\d+', body):
                if fam == 'lineAlias':
                    continue          # KA_LINE 0 … LB_LINE 3: group macros, not slots of the name table
                lit.setdefault(fam, []).append(name)
            elif re.fullmatch(r'[A-Za-z_]\w*', body):
                if fam in ('lineAlias', 'line'):
                    alias.append((name, body))
                else:
                    raise ExtractError('%s: alias macro %s in a family that has none' % (fam, name))
            else:
                raise ExtractError('%s: macro %s has a body that is neither a literal nor an identifier: %r' % (fam, name, body))
    for fam in ('line', 'shell', 'auger', 'trans'):
        if not lit.get(fam):
            raise ExtractError('no %s macros found' % fam)
    src = ['#include "config.h"', '#include <stdio.h>', '#include <string.h>', '#include "xraylib.h"', '#include "xrayvars.c"',
           'static void tab(const char *nm, const char *p, size_t n, size_t w) {',
           '  printf("T %s %zu %zu\\n", nm, n, w);',
           '  for (size_t i = 0; i < n; i++) { const char *s = p + i * w; size_t k = 0; printf("N %s %zu %d ", nm, i, memchr(s, 0, w) != NULL);',
           '    while (k < w && s[k]) printf("%02x", (unsigned char)s[k++]); printf("\\n"); } }',
           'int main(void) {']
    for t in TABLES:
        src.append('  tab("%s", &%s[0][0], sizeof(%s) / sizeof(%s[0]), sizeof(%s[0]));' % (t, t, t, t, t))
    for d in DIMS:
        src.append('  printf("D %s %%ld\\n", (long)(%s));' % (d, d))
    for fam in ('line', 'shell', 'auger', 'trans'):
        for n in lit[fam]:
            src.append('  printf("M %s %s %%ld\\n", (long)(%s));' % (fam, n, n))
    for n, tgt in alias:
        src.append('  printf("A %s %s %%ld %%ld\\n", (long)(%s), (long)(%s));' % (n, tgt, n, tgt))
    src.append('  return 0; }')
    cpath = os.path.join(work, 'loader_names.c'); exe = os.path.join(work, 'loader_names')
    open(cpath, 'w').write('\n'.join(src) + '\n')
    inc = ['-DHAVE_CONFIG_H', '-D_GNU_SOURCE', '-DXRAYLIB_VERIF', '-I' + bdir, '-I' + repo, '-I' + os.path.join(repo, 'src'), '-I' + os.path.join(repo, 'include')]
    p = subprocess.run(['clang-14', '-w', '-O0'] + inc + [cpath, '-o', exe], capture_output=True, text=True)
    if p.returncode != 0:
        raise ExtractError('name-table program does not compile: ' + p.stderr[-1500:])
    p = subprocess.run([exe], capture_output=True, text=True)
    if p.returncode != 0:
        raise ExtractError('name-table program failed: ' + p.stderr[-500:])
    res = dict(tables={}, widths={}, terminated={}, dims={}, macros={f: [] for f in ('line', 'shell', 'auger', 'trans')}, aliases=[])
    for l in p.stdout.splitlines():
        t = l.split(' ')
        if t[0] == 'T':
            res['tables'][t[1]] = [None] * int(t[2]); res['widths'][t[1]] = int(t[3]); res['terminated'][t[1]] = True
        elif t[0] == 'N':
            s = bytes.fromhex(t[4] if len(t) > 4 else '')
            try:
                name = s.decode('ascii')
            except UnicodeDecodeError:
                raise ExtractError('%s[%s] is not ASCII' % (t[1], t[2]))
            if not re.fullmatch(r'[\x21-\x7e]*', name) or '"' in name or '\\' in name:
                raise ExtractError('%s[%s] = %r has characters the Lean literal does not carry' % (t[1], t[2], name))
            res['tables'][t[1]][int(t[2])] = name
            if t[3] != '1': res['terminated'][t[1]] = False
        elif t[0] == 'D':
            res['dims'][t[1]] = int(t[2])
        elif t[0] == 'M':
            res['macros'][t[1]].append((t[2], int(t[3])))
        elif t[0] == 'A':
            if t[3] != t[4]: raise ExtractError('alias %s does not evaluate to its target %s' % (t[1], t[2]))
            res['aliases'].append((t[1], t[2], int(t[3])))
    for t in TABLES:
        if t not in res['tables'] or any(x is None for x in res['tables'][t]):
            raise ExtractError('table %s incomplete' % t)
    return res


def codes(s):
    return '[%s]' % ', '.join(str(b) for b in s.encode('ascii'))


def emit(res, path):
    """Names are emitted as lists of character codes (`List (List Nat)`): the kernel decides facts about Nat lists in
    seconds, while `String.toList` costs ~17 ms per string there.  The String tables the model uses are DEFINED from the
    codes (`Loader.decode`), so there is nothing to keep in step."""
    L = ['/- GENERATED by tools/loader_extract.py from src/xrayvars.c and include/*.h (values through clang) — do not edit. -/',
         'import Loader.Files', 'namespace LoaderGen', '']
    for d in DIMS:
        L.append('def %s : Nat := %d' % (d, res['dims'][d]))
    L.append('')

    def table(name, ty, items, render, show):
        ch = [items[i:i + CHUNK] for i in range(0, len(items), CHUNK)] or [[]]
        for i, c in enumerate(ch):
            L.append('/-- %s -/' % ' '.join(show(x) for x in c))
            L.append('def %s_%d : List %s := [%s]' % (name, i, ty, ', '.join(render(x) for x in c)))
        L.append('def %s : List %s := %s' % (name, ty, ' ++ '.join('%s_%d' % (name, i) for i in range(len(ch)))))
        L.append('')
    lean_names = {'ShellName': 'shell', 'LineName': 'line', 'TransName': 'trans', 'AugerName': 'auger', 'AugerNameTotal': 'augerTotal'}
    for t in TABLES:
        L.append('/-! `%s` of src/xrayvars.c: %d rows of `char[%d]`; every row NUL-terminated: %s -/' % (
            t, len(res['tables'][t]), res['widths'][t], 'yes' if res['terminated'][t] else 'NO'))
        table(lean_names[t] + 'Codes', '(List Nat)', res['tables'][t], codes, lambda x: x)
        L.append('def %sWidth : Nat := %d' % (lean_names[t], res['widths'][t]))
        L.append('def %sTerminated : Bool := %s' % (lean_names[t], 'true' if res['terminated'][t] else 'false'))
        L.append('')
    # macro families, sorted by the slot they designate (line: -v-1; others: v); ties keep header order
    slot = {'line': lambda v: -v - 1, 'shell': lambda v: v, 'auger': lambda v: v, 'trans': lambda v: v}
    for fam in ('line', 'shell', 'auger', 'trans'):
        items = sorted(res['macros'][fam], key=lambda x: slot[fam](x[1]))
        L.append('/-! literal `#define`s of the %s family (macro name as character codes, value), sorted by slot -/' % fam)
        table(fam + 'Macros', '(List Nat × Int)', items, lambda x: '(%s, %d)' % (codes(x[0]), x[1]), lambda x: '%s=%d' % x)
    L.append('/-! alias `#define X_LINE Y_LINE` of include/xraylib.h: (alias, target, value) -/')
    table('lineAliases', '(List Nat × List Nat × Int)', res['aliases'], lambda x: '(%s, %s, %d)' % (codes(x[0]), codes(x[1]), x[2]),
          lambda x: '%s=%s=%d' % tuple(x))
    L.append('/-- what the driver (and `loadAll`) instantiate the loader model with: the tables above, decoded -/')
    L.append('def names : Loader.NameTables :=')
    L.append('  { zmax := ZMAX, shell := shellCodes.map Loader.decode, line := lineCodes.map Loader.decode, trans := transCodes.map Loader.decode,')
    L.append('    auger := augerCodes.map Loader.decode, augerTotal := augerTotalCodes.map Loader.decode,')
    L.append('    shellnumK := SHELLNUM_K, shellnumC := SHELLNUM_C }')
    L.append('')
    L.append('end LoaderGen')
    txt = '\n'.join(L) + '\n'
    try:
        if open(path).read() == txt: return False
    except OSError:
        pass
    os.makedirs(os.path.dirname(path), exist_ok=True)
    tmp = path + '.tmp'
    open(tmp, 'w').write(txt); os.replace(tmp, path)
    return True


def main():
    bdir, out = sys.argv[1], sys.argv[2]
    jout = sys.argv[3] if len(sys.argv) > 3 else None
    work = tempfile.mkdtemp(prefix='xrlv.', dir='/var/tmp' if os.path.isdir('/var/tmp') else None)
    try:
        res = extract(REPO, bdir, work)
    finally:
        shutil.rmtree(work, ignore_errors=True)
    changed = emit(res, out)
    if jout:
        json.dump(res, open(jout, 'w'), indent=1)
    print('loader_extract: %s (%s)' % (out, 'rewritten' if changed else 'unchanged'))
    for t in TABLES:
        print('  %s: %d names' % (t, len(res['tables'][t])))


if __name__ == '__main__':
    try:
        main()
    except ExtractError as e:
        print('loader_extract: BROKEN TIE: %s' % e, file=sys.stderr)
        sys.exit(3)
