# generator of the proof text of the CS_FluorShell_Kissel* theorems (the text is pasted into Props/C19b.lean; this script is not part of the check)
import sys
VALS=['PK','PL1','PL2','PL3','PM1','PM2','PM3','PM4']
SH={'K':0,'L1':1,'L2':2,'L3':3,'M1':4,'M2':5,'M3':6,'M4':7,'M5':8}
def helper_args(name, kind):
    """value parameters of helper P<name>_<kind>_kissel in order"""
    i=['L1','L2','L3','M1','M2','M3','M4','M5'].index(name)
    if kind=='pure':
        grp = ['L1','L2','L3'] if name.startswith('L') else ['M1','M2','M3','M4','M5']
        return ['P'+g for g in grp[:grp.index(name)]]
    return VALS[:i+1]
def dec(k): return '(hk.vec %d (by decide) (by decide))'%k
def shell_block(K, fy, priors, final, jname, cname, rel='JRel'):
    """priors: list of (helper lean name, kshell, [arg value names], result value name); final similar"""
    L=[]
    L.append('  by_cases h%d : m = %d'%(K,K))
    L.append('  · subst h%d'%K)
    L.append('    simp only [↓reduceIte, Int.reduceEq]')
    env={}
    for i,(h,ks,args,res) in enumerate(priors):
        a=' '.join(env[x] for x in args)
        if h=='CS_Photo_Partial':
            L.append('    have t%d := ht 0 (by decide) (by decide)'%i)
            L.append('    have c%d := JCatchRel.of_rel (java_eq_c_CS_Photo_Partial T Z 0 hZ (by decide) E Slot.null rfl %s.1 %s.2.1 %s.2.2)'%(i,dec(0),dec(0),dec(0)))
        else:
            L.append('    have t%d := jtame_%s T Z hZ E %s hz (ht %d (by decide) (by decide))'%(i,h,a,ks))
            L.append('    have c%d := JCatchRel.of_rel (java_eq_c_%s T Z hZ E %s Slot.null rfl %s)'%(i,h,a,dec(ks)))
        L.append('    obtain ⟨p%d, hp%d⟩ := t%d.jtry_val (d := (0.0 : ℝ))'%(i,i,i))
        L.append('    simp only [jpure_eq_ok, zero_lit] at hp%d c%d'%(i,i))
        env[res]='p%d'%i
    L.append('    simp only [jpure_eq_ok, pure_eq_ok, jbind_ret, zero_lit, deq_real]')
    ind='    '
    def fy_use(ind):
        return [ind+'jeq_use_pos (java_eq_c_FluorYield T Z %d hZ (by decide) s hs), (java_pos_FluorYield T Z hZ %d (by decide))'%(fy,fy)]
    def rec(i, ind):
        out=[]
        if i==len(priors):
            h,ks,args,res=final
            a=' '.join(env[x] for x in args)
            out+=fy_use(ind)
            out.append(ind+'jeq_simp')
            out.append(ind+'jeq_use (java_eq_c_%s T Z hZ E %s s hs %s)'%(h,a,dec(ks)))
            out.append(ind+'jeq_auto')
            return out
        out.append(ind+'rcases c%d.cases with ⟨v%d, hc%d, hj%d⟩ | ⟨a, b, hc%d, hj%d⟩ | ⟨a, hc%d⟩'%(i,i,i,i,i,i,i))
        out.append(ind+'· have e%d : p%d = v%d := by rw [hp%d] at hj%d; cases hj%d; rfl'%(i,i,i,i,i,i))
        out.append(ind+'  subst e%d; clear hp%d'%(i,i))
        out.append(ind+'  simp only [hj%d, jbind_ok]'%i)
        out+=rec(i+1, ind+'  ')
        out.append(ind+'· rw [hp%d] at hj%d; cases hj%d'%(i,i,i))
        rest=', '.join('hp%d'%j for j in range(i,len(priors)))
        out.append(ind+'· simp only [%s, jbind_ok]'%rest)
        out+=fy_use(ind+'  ')
        out.append(ind+'  jeq_auto')
        return out
    L+=rec(0, ind)
    return L
def gen_no_cascade():
    L=[]
    def pr(names):
        out=[]
        for n in names:
            out.append(('P%s_pure_kissel'%n, SH[n], helper_args(n,'pure'), 'P'+n))
        return out
    L+=shell_block(1,1,[],('PL1_pure_kissel',1,[],'PL1'),'','')
    L+=shell_block(2,2,pr(['L1']),('PL2_pure_kissel',2,['PL1'],'PL2'),'','')
    L+=shell_block(3,3,pr(['L1','L2']),('PL3_pure_kissel',3,['PL1','PL2'],'PL3'),'','')
    L+=shell_block(4,4,[],('PM1_pure_kissel',4,[],'PM1'),'','')
    L+=shell_block(5,5,pr(['M1']),('PM2_pure_kissel',5,['PM1'],'PM2'),'','')
    L+=shell_block(6,6,pr(['M1','M2']),('PM3_pure_kissel',6,['PM1','PM2'],'PM3'),'','')
    L+=shell_block(7,7,pr(['M1','M2','M3']),('PM4_pure_kissel',7,['PM1','PM2','PM3'],'PM4'),'','')
    L+=shell_block(8,8,pr(['M1','M2','M3','M4']),('PM5_pure_kissel',8,['PM1','PM2','PM3','PM4'],'PM5'),'','')
    return L
def gen_cascade(kind):
    '''kind: full_cascade | rad_cascade | auger_cascade'''
    order=['L1','L2','L3','M1','M2','M3','M4','M5']
    L=[]
    for idx,n in enumerate(order):
        priors=[('CS_Photo_Partial',0,[],'PK')]
        for q in order[:idx]:
            priors.append(('P%s_%s_kissel'%(q,kind), SH[q], helper_args(q,kind), 'P'+q))
        final=('P%s_%s_kissel'%(n,kind), SH[n], helper_args(n,kind), 'P'+n)
        L+=shell_block(SH[n],SH[n],priors,final,'','')
    return L
if __name__=='__main__':
    if len(sys.argv)>1:
        print('\n'.join(gen_cascade(sys.argv[1]))); sys.exit(0)
    print('\n'.join(gen_no_cascade()))
