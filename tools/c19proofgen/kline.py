# generator of Props/C19d.lean (CS(b)_FluorLine_Kissel* family); the output is committed, this script is not part of the check
import sys
RANGES=[(-29,1,0),(-58,-30,1),(-85,-59,2),(-113,-86,3),(-136,-118,4),(-158,-140,5),(-180,-161,6),(-200,-182,7),(-219,-201,8)]
LB=[(-63,2),(-95,3),(-34,1),(-33,1),(-102,3),(-91,3),(-98,3),(-36,1),(-35,1),(-94,3),(-62,2),(-96,3),(-97,3)]
INST=[  # tag, Java execute, Java shell fn, C line fn, C shell fn, public Java line fn, barn twins
  ('FULL','CS_FLUORLINE_KISSEL_FULL__execute','CS_FluorShell_Kissel_Cascade','CS_FluorLine_Kissel_Cascade','CS_FluorLine_Kissel_Cascade','CSb_FluorLine_Kissel_Cascade'),
  ('RAD','CS_FLUORLINE_KISSEL_RADIATIVE__execute','CS_FluorShell_Kissel_Radiative_Cascade','CS_FluorLine_Kissel_Radiative_Cascade','CS_FluorLine_Kissel_Radiative_Cascade','CSb_FluorLine_Kissel_Radiative_Cascade'),
  ('NONRAD','CS_FLUORLINE_KISSEL_NONRADIATIVE__execute','CS_FluorShell_Kissel_Nonradiative_Cascade','CS_FluorLine_Kissel_Nonradiative_Cascade','CS_FluorLine_Kissel_Nonradiative_Cascade','CSb_FluorLine_Kissel_Nonradiative_Cascade'),
  ('NOC','CS_FLUORLINE_KISSEL_NO_CASCADE__execute','CS_FluorShell_Kissel_no_Cascade','CS_FluorLine_Kissel_no_Cascade','CS_FluorLine_Kissel_no_Cascade','CSb_FluorLine_Kissel_no_Cascade'),
]
HT='(ht : ∀ k : Int, 0 ≤ k → k < 9 → JTame (JGen.CS_Photo_Partial (JTables.ofC T) Z k E))'
def shell_thm(tag, shellfn):
    if tag=='NOC':
        call='java_eq_c_CS_FluorShell_Kissel_no_Cascade T Z hZ k hk9 E s hs hk ht'
    else:
        call='java_eq_c_%s T Z hZ E s hs k hk9 hk ht'%shellfn
    return '''theorem shell_%s (k : Int) (hk9 : inI32 k) (hk : KAllOk T Z) %s :
    JRel (JGen.%s (JTables.ofC T) Z k E) (Gen.%s T Z k E s) s := %s
'''%(tag,HT,shellfn,shellfn,call)
def flatten_java(execfn):
    return '''  unfold JGen.%s
  jeq_normJ
  simp only [hz, hE, ↓reduceIte, zero_lit]
  simp only [JStatic.line_mappings, jforEachCtlM]
  simp only [ite_bindJ, jpure_eq_ok, jbind_ok, ge_iff_le, bind_assoc]'''%execfn
def exec_range(tag, execfn, shellfn, idx):
    lo,hi,k=RANGES[idx]
    negs='\n'.join('  have r%d : ¬ (%d ≤ l ∧ l ≤ %d) := by omega'%(j,RANGES[j][0],RANGES[j][1]) for j in range(idx))
    fl=', '.join(['if_neg r%d'%j for j in range(idx)]+['if_pos hr'])
    return '''omit hs in
theorem exec_range_%s_%d (l : Int) (hr : %d ≤ l ∧ l ≤ %d) (hz : ¬(Z < 1 ∨ Z > 120)) (hE : ¬ E ≤ 0) :
    JGen.%s (JTables.ofC T) Z l E =
      (JGen.RadRate (JTables.ofC T) Z l >>= fun r => JGen.%s (JTables.ofC T) Z %d E >>= fun f => Except.ok (r * f)) := by
%s
%s
  simp only [%s]
'''%(tag,k,lo,hi,execfn,shellfn,k,flatten_java(execfn),negs,fl)
def nonlb(tag, execfn, cfn):
    blk=[]
    for idx,(lo,hi,k) in enumerate(RANGES):
        fl=', '.join(['if_neg r%d'%j for j in range(idx)]+['if_pos r%d'%idx])
        cl=' '.join('r%d'%j for j in range(idx+1))
        blk.append('''  by_cases r%d : %d ≤ m ∧ m ≤ %d
  · simp only [%s]
    clear %s
    have hsh := shell_%s T Z hZ E s hs %d (by decide) hk ht
    jeq_use_nz' (java_eq_c_RadRate T Z m hZ hm s hs), (java_nz_RadRate T Z hZ m hm)
    jeq_simp
    jeq_use hsh
    jeq_auto'''%(idx,lo,hi,fl,cl,tag,k))
    return '''theorem line_%s_nonLB (m : Int) (hm : inI32 m) (h3 : m ≠ 3) (hk : KAllOk T Z) %s :
    JRel (JGen.%s (JTables.ofC T) Z m E) (Gen.%s T Z m E s) s := by
  unfold Gen.%s FUEL
  jeq_start JGen.%s Gen.%s_fuel
  by_cases hz : Z < 1 ∨ Z > 120
  · jeq_auto
  by_cases hE : E ≤ 0
  · jeq_auto
  simp only [hz, hE, ↓reduceIte, zero_lit]
  simp only [JStatic.line_mappings, jforEachCtlM]
  simp only [loopCtlM, Int.reduceSub, Int.reduceToNat, Int.sub_zero, List.range_succ, List.range_zero, List.nil_append, List.cons_append, loopCtlGo,
    rd1, Static.line_mappings_line_lower, Static.line_mappings_line_upper, Static.line_mappings_shell,
    Static.line_mappings_line_lower_list, Static.line_mappings_line_upper_list, Static.line_mappings_shell_list]
  have tn : ∀ k : Nat, Int.toNat (OfNat.ofNat k) = k := fun k => rfl
  norm_num [List.getD, tn]
  clear tn
  simp only [c_short_and, decide_eq_true_eq]
  simp only [ite_bindJ, ite_bindC, jpure_eq_ok, pure_eq_ok, jbind_ok, bind_ok, ge_iff_le, bind_assoc]
%s
  simp only [if_neg r0, if_neg r1, if_neg r2, if_neg r3, if_neg r4, if_neg r5, if_neg r6, if_neg r7, if_neg r8]
  clear r0 r1 r2 r3 r4 r5 r6 r7 r8
  by_cases r9 : m = 2
  · subst r9
    have hsh := shell_%s T Z hZ E s hs 3 (by decide) hk ht
    jeq_use_nz' (java_eq_c_RadRate T Z 2 hZ hm s hs), (java_nz_RadRate T Z hZ 2 hm)
    jeq_simp
    jeq_use hsh
    jeq_auto
  simp only [if_neg r9, if_neg h3]
  jeq_auto
'''%(tag,HT,execfn,cfn,cfn,execfn,cfn,'\n'.join(blk),tag)
def member(tag, execfn, shellfn, cfn, idx):
    lo,hi,k=RANGES[idx]
    return '''omit hs in
theorem member_%s_%d (l : Int) (hl : inI32 l) (hr : %d ≤ l ∧ l ≤ %d) (hz : ¬(Z < 1 ∨ Z > 120)) (hE : ¬ E ≤ 0) (hk : KAllOk T Z) %s :
    MemberRel (fun rv => jtryAll (JGen.RadRate (JTables.ofC T) Z l >>= fun r => JGen.%s (JTables.ofC T) Z %d E >>= fun f => Except.ok (rv + r * f)) (Except.ok rv))
      (Gen.%s T Z l E Slot.null) := by
  have h := line_%s_nonLB T Z hZ E Slot.null rfl l hl (by omega) hk ht
  rw [exec_range_%s_%d T Z hZ E l hr hz hE] at h
  rcases h.cases with ⟨v, hc, hj⟩ | ⟨e, hc, hj⟩ | ⟨a, b, hc, hj⟩ | ⟨a, hc⟩
  · refine Or.inl ⟨v, hc, fun rv => ?_⟩
    exact member_val hj rv
  · refine Or.inl ⟨0, hc, fun rv => ?_⟩
    exact member_iae hj rv
  · refine Or.inr (Or.inl ⟨a, b, hc, fun rv => ?_⟩)
    exact member_nf hj rv
  · exact Or.inr (Or.inr ⟨a, hc⟩)
'''%(tag,k,lo,hi,HT,shellfn,k,cfn,tag,tag,k)
def lb(tag, execfn, shellfn, cfn):
    uses=[]
    for i,(l,sh) in enumerate(LB):
        uses.append('''  rcases member_%s_%d T Z hZ E (%d) (by decide) (by decide) hz hE hk ht with ⟨w%d, hc%d, hj%d⟩ | ⟨a, b, hc%d, hj%d⟩ | ⟨a, hc%d⟩
  rotate_left
  · dsimp only at hj%d
    simp only [%s, bind_ok, jbind_ok, bind_error, jbind_error]; exact JRel.nf
  · simp only [%s, bind_ok, bind_error]; exact JRel.ub
  dsimp only at hj%d
  simp only [hc%d, hj%d, bind_ok, jbind_ok]'''%(tag,sh,l,i,i,i,i,i,i,i,'hc%d, hj%d'%(i,i),'hc%d'%i,i,i,i))
    return '''theorem line_%s_LB (hk : KAllOk T Z) %s :
    JRel (JGen.%s (JTables.ofC T) Z 3 E) (Gen.%s T Z 3 E s) s := by
  unfold Gen.%s FUEL
  jeq_start JGen.%s Gen.%s_fuel
  by_cases hz : Z < 1 ∨ Z > 120
  · jeq_auto
  by_cases hE : E ≤ 0
  · jeq_auto
  simp only [hz, hE, ↓reduceIte, zero_lit]
  simp only [JStatic.line_mappings, jforEachCtlM]
  simp only [loopCtlM, Int.reduceSub, Int.reduceToNat, Int.sub_zero, List.range_succ, List.range_zero, List.nil_append, List.cons_append, loopCtlGo,
    rd1, Static.line_mappings_line_lower, Static.line_mappings_line_upper, Static.line_mappings_shell,
    Static.line_mappings_line_lower_list, Static.line_mappings_line_upper_list, Static.line_mappings_shell_list]
  have tn : ∀ k : Nat, Int.toNat (OfNat.ofNat k) = k := fun k => rfl
  simp only [loopM, Int.reduceSub, Int.reduceToNat, Int.sub_zero, List.range_succ, List.range_zero,
    List.nil_append, List.cons_append, List.foldlM_cons, List.foldlM_nil, Static.LB_LINE_MACROS, Static.LB_LINE_MACROS_list]
  norm_num [List.getD, tn]
  clear tn
  have hfold : Gen.%s_fuel 5 T Z = Gen.%s T Z := by funext l e sl; unfold Gen.%s FUEL; rfl
  simp only [hfold, JStatic.lb_pairs, jforEachM, List.foldlM_cons, List.foldlM_nil, jpure_eq_ok, pure_eq_ok, jbind_ret, bind_assoc]
%s
  simp only [zero_add]
  jeq_auto
'''%(tag,HT,execfn,cfn,cfn,execfn,cfn,cfn,cfn,cfn,'\n'.join(uses))
def final(tag,execfn,shellfn,cfn,jpub,bj):
    return '''theorem line_%(tag)s (m : Int) (hm : inI32 m) (hk : KAllOk T Z) %(ht)s :
    JRel (JGen.%(ex)s (JTables.ofC T) Z m E) (Gen.%(c)s T Z m E s) s := by
  by_cases h3 : m = 3
  · subst h3; exact line_%(tag)s_LB T Z hZ E s hs hk ht
  · exact line_%(tag)s_nonLB T Z hZ E s hs m hm h3 hk ht

omit hs in
theorem rng_%(tag)s (m : Int) {v : ℝ} (h : JGen.%(ex)s (JTables.ofC T) Z m E = .ok v) : ¬(Z < 1 ∨ Z > 120) := by
  intro hz
  unfold JGen.%(ex)s at h
  jeq_normJ
  simp only [hz, ↓reduceIte, jthrow_eq_error] at h
  cases h

theorem java_eq_c_%(jp)s (m : Int) (hm : inI32 m) (hk : KAllOk T Z) %(ht)s :
    JRel (JGen.%(jp)s (JTables.ofC T) Z m E) (Gen.%(c)s T Z m E s) s := by
  unfold JGen.%(jp)s
  exact line_%(tag)s T Z hZ E s hs m hm hk ht

theorem java_eq_c_%(bj)s (m : Int) (hm : inI32 m) (hk : KAllOk T Z) %(ht)s :
    JRel (JGen.%(bj)s (JTables.ofC T) Z m E) (Gen.%(bj)s T Z m E s) s := by
  jeq_start JGen.%(bj)s Gen.%(bj)s
  rcases (java_eq_c_%(jp)s T Z hZ E s hs m hm hk ht).cases with ⟨v, hc, hj⟩ | ⟨e, hc, hj⟩ | ⟨a, b, hc, hj⟩ | ⟨a, hc⟩
  · have hr : ¬(Z < 1 ∨ Z > 120) := by
      unfold JGen.%(jp)s at hj
      exact rng_%(tag)s T Z hZ E m hj
    jeq_auto
  · jeq_auto
  · jeq_auto
  · jeq_auto
'''%dict(tag=tag,ex=execfn,c=cfn,jp=jpub,bj=bj,ht=HT)
ALIAS='''/-- `CS_FluorLine_Kissel` is `CS_FluorLine_Kissel_Cascade` in both languages -/
theorem java_eq_c_CS_FluorLine_Kissel (m : Int) (hm : inI32 m) (hk : KAllOk T Z) %(ht)s :
    JRel (JGen.CS_FluorLine_Kissel (JTables.ofC T) Z m E) (Gen.CS_FluorLine_Kissel T Z m E s) s := by
  jeq_start JGen.CS_FluorLine_Kissel Gen.CS_FluorLine_Kissel
  rcases (java_eq_c_CS_FluorLine_Kissel_Cascade T Z hZ E s hs m hm hk ht).cases with ⟨v, hc, hj⟩ | ⟨e, hc, hj⟩ | ⟨a, b, hc, hj⟩ | ⟨a, hc⟩ <;>
  jeq_auto

theorem java_eq_c_CSb_FluorLine_Kissel (m : Int) (hm : inI32 m) (hk : KAllOk T Z) %(ht)s :
    JRel (JGen.CSb_FluorLine_Kissel (JTables.ofC T) Z m E) (Gen.CSb_FluorLine_Kissel T Z m E s) s := by
  have h := java_eq_c_CSb_FluorLine_Kissel_Cascade T Z hZ E s hs m hm hk ht
  unfold Gen.CSb_FluorLine_Kissel_Cascade at h
  unfold JGen.CSb_FluorLine_Kissel Gen.CSb_FluorLine_Kissel
  exact h
'''%dict(ht=HT)
PRE='''import Xrl.Props.C19c
/-!
# C19 (fourth file) — `CS(b)_FluorLine_Kissel*`: the four devirtualised `execute` bodies of `CS_FluorLine_Kissel_Body`

Per instance: the dispatch over `line_mappings` (Java `for (LineMapping mapping : line_mappings)` with `return`, C `for` over the static
table with `return`) is unrolled on both sides and flattened to one `if` chain over the nine line ranges; `LA_LINE`; the L-beta group:
C calls itself on each of its 13 member lines with `NULL` and adds the numbers, Java adds `RadRate(line) * CS_FluorShell_Kissel_x(shell)`
inside `try { } catch (Exception e)` — related member by member (`MemberRel`).  The proof text is uniform over the four instances
(produced by a script); every theorem is about the generated definitions.
-/
set_option linter.unusedSimpArgs false
set_option linter.unusedVariables false
set_option linter.unusedSectionVars false
set_option linter.unusedTactic false
namespace Xrl
namespace C19

/-- `jeq_use` for a callee whose value is never 0 -/
macro "jeq_use_nz'" h:term "," p:term : tactic =>
  `(tactic| (rcases (JRel.cases $h) with ⟨v, hc, hj⟩ | ⟨e, hc, hj⟩ | ⟨a, b, hc, hj⟩ | ⟨a, hc⟩ <;>
      [(have hne := JNz.ne $p hj); (jeq_auto; done); (jeq_auto; done); (jeq_auto; done)]))

/-- one member line of the L-beta group on both sides -/
def MemberRel (j : ℝ → JM ℝ) (c : M (ℝ × Slot)) : Prop :=
  (∃ w, c = Except.ok (w, Slot.null) ∧ ∀ rv, j rv = Except.ok (rv + w)) ∨
  (∃ a b, c = Except.error (.nf a) ∧ ∀ rv, j rv = Except.error (.nf b)) ∨ (∃ a, c = Except.error (.ub a))

theorem member_val {P : JM ℝ} {Q : ℝ → JM ℝ} {v : ℝ} (h : (P >>= fun r => Q r >>= fun f => Except.ok (r * f)) = Except.ok v) (rv : ℝ) :
    jtryAll (P >>= fun r => Q r >>= fun f => Except.ok (rv + r * f)) (Except.ok rv) = Except.ok (rv + v) := by
  cases P with
  | error e => cases h
  | ok r =>
    simp only [jbind_ok] at h ⊢
    cases hq : Q r with
    | error e => rw [hq] at h; cases h
    | ok f => rw [hq] at h; simp only [jbind_ok] at h ⊢; cases h; rfl
theorem member_iae {P : JM ℝ} {Q : ℝ → JM ℝ} {x : String} (h : (P >>= fun r => Q r >>= fun f => Except.ok (r * f)) = Except.error (.iae x)) (rv : ℝ) :
    jtryAll (P >>= fun r => Q r >>= fun f => Except.ok (rv + r * f)) (Except.ok rv) = Except.ok (rv + 0) := by
  rw [add_zero]
  cases P with
  | error e => simp only [jbind_error] at h ⊢; cases h; rfl
  | ok r =>
    simp only [jbind_ok] at h ⊢
    cases hq : Q r with
    | error e => rw [hq] at h; simp only [jbind_error] at h ⊢; cases h; rfl
    | ok f => rw [hq] at h; cases h
theorem member_nf {P : JM ℝ} {Q : ℝ → JM ℝ} {x : String} (h : (P >>= fun r => Q r >>= fun f => Except.ok (r * f)) = Except.error (.nf x)) (rv : ℝ) :
    jtryAll (P >>= fun r => Q r >>= fun f => Except.ok (rv + r * f)) (Except.ok rv) = Except.error (.nf x) := by
  cases P with
  | error e => simp only [jbind_error] at h ⊢; cases h; rfl
  | ok r =>
    simp only [jbind_ok] at h ⊢
    cases hq : Q r with
    | error e => rw [hq] at h; simp only [jbind_error] at h ⊢; cases h; rfl
    | ok f => rw [hq] at h; cases h

section kline
variable (T : Tables ℝ) (Z : Int) (hZ : inI32 Z) (E : ℝ) (s : Slot) (hs : s.isFull = false)
include hZ hs

'''
def gen(tags):
    out=[PRE]
    for tag,execfn,shellfn,cfn,jpub,bj in INST:
        if tag not in tags: continue
        out.append(shell_thm(tag,shellfn))
        for idx in (1,2,3): out.append(exec_range(tag,execfn,shellfn,idx))
        out.append(nonlb(tag,execfn,cfn))
        for idx in (1,2,3): out.append(member(tag,execfn,shellfn,cfn,idx))
        out.append(lb(tag,execfn,shellfn,cfn))
        out.append(final(tag,execfn,shellfn,cfn,jpub,bj))
    if 'FULL' in tags: out.append(ALIAS)
    out.append('end kline\nend C19\nend Xrl\n')
    return '\n'.join(out)
if __name__=='__main__':
    open(sys.argv[1],'w').write(gen(sys.argv[2:]))
