import sys
sys.path.insert(0, __import__('os').path.dirname(__import__('os').path.abspath(__file__)))
import kshell
order=['L1','L2','L3','M1','M2','M3','M4','M5']
def names(inst,cname):
    catch=['JGen.%s__P%s_cascade_kissel_catch'%(inst,n) for n in order[:7]]
    non=['JGen.%s__P%s_cascade_kissel'%(inst,n) for n in order]
    return ' '.join(['JGen.%s__execute'%inst,'Gen.%s'%cname,'JGen.CS_Photo_Partial_catch']+catch+non)
HDR='''    (ht : ∀ k : Int, 0 ≤ k → k < 9 → JTame (JGen.CS_Photo_Partial (JTables.ofC T) Z k E))'''
def family(inst, kind, cname):
    out=[]
    out.append('''theorem java_eq_c_%s__execute_sh0 (hk : KAllOk T Z)
%s :
    JRel (JGen.%s__execute (JTables.ofC T) Z 0 E) (Gen.%s T Z 0 E s) s := by
  jeq_start JGen.%s__execute Gen.%s
  by_cases hz : Z < 1 ∨ Z > 120
  · jeq_auto
  by_cases hE : E ≤ 0
  · jeq_auto
  simp only [hz, hE, ↓reduceIte, zero_lit, Int.reduceEq]
  jeq_use_pos (java_eq_c_FluorYield T Z 0 hZ (by decide) s hs), (java_pos_FluorYield T Z hZ 0 (by decide))
  jeq_simp
  jeq_use (java_eq_c_CS_Photo_Partial T Z 0 hZ (by decide) E s hs (hk.vec 0 (by decide) (by decide)).1 (hk.vec 0 (by decide) (by decide)).2.1 (hk.vec 0 (by decide) (by decide)).2.2)
  jeq_auto
'''%(inst,HDR,inst,cname,inst,cname))
    for idx,n in enumerate(order):
        K=kshell.SH[n]
        priors=[('CS_Photo_Partial',0,[],'PK')]
        for q in order[:idx]:
            priors.append(('P%s_%s_kissel'%(q,kind), kshell.SH[q], kshell.helper_args(q,kind), 'P'+q))
        final=('P%s_%s_kissel'%(n,kind), K, kshell.helper_args(n,kind), 'P'+n)
        blk=[l[2:] for l in kshell.shell_block(K,K,priors,final,'','')[2:]]
        out.append('''theorem java_eq_c_%s__execute_sh%d (hk : KAllOk T Z)
%s :
    JRel (JGen.%s__execute (JTables.ofC T) Z %d E) (Gen.%s T Z %d E s) s := by
  jeq_start %s
  by_cases hz : Z < 1 ∨ Z > 120
  · jeq_auto
  by_cases hE : E ≤ 0
  · jeq_auto
  simp only [hz, hE, ↓reduceIte, zero_lit]
%s
'''%(inst,K,HDR,inst,K,cname,K,names(inst,cname),'\n'.join(blk)))
    cases='\n'.join('  by_cases h%d : m = %d\n  · subst h%d; exact java_eq_c_%s__execute_sh%d T Z hZ E s hs hk ht'%(k,k,k,inst,k) for k in range(9))
    out.append('''theorem java_eq_c_%s__execute (m : Int) (hm : inI32 m) (hk : KAllOk T Z)
%s :
    JRel (JGen.%s__execute (JTables.ofC T) Z m E) (Gen.%s T Z m E s) s := by
%s
  jeq_start JGen.%s__execute Gen.%s
  jeq_auto

omit hs in
theorem java_rng_%s__execute (m : Int) {v : ℝ} (h : JGen.%s__execute (JTables.ofC T) Z m E = .ok v) : ¬(Z < 1 ∨ Z > 120) := by
  intro hz
  unfold JGen.%s__execute at h
  jeq_normJ
  simp only [hz, ↓reduceIte, jthrow_eq_error] at h
  cases h
'''%(inst,HDR,inst,cname,cases,inst,cname,inst,inst,inst))
    return '\n'.join(out)
def wrappers(inst, jpub, cpub, bjpub, bcpub):
    """public method jpub = INST.execute ; barn twin bjpub"""
    return '''theorem java_eq_c_%(jp)s (m : Int) (hm : inI32 m) (hk : KAllOk T Z)
%(hdr)s :
    JRel (JGen.%(jp)s (JTables.ofC T) Z m E) (Gen.%(cp)s T Z m E s) s := by
  unfold JGen.%(jp)s
  try simp only [jpure_eq_ok, jbind_ret]
  exact java_eq_c_%(inst)s__execute T Z hZ E s hs m hm hk ht

theorem java_eq_c_%(bj)s (m : Int) (hm : inI32 m) (hk : KAllOk T Z)
%(hdr)s :
    JRel (JGen.%(bj)s (JTables.ofC T) Z m E) (Gen.%(bc)s T Z m E s) s := by
  jeq_start JGen.%(bj)s Gen.%(bc)s
  rcases (java_eq_c_%(jp)s T Z hZ E s hs m hm hk ht).cases with ⟨v, hc, hj⟩ | ⟨e, hc, hj⟩ | ⟨a, b, hc, hj⟩ | ⟨a, hc⟩
  · have hr : ¬(Z < 1 ∨ Z > 120) := by
      unfold JGen.%(jp)s at hj
      try simp only [jpure_eq_ok, jbind_ret] at hj
      exact java_rng_%(inst)s__execute T Z hZ E m hj
    jeq_auto
  · jeq_auto
  · jeq_auto
  · jeq_auto
'''%dict(jp=jpub,cp=cpub,bj=bjpub,bc=bcpub,inst=inst,hdr=HDR)
if __name__=='__main__':
    t='''import Xrl.Props.C19b
set_option linter.unusedSimpArgs false
set_option linter.unusedVariables false
set_option linter.unusedSectionVars false
namespace Xrl
namespace C19
section kshell2
variable (T : Tables ℝ) (Z : Int) (hZ : inI32 Z) (E : ℝ) (s : Slot) (hs : s.isFull = false)
include hZ hs

'''
    for inst,kind,cname,jp,bj in [('CS_FLUORSHELL_KISSEL_FULL','full_cascade','CS_FluorShell_Kissel_Cascade','CS_FluorShell_Kissel_Cascade','CSb_FluorShell_Kissel_Cascade'),
                                  ('CS_FLUORSHELL_KISSEL_RADIATIVE','rad_cascade','CS_FluorShell_Kissel_Radiative_Cascade','CS_FluorShell_Kissel_Radiative_Cascade','CSb_FluorShell_Kissel_Radiative_Cascade'),
                                  ('CS_FLUORSHELL_KISSEL_NONRADIATIVE','auger_cascade','CS_FluorShell_Kissel_Nonradiative_Cascade','CS_FluorShell_Kissel_Nonradiative_Cascade','CSb_FluorShell_Kissel_Nonradiative_Cascade')]:
        t+=family(inst,kind,cname)+'\n'+wrappers(inst,jp,cname,bj,bj)+'\n'
    t+='''end kshell2
end C19
end Xrl
'''
    open(sys.argv[1],'w').write(t)
