#!/usr/bin/env python3
"""c14_facts.py <bdir with config.h> <out Lean file> [--json <file>]

Extracts, from the clang-14 JSON AST of src/crystal_diffraction.c and src/xrayvars.c of the repository's current sources
(VERIF_REPO, default /repo), the *structure* of the crystal-container code that the hand model
lean-crystals/XrlCrystals/Hand/{Crystals,Reader}.lean mirrors:

  * a statement skeleton of every container function (one line per statement, in source order, nesting as depth:
    declarations with their types, conditions, assignments, calls with their arguments, error code + message of every
    xrl_set_error*, returns, gotos, labels) - macros are expanded (the AST is post-preprocessor), casts and parentheses dropped;
  * named constants: the growth step handed to Crystal_ExtendArray, the values of the xrl_error_code enumerators, the length
    handed to fgets, the scanf formats, the sizes of the name buffers, the comparator bodies.

Written as Lean data (`XrlCrystals/Gen/Facts.lean`, never edited, git-ignored); `Props/C14c.lean` proves
`extracted = what the hand model was written against`, so that a change of these in the C breaks an obligation.
Exit 0 ok, 3 = a construct the extractor does not understand (message on stderr)."""
import os, sys, re, json, subprocess

FUNCS_CD = ['Crystal_Find', 'Crystal_ExtendArray', 'Crystal_ArrayInit', 'Crystal_ArrayFree', 'Crystal_MakeCopy', 'Crystal_Free',
            'Crystal_GetCrystalsList', 'Crystal_GetCrystal', 'Crystal_AddCrystal', 'Crystal_ReadFile']
FUNCS_XV = ['compareCrystalStructs', 'matchCrystalStruct']


class Unsupported(Exception):
    pass


def ast_of(repo, bdir, rel):
    fl = ['-DHAVE_CONFIG_H', '-D_GNU_SOURCE', '-DXRAYLIB_VERIF', '-I' + bdir, '-I' + repo, '-I' + os.path.join(repo, 'src'), '-I' + os.path.join(repo, 'include')]
    p = subprocess.run(['clang-14'] + fl + ['-w', '-fsyntax-only', '-Xclang', '-ast-dump=json', os.path.join(repo, rel)], capture_output=True, text=True)
    if p.returncode != 0: raise Unsupported('clang failed on %s: %s' % (rel, p.stderr[-800:]))
    return json.loads(p.stdout)


def strip(n):
    while n.get('kind') in ('ImplicitCastExpr', 'ParenExpr', 'CStyleCastExpr', 'ConstantExpr') and n.get('castKind') != 'NullToPointer':
        n = n['inner'][0]
    return n


def E(n):
    """canonical text of an expression"""
    if n.get('kind') in ('ImplicitCastExpr', 'CStyleCastExpr') and n.get('castKind') == 'NullToPointer': return 'NULL'
    n = strip(n)
    k = n.get('kind')
    if n.get('castKind') == 'NullToPointer': return 'NULL'
    if k == 'DeclRefExpr': return n['referencedDecl']['name']
    if k == 'MemberExpr': return E(n['inner'][0]) + ('->' if n.get('isArrow') else '.') + n['name']
    if k == 'ArraySubscriptExpr': return '%s[%s]' % (E(n['inner'][0]), E(n['inner'][1]))
    if k == 'UnaryOperator':
        return (E(n['inner'][0]) + n['opcode']) if n.get('isPostfix') else (n['opcode'] + E(n['inner'][0]))
    if k in ('BinaryOperator', 'CompoundAssignOperator'): return '(%s %s %s)' % (E(n['inner'][0]), n['opcode'], E(n['inner'][1]))
    if k == 'IntegerLiteral': return n['value']
    if k == 'FloatingLiteral': return n['value']
    if k == 'CharacterLiteral': return "'%s'" % chr(n['value']) if 32 <= n['value'] < 127 else 'chr(%d)' % n['value']
    if k == 'StringLiteral': return n['value']
    if k == 'CallExpr': return '%s(%s)' % (E(n['inner'][0]), ', '.join(E(a) for a in n['inner'][1:]))
    if k == 'UnaryExprOrTypeTraitExpr':
        if 'argType' in n: return '%s(%s)' % (n['name'], n['argType']['qualType'])
        return '%s(%s)' % (n['name'], E(n['inner'][0]))
    if k == 'ConditionalOperator': return '(%s ? %s : %s)' % tuple(E(x) for x in n['inner'])
    raise Unsupported('expression kind %s at line %s' % (k, n.get('loc', {}).get('line')))


ERRFN = ('xrl_set_error', 'xrl_set_error_literal')


def S(n, d, out, facts):
    """append the skeleton lines of statement n at depth d"""
    k = n.get('kind')
    add = lambda kind, text='': out.append('%d %s%s' % (d, kind, (' ' + text) if text else ''))
    if k == 'CompoundStmt':
        for c in n.get('inner', []): S(c, d, out, facts)
    elif k == 'DeclStmt':
        for v in n['inner']:
            if v['kind'] != 'VarDecl': raise Unsupported('declaration kind %s' % v['kind'])
            init = [c for c in v.get('inner', []) if 'Expr' in c.get('kind', '') or c.get('kind', '').endswith('Literal') or c.get('kind') in ('BinaryOperator', 'UnaryOperator')]
            add('var', '%s : %s%s' % (v['name'], v['type']['qualType'], (' = ' + E(init[0])) if init else ''))
    elif k == 'IfStmt':
        inner = n['inner']
        add('if', E(inner[0])); S(inner[1], d + 1, out, facts)
        if len(inner) > 2: add('else'); S(inner[2], d + 1, out, facts)
        add('endif')
    elif k == 'WhileStmt':
        add('while', E(n['inner'][0])); S(n['inner'][1], d + 1, out, facts); add('endwhile')
    elif k == 'ForStmt':
        init, _, cond, inc, body = n['inner']
        add('for', '%s ; %s ; %s' % (E(init) if init else '', E(cond) if cond else '', E(inc) if inc else '')); S(body, d + 1, out, facts); add('endfor')
    elif k == 'ReturnStmt':
        add('return', E(n['inner'][0]) if n.get('inner') else '')
    elif k == 'GotoStmt': add('goto', facts['labels'].get(n.get('targetLabelDeclId'), '?'))
    elif k == 'LabelStmt':
        add('label', n['name'])
        for c in n.get('inner', []): S(c, d, out, facts)
    elif k == 'BreakStmt': add('break')
    elif k == 'ContinueStmt': add('continue')
    elif k == 'NullStmt': pass
    else:
        m = strip(n)
        mk = m.get('kind')
        if mk == 'CallExpr':
            callee = E(m['inner'][0]); args = m['inner'][1:]
            if callee in ERRFN:
                code = E(args[1]); msg = E(args[2])
                add('err', '%s %s%s' % (code, msg, ''.join(' , ' + E(a) for a in args[3:])))
                facts['errors'].append((facts['fn'], code, msg))
            else:
                add('call', E(m))
        elif mk == 'BinaryOperator' and m['opcode'] == '=': add('assign', '%s = %s' % (E(m['inner'][0]), E(m['inner'][1])))
        elif mk in ('BinaryOperator', 'CompoundAssignOperator', 'UnaryOperator'): add('expr', E(m))
        else: raise Unsupported('statement kind %s at line %s' % (k, n.get('range', {}).get('begin', {}).get('line')))


def labels_of(n, acc):
    if n.get('kind') == 'LabelStmt': acc[n.get('declId')] = n['name']
    for c in n.get('inner', []) or []: labels_of(c, acc)
    return acc


def walk(n, f):
    f(n)
    for c in n.get('inner', []) or []: walk(c, f)


def skeletons(ast, names, facts):
    out = {}
    for n in ast['inner']:
        if n.get('kind') == 'FunctionDecl' and n.get('name') in names:
            body = [c for c in n.get('inner', []) if c.get('kind') == 'CompoundStmt']
            if not body: continue
            facts['fn'] = n['name']; facts['labels'] = labels_of(body[0], {})
            params = [c for c in n.get('inner', []) if c.get('kind') == 'ParmVarDecl']
            lines = ['0 fn %s : %s' % (n['name'], n['type']['qualType'])] + ['0 param %s : %s' % (p.get('name', '_'), p['type']['qualType']) for p in params]
            S(body[0], 1, lines, facts)
            out[n['name']] = lines
    missing = [x for x in names if x not in out]
    if missing: raise Unsupported('function(s) not found: %s' % ', '.join(missing))
    return out


def lean_str(s):
    o = ['"']
    for ch in s:
        if ch == '"': o.append('\\"')
        elif ch == '\\': o.append('\\\\')
        elif ch == '\n': o.append('\\n')
        elif ch == '\t': o.append('\\t')
        elif 32 <= ord(ch) < 127: o.append(ch)
        else: o.append('\\u{%x}' % ord(ch))
    o.append('"')
    return ''.join(o)


def unlean_str(t):
    """inverse of lean_str for the escapes it produces"""
    assert t[0] == '"' and t[-1] == '"'
    t = t[1:-1]; o = []; i = 0
    while i < len(t):
        c = t[i]
        if c == '\\':
            e = t[i + 1]
            if e == 'n': o.append('\n'); i += 2
            elif e == 't': o.append('\t'); i += 2
            elif e == 'u':
                j = t.index('}', i); o.append(chr(int(t[i + 3:j], 16))); i = j + 1
            else: o.append(e); i += 2
        else: o.append(c); i += 1
    return ''.join(o)


def extract(repo, bdir):
    facts = dict(errors=[], fn=None, labels={})
    a1 = ast_of(repo, bdir, 'src/crystal_diffraction.c')
    sk = skeletons(a1, FUNCS_CD, facts)
    a2 = ast_of(repo, bdir, 'src/xrayvars.c')
    sk.update(skeletons(a2, FUNCS_XV, facts))
    # ---- named constants ------------------------------------------------------------------------------------
    codes = []
    def enum(n):
        if n.get('kind') == 'EnumDecl':
            cs = [c for c in n.get('inner', []) if c.get('kind') == 'EnumConstantDecl']
            if any(c['name'].startswith('XRL_ERROR_') for c in cs):
                v = -1
                for c in cs:
                    lit = []
                    walk(c, lambda x: lit.append(x) if x.get('kind') == 'ConstantExpr' and 'value' in x else None)
                    v = int(lit[0]['value']) if lit else v + 1
                    codes.append((c['name'], v))
    walk(a1, enum)
    if not codes: raise Unsupported('xrl_error_code enumerators not found')
    growth = []; fgets_n = []; formats = []; bufs = []
    def calls(n):
        if n.get('kind') == 'CallExpr':
            callee = E(n['inner'][0]); args = n['inner'][1:]
            if callee == 'Crystal_ExtendArray': growth.append(E(args[1]))
            if callee == 'fgets': fgets_n.append(E(args[1]))
            if callee in ('sscanf', 'fscanf'): formats.append(E(args[1]))
        if n.get('kind') == 'VarDecl' and n.get('name') in ('tag', 'compound', 'buffer'): bufs.append((n['name'], n['type']['qualType']))
    for n in a1['inner']:
        if n.get('kind') == 'FunctionDecl' and n.get('name') in ('Crystal_AddCrystal', 'Crystal_ReadFile'): walk(n, calls)
    if len(growth) != 1 or not growth[0].isdigit(): raise Unsupported('growth step: expected one literal argument of Crystal_ExtendArray, found %r' % growth)
    if not fgets_n or len(set(fgets_n)) != 1 or not fgets_n[0].isdigit(): raise Unsupported('fgets lengths: %r' % fgets_n)
    capm = None
    def capf(n):
        nonlocal capm
        if n.get('kind') == 'VarDecl' and n.get('name') == '__Crystal_arr': capm = n['type']['qualType']
    walk(a1, capf)
    return dict(skeletons=sk, codes=codes, growth=int(growth[0]), fgets_n=int(fgets_n[0]), formats=formats, buffers=bufs, errors=facts['errors'], table_type=capm)


def emit(f, path):
    L = ['/- GENERATED by tools/c14_facts.py from the clang AST of src/crystal_diffraction.c and src/xrayvars.c of the working tree;',
         '   never edited, git-ignored.  Compared with the hand-written expectation in Props/C14c.lean. -/', 'namespace XrlCrystals.Gen.Facts', '']
    for name in FUNCS_CD + FUNCS_XV:
        L.append('def skel_%s : List String := [' % name)
        L += ['  ' + lean_str(l) + (',' if i + 1 < len(f['skeletons'][name]) else '') for i, l in enumerate(f['skeletons'][name])]
        L.append(']'); L.append('')
    L.append('/-- the literal handed to Crystal_ExtendArray by Crystal_AddCrystal (N_NEW_CRYSTAL after preprocessing) -/')
    L.append('def growthStep : Nat := %d' % f['growth'])
    L.append('/-- enumerators of xrl_error_code -/')
    L.append('def errorCodes : List (String × Nat) := [%s]' % ', '.join('(%s, %d)' % (lean_str(n), v) for n, v in f['codes']))
    L.append('/-- second argument of every fgets call of Crystal_ReadFile -/')
    L.append('def fgetsN : Nat := %d' % f['fgets_n'])
    L.append('/-- format strings of the sscanf / fscanf calls of Crystal_ReadFile, in source order (C source spelling) -/')
    L.append('def scanFormats : List String := [%s]' % ', '.join(lean_str(x) for x in f['formats']))
    L.append('/-- the character buffers of Crystal_ReadFile -/')
    L.append('def buffers : List (String × String) := [%s]' % ', '.join('(%s, %s)' % (lean_str(a), lean_str(b)) for a, b in f['buffers']))
    L.append('/-- (function, code, message) of every xrl_set_error* call, in source order -/')
    L.append('def errorSites : List (String × String × String) := [')
    L += ['  (%s, %s, %s)%s' % (lean_str(a), lean_str(b), lean_str(c), ',' if i + 1 < len(f['errors']) else '') for i, (a, b, c) in enumerate(f['errors'])]
    L.append(']'); L.append(''); L.append('end XrlCrystals.Gen.Facts'); L.append('')
    txt = '\n'.join(L)
    old = open(path).read() if os.path.exists(path) else None
    if old != txt:
        os.makedirs(os.path.dirname(path), exist_ok=True)
        open(path, 'w').write(txt)


if __name__ == '__main__':
    repo = os.environ.get('VERIF_REPO', '/repo')
    try:
        f = extract(repo, sys.argv[1])
    except Unsupported as e:
        print('UNSUPPORTED %s' % e, file=sys.stderr); sys.exit(3)
    emit(f, sys.argv[2])
    if '--json' in sys.argv: json.dump(f, open(sys.argv[sys.argv.index('--json') + 1], 'w'), indent=0)
    sys.exit(0)
