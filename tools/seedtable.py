#!/usr/bin/env python3
"""seedtable.py — regenerate the table 'which checks catch which seeded changes' (notes/SEEDED.md) from seeded/*/meta.json"""
import os, json, glob
VERIF = os.path.dirname(os.path.dirname(os.path.abspath(__file__)))
rows = []
for m in sorted(glob.glob(os.path.join(VERIF, 'seeded', '*', 'meta.json'))):
    d = json.load(open(m))
    res = []
    for c in d['checks_run']:
        v = c['verdict']
        mark = '**caught, failing input**' if v == 'VIOLATION with failing input' else '**caught**, no-failing-input-found' if v.startswith('VIOLATION') else 'MISSED' if v.startswith('not detected') else v
        res.append('%s: %s' % (c['check'], mark))
    if d.get('status') == 'retired': res.append('RETIRED (the change exploited a genuine defect that was repaired since; see meta.json)')
    rows.append('| %s | %s | %s | %s | %s |' % (d['id'], ', '.join('`%s`' % f for f in d['files_changed']), d['change'].replace('|', '\\|'),
                                             d['needs_to_manifest'].replace('|', '\\|'), '; '.join(res)))
out = ['# Seeded changes and which checks catch them', '',
       'Every change was written by a sub-agent that saw only the property text and a scratch worktree, confirmed by `tools/seedrun.sh`',
       '(fresh worktree of /repo HEAD: suite still 33 pass / 4 baseline failures, demonstration exits 0 without and 1 with the change), then the',
       'named checks were run from a copy of /verif against the changed tree (`VERIF_REPO`).  Details per change: `seeded/<id>/meta.json`.', '',
       '| id | files | change | needs, to manifest | checks run → result |', '|---|---|---|---|---|'] + rows
open(os.path.join(VERIF, 'notes', 'SEEDED.md'), 'w').write('\n'.join(out) + '\n')
print(len(rows), 'rows')
