#!/usr/bin/env python3
"""gen_c15.py <bdir with config.h and xrayglob_inline.c> <lean Gen dir> <aux dir> <line-energy dump>

Extracts the built-in catalogues from the repository's current sources (VERIF_REPO, default /repo):
  Mendeleev table + sorted twin, crystal table        <- <bdir>/xrayglob_inline.c, which pr_data (rebuilt from the working
                                                         tree by the check) just wrote from src/xrayglob.c and data/Crystals.dat
  NIST compounds                                       <- src/xraylib-nist-compounds-internal.h
  radionuclides                                        <- src/xraylib-radionuclides-internal.h (line macros resolved through the headers)
  NIST_COMPOUND_* / RADIO_NUCLIDE_* / *_LINE macros    <- include/*.h through the validated C-side lexer of extract_bindings.py
  line energies of the nuclides' daughter elements     <- <line-energy dump>: `Z line value` lines printed by harness/c15_drv against the library objects
Writes <Gen>/C15.lean (kernel tables), <aux>/c15.json (entries with their source text; catalogue files for the model driver).
Exit 0 ok, 3 broken tie (<aux>/c15_tie.json)."""
import os, sys, re, json
HERE = os.path.dirname(os.path.abspath(__file__))
sys.path.insert(0, HERE)
import extract_bindings as X
from l4common import TieError, nat_of, emit_table, write_if_changed, lean_int, dec_norm

ENERGY_SCALE = 10 ** 9      # line energies enter the kernel as floor(E[keV] * 1e9)


def strip(txt): return X.strip_c_comments(txt)


def dec_scaled(text, digits, file, line):
    """exact integer text*10^digits"""
    d = dec_norm(text)
    if d is None: raise TieError(file, line, text, 'not a decimal literal')
    m, e = d
    if e + digits < 0: raise TieError(file, line, text, 'more than %d fractional digits' % digits)
    return m * 10 ** (e + digits)


def frac_digits(text):
    d = dec_norm(text)
    return max(0, -d[1]) if d else 0


def parse_nist(repo):
    rel = 'src/xraylib-nist-compounds-internal.h'
    txt = strip(open(os.path.join(repo, rel)).read())
    elems = {}; fracs = {}; entries = []; n_decl = None; in_arr = False; closed = False
    for ln, l in enumerate(txt.splitlines(), 1):
        s = l.strip()
        if not s or s.startswith('#include'): continue
        m = re.fullmatch(r'static const int nCompoundDataNISTList = (\d+);', s)
        if m: n_decl = int(m.group(1)); continue
        m = re.fullmatch(r'static int __CompoundDataNISTList_Elements_(\d+)\[\] = \{([\d,\s]+)\};', s)
        if m: elems[int(m.group(1))] = [int(x) for x in m.group(2).split(',')]; continue
        m = re.fullmatch(r'static double __CompoundDataNISTList_massFractions_(\d+)\[\] = \{([\d.,\seE+-]+)\};', s)
        if m: fracs[int(m.group(1))] = [x.strip() for x in m.group(2).split(',')]; continue
        if re.fullmatch(r'static const struct compoundDataNIST compoundDataNISTList\[\] = \{', s): in_arr = True; continue
        if in_arr and s == '};': in_arr = False; closed = True; continue
        m = re.fullmatch(r'\{"([^"\\]*)"\s*,\s*(\d+),\s*__CompoundDataNISTList_Elements_(\d+),\s*__CompoundDataNISTList_massFractions_(\d+),\s*([\d.eE+-]+)\},?', s)
        if m and in_arr:
            i, j = int(m.group(3)), int(m.group(4))
            if i not in elems or j not in fracs: raise TieError(rel, ln, s, 'entry refers to an array that is not defined above')
            entries.append(dict(name=m.group(1), n=int(m.group(2)), elements=elems[i], fractions=fracs[j], density=m.group(5), line=ln, arrays=(i, j)))
            continue
        raise TieError(rel, ln, l, 'line of the NIST table not understood')
    if n_decl is None or not closed: raise TieError(rel, 0, '', 'nCompoundDataNISTList / array terminator not found')
    return rel, n_decl, entries


def parse_nuclides(repo, cc):
    rel = 'src/xraylib-radionuclides-internal.h'
    txt = strip(open(os.path.join(repo, rel)).read())
    arrs = {}; entries = []; n_decl = None; in_arr = False; closed = False
    for ln, l in enumerate(txt.splitlines(), 1):
        s = l.strip()
        if not s or s.startswith('#include'): continue
        m = re.fullmatch(r'static const int nNuclideDataList = (\d+);', s)
        if m: n_decl = int(m.group(1)); continue
        m = re.fullmatch(r'static int (__NuclideDataList_XrayLines_\d+)\[\] = \{([\w,\s-]+)\};', s)
        if m:
            vals = []
            for x in m.group(2).split(','):
                x = x.strip()
                if re.fullmatch(r'-?\d+', x): vals.append((x, int(x)))
                elif x in cc and cc[x].kind == 'int': vals.append((x, cc[x].a))
                else: raise TieError(rel, ln, x, 'X-ray line is neither an integer nor a macro of the public headers')
            arrs[m.group(1)] = vals; continue
        m = re.fullmatch(r'static double (__NuclideDataList_(?:XrayIntensities|GammaEnergies|GammaIntensities)_\d+)\[\] = \{([\d.,\seE+-]+)\};', s)
        if m: arrs[m.group(1)] = [x.strip() for x in m.group(2).split(',')]; continue
        if re.fullmatch(r'static const struct radioNuclideData nuclideDataList\[\] = \{', s): in_arr = True; continue
        if in_arr and s == '};': in_arr = False; closed = True; continue
        m = re.fullmatch(r'\{"([^"\\]*)"\s*,\s*(\d+),\s*(\d+),\s*(\d+),\s*(\d+),\s*(\d+),\s*(\w+),\s*(\w+),\s*(\d+),\s*(\w+),\s*(\w+)\},?', s)
        if m and in_arr:
            for k in (7, 8, 10, 11):
                if m.group(k) not in arrs: raise TieError(rel, ln, m.group(k), 'entry refers to an array that is not defined above')
            entries.append(dict(name=m.group(1), Z=int(m.group(2)), A=int(m.group(3)), N=int(m.group(4)), Z_xray=int(m.group(5)), nXrays=int(m.group(6)),
                                lines=arrs[m.group(7)], xint=arrs[m.group(8)], nGammas=int(m.group(9)), genergies=arrs[m.group(10)], gint=arrs[m.group(11)], line=ln))
            continue
        raise TieError(rel, ln, l, 'line of the radionuclide table not understood')
    if n_decl is None or not closed: raise TieError(rel, 0, '', 'nNuclideDataList / array terminator not found')
    return rel, n_decl, entries


def parse_inline(bdir):
    """Mendeleev tables and the crystal table as pr_data wrote them"""
    rel = '<build>/xrayglob_inline.c'
    p = os.path.join(bdir, 'xrayglob_inline.c')
    head = []
    with open(p) as f:
        for l in f:
            head.append(l)
            if l.startswith('Crystal_Array Crystal_arr'): break
        else:
            raise TieError(rel, 0, '', 'Crystal_Array Crystal_arr definition not found')
    txt = ''.join(head)
    def mendel(var):
        m = re.search(r'struct MendelElement %s\[MENDEL_MAX\] =\s*\{(.*?)\};' % var, txt, flags=re.S)
        if not m: raise TieError(rel, 0, var, 'Mendeleev table not found')
        body = m.group(1); out = []
        rest = re.sub(r'\{(\d+),"(\w+)"\}', lambda mm: out.append((int(mm.group(1)), mm.group(2))) or '', body)
        if rest.replace(',', '').strip(): raise TieError(rel, 0, rest.strip()[:80], 'text in the Mendeleev table not understood')
        return out
    mend = mendel('MendelArray'); mends = mendel('MendelArraySorted')
    atoms = {}
    for m in re.finditer(r'static Crystal_Atom __atoms_(\w+)\[(\d+)\] = \{(.*?)\n\};', txt, flags=re.S):
        lst = []
        rest = re.sub(r'\{(-?\d+), (-?[\d.]+)f, (-?[\d.]+)f, (-?[\d.]+)f, (-?[\d.]+)f\},', lambda mm: lst.append(mm.groups()) or '', m.group(3))
        if rest.strip(): raise TieError(rel, 0, rest.strip()[:80], 'text in an atom table not understood')
        atoms[m.group(1)] = (int(m.group(2)), lst)
    m = re.search(r'static Crystal_Struct __Crystal_arr\[CRYSTALARRAY_MAX\] = \{\n(.*?)\n\};', txt, flags=re.S)
    if not m: raise TieError(rel, 0, '', 'crystal table not found')
    crystals = []
    for l in m.group(1).splitlines():
        mm = re.fullmatch(r'\s*\{"(\w+)", ([\d.-]+)f, ([\d.-]+)f, ([\d.-]+)f, ([\d.-]+)f, ([\d.-]+)f, ([\d.-]+)f, ([\d.-]+)f, (\d+), __atoms_(\w+)\},', l)
        if not mm: raise TieError(rel, 0, l, 'crystal entry not understood')
        if mm.group(10) not in atoms: raise TieError(rel, 0, l, 'crystal refers to an atom table that does not exist')
        crystals.append(dict(name=mm.group(1), cell=list(mm.groups()[1:7]), volume=mm.group(8), n_atom=int(mm.group(9)), atoms_decl=atoms[mm.group(10)][0], atoms=atoms[mm.group(10)][1]))
    m = re.search(r'Crystal_Array Crystal_arr = \{(\d+), (\d+), __Crystal_arr\};', txt)
    return mend, mends, crystals, int(m.group(1)), int(m.group(2))


def g17(text):
    return '%.17g' % float(text)


def main(bdir, gen_dir, aux, le_dump):
    repo = os.environ.get('VERIF_REPO', '/repo')
    os.makedirs(aux, exist_ok=True)
    cc = X.c_constants(repo, bdir, aux)
    nrel, n_nist, nist = parse_nist(repo)
    rrel, n_nuc, nucs = parse_nuclides(repo, cc)
    mend, mends, crystals, n_cryst, n_alloc = parse_inline(bdir)
    # ---- line energies from the library ------------------------------------------------------------------
    le = {}
    for l in open(le_dump):
        f = l.split()
        if len(f) != 3: raise TieError('<c15_drv lineenergies>', 0, l, 'dump line not understood')
        le[(int(f[0]), int(f[1]))] = f[2]
    zx = sorted({e['Z_xray'] for e in nucs})
    linenum = cc['LINENUM'].a
    for z in zx:
        for k in range(1, linenum + 1):
            if (z, -k) not in le: raise TieError('<c15_drv lineenergies>', 0, '%d %d' % (z, -k), 'line energy missing from the dump')

    # ---- scales ---------------------------------------------------------------------------------------------
    S = max([frac_digits(x) for e in nist for x in e['fractions'] + [e['density']]] + [6])
    SN = max([frac_digits(x) for e in nucs for x in e['xint'] + e['genergies'] + e['gint']] + [6])
    SC = 6
    # ---- Lean -----------------------------------------------------------------------------------------------
    L = ['/- GENERATED by tools/gen_c15.py from the catalogue sources of the repository — do not edit. -/',
         'import XrlL4.Catalogue', 'namespace XrlL4.Gen.C15', '']
    L.append('/-- MendelArray as compiled into the library: (Zatom, code of the symbol), in array order -/')
    emit_table(L, 'mendel', '(Nat × Nat)', mend, lambda x: '(%d,%d)' % (x[0], nat_of(x[1])))
    emit_table(L, 'mendelSorted', '(Nat × Nat)', mends, lambda x: '(%d,%d)' % (x[0], nat_of(x[1])), 'MendelArraySorted (the bsearch twin used by the parser)')
    L.append('def MENDEL_MAX : Nat := %d' % cc['MENDEL_MAX'].a); L.append('def ZMAX : Nat := %d' % cc['ZMAX'].a); L.append('')
    L.append('/-- mass fractions and densities are integers in units of 10^-%d -/' % S)
    L.append('def nistScale : Nat := %d' % 10 ** S); L.append('')
    def rN(e):
        return '⟨%d,%d,[%s],[%s],%d⟩' % (nat_of(e['name']), e['n'], ','.join(map(str, e['elements'])),
                                        ','.join(str(dec_scaled(x, S, nrel, e['line'])) for x in e['fractions']), dec_scaled(e['density'], S, nrel, e['line']))
    emit_table(L, 'nist', 'NistEntry', nist, rN, 'compoundDataNISTList (%d entries)' % len(nist))
    L.append('def nNist : Nat := %d' % n_nist); L.append('')
    def macros(prefix):
        out = sorted(((n, c.a) for n, c in cc.items() if n.startswith(prefix) and n != 'RADIO_NUCLIDE_STRING_LENGTH'), key=lambda x: nat_of(x[0]))
        return out
    nm = macros('NIST_COMPOUND_'); rm = macros('RADIO_NUCLIDE_')
    emit_table(L, 'nistMacros', '(Nat × Int)', nm, lambda x: '(%d,%s)' % (nat_of(x[0]), lean_int(x[1])), 'NIST_COMPOUND_* macros of include/xraylib-nist-compounds.h (name code, value), ascending by code')
    emit_table(L, 'nuclideMacros', '(Nat × Int)', rm, lambda x: '(%d,%s)' % (nat_of(x[0]), lean_int(x[1])), 'RADIO_NUCLIDE_* macros of include/xraylib-radionuclides.h')
    L.append('def nistPrefix : Nat := %d  -- "NIST_COMPOUND_"' % nat_of('NIST_COMPOUND_'))
    L.append('def nuclidePrefix : Nat := %d  -- "RADIO_NUCLIDE_"' % nat_of('RADIO_NUCLIDE_')); L.append('')
    L.append('/-- intensities / energies of the radionuclide table are integers in units of 10^-%d -/' % SN)
    L.append('def nuclideScale : Nat := %d' % 10 ** SN); L.append('')
    def rR(e):
        sc = lambda xs: ','.join(str(dec_scaled(x, SN, rrel, e['line'])) for x in xs)
        return '⟨%d,%d,%d,%d,%d,%d,[%s],[%s],%d,[%s],[%s]⟩' % (nat_of(e['name']), e['Z'], e['A'], e['N'], e['Z_xray'], e['nXrays'],
                ','.join(lean_int(v) for _, v in e['lines']), sc(e['xint']), e['nGammas'], sc(e['genergies']), sc(e['gint']))
    emit_table(L, 'nuclides', 'NuclideEntry', nucs, rR, 'nuclideDataList (%d entries)' % len(nucs))
    L.append('def nNuclides : Nat := %d' % n_nuc); L.append('')
    L.append('/-- LineEnergy(Z, line) of the library built from the working tree, for the daughter elements of the catalogue: row k-1 is line -k; floor(E[keV]·1e9), 0 where the call fails -/')
    for z in zx:
        row = []
        for k in range(1, linenum + 1):
            v = le[(z, -k)]
            row.append(0 if v == 'err' else int(float(v) * ENERGY_SCALE))
        emit_table(L, 'lineRow_%d' % z, 'Nat', row, str)
    L.append('def lineRows : List (Nat × List Nat) := [%s]' % ', '.join('(%d, lineRow_%d)' % (z, z) for z in zx)); L.append('')
    L.append('/-- crystal atoms: (Zatom, fraction, x, y, z) in units of 10^-6 (pr_data prints %f) -/')
    def rC(c):
        def at(a): return '(%s,%s,%s,%s,%s)' % (a[0], *[lean_int(dec_scaled(v, SC, '<build>/xrayglob_inline.c', 0)) for v in a[1:]])
        return '⟨%d,%d,%d,[%s]⟩' % (nat_of(c['name']), c['n_atom'], c['atoms_decl'], ','.join(at(a) for a in c['atoms']))
    # crystals can have many atoms: one def per crystal
    for i, c in enumerate(crystals):
        L.append('def crystal_%d : CrystalEntry := %s' % (i, rC(c)))
    L.append('def crystals : List CrystalEntry := [%s]' % ', '.join('crystal_%d' % i for i in range(len(crystals))))
    L.append('def nCrystals : Nat := %d' % n_cryst); L.append('def crystalScale : Nat := %d' % 10 ** SC)
    L += ['', 'end XrlL4.Gen.C15', '']
    write_if_changed(os.path.join(gen_dir, 'C15.lean'), '\n'.join(L))

    # ---- catalogue files for the model driver and the expected payloads -------------------------------------
    def nist_payload(e):
        return '%d|%s|%s|%s' % (e['n'], ','.join(map(str, e['elements'])), ','.join(g17(x) for x in e['fractions']), g17(e['density']))
    def nuc_payload(e):
        return '%d|%d|%d|%d|%d|%s|%s|%d|%s|%s' % (e['Z'], e['A'], e['N'], e['Z_xray'], e['nXrays'], ','.join(str(v) for _, v in e['lines']), ','.join(g17(x) for x in e['xint']),
                                                  e['nGammas'], ','.join(g17(x) for x in e['genergies']), ','.join(g17(x) for x in e['gint']))
    import struct
    def f32(t): return '%.17g' % struct.unpack('f', struct.pack('f', float(t)))[0]
    def cr_payload(c):
        return '%s|%s|%d|%s' % (','.join(f32(v) for v in c['cell']), f32(c['volume']), c['n_atom'], ';'.join('%s,%s' % (a[0], ','.join(f32(v) for v in a[1:])) for a in c['atoms']))
    cats = dict(nist=[(e['name'], nist_payload(e)) for e in nist], nuclide=[(e['name'], nuc_payload(e)) for e in nucs],
                crystal=[(c['name'], cr_payload(c)) for c in crystals], mendel=[(s, str(z)) for z, s in mend])
    for k, v in cats.items():
        with open(os.path.join(aux, 'cat_%s.txt' % k), 'w') as f:
            for n, p in v: f.write('%s\t%s\n' % (n, p))
    js = dict(nist=nist, nuclides=nucs, crystals=[dict(name=c['name'], n_atom=c['n_atom'], atoms=len(c['atoms'])) for c in crystals], mendel=mend, mendel_sorted=mends,
              crystals_full=[dict(name=c['name'], cell=c['cell'], volume=c['volume'], n_atom=c['n_atom'], atoms_decl=c['atoms_decl'], atoms=[list(a) for a in c['atoms']]) for c in crystals],
              nist_macros=nm, nuclide_macros=rm, counts=dict(nist=len(nist), nist_declared=n_nist, nuclides=len(nucs), nuclides_declared=n_nuc, crystals=len(crystals), crystals_declared=n_cryst,
              mendel=len(mend), atoms=sum(len(c['atoms']) for c in crystals), line_rows=len(zx)), scales=dict(nist=S, nuclide=SN, crystal=SC),
              files=dict(nist=nrel, nuclides=rrel))
    json.dump(js, open(os.path.join(aux, 'c15.json'), 'w'), indent=0)
    return 0


if __name__ == '__main__':
    try:
        sys.exit(main(*sys.argv[1:5]))
    except TieError as e:
        json.dump(dict(file=e.file, line=e.line, text=e.text, why=e.why), open(os.path.join(sys.argv[3], 'c15_tie.json'), 'w'))
        print('TIE %s' % e, file=sys.stderr)
        sys.exit(3)
