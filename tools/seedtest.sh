#!/bin/bash
# seedtest.sh <ID> <patchfile> <check ids...> : confirm a seeded change in its scratch worktree /tmp/wt-<ID>-confirm, then run the given checks
# against /repo with the patch applied, and undo it.  Output: one summary line per step.
set -u
ID=$1; PATCH=$2; shift 2
WT=/tmp/wtc-$ID
DEMO_DIR=$(dirname "$PATCH")
RUNVAR=${RUN:-1}
git -C /repo worktree remove --force $WT >/dev/null 2>&1
git -C /repo worktree add --detach $WT HEAD -q || exit 2
( cd $WT && meson setup _build >/dev/null 2>&1 && meson compile -C _build >/dev/null 2>&1 ) || { echo "CONFIRM build-clean FAILED"; }
if [ -x "$DEMO_DIR/run_demo.sh" ]; then ( cd $DEMO_DIR && RUN=$RUNVAR ./run_demo.sh $WT >/tmp/seed_demo_clean.log 2>&1 ); echo "CONFIRM demo on clean tree: exit $?"; fi
git -C $WT apply "$PATCH" || { echo "CONFIRM patch does not apply"; exit 2; }
( cd $WT && meson compile -C _build >/dev/null 2>&1 ) || echo "CONFIRM build with patch FAILED"
( cd $WT && meson test -C _build 2>&1 | grep -E "^Ok|^Fail" | tr '\n' ' ' ); echo
if [ -x "$DEMO_DIR/run_demo.sh" ]; then ( cd $DEMO_DIR && RUN=$RUNVAR ./run_demo.sh $WT >/tmp/seed_demo_mut.log 2>&1 ); echo "CONFIRM demo on changed tree: exit $? ($(tail -1 /tmp/seed_demo_mut.log | cut -c1-120))"; fi
git -C /repo worktree remove --force $WT
# run the checks on /repo with the change applied
git -C /repo apply "$PATCH" || { echo "apply to /repo failed"; exit 2; }
for c in "$@"; do
  out=$(cd /verif && ./check $c 2>&1 | grep -E "^VIOLATION|^KNOWN|exit [01]" | grep -v "^KNOWN" | tr '\n' '|' | cut -c1-300)
  echo "CHECK $c: $out"
done
git -C /repo checkout -- . 
git -C /repo status --short | head -3
