#!/usr/bin/env python3
"""C06: re-extract the shape of the 21 `_CP` functions (src/cs_cp.c) and of the four refractive-index entry points
(src/refractive_indices.c) from the clang-14 JSON AST of /repo's current tree.

usage: c06extract.py <builddir with config.h> <out Table.lean> <out meta.json>          (VERIF_REPO honoured)

For every function definition of cs_cp.c whose name ends in `_CP`:
  * the elemental call (the one CallExpr whose callee is not part of the template's infrastructure), its callee and the
    rendered argument expressions, and the other factor of the product it is multiplied with;
  * the body rendered as pseudo-C lines with the elemental call replaced by `@F(@ARGS)`: the *normalised body*.
    Equal normalised bodies get the same template index; the Lean side proves that there is exactly one template and that it
    is the one the hand model mirrors (`cp_template_conforms`), and that every entry forwards its arguments in order to the
    function it is named after (`cp_table_conforms`).
For refractive_indices.c the bodies of the four functions are rendered completely (macros expanded by clang).

A construct the renderer does not know is rendered `<?Kind>`, so it can never equal an expected line: the tie breaks loudly."""
import os, sys, json, subprocess, hashlib
sys.path.insert(0, os.path.join(os.path.dirname(os.path.abspath(__file__)), '..'))
from vlib import cbuild

INFRA = {'CompoundParser', 'GetCompoundDataNISTByName', 'xrl_set_error_literal', 'xrl_propagate_error', 'FreeCompoundData', 'FreeCompoundDataNIST'}

def ast_of(src, bdir, repo):
    fl = cbuild.cflags(repo, bdir)
    p = subprocess.run(['clang-14'] + fl + ['-w', '-fsyntax-only', '-Xclang', '-ast-dump=json', src], capture_output=True, text=True)
    if p.returncode != 0:
        raise SystemExit('clang failed on %s: %s' % (src, p.stderr[-2000:]))
    return json.loads(p.stdout)

def is_null(n):
    """`NULL` = ((void*)0)"""
    while n.get('kind') in ('ImplicitCastExpr', 'ParenExpr', 'CStyleCastExpr'):
        if n['kind'] == 'CStyleCastExpr' and n.get('type', {}).get('qualType') == 'void *':
            inner = n['inner'][0]
            return inner.get('kind') == 'IntegerLiteral' and inner.get('value') == '0'
        n = n['inner'][0]
    return False

class R:
    """renderer; `hole` = name of the function whose call is replaced by @F(@ARGS) (None: render everything)"""
    def __init__(self, hole_ok=False):
        self.hole_ok = hole_ok
        self.calls = []     # elemental calls met: (callee, [args])

    def e(self, n):
        k = n.get('kind')
        if k is None: return ''
        if is_null(n): return 'NULL'
        if k == 'ImplicitCastExpr': return self.e(n['inner'][0])
        if k == 'ParenExpr': return '(' + self.e(n['inner'][0]) + ')'
        if k == 'CStyleCastExpr': return '(' + n['type']['qualType'] + ')' + self.e(n['inner'][0])
        if k == 'DeclRefExpr': return n['referencedDecl']['name']
        if k == 'IntegerLiteral': return n['value']
        if k == 'FloatingLiteral': return repr(float(n['value']))     # shortest round-trip text of the double: 0.0, 1.0, 0.000415179082788, 9.8663479e-09
        if k == 'StringLiteral': return n['value']
        if k == 'MemberExpr': return self.e(n['inner'][0]) + ('->' if n.get('isArrow') else '.') + n['name']
        if k == 'ArraySubscriptExpr': return self.e(n['inner'][0]) + '[' + self.e(n['inner'][1]) + ']'
        if k in ('BinaryOperator', 'CompoundAssignOperator'):
            return self.e(n['inner'][0]) + ' ' + n['opcode'] + ' ' + self.e(n['inner'][1])
        if k == 'UnaryOperator':
            return (self.e(n['inner'][0]) + n['opcode']) if n.get('isPostfix') else (n['opcode'] + self.e(n['inner'][0]))
        if k == 'CallExpr':
            callee = self.e(n['inner'][0]); args = [self.e(a) for a in n['inner'][1:]]
            if self.hole_ok and callee not in INFRA:
                self.calls.append((callee, args)); return '@F(@ARGS)'
            return callee + '(' + ', '.join(args) + ')'
        if k == 'InitListExpr': return '{' + ', '.join(self.e(a) for a in n.get('inner', [])) + '}'
        return '<?%s>' % k

    def s(self, n, ind, out):
        k = n.get('kind'); pad = '  ' * ind
        if k == 'CompoundStmt':
            for c in n.get('inner', []): self.s(c, ind, out)
        elif k == 'DeclStmt':
            for v in n.get('inner', []):
                if v.get('kind') != 'VarDecl': out.append(pad + '<?%s>' % v.get('kind')); continue
                init = [c for c in v.get('inner', []) if 'kind' in c]
                out.append(pad + v['type']['qualType'] + ' ' + v['name'] + ((' = ' + self.e(init[0])) if init else '') + ';')
        elif k == 'IfStmt':
            inner = n['inner']
            out.append(pad + 'if (' + self.e(inner[0]) + ') {')
            self.s(inner[1], ind + 1, out)
            if len(inner) > 2:
                out.append(pad + '} else {'); self.s(inner[2], ind + 1, out)
            out.append(pad + '}')
        elif k == 'ForStmt':
            i = n['inner']
            out.append(pad + 'for (' + self.e(i[0]) + '; ' + self.e(i[2]) + '; ' + self.e(i[3]) + ') {')
            self.s(i[4], ind + 1, out); out.append(pad + '}')
        elif k == 'ReturnStmt':
            out.append(pad + 'return' + ((' ' + self.e(n['inner'][0])) if n.get('inner') else '') + ';')
        elif k == 'BreakStmt': out.append(pad + 'break;')
        elif k == 'NullStmt': pass
        elif k in ('WhileStmt', 'DoStmt', 'SwitchStmt', 'GotoStmt', 'LabelStmt', 'ContinueStmt'):
            out.append(pad + '<?%s>' % k)
        else:
            out.append(pad + self.e(n) + ';')

def functions(ast, fname):
    out = []
    for n in ast.get('inner', []):
        if n.get('kind') != 'FunctionDecl' or n.get('isImplicit'): continue
        body = [c for c in n.get('inner', []) if c.get('kind') == 'CompoundStmt']
        if not body: continue
        loc = n.get('loc', {})
        # keep definitions located in (or expanded from macros of) the main file only
        f = loc.get('file') or loc.get('spellingLoc', {}).get('file') or loc.get('expansionLoc', {}).get('file')
        out.append((n, body[0]))
    return out

def main_file_functions(ast, src):
    """clang's JSON prints `file` only when it changes; track it"""
    cur = None; out = []
    for n in ast.get('inner', []):
        loc = n.get('loc', {})
        for l in (loc, loc.get('spellingLoc', {}), loc.get('expansionLoc', {})):
            if 'file' in l: cur = l['file']
        if n.get('kind') == 'FunctionDecl' and not n.get('isImplicit') and cur and os.path.abspath(cur) == os.path.abspath(src):
            body = [c for c in n.get('inner', []) if c.get('kind') == 'CompoundStmt']
            if body: out.append((n, body[0]))
    return out

def params_of(fn):
    return ['%s %s' % (p['type']['qualType'], p.get('name', '')) for p in fn.get('inner', []) if p.get('kind') == 'ParmVarDecl']

def ptypes_of(fn):
    return [p['type']['qualType'] for p in fn.get('inner', []) if p.get('kind') == 'ParmVarDecl']

def pnames_of(fn):
    return [p.get('name', '') for p in fn.get('inner', []) if p.get('kind') == 'ParmVarDecl']

def weight_of(body, callee):
    """the other factor of the product containing the elemental call: find BinaryOperator `*` with a CallExpr operand"""
    found = []
    def walk(n):
        if n.get('kind') == 'BinaryOperator' and n.get('opcode') == '*':
            ops = n['inner']
            def strip(x):
                while x.get('kind') in ('ImplicitCastExpr', 'ParenExpr'): x = x['inner'][0]
                return x
            a, b = strip(ops[0]), strip(ops[1])
            r = R()
            if a.get('kind') == 'CallExpr' and r.e(a['inner'][0]) == callee: found.append(('left', r.e(ops[1])))
            elif b.get('kind') == 'CallExpr' and r.e(b['inner'][0]) == callee: found.append(('right', r.e(ops[0])))
        for c in n.get('inner', []): walk(c)
    walk(body)
    return found

def lstr(s):
    return '"' + s.replace('\\', '\\\\').replace('"', '\\"') + '"'

def llist(xs, f=lstr, ind='    '):
    if not xs: return '[]'
    return '[\n' + ',\n'.join(ind + f(x) for x in xs) + ']'

def main():
    bdir, out_lean, out_meta = sys.argv[1:4]
    repo = cbuild.REPO
    os.makedirs(bdir, exist_ok=True)
    cfg = os.path.join(bdir, 'config.h')
    if not os.path.exists(cfg):
        v = cbuild.project_version(repo)
        open(cfg, 'w').write(cbuild.CONFIG_H % (v, v))
    problems = []
    # ---- cs_cp.c -----------------------------------------------------------------------------------------------
    src = os.path.join(repo, 'src', 'cs_cp.c')
    ast = ast_of(src, bdir, repo)
    entries = []; templates = []
    for fn, body in main_file_functions(ast, src):
        name = fn['name']
        r = R(hole_ok=True); lines = []
        r.s(body, 0, lines)
        sig = fn['type']['qualType']
        if len(r.calls) != 1:
            problems.append('%s: %d elemental calls in the body (expected exactly one)' % (name, len(r.calls)))
        callee, args = r.calls[0] if r.calls else ('', [])
        w = weight_of(body, callee)
        if len(w) != 1: problems.append('%s: elemental call is not one factor of exactly one product' % name)
        if lines not in templates: templates.append(lines)
        entries.append(dict(name=name, ret=sig.split('(')[0].strip(), ptypes=ptypes_of(fn), pnames=pnames_of(fn), callee=callee, args=args,
                            weight=(w[0][1] if w else ''), side=(w[0][0] if w else ''), tmpl=templates.index(lines)))
    # ---- refractive_indices.c ----------------------------------------------------------------------------------
    src2 = os.path.join(repo, 'src', 'refractive_indices.c')
    ast2 = ast_of(src2, bdir, repo)
    refr = []
    for fn, body in main_file_functions(ast2, src2):
        r = R(); lines = []
        r.s(body, 0, lines)
        refr.append(dict(name=fn['name'], ret=fn['type']['qualType'].split('(')[0].strip(), params=params_of(fn), body=lines))
    meta = dict(entries=entries, templates=templates, refr=refr, problems=problems,
                sha=dict(cs_cp=hashlib.sha256(open(src, 'rb').read()).hexdigest()[:16],
                         refractive_indices=hashlib.sha256(open(src2, 'rb').read()).hexdigest()[:16]))
    json.dump(meta, open(out_meta, 'w'), indent=1)
    # ---- Lean ---------------------------------------------------------------------------------------------------
    L = ['/-! GENERATED by tools/c06extract.py from src/cs_cp.c and src/refractive_indices.c (clang-14 AST) — do not edit -/',
         'namespace XrlC06', 'namespace Gen', '',
         'structure CpEntry where', '  name : String', '  ret : String', '  ptypes : List String', '  pnames : List String', '  callee : String',
         '  args : List String', '  weight : String', '  side : String', '  tmpl : Nat', '  deriving Repr, DecidableEq', '',
         'structure RefrFn where', '  name : String', '  ret : String', '  params : List String', '  body : List String', '  deriving Repr, DecidableEq', '']
    def ent(e):
        return '{ name := %s, ret := %s, ptypes := %s, pnames := %s, callee := %s, args := %s, weight := %s, side := %s, tmpl := %d }' % (
            lstr(e['name']), lstr(e['ret']), '[' + ', '.join(lstr(x) for x in e['ptypes']) + ']', '[' + ', '.join(lstr(x) for x in e['pnames']) + ']', lstr(e['callee']),
            '[' + ', '.join(lstr(x) for x in e['args']) + ']', lstr(e['weight']), lstr(e['side']), e['tmpl'])
    L.append('def cpTable : List CpEntry := ' + llist(entries, ent, '  ')); L.append('')
    L.append('def cpTemplates : List (List String) := ' + llist(templates, lambda t: llist(t, lstr, '      '), '  ')); L.append('')
    for f in refr:
        L.append('def refr_%s : RefrFn := { name := %s, ret := %s, params := %s, body := %s }' % (
            f['name'], lstr(f['name']), lstr(f['ret']), '[' + ', '.join(lstr(x) for x in f['params']) + ']', llist(f['body'], lstr, '      ')))
        L.append('')
    L.append('def refrNames : List String := [' + ', '.join(lstr(f['name']) for f in refr) + ']')
    # entries the Lean side refers to by name must exist even when the source lost them
    for nm in ('Refractive_Index_Re', 'Refractive_Index_Im', 'Refractive_Index', 'Refractive_Index2'):
        if nm not in [f['name'] for f in refr]:
            L.append('def refr_%s : RefrFn := { name := "", ret := "", params := [], body := [] }' % nm)
            problems.append('refractive_indices.c no longer defines %s' % nm)
    L += ['', 'end Gen', 'end XrlC06', '']
    txt = '\n'.join(L)
    old = None
    try: old = open(out_lean).read()
    except OSError: pass
    if old != txt:
        os.makedirs(os.path.dirname(out_lean), exist_ok=True)
        open(out_lean, 'w').write(txt)
    for p in problems: print('PROBLEM ' + p)
    return 0

if __name__ == '__main__':
    sys.exit(main())
