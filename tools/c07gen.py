"""Input generators for the C07 correspondence run and violation search (everything derives from one PRNG).

formula tree:  items = [item, ...];  item = ('a', sym, sub) | ('g', items, sub);  sub = '' | decimal text."""
from fractions import Fraction

ALPHABET = set(b'ABCDEFGHIJKLMNOPQRSTUVWXYZabcdefghijklmnopqrstuvwxyz0123456789.()')

def esc(b):
    """bytes -> protocol token: every byte outside [A-Za-z0-9.()] as %XX; the empty string is `%`"""
    if not b: return '%'
    return ''.join(chr(c) if c in ALPHABET else '%%%02X' % c for c in b)

def unesc(t):
    if t == '%': return b''
    out = bytearray(); i = 0
    while i < len(t):
        if t[i] == '%' and i + 3 <= len(t):
            out.append(int(t[i + 1:i + 3], 16)); i += 3
        else:
            out.append(ord(t[i])); i += 1
    return bytes(out)

def show(items):
    out = []
    for it in items:
        if it[0] == 'a': out.append(it[1] + it[2])
        else: out.append('(' + show(it[1]) + ')' + it[2])
    return ''.join(out)

def depth(items):
    return max([0] + [1 + depth(it[1]) for it in items if it[0] == 'g'])

def n_items(items):
    return sum(1 if it[0] == 'a' else 1 + n_items(it[1]) for it in items)

def dec_text(q):
    """exact decimal text of a Fraction whose denominator divides a power of ten"""
    q = Fraction(q)
    k = 0
    while (q * 10 ** k).denominator != 1: k += 1
    n = (q * 10 ** k).numerator
    s = str(n)
    if k == 0: return s
    s = s.rjust(k + 1, '0')
    return s[:-k] + '.' + s[-k:]

def sub_value(sub):
    if sub == '': return Fraction(1)
    t = sub
    if t.startswith('.'): t = '0' + t
    if t.endswith('.'): t = t + '0'
    return Fraction(t)

class Gen:
    def __init__(self, rng, syms):
        self.rng = rng; self.syms = syms

    def sub(self):
        r = self.rng; x = r.random()
        if x < 0.50: return ''
        if x < 0.72: return str(r.randint(1, 12))
        if x < 0.78: return str(r.randint(13, 9999))
        if x < 0.80: return '0' + str(r.randint(1, 99))                      # leading zero
        k = r.randint(1, 4)
        frac = ''.join(r.choice('0123456789') for _ in range(k))
        ip = r.choice(['', '0', str(r.randint(1, 30))])
        if ip in ('', '0') and int(frac) == 0: frac = frac[:-1] + r.choice('123456789')
        if x < 0.97: return ip + '.' + frac
        return str(r.randint(1, 30)) + '.'                                   # trailing point

    def items(self, d, want):
        r = self.rng
        out = []
        for _ in range(want):
            if d > 0 and r.random() < 0.35:
                out.append(('g', self.items(d - 1, r.choice([1, 1, 2, 2, 3, 4])), self.sub()))
            else:
                out.append(('a', r.choice(self.syms), self.sub()))
        return out

    def formula(self, maxdepth=5, maxlen=120):
        r = self.rng
        while True:
            d = r.choice([0, 0, 1, 1, 2, 2, 3, 4, 5])
            f = self.items(min(d, maxdepth), r.choice([1, 1, 2, 2, 3, 3, 4, 5, 6]))
            if 0 < len(show(f)) <= maxlen: return f

def reorder(items, rng):
    out = [(it if it[0] == 'a' else ('g', reorder(it[1], rng), it[2])) for it in items]
    rng.shuffle(out)
    return out

def scale_sub(sub, n):
    return dec_text(sub_value(sub) * n)

def expand_one(items, rng):
    """replace one parenthesised group (chosen at random, any level) by its contents with every subscript multiplied"""
    idx = [i for i, it in enumerate(items) if it[0] == 'g']
    if not idx: return None
    i = rng.choice(idx)
    it = items[i]
    if rng.random() < 0.4:
        inner = expand_one(it[1], rng)
        if inner is not None: return items[:i] + [('g', inner, it[2])] + items[i + 1:]
    n = sub_value(it[2])
    repl = [(x[0], x[1], scale_sub(x[2], n)) for x in it[1]]
    return items[:i] + repl + items[i + 1:]

# subscripts at and beyond the two edges of the range of `double` (audit clauses 2/5): DBL_MAX = 1.7976931348623157e308, the
# midpoint to 2^1024 is 1.79769313486231580793…e308; the smallest subnormal is 4.94e-324, everything <= 2^-1075 = 2.47e-324 is
# converted to 0.0.  (Subnormal results are avoided: their rounding error is not relative, the model computes exactly.)
RANGE_INPUTS = [
    'H' + '9' * 400,                                   # far above DBL_MAX
    'H1' + '0' * 309,                                  # 1e309: the first power of ten above DBL_MAX
    'H2O' + '9' * 310,                                 # one finite and one overflowing count
    '(H2O)' + '9' * 400,                               # the subscript of a group
    'C(H2O' + '1' + '0' * 320 + ')3',                  # inside a group
    'H17976931348623159' + '0' * 292,                  # 1.7976931348623159e308 > midpoint: +inf
    'H1' + '0' * 308,                                  # 1e308: finite (and so is 1e308 times the atomic weight of H; the largest finite
                                                       # subscripts, just below the midpoint, overflow in the product with the atomic weight)
    'H0.' + '0' * 400 + '1',                           # 1e-401: converted to 0.0
    'H.' + '0' * 330 + '5O',                           # 5e-331: converted to 0.0
    '(HO)0.' + '0' * 340 + '7',                        # after a group
    'H0.' + '0' * 300 + '1',                           # 1e-301: a normal double
]

def mutations(seed_bytes, bytes_range=range(1, 256)):
    """every single-character deletion, substitution and insertion"""
    s = seed_bytes
    for i in range(len(s)):
        yield s[:i] + s[i + 1:]
    for i in range(len(s)):
        for b in bytes_range:
            if b != s[i]: yield s[:i] + bytes([b]) + s[i + 1:]
    for i in range(len(s) + 1):
        for b in bytes_range:
            yield s[:i] + bytes([b]) + s[i:]
