#!/usr/bin/env python3
"""seedkeep.py <ID> <n> — keep a confirmed seeded change as /verif/seeded/<ID>-<n>/ :
   patch.diff, the demonstration (demo source + run_demo.sh + the author's README), meta.json.
   The facts come from /tmp/mut-<ID>/ (written by a sub-agent that saw only the property text), from
   notes/seedresults/<ID>-<n>.txt (written by tools/seedrun.sh: my own confirmation in a fresh worktree and the
   runs of the checks against the changed tree) and from tools/seeded_table.json (property clause / what the change
   needs in order to manifest, condensed by hand from the author's README)."""
import sys, os, re, json, shutil, glob
VERIF = os.path.dirname(os.path.dirname(os.path.abspath(__file__)))
ID, n = sys.argv[1], int(sys.argv[2])
src = ('/tmp/mut-%s' if n < 3 else '/tmp/mut2-%s' if n < 5 else '/tmp/mut3-%s' if n < 7 else '/tmp/mut4-%s' if n < 9 else '/tmp/mut5-%s' if n < 11 else '/tmp/mut6-%s') % ID      # round 2 changes are numbered 3, 4; round 3: 5, 6
dst = os.path.join(VERIF, 'seeded', '%s-%d' % (ID, n)); os.makedirs(dst, exist_ok=True)
patch = os.path.join(src, 'patch.diff' if n == 1 else 'patch%d.diff' % n)
shutil.copy(patch, os.path.join(dst, 'patch.diff'))
demos = [f for f in os.listdir(src) if re.match(r'demo%s\.' % ('' if n == 1 else str(n)), f)]
for f in demos + ['run_demo.sh', 'README.md'] + [f for f in os.listdir(src) if f.endswith('.py') or f.endswith('.h')]:
    p = os.path.join(src, f)
    if os.path.isfile(p): shutil.copy(p, os.path.join(dst, f))
if n != 1:   # demo2.c may #include demo.c
    for f in os.listdir(src):
        if re.match(r'demo\.', f) and any('#include "%s"' % f in open(os.path.join(src, d), errors='replace').read() for d in demos):
            shutil.copy(os.path.join(src, f), os.path.join(dst, f))
res = open(os.path.join(VERIF, 'notes', 'seedresults', '%s-%d.txt' % (ID, n))).read().splitlines()
table = json.load(open(os.path.join(VERIF, 'tools', 'seeded_table.json')))
ent = table['%s-%d' % (ID, n)]
checks = []
for i, l in enumerate(res):
    m = re.match(r'CHECK (C\d+): (.*)', l)
    if not m: continue
    body = m.group(2)
    verdict = 'VIOLATION with failing input' if 'VIOLATION' in body and 'no-failing-input-found' not in body else \
              'VIOLATION no-failing-input-found' if 'VIOLATION' in body else 'not detected (exit 0)' if 'exit 0' in body else 'check did not run: ' + body[:80]
    head = res[i + 1].strip() if i + 1 < len(res) and res[i + 1].startswith('  replay head') else ''
    checks.append(dict(check=m.group(1), verdict=verdict, summary=body[:300], replay_head=head[:300]))
files = sorted(set(re.findall(r'^\+\+\+ b/(\S+)', open(patch).read(), re.M)))
meta = dict(id='%s-%d' % (ID, n), property=ID, files_changed=files, change=ent['change'], breaks=ent['breaks'],
            needs_to_manifest=ent['needs'],
            author='sub-agent given only the property text and a scratch worktree of /repo',
            confirmed_by_me=dict(how='tools/seedrun.sh %s %d …: fresh worktree of /repo HEAD, meson build, demo (exit 0), git apply patch, rebuild, meson test, demo (exit 1)' % (ID, n),
                                 suite_with_change=next((l.strip() for l in res if l.startswith('Ok:')), '?'),
                                 demo_clean=next((l for l in res if l.startswith('demo on clean')), '?'),
                                 demo_changed=next((l for l in res if l.startswith('demo on changed')), '?')),
            checks_run=checks,
            detected_by=[c['check'] for c in checks if c['verdict'].startswith('VIOLATION')],
            notes=ent.get('notes', ''))
json.dump(meta, open(os.path.join(dst, 'meta.json'), 'w'), indent=1)
print(dst, meta['detected_by'], [c['verdict'] for c in checks])
