#!/bin/sh
# Run once after a fresh restore (offline): regenerate the Lean model from /repo as found and build the whole
# Lean project (pays the cold Mathlib import once; leaves lean/.lake populated).  Nothing of /repo is compiled
# permanently: C artefacts are rebuilt by every check in a scratch directory.
set -e
cd "$(dirname "$0")"
python3 - <<'PY'
import sys, os, subprocess
sys.path.insert(0, os.getcwd())
from vlib import core
ctx = core.Ctx('SETUP')
try:
    ctx.build_c()
    with core.Lock():
        ctx.regenerate()
        for e in ctx.gen_errors: print(e)
        ok, out = ctx.lake_build(['Xrl', 'xrl-model'])
        print(out[-3000:] if not ok else 'lake build: ok')
finally:
    ctx.close()
PY
# the other lake projects (each with its own prebuild script)
for d in lean-l4 lean-parser lean-crystals lean-sched lean-cpp lean-c06 lean-c13 lean-loader; do
  if [ -x "$d/setup.sh" ]; then (cd "$d" && ./setup.sh) || echo "setup of $d failed"; fi
done
