import XrlParser.Hand.Parser
import XrlParser.Spec.Formula
/-!
`parser-model <tables file>`: answers the line protocol of `harness/c07drv.c` with the hand model
(`parse`, `null`, `add`, `z2s`, `s2z`, `tablesok`) and the specification oracle (`spec <string>`).
Core Lean only (no Mathlib), so that it links.
-/
open XrlParser

def hexv (c : Char) : Nat :=
  if c.isDigit then c.toNat - 48 else if 'a' ≤ c ∧ c ≤ 'f' then c.toNat - 87 else c.toNat - 55

/-- %-unescape into one `Char` per byte; `%` alone is the empty string -/
def unesc : List Char → List Char
  | ['%'] => []
  | '%' :: a :: b :: r => Char.ofNat (hexv a * 16 + hexv b) :: unesc r
  | c :: r => c :: unesc r
  | [] => []

def plain (c : Char) : Bool := c.isAlphanum || c = '.' || c = '(' || c = ')'

def hexd (n : Nat) : Char := if n < 10 then Char.ofNat (48 + n) else Char.ofNat (55 + n)

def esc (s : List Char) : String :=
  if s.isEmpty then "%" else
  String.ofList (s.flatMap fun c => if plain c then [c] else ['%', hexd (c.toNat / 16), hexd (c.toNat % 16)])

def showRat (r : Rat) : String := s!"{r.num}/{r.den}"

def natOf (s : String) : Option Nat := s.toNat?

/-- `a/b`, `-a/b`, `12.5`, `-3`, `.5` -/
def parseRat (s : String) : Option Rat :=
  let (neg, t) := if s.startsWith "-" then (true, (s.drop 1).toString) else (false, s)
  let v : Option Rat :=
    match t.splitOn "/" with
    | [a, b] => do let x ← natOf a; let y ← natOf b; pure ((x : Rat) / (y : Rat))
    | [a] =>
      match a.splitOn "." with
      | [i] => do let x ← natOf i; pure (x : Rat)
      | [i, f] => do
        let x ← if i.isEmpty then some 0 else natOf i
        let y ← if f.isEmpty then some 0 else natOf f
        pure ((x : Rat) + (y : Rat) / ((10 ^ f.length : Nat) : Rat))
      | _ => none
    | _ => none
  v.map fun q => if neg then -q else q

def parseEntries (toks : List String) : List (List Char × Nat) :=
  toks.filterMap fun t =>
    match t.splitOn ":" with
    | [z, n] => z.toNat?.map fun zz => (unesc n.toList, zz)
    | _ => none

def loadTables (path : String) : IO Hand.Tables := do
  let txt ← IO.FS.readFile path
  let mut T : Hand.Tables := ⟨[], [], []⟩
  for l in txt.splitOn "\n" do
    match l.splitOn " " with
    | "mendel" :: _ :: r => T := { T with mendel := parseEntries r }
    | "sorted" :: _ :: r => T := { T with mendelSorted := parseEntries r }
    | "weights" :: _ :: r => T := { T with weight := r.filterMap parseRat }
    | _ => pure ()
  return T

def tail (live : Nat) (after : Nat) (l0 l1 : Hand.Locale) : String :=
  s!" live={live},{after} loc={esc l0.numeric},{esc l1.numeric}"

def showOpt : Option Rat → String
  | some q => showRat q
  | none => "nan"

def doParse (v : Hand.Variant) (T : Hand.Tables) (loc : List Char) (s : Option (List Char)) : String :=
  let l0 : Hand.Locale := ⟨loc⟩
  let o := Hand.compoundParser v T l0 s
  match o.result with
  | .ok cd =>
    let items := (cd.elements.zip (cd.nAtoms.zip cd.massFractions)).map fun (z, n, f) => s!" {z}:{showRat n}:{showOpt f}"
    -- `ovf=1`: a subscript was converted to +inf; the numbers printed are the exact ones, those of the C code are non-finite
    s!"ok n={cd.elements.length}{String.join items} all={showRat cd.nAtomsAll} mm={showRat cd.molarMass}" ++
      (if o.ovf then " ovf=1" else "") ++ tail o.live (Hand.liveAfterFree o) l0 o.locale
  | .error e => s!"err {esc e.msg}" ++ tail o.live (Hand.liveAfterFree o) l0 o.locale

/-- `nAll;molar;Z:n:f,Z:n:f,...` -/
def parseCD (s : String) : Option Hand.CD :=
  match s.splitOn ";" with
  | [a, m, items] => do
    let a ← parseRat a
    let m ← parseRat m
    let its := if items.isEmpty then [] else items.splitOn ","
    let trip ← its.mapM fun it =>
      match it.splitOn ":" with
      | [z, n, f] => do pure ((← z.toNat?), (← parseRat n), (← parseRat f))
      | _ => none
    pure { elements := trip.map (·.1), nAtoms := trip.map (·.2.1), massFractions := trip.map (·.2.2), nAtomsAll := a, molarMass := m }
  | _ => none

def doAdd (wa wb a b : String) : String :=
  match parseRat wa, parseRat wb, parseCD a, parseCD b with
  | some wA, some wB, some A, some B =>
    let r := Hand.addCompoundData A wA B wB
    let items := (r.elements.zip (r.nAtoms.zip r.massFractions)).map fun (z, n, f) => s!" {z}:{showRat n}:{showRat f}"
    s!"ok n={r.elements.length}{String.join items} all={showRat r.nAtomsAll} mm={showRat r.molarMass} live=4,0 loc=C,C"
  | _, _, _, _ => "bad-op"

/-! specification oracle -/

def specElements (T : Hand.Tables) : Spec.Elements :=
  { zOf := fun s => (T.mendel.find? (fun e => e.1 == s)).map (·.2),
    weight := fun z => if z < 1 || z ≥ T.weight.length then none else
                         let w := T.weight.getD z 0
                         if w ≤ 0 then none else some w }

def hasJunk : Spec.Formula → Bool
  | .nil => false
  | .atom _ s r => (match s with | .junk _ => true | _ => false) || hasJunk r
  | .group i s r => (match s with | .junk _ => true | _ => false) || hasJunk i || hasJunk r

def directAtom : Spec.Formula → Bool
  | .nil => false
  | .atom _ _ _ => true
  | .group _ _ r => directAtom r

/-- number of nesting levels (the formula itself and the inside of every group) that contain no element
    symbol directly: the levels at which xraylib-parser.c:283-289 forgets `tempBracketAtoms` -/
def levelsNoAtom (f : Spec.Formula) : Nat :=
  (if directAtom f then 0 else 1) + inner f
where inner : Spec.Formula → Nat
  | .nil => 0
  | .atom _ _ r => inner r
  | .group i _ r => (if directAtom i then 0 else 1) + inner i + inner r

/-- The verdict the property demands for the string `s`, decided by the specification alone (`Spec.inAlphabet`,
    `Spec.depthAfter`, the recogniser `Spec.read` of the grammar, `Spec.expected`): **every** string that is not the
    text of a well-formed formula whose subscripts a double can hold and whose elements have weights must be
    rejected; the second word names the class. -/
def doSpec (T : Hand.Tables) (s : List Char) : String :=
  let E := specElements T
  if s.any (fun c => !Spec.inAlphabet c) then "expect reject outside-alphabet"
  else if Spec.depthAfter s 0 != some 0 then "expect reject unbalanced"
  else match Spec.read s with
  | none => "expect reject not-a-formula"                 -- in the alphabet, balanced, but not derivable from the grammar
  | some f =>
    match Spec.expected E f with
    | some c =>
      let items := (c.elements.zip (c.nAtoms.zip c.massFractions)).map fun (z, n, fr) => s!" {z}:{showRat n}:{showRat fr}"
      s!"expect ok n={c.elements.length}{String.join items} all={showRat c.nAtomsAll} mm={showRat c.molarMass} lead={levelsNoAtom f}"
    | none =>
      if (match f with | .nil => true | _ => false) then "expect reject empty"
      else if hasJunk f then "expect reject malformed-subscript"
      else if !(f.okB E) then "expect reject unknown-symbol-or-zero-subscript-or-empty-group"
      else if !f.fitsB then
        -- a positive decimal subscript that a double cannot hold; `lead`/`els` let the check recognise the behaviour
        -- of the one known site (non-finite counts for exactly these elements)
        let els := ((f.elems E).foldr Spec.insertAsc []).map toString
        (if f.hasOverflow then "expect reject subscript-overflow" else "expect reject subscript-underflow") ++
          s!" els={",".intercalate els} lead={levelsNoAtom f}"
      else s!"expect reject no-atomic-weight lead={levelsNoAtom f}"

partial def loop (v : Hand.Variant) (T : Hand.Tables) (h : IO.FS.Stream) (out : IO.FS.Stream) : IO Unit := do
  let line ← h.getLine
  if line.isEmpty then return ()
  let t := (line.trimAscii.toString.splitOn " ")
  let ans : String :=
    match t with
    | ["parse", loc, s] => doParse v T (unesc loc.toList) (some (unesc s.toList))
    | ["null"] => doParse v T "C".toList none
    | ["add", wa, wb, a, b] => doAdd wa wb a b
    | ["z2s", z] =>
      match z.toInt? with
      | some zz =>
        match Hand.atomicNumberToSymbol T zz with
        | some s => s!"ok {esc s} live=1,0"
        | none => s!"err {esc "Z out of range".toList} live=0,0"
      | none => "bad-op"
    | ["s2z", s] =>
      match Hand.symbolToAtomicNumberC T (some (unesc s.toList)) with
      | .ok z => s!"ok {z} live=0,0"
      | .error m => s!"err {esc m} live=0,0"
    | ["s2znull"] =>
      match Hand.symbolToAtomicNumberC T none with
      | .ok z => s!"ok {z} live=0,0"
      | .error m => s!"err {esc m} live=0,0"
    | ["spec", s] => doSpec T (unesc s.toList)
    | ["tablesok"] => s!"{Hand.tablesOK T}"
    | [""] => ""
    | _ => "bad-op"
  if ans != "" then out.putStrLn ans
  loop v T h out

def main (argv : List String) : IO UInt32 := do
  let run (tables : String) (v : Hand.Variant) : IO UInt32 := do
    let T ← loadTables tables
    let out ← IO.getStdout
    loop v T (← IO.getStdin) out
    out.flush
    return 0
  match argv with
  | [tables] => run tables Hand.asIs
  | [tables, flags] =>
    -- five characters 0/1: localeFix weightFix leakFix strictFix rangeFix (see Hand.Variant)
    let b := fun (i : Nat) => flags.toList.getD i '0' == '1'
    run tables ⟨b 0, b 1, b 2, b 3, b 4⟩
  | _ => IO.eprintln "usage: parser-model tables.txt [variant flags, e.g. 00000]"; return 2
