#!/bin/sh
# Prebuild of the C07 Lean project (run once after a fresh restore, offline): builds the model, the lemmas,
# the property theorems (pays the cold Mathlib import once; leaves lean-parser/.lake populated) and the
# compiled model driver `parser-model`.  Nothing of /repo is compiled here: ./check C07 rebuilds the C side
# from the working tree in a scratch directory on every run.
set -e
cd "$(dirname "$0")"
lake build XrlParser parser-model
