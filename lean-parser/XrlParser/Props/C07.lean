import XrlParser.Lemmas.Result
import XrlParser.Lemmas.Invariance
import XrlParser.Lemmas.Rejects
import XrlParser.Lemmas.Add
import XrlParser.Lemmas.Witness
/-!
# C07 — the formula parser computes the true composition of every well-formed formula

Property theorems only (helper lemmas live in `XrlParser/Lemmas`).  `T` ranges over **all** element tables /
atomic weights, `l` over all locale states, `f` over all formulas (any depth, any length): the statements are
proved by structural induction, nothing is bounded.

* model: `Hand.compoundParser`, `Hand.addCompoundData` (XrlParser/Hand/Parser.lean, mirrors src/xraylib-parser.c)
* specification: `Spec.Formula`, `print`, `eval`, `IsCompositionOf`, `IsWeightedUnion`, `Reorder`, `Scaled`, `Balanced`,
  `inAlphabet` (XrlParser/Spec/Formula.lean, written from the property text)
* `elementsOf T` is the specification's element table read off the model's tables (symbol ↦ Z by the lookup the
  parser uses, weight = `AtomicWeight`, absent when that call fails).
-/
namespace XrlParser.C07
open Hand Spec

/-- `CompoundParser(s, &error)` under locale state `l` -/
def parse (T : Tables) (l : Locale) (s : String) : ParseOut := compoundParser T l (some s.toList)

/-! ## accepted formulas -/

/-- elements strictly ascending without duplicates, exactly the elements of the formula, counts = algebraic
    expansion, `nAtomsAll` = Σ counts, `molarMass` = Σ AtomicWeight·count — for every well-formed formula, whether
    or not its elements have weights. -/
theorem parse_print_counts (T : Tables) (l : Locale) (f : Formula) (hf : f.WF (elementsOf T)) :
    ∃ cd, (parse T l f.print).result = .ok cd ∧
      StrictAsc cd.elements ∧ cd.nAtoms.length = cd.elements.length ∧
      (∀ z, z ∈ cd.elements ↔ 0 < f.eval (elementsOf T) z) ∧
      (∀ z, countIn cd.elements cd.nAtoms z = f.eval (elementsOf T) z) ∧
      cd.nAtomsAll = sumL cd.nAtoms ∧
      cd.molarMass = sumL (cd.elements.map (fun z => atomicWeight T z * f.eval (elementsOf T) z)) := by
  obtain ⟨ca, k, h1, h2⟩ := parseSimple_ok T (f.printL.length + 1) f hf (by omega)
  refine ⟨mkCD T ca, by rw [parse, print_toList]; exact compoundParser_result_ok T l _ h1, ?_⟩
  refine ⟨pairwise_strictAsc h2.sorted, by simp [mkCD], ?_, ?_, ?_, ?_⟩
  · intro z
    constructor
    · intro hz
      change z ∈ ca.map (·.1) at hz
      simp only [List.mem_map] at hz
      obtain ⟨e, he, rfl⟩ := hz
      rw [← entry_eq h2 he]; exact h2.pos e he
    · intro hz
      rw [← h2.count] at hz
      exact mem_keys_of_cnt_pos hz
  · intro z
    show countIn (ca.map (·.1)) (ca.map (·.2)) z = _
    rw [countIn_map ca (·.2) z]
    rcases find_key (ca := ca) z with ⟨e, hfd, he, rfl⟩ | ⟨hfd, hn⟩
    · rw [hfd]; exact entry_eq h2 he
    · rw [hfd, ← h2.count, cnt_of_not_mem hn]; rfl
  · show ca.foldl (fun acc e => acc + e.2) 0 = sumL (ca.map (·.2))
    rw [foldl_add_eq (·.2) ca 0]; ring
  · show ca.foldl (fun acc e => acc + atomicWeight T e.1 * e.2) 0 = sumL ((ca.map (·.1)).map _)
    rw [foldl_add_eq (fun e => atomicWeight T e.1 * e.2) ca 0, List.map_map, zero_add]
    congr 1
    apply List.map_congr_left
    intro e he
    simp only [Function.comp, entry_eq h2 he]

/-- **parse_print**: for every well-formed formula all of whose elements have an atomic weight, the parser
    returns the composition the property describes: strictly ascending elements, counts = expansion, totals,
    mass fractions = weight·count/molar mass, all positive, summing to 1 (exact rationals). -/
theorem parse_print (T : Tables) (l : Locale) (f : Formula) (hf : f.WF (elementsOf T)) (hw : f.Weighted (elementsOf T)) :
    ∃ cd, (parse T l f.print).result = .ok cd ∧
      (∀ x ∈ cd.massFractions, x.isSome = true) ∧
      IsCompositionOf (atomicWeight T) (f.eval (elementsOf T)) (toComposition cd) := by
  obtain ⟨ca, k, h1, h2⟩ := parseSimple_ok T (f.printL.length + 1) f hf (by omega)
  have hne : ca ≠ [] := by
    obtain ⟨z, hz⟩ := exists_eval_pos (elementsOf T) hf.1 hf.2.1 hf.2.2
    intro hca
    subst hca
    rw [← h2.count] at hz
    simp at hz
  have hwpos : ∀ e ∈ ca, 0 < atomicWeight T e.1 := by
    intro e he
    have hpos : 0 < f.eval (elementsOf T) e.1 := by rw [← entry_eq h2 he]; exact h2.pos e he
    obtain ⟨w, hw1, hw2⟩ := hw e.1 (occurs_of_eval_pos _ hpos)
    simp only [elementsOf] at hw1
    by_cases h0 : atomicWeight T e.1 = 0
    · simp [h0] at hw1
    · simp only [h0, if_false, Option.some.injEq] at hw1
      rw [hw1]; exact hw2
  have := composition_of_inv (atomicWeight T) h2 hne hwpos
  exact ⟨mkCD T ca, by rw [parse, print_toList]; exact compoundParser_result_ok T l _ h1, this.1, this.2⟩

/-- **parse_reorder**: reordering the terms of a formula (at any nesting level) does not change the result. -/
theorem parse_reorder (T : Tables) (l : Locale) {f g : Formula} (h : Reorder f g)
    (hf : f.WF (elementsOf T)) (hg : g.WF (elementsOf T)) :
    (parse T l f.print).result = (parse T l g.print).result :=
  parse_eval_invariant T l hf hg (eval_reorder _ h)

/-- **parse_expand_group**: replacing a parenthesised group `(inner)sub` by the terms of `inner` with their
    subscripts multiplied by `sub` does not change the result. -/
theorem parse_expand_group (T : Tables) (l : Locale) (pre inner inner' rest : Formula) (sub : Sub)
    (hs : Scaled sub.value inner inner')
    (hf : (pre.append (.group inner sub rest)).WF (elementsOf T))
    (hg : (pre.append (inner'.append rest)).WF (elementsOf T)) :
    (parse T l (pre.append (.group inner sub rest)).print).result =
      (parse T l (pre.append (inner'.append rest)).print).result := by
  apply parse_eval_invariant T l hf hg
  intro z
  rw [eval_append, eval_append, eval_append, eval_scaled _ hs z]
  simp only [Formula.eval]

/-! ## rejected strings -/

/-- every string (any bytes, any length) with a character outside the formula alphabet is rejected:
    NULL and one error. -/
theorem parse_rejects_outside_alphabet (T : Tables) (l : Locale) (s : List Char)
    (h : ∃ c ∈ s, inAlphabet c = false) : ∃ e, (compoundParser T l (some s)).result = .error e := by
  obtain ⟨e, he⟩ := parseSimple_alphabet T (s.length + 1) s (by omega) h
  exact ⟨e.err, compoundParser_result_err T l s he⟩

/-- every string with unbalanced parentheses is rejected. -/
theorem parse_rejects_unbalanced (T : Tables) (l : Locale) (s : List Char) (h : ¬ Balanced s) :
    ∃ e, (compoundParser T l (some s)).result = .error e := by
  obtain ⟨e, he⟩ := parseLevel_unbalanced T (parseSimple T s.length) s h
  exact ⟨e.err, compoundParser_result_err T l s he⟩

/-- every formula-shaped text that is empty or contains an unknown symbol, a zero subscript, a malformed
    subscript (`Sub.junk`: no digit or more than one point) or empty parentheses — at any depth — is rejected. -/
theorem parse_rejects_invalid (T : Tables) (l : Locale) (f : Formula) (hs : f.Shape)
    (h : f = .nil ∨ ¬ f.Known (elementsOf T)) : ∃ e, (parse T l f.print).result = .error e := by
  obtain ⟨e, he⟩ := parseSimple_invalid T (f.printL.length + 1) f hs h (by omega)
  exact ⟨e.err, by rw [parse, print_toList]; exact compoundParser_result_err T l _ he⟩

/-- the rejection clause of the property at full strength: a formula-shaped text that is not a well-formed
    formula over elements with atomic weights is rejected. -/
def parse_rejects_full : Prop :=
  ∀ (T : Tables) (l : Locale) (f : Formula), f.Shape →
    ¬ (f.WF (elementsOf T) ∧ f.Weighted (elementsOf T)) → ∃ e, (parse T l f.print).result = .error e

/-- what the code does instead: **every** well-formed formula is accepted, also when an element has no atomic
    weight (`AtomicWeight(Z, NULL)` returns 0 and the error is discarded, xraylib-parser.c:354,359).  The set of
    inputs on which `parse_rejects_full` fails is exactly {well-formed, not all weighted}. -/
theorem parse_accepts_weightless (T : Tables) (l : Locale) (f : Formula) (hf : f.WF (elementsOf T)) :
    ∃ cd, (parse T l f.print).result = .ok cd := by
  obtain ⟨cd, h, _⟩ := parse_print_counts T l f hf
  exact ⟨cd, h⟩

/-- the property's rejection clause is **false** for the code as it is: `Rf` is accepted
    (replayed on the library: `parse C Rf` → molarMass 0, mass fraction NaN). -/
theorem parse_rejects_full_fails : ¬ parse_rejects_full := by
  intro h
  obtain ⟨e, he⟩ := h T0 ⟨['C']⟩ fRf fRf_wf.2.1 (fun hh => fRf_not_weighted hh.2)
  obtain ⟨cd, hcd⟩ := parse_accepts_weightless T0 ⟨['C']⟩ fRf fRf_wf
  rw [hcd] at he
  cases he

/-! ## the numeric locale -/

/-- "parsing leaves process-global state such as the numeric locale as it found it" -/
def locale_restored_full : Prop := ∀ (T : Tables) (l : Locale) (s : Option (List Char)), (compoundParser T l s).locale = l

/-- what the code does: after any call with a non-NULL string `LC_NUMERIC` is `"C"`, whatever it was. -/
theorem locale_after_call (T : Tables) (l : Locale) (s : List Char) : (compoundParser T l (some s)).locale = ⟨['C']⟩ := by
  simp only [compoundParser, setlocaleNumeric]
  split <;> rfl

/-- false for the code as it is: `backup_locale = setlocale(LC_NUMERIC, "C")` is the NEW locale name
    (witness replayed on the library: `parse C.utf8 H2O` leaves `LC_NUMERIC=C`). -/
theorem locale_restored_full_fails : ¬ locale_restored_full := by
  intro h
  have := h T0 ⟨['C', '.', 'u', 't', 'f', '8']⟩ (some ['H'])
  rw [locale_after_call] at this
  cases this

/-- the locale is left as found exactly when it was `"C"` already (or the argument is NULL). -/
theorem locale_restored_partial (T : Tables) (l : Locale) (s : Option (List Char))
    (h : l.numeric = ['C'] ∨ s = none) : (compoundParser T l s).locale = l := by
  cases s with
  | none => rfl
  | some s =>
    rcases h with h | h
    · rw [locale_after_call]; cases l; simp only at h; rw [h]
    · cases h

/-! ## add_compound_data -/

/-- **add_compound_spec**: for two compositions with strictly ascending elements the result lists the
    ascending union of their elements with mass fractions wA·fA + wB·fB. -/
theorem add_compound_spec (A B : CD) (wA wB : Rat) (hA : StrictAsc A.elements) (hB : StrictAsc B.elements) :
    IsWeightedUnion wA wB (cdToComp A) (cdToComp B) (cdToComp (addCompoundData A wA B wB)) :=
  addCompoundData_spec A B wA wB hA hB

/-! ## non-vacuity: the hypotheses instantiated on concrete formulas (table `T0` and the formulas are in
    Lemmas/Witness.lean) -/

/-- `parse_print` applies to `Mg(OH)2` over `T0` -/
example : ∃ cd, (parse T0 ⟨['C']⟩ fMgOH2.print).result = .ok cd ∧ (∀ x ∈ cd.massFractions, x.isSome = true) ∧
    IsCompositionOf (atomicWeight T0) (fMgOH2.eval (elementsOf T0)) (toComposition cd) :=
  parse_print T0 _ fMgOH2 fMgOH2_wf fMgOH2_weighted

/-- `parse_print_counts` applies to the witness `Rf` (no weight) -/
example : ∃ cd, (parse T0 ⟨['C']⟩ fRf.print).result = .ok cd := parse_accepts_weightless T0 _ fRf fRf_wf

/-- `parse_reorder` applies: `Mg(OH)2` and `(OH)2Mg` -/
example : (parse T0 ⟨['C']⟩ fMgOH2.print).result = (parse T0 ⟨['C']⟩ fOH2Mg.print).result :=
  parse_reorder T0 _ (Reorder.comm (.atom ['M', 'g'] .one .nil)
    (.group (.atom ['O'] .one (.atom ['H'] .one .nil)) (.dec ⟨[2], none⟩) .nil)) fMgOH2_wf fOH2Mg_wf

/-- `parse_expand_group` applies: `Mg(OH)2` and `MgO2H2.0` -/
example : (parse T0 ⟨['C']⟩ fMgOH2.print).result = (parse T0 ⟨['C']⟩ fMgO2H2.print).result :=
  parse_expand_group T0 _ (.atom ['M', 'g'] .one .nil) (.atom ['O'] .one (.atom ['H'] .one .nil))
    (.atom ['O'] (.dec ⟨[2], none⟩) (.atom ['H'] (.dec ⟨[2], some [0]⟩) .nil)) .nil (.dec ⟨[2], none⟩)
    (Scaled.atom _ (by simp [Sub.value, Dec.value, Dec.fracDigits, natOfDigits])
      (Scaled.atom _ (by simp [Sub.value, Dec.value, Dec.fracDigits, natOfDigits]; norm_num) Scaled.nil))
    fMgOH2_wf fMgO2H2_wf

/-- `parse_rejects_outside_alphabet` applies to `"H O"`, `parse_rejects_unbalanced` to `"H(O"` -/
example : ∃ e, (compoundParser T0 ⟨['C']⟩ (some ['H', ' ', 'O'])).result = .error e :=
  parse_rejects_outside_alphabet T0 _ _ ⟨' ', by simp, by decide⟩
example : ∃ e, (compoundParser T0 ⟨['C']⟩ (some ['H', '(', 'O'])).result = .error e :=
  parse_rejects_unbalanced T0 _ _ (by unfold Balanced; decide)

/-- `parse_rejects_invalid` applies to `H(Uu)2` (unknown symbol inside a group), `H0.0` (zero), `H1.2.3` (malformed) -/
example : ∃ e, (parse T0 ⟨['C']⟩ (Formula.atom ['H'] .one (.group (.atom ['U', 'u'] .one .nil) (.dec ⟨[2], none⟩) .nil)).print).result = .error e :=
  parse_rejects_invalid T0 _ _
    ⟨symH, trivial, ⟨Or.inr ⟨'U', 'u', rfl, by decide, by decide⟩, trivial, trivial⟩, by simp [Sub.Shape, Dec.shape, Dec.fracDigits], trivial⟩
    (Or.inr (fun h => by
      have := h.2.2.2.1.1
      revert this
      show ¬ (lookupSym T0 ['U', 'u']).isSome = true
      decide))
example : ∃ e, (parse T0 ⟨['C']⟩ (Formula.atom ['H'] (.dec ⟨[0], some [0]⟩) .nil).print).result = .error e :=
  parse_rejects_invalid T0 _ _ ⟨symH, by simp [Sub.Shape, Dec.shape, Dec.fracDigits], trivial⟩
    (Or.inr (fun h => by
      have := h.2.1
      simp [Sub.Pos, Dec.value, Dec.fracDigits, natOfDigits] at this))
example : ∃ e, (parse T0 ⟨['C']⟩ (Formula.atom ['H'] (.junk ['1', '.', '2', '.', '3']) .nil).print).result = .error e :=
  parse_rejects_invalid T0 _ _ ⟨symH, ⟨by simp, by decide, Or.inl (by decide)⟩, trivial⟩
    (Or.inr (fun h => h.2.1))

/-- `add_compound_spec` applies to {H:0.1, O:0.9} and {He:1} -/
example : IsWeightedUnion (1/2) (1/2) (cdToComp ⟨[1, 8], [2, 1], [1/10, 9/10], 3, 18⟩) (cdToComp ⟨[2], [1], [1], 1, 4⟩)
    (cdToComp (addCompoundData ⟨[1, 8], [2, 1], [1/10, 9/10], 3, 18⟩ (1/2) ⟨[2], [1], [1], 1, 4⟩ (1/2))) :=
  add_compound_spec _ _ _ _ ⟨by decide, trivial⟩ trivial

/-- `locale_restored_partial` applies to the state `LC_NUMERIC = "C"` -/
example : (compoundParser T0 ⟨['C']⟩ (some ['H', '2', 'O'])).locale = ⟨['C']⟩ :=
  locale_restored_partial T0 _ _ (Or.inl rfl)

end XrlParser.C07
