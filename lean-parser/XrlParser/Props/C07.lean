import XrlParser.Lemmas.Result
import XrlParser.Lemmas.Invariance
import XrlParser.Lemmas.Rejects
import XrlParser.Lemmas.Add
import XrlParser.Lemmas.Witness
import XrlParser.Lemmas.Sorted
import XrlParser.Lemmas.Tables
import XrlParser.Lemmas.Heap
import XrlParser.Lemmas.Strict
import XrlParser.Lemmas.Range
import XrlParser.Lemmas.Reader
/-!
# C07 — the formula parser computes the true composition of every well-formed formula

Property theorems only (helper lemmas live in `XrlParser/Lemmas`).  `T` ranges over **all** element tables /
atomic weights, `l` over all locale states, `f` over all formulas (any depth, any length): the statements are
proved by structural induction, nothing is bounded.

* model: `Hand.compoundParser`, `Hand.addCompoundData` (XrlParser/Hand/Parser.lean, mirrors src/xraylib-parser.c)
* specification: `Spec.Formula`, `print`, `eval`, `IsCompositionOf`, `IsWeightedUnion`, `Reorder`, `Scaled`, `Balanced`,
  `inAlphabet` (XrlParser/Spec/Formula.lean, written from the property text)
* `elementsOf T` is the specification's element table read off the model's tables (symbol ↦ Z by the lookup the
  parser uses, weight = `AtomicWeight`, absent when that call fails).
* `v : Variant` says which of the proposed repairs C07-1 (locale), C07-2 (atomic weights), C07-3 (leaks), C07-4
  (strict scanner), C07-5 (range of `double`) the working tree contains; `asIs` is the shipped code.  Statements
  that hold for every `v` quantify over it; the clauses the shipped code violates are stated as `…_full v`, refuted
  for the unrepaired switch (`…_full_fails`, on a witness replayed on the library), proved with the hypothesis that
  excludes exactly the witness set (`…_partial`, where there is one), and proved in full for the repaired switch
  (`…_fixed`).
* `f.Fits` (Spec): every subscript of `f` is a number a `double` can hold as a finite positive value.  The counts of
  the result are doubles, so the accepting clauses are stated for such formulas; `ovf = false` in their conclusion
  says that the exact numbers of the model are the numbers of the C code (no conversion returned `+inf`).
-/
namespace XrlParser.C07
open Hand Spec

/-- `CompoundParser(s, &error)` under locale state `l` -/
def parse (v : Variant) (T : Tables) (l : Locale) (s : String) : ParseOut := compoundParser v T l (some s.toList)

/-! ## accepted formulas -/

/-- elements strictly ascending without duplicates, exactly the elements of the formula, counts = algebraic
    expansion, `nAtomsAll` = Σ counts, `molarMass` = Σ AtomicWeight·count — for every well-formed formula, whether
    or not its elements have weights. -/
theorem parse_print_counts (v : Variant) (T : Tables) (l : Locale) (f : Formula) (hf : f.WF (elementsOf T))
    (hfit : f.Fits) (hw : v.weightFix = false ∨ f.Weighted (elementsOf T)) :
    ∃ cd, (parse v T l f.print).result = .ok cd ∧ (parse v T l f.print).ovf = false ∧
      StrictAsc cd.elements ∧ cd.nAtoms.length = cd.elements.length ∧
      (∀ z, z ∈ cd.elements ↔ 0 < f.eval (elementsOf T) z) ∧
      (∀ z, countIn cd.elements cd.nAtoms z = f.eval (elementsOf T) z) ∧
      cd.nAtomsAll = sumL cd.nAtoms ∧
      cd.molarMass = sumL (cd.elements.map (fun z => atomicWeight T z * f.eval (elementsOf T) z)) := by
  obtain ⟨ca, k, h1, h2⟩ := parseSimple_ok (v := v) T (f.printL.length + 1) f (wfv_of_fits hf hfit) (by omega)
  have hw' : v.weightFix = false ∨ ∀ e ∈ ca, atomicWeight T e.1 ≠ 0 := by
    rcases hw with hw | hw
    · exact Or.inl hw
    · exact Or.inr (fun e he => ne_of_gt (weight_pos_of_weighted T hw h2 he))
  have hres : (parse v T l f.print).result = .ok (mkCD T ca) := by
    rw [parse, print_toList]; exact compoundParser_result_ok v T l _ h1 hw'
  have hovf : (parse v T l f.print).ovf = false := by
    rw [parse, print_toList] at hres ⊢
    rw [compoundParser_ovf_ok v T l _ hres]
    exact simpleOvf_print_fits T hf hfit
  refine ⟨mkCD T ca, hres, hovf, ?_⟩
  refine ⟨pairwise_strictAsc h2.sorted, by simp [mkCD], ?_, ?_, ?_, ?_⟩
  · intro z
    constructor
    · intro hz
      change z ∈ ca.map (·.1) at hz
      simp only [List.mem_map] at hz
      obtain ⟨e, he, rfl⟩ := hz
      rw [← entry_eq h2 he]; exact h2.pos e he
    · intro hz
      rw [← h2.count] at hz
      exact mem_keys_of_cnt_pos hz
  · intro z
    show countIn (ca.map (·.1)) (ca.map (·.2)) z = _
    rw [countIn_map ca (·.2) z]
    rcases find_key (ca := ca) z with ⟨e, hfd, he, rfl⟩ | ⟨hfd, hn⟩
    · rw [hfd]; exact entry_eq h2 he
    · rw [hfd, ← h2.count, cnt_of_not_mem hn]; rfl
  · show ca.foldl (fun acc e => acc + e.2) 0 = sumL (ca.map (·.2))
    rw [foldl_add_eq (·.2) ca 0]; ring
  · show ca.foldl (fun acc e => acc + atomicWeight T e.1 * e.2) 0 = sumL ((ca.map (·.1)).map _)
    rw [foldl_add_eq (fun e => atomicWeight T e.1 * e.2) ca 0, List.map_map, zero_add]
    congr 1
    apply List.map_congr_left
    intro e he
    simp only [Function.comp, entry_eq h2 he]

/-- **parse_print**: for every well-formed formula whose subscripts a double can hold and all of whose elements have
    an atomic weight, the parser returns the composition the property describes: strictly ascending elements,
    counts = expansion, totals, mass fractions = weight·count/molar mass, all positive, summing to 1 (exact
    rationals; no conversion overflowed). -/
theorem parse_print (v : Variant) (T : Tables) (l : Locale) (f : Formula) (hf : f.WF (elementsOf T))
    (hfit : f.Fits) (hw : f.Weighted (elementsOf T)) :
    ∃ cd, (parse v T l f.print).result = .ok cd ∧ (parse v T l f.print).ovf = false ∧
      (∀ x ∈ cd.massFractions, x.isSome = true) ∧
      IsCompositionOf (atomicWeight T) (f.eval (elementsOf T)) (toComposition cd) := by
  obtain ⟨ca, k, h1, h2⟩ := parseSimple_ok (v := v) T (f.printL.length + 1) f (wfv_of_fits hf hfit) (by omega)
  have hne : ca ≠ [] := by
    obtain ⟨z, hz⟩ := exists_eval_pos (elementsOf T) hf.1 hf.2.1 hf.2.2
    intro hca
    subst hca
    rw [← h2.count] at hz
    simp at hz
  have hwpos : ∀ e ∈ ca, 0 < atomicWeight T e.1 := fun e he => weight_pos_of_weighted T hw h2 he
  have := composition_of_inv (atomicWeight T) h2 hne hwpos
  have hres : (parse v T l f.print).result = .ok (mkCD T ca) := by
    rw [parse, print_toList]
    exact compoundParser_result_ok v T l _ h1 (Or.inr (fun e he => ne_of_gt (hwpos e he)))
  have hovf : (parse v T l f.print).ovf = false := by
    rw [parse, print_toList] at hres ⊢
    rw [compoundParser_ovf_ok v T l _ hres]
    exact simpleOvf_print_fits T hf hfit
  exact ⟨mkCD T ca, hres, hovf, this.1, this.2⟩

/-- for **every** string the parser accepts (formula-shaped or not), the elements are strictly ascending
    without duplicates — the invariant that also justifies modelling `bsearch` on the atom array by its contract. -/
theorem parse_elements_ascending (v : Variant) (T : Tables) (l : Locale) (s : List Char) (cd : CompoundData)
    (h : (compoundParser v T l (some s)).result = .ok cd) : StrictAsc cd.elements := by
  cases hp : parseSimple v T (s.length + 1) s with
  | error f => rw [compoundParser_result_err v T l s hp] at h; cases h
  | ok r =>
    obtain ⟨ca, k⟩ := r
    have hs := parseSimple_sorted (v := v) T _ _ _ hp
    simp only [compoundParser, hp] at h
    split at h
    · cases h
    · simp only [Except.ok.injEq] at h
      subst h
      exact pairwise_strictAsc hs

/-- **parse_reorder**: reordering the terms of a formula (at any nesting level) does not change the result. -/
theorem parse_reorder (v : Variant) (T : Tables) (l : Locale) {f g : Formula} (h : Reorder f g)
    (hf : f.WF (elementsOf T)) (hg : g.WF (elementsOf T)) (hff : f.Fits) (hgf : g.Fits) :
    (parse v T l f.print).result = (parse v T l g.print).result :=
  parse_eval_invariant v T l (wfv_of_fits hf hff) (wfv_of_fits hg hgf) (eval_reorder _ h)

/-- **parse_expand_group**: replacing a parenthesised group `(inner)sub` by the terms of `inner` with their
    subscripts multiplied by `sub` does not change the result. -/
theorem parse_expand_group (v : Variant) (T : Tables) (l : Locale) (pre inner inner' rest : Formula) (sub : Sub)
    (hs : Scaled sub.value inner inner')
    (hf : (pre.append (.group inner sub rest)).WF (elementsOf T))
    (hg : (pre.append (inner'.append rest)).WF (elementsOf T))
    (hff : (pre.append (.group inner sub rest)).Fits) (hgf : (pre.append (inner'.append rest)).Fits) :
    (parse v T l (pre.append (.group inner sub rest)).print).result =
      (parse v T l (pre.append (inner'.append rest)).print).result := by
  apply parse_eval_invariant v T l (wfv_of_fits hf hff) (wfv_of_fits hg hgf)
  intro z
  rw [eval_append, eval_append, eval_append, eval_scaled _ hs z]
  simp only [Formula.eval]

/-! ## rejected strings -/

/-- every string (any bytes, any length) with a character outside the formula alphabet is rejected:
    NULL and one error. -/
theorem parse_rejects_outside_alphabet (v : Variant) (T : Tables) (l : Locale) (s : List Char)
    (h : ∃ c ∈ s, inAlphabet c = false) : ∃ e, (compoundParser v T l (some s)).result = .error e := by
  obtain ⟨e, he⟩ := parseSimple_alphabet (v := v) T (s.length + 1) s (by omega) h
  exact ⟨e.err, compoundParser_result_err v T l s he⟩

/-- every string with unbalanced parentheses is rejected. -/
theorem parse_rejects_unbalanced (v : Variant) (T : Tables) (l : Locale) (s : List Char) (h : ¬ Balanced s) :
    ∃ e, (compoundParser v T l (some s)).result = .error e := by
  obtain ⟨e, he⟩ := parseLevel_unbalanced (v := v) T (parseSimple v T s.length) s h
  exact ⟨e.err, compoundParser_result_err v T l s he⟩

/-- every formula-shaped text that is empty or contains an unknown symbol, a zero subscript, a malformed
    subscript (`Sub.junk`: no digit or more than one point) or empty parentheses — at any depth — is rejected. -/
theorem parse_rejects_invalid (v : Variant) (T : Tables) (l : Locale) (f : Formula) (hs : f.Shape)
    (h : f = .nil ∨ ¬ f.Known (elementsOf T)) : ∃ e, (parse v T l f.print).result = .error e := by
  have h' : f = .nil ∨ ¬ KnownV v (elementsOf T) f := h.imp id (fun hn hk => hn hk.known)
  obtain ⟨e, he⟩ := parseSimple_invalid (v := v) T (f.printL.length + 1) f hs h' (by omega)
  exact ⟨e.err, by rw [parse, print_toList]; exact compoundParser_result_err v T l _ he⟩

/-- every formula-shaped text with a positive subscript that `strtod` rounds to `0.0` (at most 2^-1075) is rejected —
    by every variant (the zero test fires) — and, with the repair C07-5, so is every one with a subscript that it
    rounds to `+inf`: `KnownV v` is `Known` with both conditions added to "positive". -/
theorem parse_rejects_unconvertible (v : Variant) (T : Tables) (l : Locale) (f : Formula) (hs : f.Shape)
    (h : ¬ KnownV v (elementsOf T) f) : ∃ e, (parse v T l f.print).result = .error e := by
  obtain ⟨e, he⟩ := parseSimple_invalid (v := v) T (f.printL.length + 1) f hs (Or.inr h) (by omega)
  exact ⟨e.err, by rw [parse, print_toList]; exact compoundParser_result_err v T l _ he⟩

/-- the rejection clause of the property at full strength: a formula-shaped text that is not a well-formed
    formula over elements with atomic weights is rejected. -/
def parse_rejects_full (v : Variant) : Prop :=
  ∀ (T : Tables) (l : Locale) (f : Formula), f.Shape →
    ¬ (f.WF (elementsOf T) ∧ f.Weighted (elementsOf T)) → ∃ e, (parse v T l f.print).result = .error e

/-- what the shipped code does instead: **every** well-formed formula is accepted, also when an element has no
    atomic weight (`AtomicWeight(Z, NULL)` returns 0 and the error is discarded, xraylib-parser.c:354,359).  The
    set of inputs on which `parse_rejects_full` fails is exactly {well-formed, not all weighted}. -/
theorem parse_accepts_weightless (v : Variant) (hv : v.weightFix = false) (T : Tables) (l : Locale) (f : Formula)
    (hf : f.WF (elementsOf T)) (hfit : f.Fits) : ∃ cd, (parse v T l f.print).result = .ok cd := by
  obtain ⟨cd, h, _⟩ := parse_print_counts v T l f hf hfit (Or.inl hv)
  exact ⟨cd, h⟩

/-- the property's rejection clause is **false** for the shipped code: `Rf` is accepted
    (replayed on the library: `parse C Rf` → molarMass 0, mass fraction NaN). -/
theorem parse_rejects_full_fails (v : Variant) (hv : v.weightFix = false) : ¬ parse_rejects_full v := by
  intro h
  obtain ⟨e, he⟩ := h T0 ⟨['C']⟩ fRf fRf_wf.2.1 (fun hh => fRf_not_weighted hh.2)
  obtain ⟨cd, hcd⟩ := parse_accepts_weightless v hv T0 ⟨['C']⟩ fRf fRf_wf fRf_fits
  rw [hcd] at he
  cases he

/-- with the repair C07-2 the rejection clause holds in full. -/
theorem parse_rejects_full_fixed (v : Variant) (hv : v.weightFix = true) : parse_rejects_full v := by
  intro T l f hs hbad
  by_cases hwf : WFV v (elementsOf T) f
  · have hnw : ¬ f.Weighted (elementsOf T) := fun hw => hbad ⟨hwf.wf, hw⟩
    obtain ⟨ca, k, h1, h2⟩ := parseSimple_ok (v := v) T (f.printL.length + 1) f hwf (by omega)
    have hres : (parse v T l f.print).result = .error .zRange := by
      rw [parse, print_toList]
      exact compoundParser_result_weightless v T l _ h1 hv (exists_weightless_entry T hwf.wf hnw h2)
    exact ⟨.zRange, hres⟩
  · by_cases hn : f = .nil
    · exact parse_rejects_invalid v T l f hs (Or.inl hn)
    · exact parse_rejects_unconvertible v T l f hs (fun hk => hwf ⟨hn, hs, hk⟩)

/-- what is returned for the witness: molar mass 0 and a non-finite (0/0) mass fraction. -/
theorem parse_weightless_nan : (compoundParser asIs T0 ⟨['C']⟩ (some ['R', 'f'])).result =
    .ok { elements := [104], nAtoms := [1], massFractions := [none], nAtomsAll := 1, molarMass := 0 } := by
  rw [compoundParser_result_ok asIs T0 _ ['R', 'f'] rf_atoms (Or.inl rfl)]
  simp [mkCD, cdiv, atomicWeight, T0]

/-! ## the numeric locale -/

/-- "parsing leaves process-global state such as the numeric locale as it found it" -/
def locale_restored_full (v : Variant) : Prop :=
  ∀ (T : Tables) (l : Locale) (s : Option (List Char)), (compoundParser v T l s).locale = l

/-- what the shipped code does: after any call with a non-NULL string `LC_NUMERIC` is `"C"`, whatever it was. -/
theorem locale_after_call (v : Variant) (hv : v.localeFix = false) (T : Tables) (l : Locale) (s : List Char) :
    (compoundParser v T l (some s)).locale = ⟨['C']⟩ := by
  rw [compoundParser_locale, hv]; rfl

/-- false for the shipped code: `backup_locale = setlocale(LC_NUMERIC, "C")` is the NEW locale name
    (witness replayed on the library: `parse C.utf8 H2O` leaves `LC_NUMERIC=C`). -/
theorem locale_restored_full_fails (v : Variant) (hv : v.localeFix = false) : ¬ locale_restored_full v := by
  intro h
  have := h T0 ⟨['C', '.', 'u', 't', 'f', '8']⟩ (some ['H'])
  rw [locale_after_call v hv] at this
  cases this

/-- the locale is left as found exactly when it was `"C"` already (or the argument is NULL). -/
theorem locale_restored_partial (v : Variant) (T : Tables) (l : Locale) (s : Option (List Char))
    (h : l.numeric = ['C'] ∨ s = none) : (compoundParser v T l s).locale = l := by
  cases s with
  | none => rfl
  | some s =>
    rcases h with h | h
    · rw [compoundParser_locale]
      split
      · rfl
      · cases l; simp only at h; rw [h]
    · cases h

/-- with the repair C07-1 the locale is left as found, for every locale state and every argument. -/
theorem locale_restored_fixed (v : Variant) (hv : v.localeFix = true) : locale_restored_full v := by
  intro T l s
  cases s with
  | none => rfl
  | some s => rw [compoundParser_locale, hv]; rfl

/-! ## the heap (process-global state as well) -/

/-- after the call (and `FreeCompoundData` on success) no block allocated by the call is left -/
def heap_balanced_full (v : Variant) : Prop :=
  ∀ (T : Tables) (l : Locale) (s : Option (List Char)), liveAfterFree (compoundParser v T l s) = 0

/-- the exact count for the shipped code on every well-formed formula: one block per nesting level (the formula,
    the inside of every group) that contains no element symbol directly. -/
theorem heap_leak_count (v : Variant) (hv : v.leakFix = false) (T : Tables) (l : Locale) (f : Formula)
    (hf : f.WF (elementsOf T)) (hfit : f.Fits) : liveAfterFree (parse v T l f.print) = leakOf f := by
  obtain ⟨ca, h1, _⟩ := parseSimple_leak (v := v) T (f.printL.length + 1) f (wfv_of_fits hf hfit) (by omega)
  rw [parse, print_toList]
  exact compoundParser_live_ok hv T l _ h1

/-- false for the shipped code (and for every variant without the repair C07-3): the accepted formula `(H)`
    leaves `tempBracketAtoms` of xraylib-parser.c:283-289 allocated (replayed on the library with the allocation
    counter: `parse C (H)` → 1 block after `FreeCompoundData`). -/
theorem heap_balanced_full_fails (v : Variant) (hv : v.leakFix = false) : ¬ heap_balanced_full v := by
  intro h
  have h1 := h T0 ⟨['C']⟩ (some fParenH.print.toList)
  have h2 : liveAfterFree (parse v T0 ⟨['C']⟩ fParenH.print) = leakOf fParenH :=
    heap_leak_count v hv T0 _ fParenH fParenH_wf fParenH_fits
  rw [parse, h1] at h2
  revert h2
  decide

/-- the error-path leak in the model: every `return 0` of `CompoundParserSimple` skips the `free`s
    (`Uu`: `upper_locs` and `tempElement` stay allocated; replayed on the library: `parse C Uu` → 2 blocks). -/
theorem heap_leak_error_path : liveAfterFree (compoundParser asIs T0 ⟨['C']⟩ (some ['U', 'u'])) = 2 := by decide

/-- the success-path leak in the model: one block per nesting level without a direct element symbol -/
theorem heap_leak_leading_group :
    liveAfterFree (compoundParser asIs T0 ⟨['C']⟩ (some ['(', 'H', ')'])) = 1 ∧
    liveAfterFree (compoundParser asIs T0 ⟨['C']⟩ (some ['(', '(', 'H', ')', ')'])) = 2 := by
  constructor <;> decide

/-- the heap is left as found by every well-formed formula each of whose levels contains an element symbol
    directly (the hypothesis excludes exactly the accepted formulas that leak). -/
theorem heap_balanced_partial (v : Variant) (T : Tables) (l : Locale) (f : Formula) (hf : f.WF (elementsOf T))
    (hfit : f.Fits) (h : leakOf f = 0) : liveAfterFree (parse v T l f.print) = 0 := by
  by_cases hv : v.leakFix = true
  · rw [parse]; exact compoundParser_live_fixed v hv T l _
  · rw [heap_leak_count v (by simpa using hv) T l f hf hfit, h]

/-- with the repair C07-3 nothing is left behind (the repaired heap behaviour is modelled coarsely — all exits
    free everything — and is tied to the code by the correspondence run, live-block count on every input). -/
theorem heap_balanced_fixed (v : Variant) (hv : v.leakFix = true) : heap_balanced_full v := by
  intro T l s
  cases s with
  | none => rfl
  | some s => exact compoundParser_live_fixed v hv T l s

/-! ## add_compound_data -/

/-- **add_compound_spec**: for two compositions with strictly ascending elements the result lists the
    ascending union of their elements with mass fractions wA·fA + wB·fB. -/
theorem add_compound_spec (A B : CD) (wA wB : Rat) (hA : StrictAsc A.elements) (hB : StrictAsc B.elements) :
    IsWeightedUnion wA wB (cdToComp A) (cdToComp B) (cdToComp (addCompoundData A wA B wB)) :=
  addCompoundData_spec A B wA wB hA hB

/-! ## the element table -/

/-- when `tablesOK` holds (executed by the driver on the tables of the library built from the working tree, on
    every run) the parser's symbol lookup (`bsearch` in `MendelArraySorted`) is `SymbolToAtomicNumber`'s (linear
    search in `MendelArray`): "known element symbols" means the same thing in both. -/
theorem symbol_lookup_agrees (T : Tables) (h : tablesOK T = true) (s : List Char) :
    lookupSym T s = symbolToAtomicNumber T s := lookups_agree T h s

/-! ## strings that are not formulas (audit clauses 13, 15) -/

/-- the rejection clause for everything that is not a formula at all: a string that is not the text of any
    formula of the grammar `item+`, `item := (symbol | '(' formula ')') subscript?` (`Formula.Shape` ∧ `printL`) is
    rejected.  Together with `parse_rejects_outside_alphabet` and `parse_rejects_unbalanced` (which it subsumes) and
    `parse_rejects_full` this covers every string. -/
def parse_rejects_nonformula_full (v : Variant) : Prop :=
  ∀ (T : Tables) (l : Locale) (s : List Char), (¬ ∃ f : Formula, f.Shape ∧ f.printL = s) →
    ∃ e, (compoundParser v T l (some s)).result = .error e

/-- **false** for the shipped scanner: `(H)a` is not the text of a formula, and is accepted (as H; the `a` is
    skipped by xraylib-parser.c:100-102; replayed on the library). -/
theorem parse_rejects_nonformula_full_fails (v : Variant) (hv : v.strictFix = false) : ¬ parse_rejects_nonformula_full v := by
  intro h
  obtain ⟨e, he⟩ := h T0 ⟨['C']⟩ sHa sHa_not_formula
  have := sHa_accepted v hv
  rw [he] at this
  cases this

/-- with the repair C07-4 every string that is not the text of a formula of the grammar is rejected (any bytes,
    any length, any nesting depth). -/
theorem parse_rejects_nonformula_fixed (v : Variant) (hv : v.strictFix = true) : parse_rejects_nonformula_full v := by
  intro T l s hnot
  cases hp : parseSimple v T (s.length + 1) s with
  | error f => exact ⟨f.err, compoundParser_result_err v T l s hp⟩
  | ok r => exact absurd (parseSimple_strict_shape hv T (s.length + 1) s r (by omega) hp) hnot

/-- the recogniser the oracle runs (`Spec.read`, the recursive-descent reader of the grammar) decides exactly this
    class: it fails on `s` iff `s` is not the text of a formula of the grammar (soundness and completeness of the
    reader, `Lemmas/Reader.lean`). -/
theorem oracle_recogniser_exact (s : List Char) : Spec.read s = none ↔ ¬ ∃ f : Formula, f.Shape ∧ f.printL = s :=
  read_none_iff s

/-- the clause in the terms in which the oracle decides it: with C07-4 every string the reader fails on is rejected -/
theorem parse_rejects_unreadable_fixed (v : Variant) (hv : v.strictFix = true) (T : Tables) (l : Locale) (s : List Char)
    (h : Spec.read s = none) : ∃ e, (compoundParser v T l (some s)).result = .error e :=
  parse_rejects_nonformula_fixed v hv T l s ((read_none_iff s).1 h)

/-! ## subscripts a double cannot hold (audit clauses 2, 5) -/

/-- every number of an accepted result is finite: no subscript was converted to `+inf` -/
def parse_finite_full (v : Variant) : Prop :=
  ∀ (T : Tables) (l : Locale) (s : Option (List Char)), (compoundParser v T l s).ovf = false

/-- **false** for the shipped code: `H1` followed by 309 zeros is accepted and the count is `strtod`'s `+inf`
    (replayed on the library: nAtoms inf, nAtomsAll inf, molarMass inf, mass fraction NaN, no error). -/
theorem parse_finite_full_fails (v : Variant) (hv : v.rangeFix = false) : ¬ parse_finite_full v := by
  intro h
  have := h T0 ⟨['C']⟩ (some sBig)
  rw [sBig_ovf v hv] at this
  cases this

/-- with the repair C07-5 no accepted string has a subscript that `strtod` converts to `+inf`. -/
theorem parse_finite_fixed (v : Variant) (hv : v.rangeFix = true) : parse_finite_full v := by
  intro T l s
  cases s with
  | none => rfl
  | some s =>
    cases hr : (compoundParser v T l (some s)).result with
    | error e => exact compoundParser_ovf_err v T l _ hr
    | ok cd =>
      rw [compoundParser_ovf_ok v T l s hr]
      cases hp : parseSimple v T (s.length + 1) s with
      | error f => rw [compoundParser_result_err v T l s hp] at hr; cases hr
      | ok r => exact parseSimple_noOvf hv T _ _ _ hp

/-- with the repair C07-5 a formula-shaped text with a subscript a double cannot hold (`strtod` gives `+inf` or
    `0.0`) is rejected. -/
theorem parse_rejects_out_of_range (v : Variant) (hv : v.rangeFix = true) (T : Tables) (l : Locale) (f : Formula)
    (hs : f.Shape) (h : ¬ f.Fits) : ∃ e, (parse v T l f.print).result = .error e :=
  parse_rejects_unconvertible v T l f hs (fun hk => h (fits_of_knownV hv hk))

/-! ## the whole rejection clause -/

/-- with the repairs C07-2, C07-4 and C07-5: **every** string (any bytes) that is not the text of a well-formed
    formula whose subscripts a double can hold and whose elements all have atomic weights is rejected — and
    (`parse_print`) every string that is such a text is accepted with the composition the property describes. -/
theorem parse_rejects_all_fixed (v : Variant) (hw : v.weightFix = true) (hs : v.strictFix = true) (hr : v.rangeFix = true)
    (T : Tables) (l : Locale) (s : List Char)
    (h : ¬ ∃ f : Formula, f.WF (elementsOf T) ∧ f.Weighted (elementsOf T) ∧ f.Fits ∧ f.printL = s) :
    ∃ e, (compoundParser v T l (some s)).result = .error e := by
  by_cases hform : ∃ f : Formula, f.Shape ∧ f.printL = s
  · obtain ⟨f, hshape, rfl⟩ := hform
    have := parse_rejects_full_fixed v hw T l f hshape
    by_cases hfit : f.Fits
    · have hres := this (fun hh => h ⟨f, hh.1, hh.2, hfit, rfl⟩)
      rwa [parse, print_toList] at hres
    · have hres := parse_rejects_out_of_range v hr T l f hshape hfit
      rwa [parse, print_toList] at hres
  · exact parse_rejects_nonformula_fixed v hs T l s hform

/-! ## non-vacuity: the hypotheses instantiated on concrete formulas (table `T0` and the formulas are in
    Lemmas/Witness.lean) -/

/-- `parse_print` applies to `Mg(OH)2` over `T0` -/
example : ∃ cd, (parse asIs T0 ⟨['C']⟩ fMgOH2.print).result = .ok cd ∧ (parse asIs T0 ⟨['C']⟩ fMgOH2.print).ovf = false ∧
    (∀ x ∈ cd.massFractions, x.isSome = true) ∧
    IsCompositionOf (atomicWeight T0) (fMgOH2.eval (elementsOf T0)) (toComposition cd) :=
  parse_print asIs T0 _ fMgOH2 fMgOH2_wf fMgOH2_fits fMgOH2_weighted

/-- `parse_print_counts` applies to the witness `Rf` (no weight) -/
example : ∃ cd, (parse asIs T0 ⟨['C']⟩ fRf.print).result = .ok cd := parse_accepts_weightless asIs rfl T0 _ fRf fRf_wf fRf_fits

/-- `parse_elements_ascending` applies to the result of `Mg(OH)2` -/
example : ∀ cd, (compoundParser asIs T0 ⟨['C']⟩ (some fMgOH2.printL)).result = .ok cd → StrictAsc cd.elements :=
  fun cd h => parse_elements_ascending asIs T0 _ _ cd h

/-- `parse_reorder` applies: `Mg(OH)2` and `(OH)2Mg` -/
example : (parse asIs T0 ⟨['C']⟩ fMgOH2.print).result = (parse asIs T0 ⟨['C']⟩ fOH2Mg.print).result :=
  parse_reorder asIs T0 _ (Reorder.comm (.atom ['M', 'g'] .one .nil)
    (.group (.atom ['O'] .one (.atom ['H'] .one .nil)) (.dec ⟨[2], none⟩) .nil)) fMgOH2_wf fOH2Mg_wf fMgOH2_fits fOH2Mg_fits

/-- `parse_expand_group` applies: `Mg(OH)2` and `MgO2H2.0` -/
example : (parse asIs T0 ⟨['C']⟩ fMgOH2.print).result = (parse asIs T0 ⟨['C']⟩ fMgO2H2.print).result :=
  parse_expand_group asIs T0 _ (.atom ['M', 'g'] .one .nil) (.atom ['O'] .one (.atom ['H'] .one .nil))
    (.atom ['O'] (.dec ⟨[2], none⟩) (.atom ['H'] (.dec ⟨[2], some [0]⟩) .nil)) .nil (.dec ⟨[2], none⟩)
    (Scaled.atom _ (by simp [Sub.value, Dec.value, Dec.fracDigits, natOfDigits])
      (Scaled.atom _ (by simp [Sub.value, Dec.value, Dec.fracDigits, natOfDigits]; norm_num) Scaled.nil))
    fMgOH2_wf fMgO2H2_wf fMgOH2_fits fMgO2H2_fits

/-- `parse_rejects_outside_alphabet` applies to `"H O"`, `parse_rejects_unbalanced` to `"H(O"` -/
example : ∃ e, (compoundParser asIs T0 ⟨['C']⟩ (some ['H', ' ', 'O'])).result = .error e :=
  parse_rejects_outside_alphabet asIs T0 _ _ ⟨' ', by simp, by decide⟩
example : ∃ e, (compoundParser asIs T0 ⟨['C']⟩ (some ['H', '(', 'O'])).result = .error e :=
  parse_rejects_unbalanced asIs T0 _ _ (by unfold Balanced; decide)

/-- `parse_rejects_invalid` applies to `H(Uu)2` (unknown symbol inside a group), `H0.0` (zero), `H1.2.3` (malformed) -/
example : ∃ e, (parse asIs T0 ⟨['C']⟩ (Formula.atom ['H'] .one (.group (.atom ['U', 'u'] .one .nil) (.dec ⟨[2], none⟩) .nil)).print).result = .error e :=
  parse_rejects_invalid asIs T0 _ _
    ⟨symH, trivial, ⟨Or.inr ⟨'U', 'u', rfl, by decide, by decide⟩, trivial, trivial⟩, by simp [Sub.Shape, Dec.shape, Dec.fracDigits], trivial⟩
    (Or.inr (fun h => by
      have := h.2.2.2.1.1
      revert this
      show ¬ (lookupSym T0 ['U', 'u']).isSome = true
      decide))
example : ∃ e, (parse asIs T0 ⟨['C']⟩ (Formula.atom ['H'] (.dec ⟨[0], some [0]⟩) .nil).print).result = .error e :=
  parse_rejects_invalid asIs T0 _ _ ⟨symH, by simp [Sub.Shape, Dec.shape, Dec.fracDigits], trivial⟩
    (Or.inr (fun h => by
      have := h.2.1
      simp [Sub.Pos, Dec.value, Dec.fracDigits, natOfDigits] at this))
example : ∃ e, (parse asIs T0 ⟨['C']⟩ (Formula.atom ['H'] (.junk ['1', '.', '2', '.', '3']) .nil).print).result = .error e :=
  parse_rejects_invalid asIs T0 _ _ ⟨symH, ⟨by simp, by decide, Or.inl (by decide)⟩, trivial⟩
    (Or.inr (fun h => h.2.1))

/-- `add_compound_spec` applies to {H:0.1, O:0.9} and {He:1} -/
example : IsWeightedUnion (1/2) (1/2) (cdToComp ⟨[1, 8], [2, 1], [1/10, 9/10], 3, 18⟩) (cdToComp ⟨[2], [1], [1], 1, 4⟩)
    (cdToComp (addCompoundData ⟨[1, 8], [2, 1], [1/10, 9/10], 3, 18⟩ (1/2) ⟨[2], [1], [1], 1, 4⟩ (1/2))) :=
  add_compound_spec _ _ _ _ ⟨by decide, trivial⟩ trivial

/-- the repaired switches are inhabited: `parse_rejects_full_fixed` rejects `Rf`, `locale_restored_fixed` keeps `C.utf8` -/
example : ∃ e, (parse ⟨true, true, true, true, true⟩ T0 ⟨['C']⟩ fRf.print).result = .error e :=
  parse_rejects_full_fixed ⟨true, true, true, true, true⟩ rfl T0 _ fRf fRf_wf.2.1 (fun hh => fRf_not_weighted hh.2)
example : (compoundParser ⟨true, true, true, true, true⟩ T0 ⟨['C', '.', 'u', 't', 'f', '8']⟩ (some ['H', '2', 'O'])).locale = ⟨['C', '.', 'u', 't', 'f', '8']⟩ :=
  locale_restored_fixed ⟨true, true, true, true, true⟩ rfl T0 _ _

/-- `symbol_lookup_agrees` applies to `T0` -/
example : lookupSym T0 ['M', 'g'] = symbolToAtomicNumber T0 ['M', 'g'] := symbol_lookup_agrees T0 (by decide) _

/-- `heap_balanced_partial` applies to `Mg(OH)2`; `heap_leak_count` evaluates to 0 for `(OH)2Mg` (its top level has `Mg`) -/
example : liveAfterFree (parse asIs T0 ⟨['C']⟩ fMgOH2.print) = 0 :=
  heap_balanced_partial asIs T0 _ fMgOH2 fMgOH2_wf fMgOH2_fits (by decide)
example : liveAfterFree (parse asIs T0 ⟨['C']⟩ fOH2Mg.print) = 0 := by
  rw [heap_leak_count asIs rfl T0 _ fOH2Mg fOH2Mg_wf fOH2Mg_fits]; decide

/-- `locale_restored_partial` applies to the state `LC_NUMERIC = "C"` -/
example : (compoundParser asIs T0 ⟨['C']⟩ (some ['H', '2', 'O'])).locale = ⟨['C']⟩ :=
  locale_restored_partial asIs T0 _ _ (Or.inl rfl)

/-- the strict scanner rejects the witness `(H)a` and still accepts `Mg(OH)2` (`parse_print` holds for every variant) -/
example : ∃ e, (compoundParser ⟨true, true, true, true, true⟩ T0 ⟨['C']⟩ (some sHa)).result = .error e :=
  parse_rejects_nonformula_fixed ⟨true, true, true, true, true⟩ rfl T0 _ _ sHa_not_formula
example : ∃ cd, (parse ⟨true, true, true, true, true⟩ T0 ⟨['C']⟩ fMgOH2.print).result = .ok cd :=
  (parse_print ⟨true, true, true, true, true⟩ T0 _ fMgOH2 fMgOH2_wf fMgOH2_fits fMgOH2_weighted).imp fun _ h => h.1

/-- `parse_rejects_out_of_range` applies to `H1e309` written out (the witness of `parse_finite_full_fails`), and
    `parse_finite_fixed` to the same string: with C07-5 it is rejected, no flag -/
example : (compoundParser ⟨true, true, true, true, true⟩ T0 ⟨['C']⟩ (some sBig)).ovf = false :=
  parse_finite_fixed ⟨true, true, true, true, true⟩ rfl T0 _ _
example : ∃ e, (parse ⟨true, true, true, true, true⟩ T0 ⟨['C']⟩
    (Formula.atom ['H'] (.dec ⟨1 :: List.replicate 309 0, none⟩) .nil).print).result = .error e :=
  parse_rejects_out_of_range ⟨true, true, true, true, true⟩ rfl T0 _ _
    ⟨symH, by show (0 : Nat) < _; decide +kernel, trivial⟩
    (fun h => by
      have := h.1.2
      revert this
      decide +kernel)

/-- `parse_rejects_unreadable_fixed` applies to `(H)a`: the reader fails on it -/
example : ∃ e, (compoundParser ⟨true, true, true, true, true⟩ T0 ⟨['C']⟩ (some sHa)).result = .error e :=
  parse_rejects_unreadable_fixed ⟨true, true, true, true, true⟩ rfl T0 _ _ (by decide)

/-- `parse_rejects_all_fixed` applies to `(H)a`, and its hypothesis is not vacuous: `Mg(OH)2` is excluded by it -/
example : ∃ e, (compoundParser ⟨true, true, true, true, true⟩ T0 ⟨['C']⟩ (some sHa)).result = .error e :=
  parse_rejects_all_fixed ⟨true, true, true, true, true⟩ rfl rfl rfl T0 _ _
    (fun ⟨f, hf, _, _, hp⟩ => sHa_not_formula ⟨f, hf.2.1, hp⟩)
example : ∃ f : Formula, f.WF (elementsOf T0) ∧ f.Weighted (elementsOf T0) ∧ f.Fits ∧ f.printL = fMgOH2.printL :=
  ⟨fMgOH2, fMgOH2_wf, fMgOH2_weighted, fMgOH2_fits, rfl⟩

end XrlParser.C07
