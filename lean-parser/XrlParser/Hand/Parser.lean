import XrlParser.Core.Ascii
import XrlParser.Core.Double
/-!
# Hand model of `src/xraylib-parser.c` (core Lean only, executable)

Mirrors the C code **as it is** (including what is wrong with it).  The `:line` citations refer to the file as first
shipped (before the repairs C07-1..3 were applied to /repo); the descriptions of C07-4 and C07-5 at `Variant` cite the
lines of the current /repo (:66, :97, :153, :196, :276):

* `CompoundParserSimple`  xraylib-parser.c:45-319   → `pass1`, `parseAtom`, `atomsLoop`, `groupStep`, `groupsLoop`,
                                                       `parseLevel`, `parseSimple`
* `CompoundParser`        xraylib-parser.c:324-374  → `compoundParser` (locale protocol, mass fractions)
* `FreeCompoundData`      xraylib-parser.c:376-381  → `liveAfterFree`
* `add_compound_data`     xraylib-parser.c:384-447  → `addCompoundData`
* `AtomicNumberToSymbol`  xraylib-parser.c:455-462  → `atomicNumberToSymbol`
* `SymbolToAtomicNumber`  xraylib-parser.c:464-479  → `symbolToAtomicNumber`

Representation choices (each is part of the trusted reading of C, checked by the correspondence run):

* a C string is a `List Char` whose characters stand for the bytes 1..255; a `char *` into the string is the
  *suffix* that starts there, `p[j]` is `cAt p j` (`'\x00'` at and after the terminator; the code never reads
  past the terminator, see the remarks at `parseAtom`), a pointer difference is a difference of suffix lengths;
* `isupper/islower/isdigit` are the C-locale classes on bytes (`isUpperC` … of Core/Ascii.lean: false for every
  byte ≥ 128);
* numbers are exact rationals (`Rat`): `strtod` on the alphabet `[0-9.]` is the exact decimal; IEEE rounding
  is absorbed by the comparison tolerance of the correspondence run (DESIGN 2.1).  The two edges of the range of
  `double` are modelled where they are observable, at the conversion of a subscript (Core/Double.lean): a value
  that `strtod` rounds to `0.0` fails the zero test; a value that it rounds to `+inf` is accepted by the shipped
  code (flag `ParseOut.ovf`: the counts the C code goes on computing with are non-finite) and rejected with the
  repair C07-5.  Overflow of the *arithmetic* on the counts (products, sums) is not modelled;
* `bsearch` is modelled by its contract on a sorted array with distinct keys (= linear search for the key),
  `qsort` by a merge sort (`List.mergeSort`; glibc's `qsort` is one); the contract's precondition for `MendelArraySorted` is checked on every run by
  executing `tablesOK`, for the atom array it is the invariant `Sorted` proved in `Lemmas/Comp.lean`;
* heap blocks are counted per site: every function returns the number of blocks it allocated that are still
  live when it returns, so that leaks on the `return 0` paths (no `free`) and the unreleased
  `tempBracketAtoms` of xraylib-parser.c:283-289 are part of the model;
* the element symbol table and the atomic weights are parameters (`Tables`), extracted from the library built
  from the working tree on every run.
-/

namespace XrlParser.Hand

/-- `MendelArray`, `MendelArraySorted` (src/xrayglob.c:22-36, filled by xrayfiles.c:57-63 / the generated
    `xrayglob_inline.c`), `AtomicWeight_arr[0..ZMAX]`. -/
structure Tables where
  mendel : List (List Char × Nat)
  mendelSorted : List (List Char × Nat)
  weight : List Rat
  deriving Repr

/-- `p[j]` for a pointer `p` into a NUL-terminated string. -/
def cAt (p : List Char) (j : Nat) : Char := p.getD j '\x00'

/-! ## Errors: the messages of xraylib-parser.c, verbatim -/

inductive Err
  | firstChar                     -- :66
  | space                         -- :93
  | lowerAfterDigit               -- :97
  | invalidChar (c : Char)        -- :104
  | brackets                      -- :109, :119
  | noElements                    -- :115
  | unknownSymbol (s : List Char) -- :131, :172
  | dots                          -- :143, :184, :261
  | convert (s : List Char)       -- :153, :194, :271, :276
  | zero                          -- :159, :200
  | formula                       -- :208
  | null                          -- :333
  | zRange                        -- atomicweight.c:31,37 (reached only with the repair C07-2)
  | outOfFuel                     -- model artefact: unreachable (`parseSimple` is given `length + 1` fuel)
  deriving Repr, DecidableEq

def Err.msg : Err → List Char
  | .firstChar => "Invalid chemical formula: Found a lowercase character or digit where not allowed".toList
  | .space => "Invalid chemical formula: Spaces are not allowed in compound formula".toList
  | .lowerAfterDigit => "Invalid chemical formula: Found a lowercase character where not allowed".toList
  | .invalidChar c => "Invalid chemical formula: Invalid character ".toList ++ [c] ++ " detected".toList
  | .brackets => "Invalid chemical formula: Brackets not matching".toList
  | .noElements => "Invalid chemical formula: No elements found".toList
  | .unknownSymbol s => "Invalid chemical formula: unknown symbol ".toList ++ s ++ " detected".toList
  | .dots => "Invalid chemical formula: only one dot allowed in subscripts of the chemical formula".toList
  | .convert s => "Invalid chemical formula: could not convert subscript ".toList ++ s ++ " to a real number".toList
  | .zero => "Invalid chemical formula: zero subscript detected".toList
  | .formula => "Invalid chemical formula".toList
  | .null => "Compound cannot be NULL".toList
  | .zRange => "Z out of range".toList
  | .outOfFuel => "MODEL: out of fuel".toList

/-- Which of the repairs proposed in notes/proposed_fixes/C07-{1,2,3,4,5}.diff the working tree contains.
    `asIs` is the code as shipped.  The check determines the switches by probing the library built from the
    working tree on witnesses and then validates the choice by the full correspondence run.
    * `localeFix`  (C07-1): `backup_locale = xrl_strdup(setlocale(LC_NUMERIC, NULL))` before switching, restored and freed;
    * `weightFix`  (C07-2): the first loop of lines 353-356 calls `AtomicWeight(Z, error)` and returns NULL when it fails;
    * `leakFix`    (C07-3): every exit of `CompoundParserSimple` goes through one `cleanup:` that frees what is allocated
                   (modelled coarsely: nothing is left behind);
    * `strictFix`  (C07-4): the first-character test (:66) also refuses `'.'`, and the scanning pass refuses a lower-case
                   letter at depth 0 unless the character before it is an upper-case letter (:97 becomes
                   `islower(s[i]) && !(i > 0 && isupper(s[i-1]))`), so that every character outside parentheses
                   belongs to a symbol or to the subscript that directly follows a symbol or a closing parenthesis;
    * `rangeFix`   (C07-5): the three conversion tests (:153, :196, :276) become
                   `endPtr != tempSubstring+strlen(tempSubstring) || tempnAtoms > DBL_MAX`. -/
structure Variant where
  localeFix : Bool
  weightFix : Bool
  leakFix : Bool
  strictFix : Bool
  rangeFix : Bool
  deriving Repr, DecidableEq

def asIs : Variant := ⟨false, false, false, false, false⟩

/-! ## First pass: xraylib-parser.c:70-112 -/

/-- loop state: `nbrackets`, `upper_locs`, `brackets_begin_locs`, `brackets_end_locs` (pointers = suffixes).
    `nuppers = uppers.length`, `nbracket_pairs = begins.length`. -/
structure Scan where
  nb : Nat := 0
  uppers : List (List Char) := []
  begins : List (List Char) := []
  ends : List (List Char) := []
  deriving Repr

/-- blocks held by the three `realloc`ed pointer arrays (each is one block once non-NULL). -/
def Scan.blocks (st : Scan) : Nat :=
  (if st.uppers.isEmpty then 0 else 1) + (if st.begins.isEmpty then 0 else 1) + (if st.ends.isEmpty then 0 else 1)

/-- the `for` loop of lines 70-112, one character per step; `prev` is `compoundString[i-1]` (`'\x00'` for
    `i = 0`, which makes the `i > 0 &&` of line 96 false).  An error returns the state reached, because the
    arrays allocated so far stay allocated (`return 0` without `free`).
    `nbrackets` is a `Nat`: line 79 followed by line 108 reports `nbrackets < 0` in the same iteration, which
    is the case `nb = 0` at a `')'`.  Line 81 `realloc(.., nbracket_pairs)` + store at `nbracket_pairs-1`
    is an append, because a pair is begun (0 → 1) exactly once before it is ended (1 → 0).
    With C07-4 the test of line 96 is `islower(s[i]) && !(i > 0 && isupper(s[i-1]))` (same message): for `i = 0`
    `prev = '\x00'` is not upper case, and a digit is not upper case, so the repaired test is
    "lower case and (previous is a digit or not an upper-case letter)". -/
def pass1 (v : Variant) : List Char → Char → Scan → Except (Err × Scan) Scan
  | [], _, st => .ok st
  | c :: rest, prev, st =>
    if c = '(' then                                                                    -- :71-77
      pass1 v rest c { st with nb := st.nb + 1,
                               begins := if st.nb = 0 then st.begins ++ [c :: rest] else st.begins }
    else if c = ')' then                                                               -- :78-84, :108
      if st.nb = 0 then .error (.brackets, st)
      else pass1 v rest c { st with nb := st.nb - 1,
                                    ends := if st.nb = 1 then st.ends ++ [c :: rest] else st.ends }
    else if st.nb > 0 then pass1 v rest c st                                             -- :85-87
    else if isUpperC c then pass1 v rest c { st with uppers := st.uppers ++ [c :: rest] } -- :88-91
    else if c = ' ' then .error (.space, st)                                           -- :92-95
    else if isLowerC c && (isDigitC prev || (v.strictFix && !isUpperC prev)) then .error (.lowerAfterDigit, st)   -- :96-99 (C07-4)
    else if isLowerC c || isDigitC c || c = '.' then pass1 v rest c st                   -- :100-102
    else .error (.invalidChar c, st)                                                   -- :103-106

/-! ## Subscripts: the `ndots` loop and `strtod` (lines 135-163, 176-204, 253-280) -/

/-- `while (isdigit(p[j]) || p[j] == '.') { j++; if (p[j] == '.') ndots++; }` started at the first subscript
    character: returns (number of characters consumed, `ndots`).  Note the off-by-one of the original: the
    dot test looks at the character *after* the one just consumed, so a leading dot is never counted. -/
def scanSub : List Char → Nat × Nat
  | [] => (0, 0)
  | c :: rest =>
    if isDigitC c || c = '.' then
      let r := scanSub rest
      (r.1 + 1, r.2 + (if cAt rest 0 = '.' then 1 else 0))
    else (0, 0)

/-- value of a digit string -/
def digitsVal (l : List Char) : Nat := l.foldl (fun a c => 10 * a + (c.toNat - 48)) 0

/-- `strtod` in the "C" numeric locale, restricted to the alphabet `[0-9.]` that the callers pass
    (the substring handed over consists of the characters accepted by `scanSub`): a non-empty digit sequence
    optionally containing one radix character; no sign, exponent, hex, inf/nan can occur.  Returns
    (characters consumed, value); `(0, 0)` is "no conversion" (`endPtr = nptr`). -/
def strtod (s : List Char) : Nat × Rat :=
  let ip := s.takeWhile isDigitC
  match s.dropWhile isDigitC with
  | '.' :: r =>
    let fp := r.takeWhile isDigitC
    if ip.isEmpty && fp.isEmpty then (0, 0)
    else (ip.length + 1 + fp.length, (digitsVal (ip ++ fp) : Rat) / ((10 ^ fp.length : Nat) : Rat))
  | _ => if ip.isEmpty then (0, 0) else (ip.length, (digitsVal ip : Rat))

/-- the subscript that starts at `p` is converted by `strtod` to `+inf` -/
def subOvf (p : List Char) : Bool := dblRoundsToInf (strtod (p.take (scanSub p).1)).2

/-- subscript that starts at `p`; the error carries the number of temporary blocks live at the `return 0`
    (`tempSubstring`).  `zeroErr` is the error of the zero test: `zero` after a symbol (:159,:200), the
    *conversion* message after a bracket (:276).  When the result is `.ok n` and `subOvf p` holds, the C variable
    `tempnAtoms` is `+inf`, not `n` (only possible without C07-5). -/
def subscript (v : Variant) (zeroErr : List Char → Err) (p : List Char) : Except (Err × Nat) Rat :=
  let r := scanSub p
  if r.2 > 1 then .error (.dots, 0)                         -- :142
  else if r.1 = 0 then .ok 1                                -- :146  tempnAtoms = 1.0
  else
    let sub := p.take r.1                                   -- :150  xrl_strndup
    let c := strtod sub                                     -- :151
    if c.1 ≠ sub.length || (v.rangeFix && dblRoundsToInf c.2) then .error (.convert sub, 1)   -- :152 (C07-5: `|| tempnAtoms > DBL_MAX`)
    else if dblRoundsToZero c.2 then .error (zeroErr sub, 1)  -- :158 `tempnAtoms == 0.0`: the value 0, or a positive value `strtod` rounds to 0.0
    else .ok c.2                                            -- :162 free(tempSubstring); without C07-5 possibly `+inf`: see `subOvf`

/-! ## Symbols: lines 125-210 -/

/-- `bsearch(tempElement, MendelArraySorted, MENDEL_MAX, .., matchMendelElement)` by contract. -/
def lookupSym (T : Tables) (key : List Char) : Option Nat :=
  (T.mendelSorted.find? (fun e => e.1 == key)).map (·.2)

/-- one top-level symbol at `loc = upper_locs[i]`: (Z, subscript); the error carries the temporaries live at
    the `return 0` (`tempElement`, `tempSubstring`).
    Reads: `loc[1]` always (at worst the terminator); `loc[2]` only if `loc[1]` is lower case, hence not the
    terminator — no read past the end. -/
def parseAtom (v : Variant) (T : Tables) (loc : List Char) : Except (Err × Nat) (Nat × Rat) :=
  if isLowerC (cAt loc 1) && !isLowerC (cAt loc 2) then                                  -- :125
    let el := loc.take 2                                                               -- :127
    match lookupSym T el with
    | none => .error (.unknownSymbol el, 1)                                            -- :130-133
    | some Z =>
      match subscript v (fun _ => .zero) (loc.drop 2) with
      | .error (e, k) => .error (e, k + 1)
      | .ok n => .ok (Z, n)
  else if !isLowerC (cAt loc 1) then                                                    -- :166
    let el := loc.take 1
    match lookupSym T el with
    | none => .error (.unknownSymbol el, 1)
    | some Z =>
      match subscript v (fun _ => .zero) (loc.drop 1) with
      | .error (e, k) => .error (e, k + 1)
      | .ok n => .ok (Z, n)
  else .error (.formula, 0)                                                            -- :207-210

/-! ## The sorted atom array: lines 212-236, 283-309 -/

abbrev Atoms := List (Nat × Rat)      -- `struct compoundAtom { int Element; double nAtoms; }[]`

/-- `qsort(.., compareCompoundAtoms)`: sort on `Element`. -/
def sortZ (l : Atoms) : Atoms := l.mergeSort (fun a b => decide (a.1 ≤ b.1))

/-- `bsearch(&key2, ca->singleElements, ..)` by contract: is the key present. -/
def hasZ (ca : Atoms) (Z : Nat) : Bool := ca.any (fun e => e.1 == Z)

/-- `res2->nAtoms += n` on the entry found. -/
def bumpZ (ca : Atoms) (Z : Nat) (n : Rat) : Atoms :=
  ca.map (fun e => if e.1 == Z then (e.1, e.2 + n) else e)

/-- lines 219-236 / 291-305 for one (Z, n): update or append-and-sort. -/
def mergeZ (ca : Atoms) (Z : Nat) (n : Rat) : Atoms :=
  if hasZ ca Z then bumpZ ca Z n else sortZ (ca ++ [(Z, n)])

/-- lines 212-236 -/
def addAtom (ca : Atoms) (Z : Nat) (n : Rat) : Atoms :=
  if ca.isEmpty then [(Z, n)] else mergeZ ca Z n

/-- lines 283-309: take over the bracket's array when `ca` is empty, merge otherwise -/
def addGroup (ca sub : Atoms) (n : Rat) : Atoms :=
  if ca.isEmpty then sub.map (fun e => (e.1, e.2 * n))
  else sub.foldl (fun ca e => mergeZ ca e.1 (e.2 * n)) ca

/-! ## Second pass -/

/-- what a failing `CompoundParserSimple` leaves behind: the error, the blocks it (and its callees) allocated
    and did not free — *excluding* `ca->singleElements`, which belongs to the caller —, and whether
    `ca->singleElements` is non-NULL. -/
structure Fail where
  err : Err
  leak : Nat
  caAlloc : Bool
  deriving Repr

/-- the loop of lines 124-237 over `upper_locs`.  Error: (error, live temporaries, `ca` so far). -/
def atomsLoop (v : Variant) (T : Tables) : List (List Char) → Atoms → Except (Err × Nat × Atoms) Atoms
  | [], ca => .ok ca
  | loc :: locs, ca =>
    match parseAtom v T loc with
    | .error (e, k) => .error (e, k, ca)
    | .ok (Z, n) => atomsLoop v T locs (addAtom ca Z n)

/-- one iteration of the loop of lines 242-310.  `rec` is the recursive call of line 248.
    state: (`ca`, blocks already leaked by earlier iterations). -/
def groupStep (v : Variant) (rec : List Char → Except Fail (Atoms × Nat)) (acc : Atoms × Nat) (be : List Char × List Char) :
    Except Fail (Atoms × Nat) :=
  let ca := acc.1
  let b := be.1
  let e := be.2
  -- :243-244  tempBracketAtoms, tempBracketString = strndup(begin+1, end-begin-1)      (2 blocks)
  let inside := (b.drop 1).take (b.length - e.length - 1)
  match rec inside with
  | .error f =>                                                                         -- :248-250
    .error ⟨f.err, f.leak + (if f.caAlloc then 1 else 0) + 2 + acc.2, !ca.isEmpty⟩
  | .ok (sub, l) =>
    -- :251 free(tempBracketString); live: tempBracketAtoms, its singleElements, what the callee leaked
    match subscript v (fun s => .convert s) (e.drop 1) with                               -- :253-280
    | .error (er, k) => .error ⟨er, k + 2 + l + acc.2, !ca.isEmpty⟩
    | .ok n =>
      if ca.isEmpty then .ok (addGroup ca sub n, acc.2 + l + 1)   -- :283-289 `tempBracketAtoms` itself is never freed
      else .ok (addGroup ca sub n, acc.2 + l)                     -- :290-309

def groupsLoop (v : Variant) (rec : List Char → Except Fail (Atoms × Nat)) :
    List (List Char × List Char) → Atoms × Nat → Except Fail (Atoms × Nat)
  | [], acc => .ok acc
  | be :: rest, acc =>
    match groupStep v rec acc be with
    | .error f => .error f
    | .ok acc' => groupsLoop v rec rest acc'

/-- body of `CompoundParserSimple` with the recursive call abstracted; `ca` is empty on entry at both call
    sites (:248 `nElements = 0`, :325 `{0, NULL}`).  Result: (atoms, blocks leaked on the success path). -/
def parseLevel (v : Variant) (T : Tables) (rec : List Char → Except Fail (Atoms × Nat)) (s : List Char) :
    Except Fail (Atoms × Nat) :=
  if isLowerC (cAt s 0) || isDigitC (cAt s 0) || (v.strictFix && cAt s 0 = '.') then .error ⟨.firstChar, 0, false⟩   -- :65-68 (C07-4)
  else
    match pass1 v s '\x00' {} with
    | .error (e, st) => .error ⟨e, st.blocks, false⟩
    | .ok st =>
      if st.uppers.isEmpty && st.begins.isEmpty then .error ⟨.noElements, st.blocks, false⟩   -- :114
      else if st.nb > 0 then .error ⟨.brackets, st.blocks, false⟩                              -- :118
      else
        match atomsLoop v T st.uppers [] with
        | .error (e, k, ca) => .error ⟨e, k + st.blocks, !ca.isEmpty⟩
        | .ok ca =>
          -- :238 free(upper_locs)
          let frame := { st with uppers := [] }.blocks
          match groupsLoop v rec (st.begins.zip st.ends) (ca, 0) with
          | .error f => .error ⟨f.err, f.leak + frame, f.caAlloc⟩
          | .ok r => .ok r                                                              -- :311-314 free both arrays

/-- `CompoundParserSimple`; the recursion is on a strictly shorter string, `fuel` makes it structural. -/
def parseSimple (v : Variant) (T : Tables) : Nat → List Char → Except Fail (Atoms × Nat)
  | 0, _ => .error ⟨.outOfFuel, 0, false⟩
  | fuel + 1, s => parseLevel v T (parseSimple v T fuel) s

/-! ## Which conversions of an accepting run produced `+inf`

On a run of `CompoundParserSimple` that returns 1 every recorded symbol and every recorded bracket pair has been
visited and its subscript converted (a failure anywhere returns 0).  The following mirrors that traversal (same
first pass, same positions) and reports whether one of those conversions returned `+inf`.  It is meaningful only
for an accepted string; `compoundParser` evaluates it only then. -/

/-- the subscript of the symbol at `loc` (position as computed at :125 / :166) -/
def atomOvf (loc : List Char) : Bool :=
  if isLowerC (cAt loc 1) && !isLowerC (cAt loc 2) then subOvf (loc.drop 2) else subOvf (loc.drop 1)

def levelOvf (v : Variant) (rec : List Char → Bool) (s : List Char) : Bool :=
  match pass1 v s '\x00' {} with
  | .error _ => false
  | .ok st =>
    st.uppers.any atomOvf ||
    (st.begins.zip st.ends).any (fun be => rec ((be.1.drop 1).take (be.1.length - be.2.length - 1)) || subOvf (be.2.drop 1))

def simpleOvf (v : Variant) : Nat → List Char → Bool
  | 0, _ => false
  | fuel + 1, s => levelOvf v (simpleOvf v fuel) s

/-! ## `CompoundParser`: lines 324-374 -/

/-- process-global state touched by the parser: the `LC_NUMERIC` locale name. -/
structure Locale where
  numeric : List Char
  deriving Repr, DecidableEq

/-- `setlocale(LC_NUMERIC, arg)` per POSIX: `NULL` queries; a name switches and **returns the name of the
    locale now in force** (not the previous one).  Only names that exist can be passed by this code:
    `"C"` and what an earlier call returned. -/
def setlocaleNumeric (l : Locale) (arg : Option (List Char)) : Option (List Char) × Locale :=
  match arg with
  | none => (some l.numeric, l)
  | some name => (some name, ⟨name⟩)

/-- `AtomicWeight(Z, NULL)` src/atomicweight.c:26-41: 0 on failure, the error is discarded. -/
def atomicWeight (T : Tables) (Z : Nat) : Rat :=
  if Z < 1 || Z ≥ T.weight.length then 0
  else
    let w := T.weight.getD Z 0
    if w ≤ 0 then 0 else w

/-- `struct compoundData`.  A mass fraction is `none` when the C division is `x / 0` (NaN / inf). -/
structure CompoundData where
  elements : List Nat
  nAtoms : List Rat
  massFractions : List (Option Rat)
  nAtomsAll : Rat
  molarMass : Rat
  deriving Repr

structure ParseOut where
  result : Except Err CompoundData
  live : Nat            -- blocks allocated by the call and live when it returns (result included)
  locale : Locale       -- LC_NUMERIC after the call
  ovf : Bool            -- accepted, and a subscript was converted to `+inf`: the numbers of `result` are not those of the
                        -- C code, which are non-finite (`inf` counts, `inf` totals, `NaN`/0 fractions)
  deriving Repr

def cdiv (a b : Rat) : Option Rat := if b = 0 then none else some (a / b)

def compoundParser (v : Variant) (T : Tables) (l : Locale) (s : Option (List Char)) : ParseOut :=
  match s with
  | none => ⟨.error .null, 0, l, false⟩                                                        -- :332-335
  | some s =>
    -- :338 as shipped: backup_locale = setlocale(LC_NUMERIC, "C") = the NEW name;
    -- C07-1: backup_locale = strdup(setlocale(LC_NUMERIC, NULL)), then setlocale(LC_NUMERIC, "C")
    let r0 := setlocaleNumeric l none
    let r1 := setlocaleNumeric l (some ['C'])
    let backup := if v.localeFix then r0.1 else r1.1
    -- :340 compoundStringCopy (1 block)
    let rv := parseSimple v T (s.length + 1) s                                            -- :342
    let r2 := setlocaleNumeric r1.2 backup                                              -- :344 (C07-1: free(backup_locale))
    match rv with
    | .ok (ca, leaked) =>                                                               -- :346-367
      let leaked := if v.leakFix then 0 else leaked
      if v.weightFix && ca.any (fun e => atomicWeight T e.1 = 0) then
        ⟨.error .zRange, leaked, r2.2, false⟩                  -- C07-2: everything allocated here is freed again
      else
      let sum := ca.foldl (fun acc e => acc + atomicWeight T e.1 * e.2) 0               -- :353-356
      let all := ca.foldl (fun acc e => acc + e.2) 0
      ⟨.ok { elements := ca.map (·.1), nAtoms := ca.map (·.2),
             massFractions := ca.map (fun e => cdiv (atomicWeight T e.1 * e.2) sum),   -- :359
             nAtomsAll := all, molarMass := sum },
       leaked + 4, r2.2, simpleOvf v (s.length + 1) s⟩                                  -- cd + 3 arrays; ca.singleElements and the copy freed
    | .error f =>                                        -- :368-373 frees ca.singleElements (if any) and the copy
      ⟨.error f.err, if v.leakFix then 0 else f.leak, r2.2, false⟩

/-- live blocks after `FreeCompoundData` (4 frees) -/
def liveAfterFree (o : ParseOut) : Nat :=
  match o.result with
  | .ok _ => o.live - 4
  | .error _ => o.live

/-! ## `add_compound_data`: lines 384-447 -/

/-- `qsort(rv->Elements, .., compareInt)` -/
def sortNat (l : List Nat) : List Nat := l.mergeSort (fun a b => decide (a ≤ b))

/-- Σ_j [els[j] = z] · f[j] · w : the inner loops of lines 436-443 -/
def fracOf (els : List Nat) (fr : List Rat) (w : Rat) (z : Nat) : Rat :=
  (els.zip fr).foldl (fun acc p => if p.1 = z then acc + p.2 * w else acc) 0

structure CD where        -- by-value `struct compoundData` argument (finite fractions)
  elements : List Nat
  nAtoms : List Rat
  massFractions : List Rat
  nAtomsAll : Rat
  molarMass : Rat
  deriving Repr

def addCompoundData (A : CD) (wA : Rat) (B : CD) (wB : Rat) : CD :=
  let aLong := decide (A.elements.length ≥ B.elements.length)                            -- :392
  let L := if aLong then A else B
  let S := if aLong then B else A
  let wL := if aLong then wA else wB
  let wS := if aLong then wB else wA
  let els := S.elements.foldl (fun acc z => if L.elements.contains z then acc else acc ++ [z]) L.elements  -- :405-423
  let els := sortNat els                                                                 -- :426
  { elements := els,
    nAtomsAll := L.nAtomsAll + S.nAtomsAll,                                              -- :429
    molarMass := L.molarMass + S.molarMass,                                              -- :430
    nAtoms := els.map (fun _ => 0),                                                      -- :431 calloc
    massFractions := els.map (fun z => fracOf L.elements L.massFractions wL z + fracOf S.elements S.massFractions wS z) }

/-! ## symbol ↔ number: lines 455-479 -/

def atomicNumberToSymbol (T : Tables) (Z : Int) : Option (List Char) :=
  if Z < 1 || Z > T.mendel.length then none else (T.mendel[(Z - 1).toNat]?).map (·.1)

def symbolToAtomicNumber (T : Tables) (s : List Char) : Option Nat :=
  (T.mendel.find? (fun e => e.1 == s)).map (·.2)

/-- lines 464-479 with the NULL test: the error message, or the atomic number -/
def symbolToAtomicNumberC (T : Tables) (s : Option (List Char)) : Except (List Char) Nat :=
  match s with
  | none => .error "Symbol cannot be NULL".toList                                      -- :467-470
  | some s =>
    match symbolToAtomicNumber T s with
    | some z => .ok z
    | none => .error "Invalid chemical symbol".toList                                  -- :477

/-! ## table precondition of the `bsearch` contract (executed by the driver on every run) -/

def strLt : List Char → List Char → Bool
  | [], [] => false
  | [], _ :: _ => true
  | _ :: _, [] => false
  | a :: as, b :: bs => a.toNat < b.toNat || (a.toNat == b.toNat && strLt as bs)

def sortedStrict : List (List Char × Nat) → Bool
  | [] => true
  | [_] => true
  | a :: b :: r => strLt a.1 b.1 && sortedStrict (b :: r)

/-- `MendelArraySorted` strictly ascending under `strcmp` (so `bsearch` finds a key iff it is present) and
    the same set of entries as `MendelArray`. -/
def tablesOK (T : Tables) : Bool :=
  sortedStrict T.mendelSorted && decide (T.mendelSorted.map (·.1)).Nodup && T.mendel.length == T.mendelSorted.length &&
  T.mendel.all (fun e => T.mendelSorted.contains e) && T.mendelSorted.all (fun e => T.mendel.contains e)

end XrlParser.Hand
