/-!
# Byte classes of the C locale (`<ctype.h>` on values 0..255), shared by the model and the specification

A `Char` stands for the byte with the same code.  In the "C" locale `isupper`, `islower`, `isdigit` are true
exactly on `A-Z`, `a-z`, `0-9`; every byte ≥ 128 (and the value EOF = -1 that a signed `char` 0xFF becomes) is in
no class.  Stated on `Char.toNat` so that the facts needed about them are linear arithmetic.
-/
namespace XrlParser

def isUpperC (c : Char) : Bool := decide (65 ≤ c.toNat) && decide (c.toNat ≤ 90)
def isLowerC (c : Char) : Bool := decide (97 ≤ c.toNat) && decide (c.toNat ≤ 122)
def isDigitC (c : Char) : Bool := decide (48 ≤ c.toNat) && decide (c.toNat ≤ 57)

end XrlParser
