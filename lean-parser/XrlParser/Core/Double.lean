/-!
# The two edges of the range of an IEEE-754 binary64 (`double`), shared by the model and the specification

The model computes with exact rationals.  The only place where the range of `double` is observable in
`src/xraylib-parser.c` is the conversion of a subscript by `strtod` (correctly rounded, round-to-nearest-even,
glibc):

* the largest finite double is `DBL_MAX = 2^1024 - 2^971`; the next value of the format would be `2^1024`.  A
  decimal value `q` is converted to `+inf` (`HUGE_VAL`, `ERANGE`) exactly when it is at least the midpoint
  `2^1024 - 2^970` (the tie goes to the even significand, which is `2^1024`);
* the smallest positive double is the subnormal `2^-1074`.  A decimal value `q ≥ 0` is converted to `0.0` exactly
  when it is at most the midpoint `2^-1075` (the tie goes to the even significand, which is `0`).

Both tests are stated on numerator and denominator so that they are integer arithmetic (no normalisation of a
1000-bit rational is needed to evaluate them).
-/
namespace XrlParser

/-- `strtod` returns `+inf` for the exact non-negative decimal value `q`:  `q ≥ 2^1024 - 2^970`. -/
def dblRoundsToInf (q : Rat) : Bool := decide (((2 : Int) ^ 1024 - (2 : Int) ^ 970) * (q.den : Int) ≤ q.num)

/-- `strtod` returns `0.0` for the exact non-negative decimal value `q`:  `q ≤ 2^-1075` (this includes `q = 0`). -/
def dblRoundsToZero (q : Rat) : Bool := decide (q.num * (2 : Int) ^ 1075 ≤ (q.den : Int))

end XrlParser
