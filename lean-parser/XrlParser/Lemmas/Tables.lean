import XrlParser.Hand.Parser
import Mathlib.Data.List.Nodup
/-!
# `tablesOK` (executed on the extracted tables on every run) makes the two symbol lookups agree

`lookupSym` (the parser's `bsearch` in `MendelArraySorted`) and `symbolToAtomicNumber` (the linear search of
`SymbolToAtomicNumber` in `MendelArray`, which is also what the specification oracle of the driver uses).
-/
namespace XrlParser.Hand

theorem find_name_some {L : List (List Char × Nat)} {s : List Char} {e : List Char × Nat}
    (h : L.find? (fun x => x.1 == s) = some e) : e ∈ L ∧ e.1 = s :=
  ⟨List.mem_of_find?_eq_some h, by simpa using List.find?_some h⟩

theorem find_name_of_mem {L : List (List Char × Nat)} {e : List Char × Nat} (he : e ∈ L) :
    ∃ e', L.find? (fun x => x.1 == e.1) = some e' := by
  cases h : L.find? (fun x => x.1 == e.1) with
  | some e' => exact ⟨e', rfl⟩
  | none =>
    rw [List.find?_eq_none] at h
    exact absurd (by simp) (h e he)

theorem lookups_agree (T : Tables) (h : tablesOK T = true) (s : List Char) :
    lookupSym T s = symbolToAtomicNumber T s := by
  simp only [tablesOK, Bool.and_eq_true, decide_eq_true_eq, List.all_eq_true, List.contains_eq_mem] at h
  obtain ⟨⟨⟨⟨_, hnd⟩, _⟩, hAB⟩, hBA⟩ := h
  have hinj := List.inj_on_of_nodup_map hnd
  unfold lookupSym symbolToAtomicNumber
  cases hb : T.mendelSorted.find? (fun e => e.1 == s) with
  | some e =>
    obtain ⟨heB, hes⟩ := find_name_some hb
    have heA : e ∈ T.mendel := by simpa using hBA e heB
    obtain ⟨e', he'⟩ := find_name_of_mem heA
    rw [hes] at he'
    obtain ⟨he'A, he's⟩ := find_name_some he'
    have he'B : e' ∈ T.mendelSorted := by simpa using hAB e' he'A
    have : e' = e := hinj he'B heB (by rw [he's, hes])
    rw [he', this]
  | none =>
    have : T.mendel.find? (fun e => e.1 == s) = none := by
      rw [List.find?_eq_none] at hb ⊢
      intro x hx
      exact hb x (by simpa using hAB x hx)
    rw [this]

end XrlParser.Hand
