import XrlParser.Lemmas.Result
/-!
# Rejection: unbalanced parentheses, characters outside the alphabet (all strings), and invalid formulas
(unknown symbol, zero / malformed subscript, empty parentheses)
-/
namespace XrlParser
open Hand Spec

variable {v : Variant}

/-! ## unbalanced parentheses: `nbrackets` tracks the nesting depth -/

theorem pass1_depth : ∀ (s : List Char) (prev : Char) (st st' : Scan),
    pass1 v s prev st = .ok st' → depthAfter s st.nb = some st'.nb := by
  intro s
  induction s with
  | nil => intro prev st st' h; simp only [pass1, Except.ok.injEq] at h; subst h; rfl
  | cons c rest ih =>
    intro prev st st' h
    rw [pass1] at h
    simp only [depthAfter]
    by_cases h1 : c = '('
    · simp only [h1, if_true] at h ⊢; exact ih _ _ _ h
    · simp only [h1, if_false] at h ⊢
      by_cases h2 : c = ')'
      · simp only [h2, if_true] at h ⊢
        by_cases h3 : st.nb = 0
        · simp [h3] at h
        · simp only [h3, if_false] at h ⊢; exact ih _ _ _ h
      · simp only [h2, if_false] at h ⊢
        by_cases h3 : st.nb > 0
        · simp only [h3, if_true] at h; exact ih _ _ _ h
        · simp only [h3, if_false] at h
          by_cases h4 : isUpperC c = true
          · simp only [h4, if_true] at h; exact ih _ { st with uppers := st.uppers ++ [c :: rest] } _ h
          · simp only [h4] at h
            by_cases h5 : c = ' '
            · simp [h5] at h
            · simp only [h5, if_false] at h
              by_cases h6 : (isLowerC c && (isDigitC prev || (v.strictFix && !isUpperC prev))) = true
              · simp [h6] at h
              · simp only [h6] at h
                by_cases h7 : (isLowerC c || isDigitC c || decide (c = '.')) = true
                · simp only [h7, if_true] at h; exact ih _ _ _ h
                · simp [h7] at h

/-- a string with unbalanced parentheses is rejected at the level where it is scanned -/
theorem parseLevel_unbalanced (T : Tables) (rec : List Char → Except Fail (Atoms × Nat)) (s : List Char)
    (h : ¬ Balanced s) : ∃ e, parseLevel v T rec s = .error e := by
  unfold parseLevel
  by_cases h0 : (isLowerC (cAt s 0) || isDigitC (cAt s 0) || (v.strictFix && decide (cAt s 0 = '.'))) = true
  · exact ⟨_, by rw [if_pos h0]⟩
  · rw [if_neg h0]
    cases hp : pass1 v s '\x00' {} with
    | error e => exact ⟨_, rfl⟩
    | ok st =>
      simp only []
      by_cases h1 : (st.uppers.isEmpty && st.begins.isEmpty) = true
      · exact ⟨_, by rw [if_pos h1]⟩
      · rw [if_neg h1]
        by_cases h2 : st.nb > 0
        · exact ⟨_, by rw [if_pos h2]⟩
        · exfalso
          apply h
          have := pass1_depth s _ _ _ hp
          have h3 : st.nb = 0 := by omega
          rw [h3] at this
          exact this

/-! ## characters outside the alphabet -/

/-- `strndup(begin+1, end-begin-1)` of a recorded bracket pair -/
def inside (p : List Char × List Char) : List Char := (p.1.drop 1).take (p.1.length - p.2.length - 1)

/-- inside a bracket (depth `d+1`) a successful scan that ends at depth 0 passes the closing parenthesis of
    the bracket at some position `k`, records it, and continues behind it at depth 0 -/
theorem pass1_close : ∀ (r : List Char) (d : Nat) (prev : Char) (U B E : List (List Char)) (st' : Scan),
    pass1 v r prev ⟨d + 1, U, B, E⟩ = .ok st' → st'.nb = 0 →
    ∃ k, k < r.length ∧ r.drop k = ')' :: r.drop (k + 1) ∧
      pass1 v r prev ⟨d + 1, U, B, E⟩ = pass1 v (r.drop (k + 1)) ')' ⟨0, U, B, E ++ [r.drop k]⟩ := by
  intro r
  induction r with
  | nil =>
    intro d prev U B E st' h h0
    simp only [pass1, Except.ok.injEq] at h
    subst h; simp at h0
  | cons c rest ih =>
    intro d prev U B E st' h h0
    by_cases h1 : c = '('
    · subst h1
      have hs : pass1 v ('(' :: rest) prev ⟨d + 1, U, B, E⟩ = pass1 v rest '(' ⟨d + 2, U, B, E⟩ := by
        rw [pass1]; simp
      rw [hs] at h ⊢
      obtain ⟨k, hk, hd, he⟩ := ih (d + 1) '(' U B E st' h h0
      exact ⟨k + 1, by simp; omega, by simpa using hd, by simpa using he⟩
    · by_cases h2 : c = ')'
      · subst h2
        cases d with
        | zero =>
          have hs : pass1 v (')' :: rest) prev ⟨0 + 1, U, B, E⟩ = pass1 v rest ')' ⟨0, U, B, E ++ [')' :: rest]⟩ := by
            rw [pass1]; simp
          exact ⟨0, by simp, by simp, by simpa using hs⟩
        | succ d' =>
          have hs : pass1 v (')' :: rest) prev ⟨d' + 1 + 1, U, B, E⟩ = pass1 v rest ')' ⟨d' + 1, U, B, E⟩ := by
            rw [pass1]; simp
          rw [hs] at h ⊢
          obtain ⟨k, hk, hd, he⟩ := ih d' ')' U B E st' h h0
          exact ⟨k + 1, by simp; omega, by simpa using hd, by simpa using he⟩
      · have hs := pass1_deep_step (v := v) h1 h2 rest prev d U B E
        rw [hs] at h ⊢
        obtain ⟨k, hk, hd, he⟩ := ih d c U B E st' h h0
        exact ⟨k + 1, by simp; omega, by simpa using hd, by simpa using he⟩

theorem paren_alphabet : inAlphabet '(' = true ∧ inAlphabet ')' = true := by decide

/-- a successful first pass (ending at depth 0) has checked every character at depth 0 against the alphabet
    and recorded a bracket pair around every other character -/
theorem pass1_cover : ∀ (n : Nat) (s : List Char), s.length = n →
    ∀ (prev : Char) (U B E : List (List Char)) (st' : Scan),
    pass1 v s prev ⟨0, U, B, E⟩ = .ok st' → st'.nb = 0 →
    ∃ pairs : List (List Char × List Char),
      st'.begins = B ++ pairs.map (·.1) ∧ st'.ends = E ++ pairs.map (·.2) ∧
      ∀ c ∈ s, inAlphabet c = true ∨ ∃ p ∈ pairs, c ∈ inside p ∧ (inside p).length < s.length := by
  intro n
  induction n using Nat.strong_induction_on with
  | _ n ih =>
    intro s hn prev U B E st' h h0
    cases s with
    | nil =>
      simp only [pass1, Except.ok.injEq] at h
      subst h
      exact ⟨[], by simp, by simp, by simp⟩
    | cons c rest =>
      simp only [List.length_cons] at hn
      by_cases h1 : c = '('
      · subst h1
        have hs : pass1 v ('(' :: rest) prev ⟨0, U, B, E⟩ = pass1 v rest '(' ⟨0 + 1, U, B ++ ['(' :: rest], E⟩ := by
          rw [pass1]; simp
        rw [hs] at h
        obtain ⟨k, hk, hd, he⟩ := pass1_close rest 0 '(' U (B ++ ['(' :: rest]) E st' h h0
        rw [he] at h
        obtain ⟨pairs, hb, hee, hc⟩ := ih (rest.drop (k + 1)).length (by simp; omega) (rest.drop (k + 1)) rfl ')' U
          (B ++ ['(' :: rest]) (E ++ [rest.drop k]) st' h h0
        have hin : inside ('(' :: rest, rest.drop k) = rest.take k := by
          simp only [inside, List.drop_succ_cons, List.drop_zero, List.length_cons, List.length_drop]
          congr 1; omega
        refine ⟨('(' :: rest, rest.drop k) :: pairs, by simp [hb], by simp [hee], ?_⟩
        intro x hx
        simp only [List.mem_cons] at hx
        rcases hx with rfl | hx
        · exact Or.inl paren_alphabet.1
        · rw [← List.take_append_drop k rest, List.mem_append] at hx
          rcases hx with hx | hx
          · right
            refine ⟨('(' :: rest, rest.drop k), by simp, by rw [hin]; exact hx, ?_⟩
            rw [hin, List.length_take, List.length_cons]; omega
          · rw [hd, List.mem_cons] at hx
            rcases hx with rfl | hx
            · exact Or.inl paren_alphabet.2
            · rcases hc x hx with ha | ⟨p, hp, hxp, hlen⟩
              · exact Or.inl ha
              · right
                refine ⟨p, by simp [hp], hxp, ?_⟩
                have : (rest.drop (k + 1)).length ≤ rest.length := by simp
                simp only [List.length_cons]; omega
      · by_cases h2 : c = ')'
        · subst h2
          rw [pass1] at h; simp at h
        · -- an ordinary character at depth 0
          have hstep : ∃ U', inAlphabet c = true ∧ pass1 v (c :: rest) prev ⟨0, U, B, E⟩ = pass1 v rest c ⟨0, U', B, E⟩ := by
            rw [pass1] at h ⊢
            simp only [h1, h2, if_false, Nat.lt_irrefl] at h ⊢
            by_cases h4 : isUpperC c = true
            · exact ⟨U ++ [c :: rest], by simp [inAlphabet, h4], by simp [h4]⟩
            · simp only [h4] at h ⊢
              by_cases h5 : c = ' '
              · simp [h5] at h
              · simp only [h5, if_false] at h ⊢
                by_cases h6 : (isLowerC c && (isDigitC prev || (v.strictFix && !isUpperC prev))) = true
                · simp [h6] at h
                · simp only [h6] at h ⊢
                  by_cases h7 : (isLowerC c || isDigitC c || decide (c = '.')) = true
                  · refine ⟨U, ?_, by simp [h7]⟩
                    simp only [inAlphabet]
                    simp only [Bool.or_eq_true] at h7 ⊢
                    tauto
                  · simp [h7] at h
          obtain ⟨U', ha, hs⟩ := hstep
          rw [hs] at h
          obtain ⟨pairs, hb, hee, hc⟩ := ih rest.length (by omega) rest rfl c U' B E st' h h0
          refine ⟨pairs, hb, hee, ?_⟩
          intro x hx
          simp only [List.mem_cons] at hx
          rcases hx with rfl | hx
          · exact Or.inl ha
          · rcases hc x hx with ha' | ⟨p, hp, hxp, hlen⟩
            · exact Or.inl ha'
            · exact Or.inr ⟨p, hp, hxp, by simp only [List.length_cons]; omega⟩

/-- a successful bracket loop has had a successful recursive call on the inside of every pair -/
theorem groupsLoop_ok_rec (rec : List Char → Except Fail (Atoms × Nat)) :
    ∀ (l : List (List Char × List Char)) (acc r : Atoms × Nat), groupsLoop v rec l acc = .ok r →
      ∀ p ∈ l, ∃ x, rec (inside p) = .ok x := by
  intro l
  induction l with
  | nil => intro acc r _ p hp; simp at hp
  | cons q qs ih =>
    intro acc r h p hp
    rw [groupsLoop] at h
    cases hq : groupStep v rec acc q with
    | error f => rw [hq] at h; simp at h
    | ok acc' =>
      rw [hq] at h
      simp only [List.mem_cons] at hp
      rcases hp with rfl | hp
      · cases hr : rec (inside p) with
        | ok x => exact ⟨x, rfl⟩
        | error f =>
          exfalso
          unfold groupStep at hq
          simp only [inside] at hr
          simp only [hr] at hq
          cases hq
      · exact ih acc' r h p hp

theorem zip_map_fst_snd (l : List (List Char × List Char)) : (l.map (·.1)).zip (l.map (·.2)) = l := by
  induction l with
  | nil => rfl
  | cons p ps ih => simp [ih]

/-- a string with a character outside the formula alphabet is rejected -/
theorem parseSimple_alphabet (T : Tables) : ∀ (fuel : Nat) (s : List Char), s.length < fuel →
    (∃ c ∈ s, inAlphabet c = false) → ∃ e, parseSimple v T fuel s = .error e := by
  intro fuel
  induction fuel with
  | zero => intro s h; omega
  | succ n ih =>
    intro s hlen ⟨c, hc, hbad⟩
    show ∃ e, parseLevel v T (parseSimple v T n) s = .error e
    unfold parseLevel
    by_cases h0 : (isLowerC (cAt s 0) || isDigitC (cAt s 0) || (v.strictFix && decide (cAt s 0 = '.'))) = true
    · exact ⟨_, by rw [if_pos h0]⟩
    · rw [if_neg h0]
      cases hp : pass1 v s '\x00' {} with
      | error e => exact ⟨_, rfl⟩
      | ok st =>
        simp only []
        by_cases h1 : (st.uppers.isEmpty && st.begins.isEmpty) = true
        · exact ⟨_, by rw [if_pos h1]⟩
        · rw [if_neg h1]
          by_cases h2 : st.nb > 0
          · exact ⟨_, by rw [if_pos h2]⟩
          · rw [if_neg h2]
            cases ha : atomsLoop v T st.uppers [] with
            | error e => exact ⟨_, rfl⟩
            | ok ca =>
              simp only []
              cases hg : groupsLoop v (parseSimple v T n) (st.begins.zip st.ends) (ca, 0) with
              | error f => exact ⟨_, rfl⟩
              | ok r =>
                exfalso
                obtain ⟨pairs, hb, he, hcov⟩ := pass1_cover s.length s rfl '\x00' [] [] [] st hp (by omega)
                simp only [List.nil_append] at hb he
                rw [hb, he, zip_map_fst_snd] at hg
                rcases hcov c hc with ha' | ⟨p, hp', hcp, hl⟩
                · rw [ha'] at hbad; cases hbad
                · obtain ⟨x, hx⟩ := groupsLoop_ok_rec _ _ _ _ hg p hp'
                  obtain ⟨e, he'⟩ := ih (inside p) (by omega) ⟨c, hcp, hbad⟩
                  rw [hx] at he'; cases he'

/-! ## invalid formulas: unknown symbol, zero or malformed subscript, empty parentheses -/

theorem mem_takeWhile {p : Char → Bool} : ∀ (l : List Char), ∀ x ∈ l.takeWhile p, p x = true := by
  intro l
  induction l with
  | nil => intro x hx; simp at hx
  | cons a t ih =>
    intro x hx
    by_cases ha : p a = true
    · simp only [List.takeWhile_cons, ha, if_true, List.mem_cons] at hx
      rcases hx with rfl | hx
      · exact ha
      · exact ih x hx
    · simp [ha] at hx

theorem takeWhile_full {p : Char → Bool} {l : List Char} (h : (l.takeWhile p).length = l.length) : ∀ x ∈ l, p x = true := by
  have := (List.takeWhile_prefix p (l := l)).eq_of_length h
  intro x hx
  rw [← this] at hx
  exact mem_takeWhile l x hx

/-- `strtod` does not consume a malformed subscript completely -/
theorem strtod_junk {t : List Char} (hne : t ≠ []) (hall : ∀ c ∈ t, subChar c = true)
    (hj : t.count '.' ≥ 2 ∨ ∀ c ∈ t, isDigitC c = false) : (strtod t).1 ≠ t.length := by
  have hsplit := List.takeWhile_append_dropWhile (p := isDigitC) (l := t)
  have hipd : ∀ x ∈ t.takeWhile isDigitC, isDigitC x = true := mem_takeWhile t
  have hcip : (t.takeWhile isDigitC).count '.' = 0 := by
    rw [List.count_eq_zero]; intro hm; have := hipd _ hm; revert this; decide
  have hlen : t.length = (t.takeWhile isDigitC).length + (t.dropWhile isDigitC).length := by
    have := congrArg List.length hsplit
    simp only [List.length_append] at this
    omega
  have htne : t.length ≠ 0 := by simpa using hne
  unfold strtod
  cases hr : t.dropWhile isDigitC with
  | nil =>
    exfalso
    rw [hr, List.append_nil] at hsplit
    rcases hj with hj | hj
    · rw [← hsplit, hcip] at hj; omega
    · cases ht : t with
      | nil => exact hne ht
      | cons a b =>
        have h1 := hj a (by rw [ht]; simp)
        have h2 := hipd a (by rw [hsplit, ht]; simp)
        rw [h1] at h2; cases h2
  | cons c r' =>
    have hcnd : isDigitC c = false := by
      have := List.head_dropWhile_not isDigitC (l := t) (by rw [hr]; simp)
      simpa [hr] using this
    have hcsub : subChar c = true := hall c (by rw [← hsplit, hr]; simp)
    have hc : c = '.' := by
      simp only [subChar, hcnd, Bool.false_or, decide_eq_true_eq] at hcsub; exact hcsub
    subst hc
    simp only []
    by_cases hemp : ((t.takeWhile isDigitC).isEmpty && (r'.takeWhile isDigitC).isEmpty) = true
    · rw [if_pos hemp]; exact fun h => htne h.symm
    · rw [if_neg hemp]
      simp only []
      intro heq
      rw [hlen, hr, List.length_cons] at heq
      have hfull : (r'.takeWhile isDigitC).length = r'.length := by omega
      have hr'd := takeWhile_full hfull
      have hcr : r'.count '.' = 0 := by
        rw [List.count_eq_zero]; intro hm; have := hr'd _ hm; revert this; decide
      rcases hj with hj | hj
      · rw [← hsplit, hr, List.count_append, hcip, List.count_cons, hcr] at hj
        simp at hj
      · apply hemp
        have h1 : (t.takeWhile isDigitC).isEmpty = true := by
          cases hip : t.takeWhile isDigitC with
          | nil => rfl
          | cons a b =>
            have h2 := hipd a (by rw [hip]; simp)
            have h3 := hj a (by rw [← hsplit, hip]; simp)
            rw [h3] at h2; cases h2
        have h2 : (r'.takeWhile isDigitC).isEmpty = true := by
          cases hfp : r'.takeWhile isDigitC with
          | nil => rfl
          | cons a b =>
            have h2 := mem_takeWhile r' a (by rw [hfp]; simp)
            have hmem : a ∈ r' := (List.takeWhile_prefix isDigitC).subset (by rw [hfp]; simp)
            have h3 := hj a (by rw [← hsplit, hr]; simp [hmem])
            rw [h3] at h2; cases h2
        simp [h1, h2]

/-- a subscript that is zero or not a numeral is an error -/
theorem subscript_bad (zeroErr : List Char → Err) {s : Sub} (hs : s.Shape) (hp : ¬ SubOK v s) {r : List Char} (hr : Stop r) :
    ∃ e, subscript v zeroErr (s.print ++ r) = .error e := by
  cases s with
  | one => exact absurd subOK_one hp
  | dec d =>
    have hsc := scanSub_spec d.print (dec_print_chars d) hr
    have hnd := dec_print_ndots d
    have hlen := dec_print_ne_nil hs
    have htake : (d.print ++ r).take d.print.length = d.print := List.take_left' rfl
    simp only [subscript, Sub.print, hsc, htake, strtod_dec hs]
    rw [if_neg (by omega), if_neg hlen]
    by_cases h1 : (decide (d.print.length ≠ d.print.length) || (v.rangeFix && dblRoundsToInf d.value)) = true
    · rw [if_pos h1]; exact ⟨_, rfl⟩
    · rw [if_neg h1]
      by_cases h2 : dblRoundsToZero d.value = true
      · rw [if_pos h2]; exact ⟨_, rfl⟩
      · exfalso
        apply hp
        have h2' : dblRoundsToZero d.value = false := by simpa using h2
        refine ⟨pos_of_not_roundsToZero h2', h2', fun hr' => ?_⟩
        simpa [hr', Sub.value] using h1
  | junk t =>
    obtain ⟨hne, hall, hj⟩ := hs
    have hsc := scanSub_spec t hall hr
    have htake : (t ++ r).take t.length = t := List.take_left' rfl
    simp only [subscript, Sub.print, hsc, htake]
    by_cases hd : (t.drop 1).count '.' > 1
    · exact ⟨_, by rw [if_pos hd]⟩
    · rw [if_neg hd, if_neg (by simpa using hne)]
      rw [if_pos (by simp [strtod_junk hne hall hj])]
      exact ⟨_, rfl⟩

theorem parseAtom_bad (T : Tables) {sym : List Char} (hsym : SymShape sym) {s : Sub} (hs : s.Shape)
    (hbad : ¬ ((lookupSym T sym).isSome ∧ SubOK v s)) {r : List Char} (hr : Stop r) :
    ∃ e, parseAtom v T (sym ++ s.print ++ r) = .error e := by
  have hlow := stop_sub_lower hs hr
  rcases hsym with ⟨u, rfl, hu⟩ | ⟨u, l, rfl, hu, hl⟩
  · simp only [parseAtom, List.cons_append, List.nil_append, cAt_cons_succ, hlow,
      Bool.false_and, Bool.not_false, if_true, List.take_succ_cons, List.take_zero, List.drop_succ_cons, List.drop_zero,
      Bool.false_eq_true, if_false]
    cases hl : lookupSym T [u] with
    | none => exact ⟨_, rfl⟩
    | some Z =>
      have hp : ¬ SubOK v s := fun hp => hbad ⟨by simp [hl], hp⟩
      obtain ⟨⟨e1, k1⟩, he⟩ := subscript_bad (fun _ => Err.zero) hs hp hr
      simp only [he]
      exact ⟨_, rfl⟩
  · simp only [parseAtom, List.cons_append, List.nil_append, cAt_cons_succ, cAt_cons_zero, hl, hlow,
      Bool.not_false, Bool.and_self, if_true, List.take_succ_cons, List.take_zero, List.drop_succ_cons, List.drop_zero]
    cases hl' : lookupSym T [u, l] with
    | none => exact ⟨_, rfl⟩
    | some Z =>
      have hp : ¬ SubOK v s := fun hp => hbad ⟨by simp [hl'], hp⟩
      obtain ⟨⟨e1, k1⟩, he⟩ := subscript_bad (fun _ => Err.zero) hs hp hr
      simp only [he]
      exact ⟨_, rfl⟩

/-- the top-level symbols are known with positive subscripts / the top-level groups are valid -/
def KnownA (v : Variant) (E : Elements) : Formula → Prop
  | .nil => True
  | .atom sym sub rest => ((E.zOf sym).isSome ∧ SubOK v sub) ∧ KnownA v E rest
  | .group _ _ rest => KnownA v E rest

def KnownG (v : Variant) (E : Elements) : Formula → Prop
  | .nil => True
  | .atom _ _ rest => KnownG v E rest
  | .group inner sub rest => ((inner ≠ .nil ∧ KnownV v E inner) ∧ SubOK v sub) ∧ KnownG v E rest

theorem known_iff (E : Elements) (f : Formula) : KnownV v E f ↔ KnownA v E f ∧ KnownG v E f := by
  induction f with
  | nil => simp [KnownV, KnownA, KnownG]
  | atom sym sub rest ih => simp only [KnownV, KnownA, KnownG, ih]; tauto
  | group inner sub rest _ ih => simp only [KnownV, KnownA, KnownG, ih]; tauto

theorem atomsLoop_bad (T : Tables) (f : Formula) (hf : f.Shape) (hb : ¬ KnownA v (elementsOf T) f) :
    ∀ ca, ∃ e, atomsLoop v T (ups f []) ca = .error e := by
  induction f with
  | nil => exact absurd trivial hb
  | atom sym sub rest ih =>
    intro ca
    by_cases hthis : (lookupSym T sym).isSome ∧ SubOK v sub
    · have hrest : ¬ KnownA v (elementsOf T) rest := fun h => hb ⟨hthis, h⟩
      obtain ⟨Z, hZ⟩ := Option.isSome_iff_exists.1 hthis.1
      have hpa := parseAtom_ok T hf.1 hZ hf.2.1 hthis.2 (stop_printL hf.2.2 stop_nil)
      obtain ⟨e, he⟩ := ih hf.2.2 hrest (addAtom ca Z sub.value)
      exact ⟨e, by simp only [ups, atomsLoop, hpa]; exact he⟩
    · obtain ⟨⟨e1, k1⟩, he⟩ := parseAtom_bad T hf.1 hf.2.1 hthis (stop_printL hf.2.2 stop_nil)
      refine ⟨(e1, k1, ca), ?_⟩
      simp only [ups, atomsLoop, he]
  | group inner sub rest _ ih =>
    intro ca
    obtain ⟨e, he⟩ := ih hf.2.2 hb ca
    exact ⟨e, by simpa [ups] using he⟩

theorem atomsLoop_fine (T : Tables) (f : Formula) (hf : f.Shape) (hk : KnownA v (elementsOf T) f) :
    ∀ ca, ∃ ca', atomsLoop v T (ups f []) ca = .ok ca' := by
  induction f with
  | nil => intro ca; exact ⟨ca, rfl⟩
  | atom sym sub rest ih =>
    intro ca
    obtain ⟨Z, hZ⟩ := Option.isSome_iff_exists.1 hk.1.1
    have hpa := parseAtom_ok T hf.1 hZ hf.2.1 hk.1.2 (stop_printL hf.2.2 stop_nil)
    obtain ⟨ca', h⟩ := ih hf.2.2 hk.2 (addAtom ca Z sub.value)
    exact ⟨ca', by simp only [ups, atomsLoop, hpa]; exact h⟩
  | group inner sub rest _ ih =>
    intro ca
    obtain ⟨ca', h⟩ := ih hf.2.2 hk ca
    exact ⟨ca', by simpa [ups] using h⟩

theorem groupsLoop_cons_err {rec : List Char → Except Fail (Atoms × Nat)} {q : List Char × List Char}
    {qs : List (List Char × List Char)} {acc : Atoms × Nat} {f' : Fail} (h : groupStep v rec acc q = .error f') :
    groupsLoop v rec (q :: qs) acc = .error f' := by rw [groupsLoop, h]

theorem groupsLoop_cons_ok {rec : List Char → Except Fail (Atoms × Nat)} {q : List Char × List Char}
    {qs : List (List Char × List Char)} {acc acc' : Atoms × Nat} (h : groupStep v rec acc q = .ok acc') :
    groupsLoop v rec (q :: qs) acc = groupsLoop v rec qs acc' := by rw [groupsLoop, h]

/-- the bracket loop fails when a top-level group is invalid, given that the recursive call accepts the
    valid and rejects the invalid shorter formulas -/
theorem groupsLoop_bad (T : Tables) (rec : List Char → Except Fail (Atoms × Nat)) (N : Nat)
    (hok : ∀ g : Formula, WFV v (elementsOf T) g → g.printL.length < N → ∃ x, rec g.printL = .ok x)
    (herr : ∀ g : Formula, g.Shape → (g = .nil ∨ ¬ KnownV v (elementsOf T) g) → g.printL.length < N → ∃ e, rec g.printL = .error e)
    (f : Formula) (hf : f.Shape) (hb : ¬ KnownG v (elementsOf T) f) (hlen : f.printL.length ≤ N) :
    ∀ acc, ∃ e, groupsLoop v rec ((begs f []).zip (ens f [])) acc = .error e := by
  induction f with
  | nil => exact absurd trivial hb
  | atom sym sub rest ih =>
    intro acc
    have hl : rest.printL.length ≤ N := by rw [printL_length_atom] at hlen; omega
    obtain ⟨e, he⟩ := ih hf.2.2 hb hl acc
    exact ⟨e, by simpa [begs, ens] using he⟩
  | group inner sub rest _ ih =>
    intro acc
    rw [printL_length_group] at hlen
    have hl : rest.printL.length ≤ N := by omega
    have hstop := stop_printL hf.2.2 stop_nil
    simp only [begs, ens, List.zip_cons_cons]
    by_cases hin : inner ≠ .nil ∧ KnownV v (elementsOf T) inner
    · obtain ⟨x, hx⟩ := hok inner ⟨hin.1, hf.1, hin.2⟩ (by omega)
      by_cases hp : SubOK v sub
      · have hrest : ¬ KnownG v (elementsOf T) rest := fun h => hb ⟨⟨hin, hp⟩, h⟩
        have hsub := subscript_ok (fun s => Err.convert s) hf.2.1 hp hstop
        have hstep : ∃ acc', groupStep v rec acc
            ('(' :: (inner.printL ++ ')' :: (sub.print ++ (rest.printL ++ []))), ')' :: (sub.print ++ (rest.printL ++ [])))
            = .ok acc' := by
          unfold groupStep
          dsimp only
          rw [inside_eq, hx]
          dsimp only
          rw [List.drop_succ_cons, List.drop_zero, hsub]
          by_cases he : acc.1.isEmpty = true
          · refine ⟨(addGroup acc.1 x.1 sub.value, acc.2 + x.2 + 1), ?_⟩; simp [he]
          · refine ⟨(addGroup acc.1 x.1 sub.value, acc.2 + x.2), ?_⟩; simp [he]
        obtain ⟨acc', ha⟩ := hstep
        obtain ⟨e, he⟩ := ih hf.2.2 hrest hl acc'
        exact ⟨e, by rw [groupsLoop_cons_ok ha]; exact he⟩
      · obtain ⟨⟨e1, k1⟩, he⟩ := subscript_bad (fun s => Err.convert s) hf.2.1 hp hstop
        have hstep : ∃ f', groupStep v rec acc
            ('(' :: (inner.printL ++ ')' :: (sub.print ++ (rest.printL ++ []))), ')' :: (sub.print ++ (rest.printL ++ [])))
            = .error f' := by
          unfold groupStep
          dsimp only
          rw [inside_eq, hx]
          dsimp only
          rw [List.drop_succ_cons, List.drop_zero, he]
          exact ⟨_, rfl⟩
        obtain ⟨f', hf'⟩ := hstep
        exact ⟨f', groupsLoop_cons_err hf'⟩
    · have hbad : inner = .nil ∨ ¬ KnownV v (elementsOf T) inner := by
        by_cases h : inner = .nil
        · exact Or.inl h
        · exact Or.inr (fun hk => hin ⟨h, hk⟩)
      obtain ⟨e, he⟩ := herr inner hf.1 hbad (by omega)
      have hstep : ∃ f', groupStep v rec acc
          ('(' :: (inner.printL ++ ')' :: (sub.print ++ (rest.printL ++ []))), ')' :: (sub.print ++ (rest.printL ++ [])))
          = .error f' := by
        unfold groupStep
        dsimp only
        rw [inside_eq, he]
        exact ⟨_, rfl⟩
      obtain ⟨f', hf'⟩ := hstep
      exact ⟨f', groupsLoop_cons_err hf'⟩

/-- a shaped formula that is empty, has an unknown symbol, a zero or malformed subscript or an empty
    parenthesis is rejected — at any depth -/
theorem parseSimple_invalid (T : Tables) : ∀ (fuel : Nat) (f : Formula), f.Shape →
    (f = .nil ∨ ¬ KnownV v (elementsOf T) f) → f.printL.length < fuel → ∃ e, parseSimple v T fuel f.printL = .error e := by
  intro fuel
  induction fuel with
  | zero => intro f _ _ h; omega
  | succ n ih =>
    intro f hf hbad hlen
    show ∃ e, parseLevel v T (parseSimple v T n) f.printL = .error e
    by_cases hnil : f = .nil
    · subst hnil
      exact ⟨_, by simp [parseLevel, Formula.printL, pass1, isLowerC, isDigitC]; rfl⟩
    · have hk : ¬ KnownV v (elementsOf T) f := by
        rcases hbad with h | h
        · exact absurd h hnil
        · exact h
      obtain ⟨p, hp⟩ := pass1_top f hf [] [] [] [] '\x00'
      simp only [List.append_nil, List.nil_append, pass1] at hp
      have hp' : pass1 v f.printL '\x00' {} = .ok ⟨0, ups f [], begs f [], ens f []⟩ := hp
      unfold parseLevel
      rw [if_neg (by rw [first_char_ok hnil hf]; simp)]
      simp only [hp', scan_nonempty hnil]
      by_cases hA : KnownA v (elementsOf T) f
      · have hG : ¬ KnownG v (elementsOf T) f := fun hG => hk ((known_iff _ f).2 ⟨hA, hG⟩)
        obtain ⟨ca, hca⟩ := atomsLoop_fine T f hf hA []
        obtain ⟨e, he⟩ := groupsLoop_bad T (parseSimple v T n) n
          (fun g hg hl => by obtain ⟨ca, k, h, _⟩ := parseSimple_ok T n g hg hl; exact ⟨_, h⟩)
          (fun g hg hb hl => ih g hg hb hl) f hf hG (by omega) (ca, 0)
        exact ⟨_, by simp only [hca, he]; rfl⟩
      · obtain ⟨⟨e1, k1, c1⟩, he⟩ := atomsLoop_bad T f hf hA []
        exact ⟨_, by simp only [he]; rfl⟩

end XrlParser
