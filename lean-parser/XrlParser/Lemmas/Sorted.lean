import XrlParser.Lemmas.Comp
/-!
# The atom array is strictly ascending on **every** input

This is the precondition of the `bsearch` contract used by the model (`hasZ`, `bumpZ` stand for
`bsearch(&key2, ca->singleElements, ..)` on an array sorted by `qsort` with distinct keys): whatever the input
string, every array that reaches `mergeZ` is strictly ascending in `Element`.
-/
namespace XrlParser.Hand

variable {v : Variant}

def SortedZ (ca : Atoms) : Prop := (keys ca).Pairwise (· < ·)

theorem mergeZ_sorted {ca : Atoms} (h : SortedZ ca) (Z : Nat) (n : Rat) : SortedZ (mergeZ ca Z n) := by
  unfold mergeZ SortedZ
  by_cases hz : hasZ ca Z = true
  · rw [if_pos hz, keys_bump]; exact h
  · rw [if_neg hz]
    have hm : Z ∉ keys ca := fun hm => hz ((hasZ_iff ca Z).2 hm)
    have hp := sortZ_perm (ca ++ [(Z, n)])
    have hk : (keys (sortZ (ca ++ [(Z, n)]))).Perm (keys ca ++ [Z]) := by
      have := hp.map (·.1)
      simpa [keys] using this
    have hnd : (keys ca ++ [Z]).Nodup := by
      have h1 : (keys ca).Nodup := h.imp (by intro a b h; omega)
      rw [List.nodup_append]
      refine ⟨h1, by simp, ?_⟩
      intro a ha b hb
      simp at hb; subst hb
      exact fun h => hm (h ▸ ha)
    exact sorted_strict_of_nodup (sortZ_sorted _) (hk.nodup_iff.2 hnd)

theorem addAtom_sorted {ca : Atoms} (h : SortedZ ca) (Z : Nat) (n : Rat) : SortedZ (addAtom ca Z n) := by
  unfold addAtom
  split
  · simp [SortedZ, keys]
  · exact mergeZ_sorted h Z n

theorem addGroup_sorted {ca sub : Atoms} (h : SortedZ ca) (hs : SortedZ sub) (n : Rat) : SortedZ (addGroup ca sub n) := by
  unfold addGroup
  split
  · have : keys (sub.map (fun e => (e.1, e.2 * n))) = keys sub := by simp [keys]
    unfold SortedZ; rw [this]; exact hs
  · rename_i hne
    clear hs hne
    induction sub generalizing ca with
    | nil => exact h
    | cons e es ih => simp only [List.foldl_cons]; exact ih (mergeZ_sorted h _ _)

theorem atomsLoop_sorted (T : Tables) : ∀ (locs : List (List Char)) (ca ca' : Atoms), SortedZ ca →
    atomsLoop v T locs ca = .ok ca' → SortedZ ca' := by
  intro locs
  induction locs with
  | nil => intro ca ca' h he; simp only [atomsLoop, Except.ok.injEq] at he; subst he; exact h
  | cons loc locs ih =>
    intro ca ca' h he
    rw [atomsLoop] at he
    cases hp : parseAtom v T loc with
    | error e => rw [hp] at he; cases he
    | ok zn =>
      rw [hp] at he
      exact ih _ _ (addAtom_sorted h _ _) he

theorem groupStep_sorted (rec : List Char → Except Fail (Atoms × Nat))
    (hrec : ∀ s r, rec s = .ok r → SortedZ r.1) (acc acc' : Atoms × Nat) (be : List Char × List Char)
    (h : SortedZ acc.1) (he : groupStep v rec acc be = .ok acc') : SortedZ acc'.1 := by
  unfold groupStep at he
  dsimp only at he
  cases hr : rec ((be.1.drop 1).take (be.1.length - be.2.length - 1)) with
  | error f => rw [hr] at he; cases he
  | ok r =>
    rw [hr] at he
    dsimp only at he
    cases hs : subscript v (fun s => Err.convert s) (be.2.drop 1) with
    | error e => rw [hs] at he; cases he
    | ok n =>
      rw [hs] at he
      dsimp only at he
      have hsub := hrec _ _ hr
      split at he <;> (cases he; exact addGroup_sorted h hsub n)

theorem groupsLoop_sorted (rec : List Char → Except Fail (Atoms × Nat))
    (hrec : ∀ s r, rec s = .ok r → SortedZ r.1) :
    ∀ (l : List (List Char × List Char)) (acc acc' : Atoms × Nat), SortedZ acc.1 →
      groupsLoop v rec l acc = .ok acc' → SortedZ acc'.1 := by
  intro l
  induction l with
  | nil => intro acc acc' h he; simp only [groupsLoop, Except.ok.injEq] at he; subst he; exact h
  | cons be l ih =>
    intro acc acc' h he
    rw [groupsLoop] at he
    cases hg : groupStep v rec acc be with
    | error f => rw [hg] at he; cases he
    | ok a =>
      rw [hg] at he
      exact ih _ _ (groupStep_sorted rec hrec _ _ _ h hg) he

theorem parseLevel_sorted (T : Tables) (rec : List Char → Except Fail (Atoms × Nat))
    (hrec : ∀ s r, rec s = .ok r → SortedZ r.1) (s : List Char) (r : Atoms × Nat)
    (h : parseLevel v T rec s = .ok r) : SortedZ r.1 := by
  unfold parseLevel at h
  split at h
  · cases h
  · cases hp : pass1 v s '\x00' {} with
    | error e => rw [hp] at h; cases h
    | ok st =>
      rw [hp] at h
      dsimp only at h
      split at h
      · cases h
      · split at h
        · cases h
        · cases ha : atomsLoop v T st.uppers [] with
          | error e => rw [ha] at h; cases h
          | ok ca =>
            rw [ha] at h
            dsimp only at h
            have hca := atomsLoop_sorted T _ _ _ (by simp [SortedZ, keys]) ha
            cases hg : groupsLoop v rec (st.begins.zip st.ends) (ca, 0) with
            | error f => rw [hg] at h; cases h
            | ok r' =>
              rw [hg] at h
              cases h
              exact groupsLoop_sorted rec hrec _ _ _ hca hg

/-- every array `CompoundParserSimple` returns — for any input string — is strictly ascending -/
theorem parseSimple_sorted (T : Tables) : ∀ (fuel : Nat) (s : List Char) (r : Atoms × Nat),
    parseSimple v T fuel s = .ok r → SortedZ r.1 := by
  intro fuel
  induction fuel with
  | zero => intro s r h; cases h
  | succ n ih => intro s r h; exact parseLevel_sorted T (parseSimple v T n) ih s r h

end XrlParser.Hand
