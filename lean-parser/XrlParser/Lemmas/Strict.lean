import XrlParser.Lemmas.Rejects
/-!
# With the repair C07-4 every accepted string is the text of a formula of the grammar

`pass1_strict_shape`: when the strict first pass succeeds at depth 0, the scanned text is a sequence of items
`symbol subscript? | '(' … ')' subscript?` (nothing is skipped), provided the inside of every recorded bracket pair is
the text of a formula.  `parseSimple_strict_shape` closes the recursion: whatever `CompoundParserSimple` accepts is
`Formula.printL f` for a shaped `f`.
-/
namespace XrlParser
open Hand Spec

variable {v : Variant}

/-! ## every run over `[0-9.]` is the text of a subscript (a numeral, or `junk`) -/

theorem digit_of_char {c : Char} (h : isDigitC c = true) : ∃ d : Fin 10, digitChar d = c := by
  simp only [isDigitC, Bool.and_eq_true, decide_eq_true_eq] at h
  refine ⟨⟨c.toNat - 48, by omega⟩, ?_⟩
  simp only [digitChar]
  have : 48 + (c.toNat - 48) = c.toNat := by omega
  rw [this]
  exact Char.ofNat_toNat c

theorem digits_of_chars : ∀ (l : List Char), (∀ c ∈ l, isDigitC c = true) → ∃ ds : List (Fin 10), ds.map digitChar = l := by
  intro l
  induction l with
  | nil => intro _; exact ⟨[], rfl⟩
  | cons c t ih =>
    intro h
    obtain ⟨d, hd⟩ := digit_of_char (h c (by simp))
    obtain ⟨ds, hds⟩ := ih (fun x hx => h x (by simp [hx]))
    exact ⟨d :: ds, by simp [hd, hds]⟩

theorem subChar_not_digit {c : Char} (h : subChar c = true) (hd : isDigitC c ≠ true) : c = '.' := by
  simp only [subChar, Bool.or_eq_true, decide_eq_true_eq] at h
  rcases h with h | h
  · exact absurd h hd
  · exact h

theorem count_dot_pos_of_nondigit {l : List Char} (h : ∀ c ∈ l, subChar c = true) (hn : ¬ ∀ c ∈ l, isDigitC c = true) :
    1 ≤ l.count '.' := by
  simp only [not_forall] at hn
  obtain ⟨c, hc, hcd⟩ := hn
  have := subChar_not_digit (h c hc) hcd
  subst this
  exact List.count_pos_iff.2 hc

theorem sub_of_run (run : List Char) (h : ∀ c ∈ run, subChar c = true) : ∃ s : Sub, s.Shape ∧ s.print = run := by
  by_cases hne : run = []
  · exact ⟨.one, trivial, by simp [Sub.print, hne]⟩
  · by_cases hdot : '.' ∈ run
    · obtain ⟨a, b, hab⟩ := List.append_of_mem hdot
      have hsa : ∀ c ∈ a, subChar c = true := fun c hc => h c (by rw [hab]; simp [hc])
      have hsb : ∀ c ∈ b, subChar c = true := fun c hc => h c (by rw [hab]; simp [hc])
      have hcount : run.count '.' = a.count '.' + 1 + b.count '.' := by
        rw [hab, List.count_append, List.count_cons]; simp; omega
      by_cases hgood : (∀ c ∈ a, isDigitC c = true) ∧ (∀ c ∈ b, isDigitC c = true) ∧ ¬ (a = [] ∧ b = [])
      · obtain ⟨da, hda⟩ := digits_of_chars a hgood.1
        obtain ⟨db, hdb⟩ := digits_of_chars b hgood.2.1
        refine ⟨.dec ⟨da, some db⟩, ?_, ?_⟩
        · show 0 < da.length + (Dec.mk da (some db)).fracDigits.length
          have h1 : da.length = a.length := by rw [← hda]; simp
          have h2 : db.length = b.length := by rw [← hdb]; simp
          have : ¬ (a.length = 0 ∧ b.length = 0) := fun hh =>
            hgood.2.2 ⟨List.length_eq_zero_iff.1 hh.1, List.length_eq_zero_iff.1 hh.2⟩
          simp only [Dec.fracDigits, Option.getD_some]
          omega
        · simp [Sub.print, Dec.print, hda, hdb, hab]
      · refine ⟨.junk run, ⟨hne, h, ?_⟩, rfl⟩
        by_cases ha : ∀ c ∈ a, isDigitC c = true
        · by_cases hb : ∀ c ∈ b, isDigitC c = true
          · have hab0 : a = [] ∧ b = [] := by
              by_contra hn; exact hgood ⟨ha, hb, hn⟩
            right
            rw [hab, hab0.1, hab0.2]
            intro c hc
            simp only [List.nil_append, List.mem_singleton] at hc
            subst hc; decide
          · left
            have := count_dot_pos_of_nondigit hsb hb
            omega
        · left
          have := count_dot_pos_of_nondigit hsa ha
          omega
    · have hd : ∀ c ∈ run, isDigitC c = true := by
        intro c hc
        by_contra hcd
        have := subChar_not_digit (h c hc) hcd
        subst this
        exact hdot hc
      obtain ⟨ds, hds⟩ := digits_of_chars run hd
      refine ⟨.dec ⟨ds, none⟩, ?_, by simp [Sub.print, Dec.print, hds]⟩
      show 0 < ds.length + (Dec.mk ds none).fracDigits.length
      have h1 : ds.length = run.length := by rw [← hds]; simp
      have : run.length ≠ 0 := fun hh => hne (List.length_eq_zero_iff.1 hh)
      omega

/-! ## the strict first pass -/

/-- one step of the repaired scanning loop at depth 0 on a character that is not a parenthesis -/
theorem pass1_strict_step (hv : v.strictFix = true) {c : Char} (h1 : c ≠ '(') (h2 : c ≠ ')') {rest : List Char} {prev : Char}
    {U B E : List (List Char)} {st' : Scan} (h : pass1 v (c :: rest) prev ⟨0, U, B, E⟩ = .ok st') :
    (isUpperC c = true ∧ pass1 v (c :: rest) prev ⟨0, U, B, E⟩ = pass1 v rest c ⟨0, U ++ [c :: rest], B, E⟩) ∨
    (isLowerC c = true ∧ isUpperC prev = true ∧ pass1 v (c :: rest) prev ⟨0, U, B, E⟩ = pass1 v rest c ⟨0, U, B, E⟩) ∨
    (subChar c = true ∧ pass1 v (c :: rest) prev ⟨0, U, B, E⟩ = pass1 v rest c ⟨0, U, B, E⟩) := by
  rw [pass1] at h ⊢
  simp only [h1, h2, if_false, Nat.lt_irrefl] at h ⊢
  by_cases h4 : isUpperC c = true
  · exact Or.inl ⟨h4, by simp [h4]⟩
  · simp only [h4] at h ⊢
    by_cases h5 : c = ' '
    · simp [h5] at h
    · simp only [h5, if_false] at h ⊢
      by_cases h6 : (isLowerC c && (isDigitC prev || (v.strictFix && !isUpperC prev))) = true
      · simp [h6] at h
      · simp only [h6] at h ⊢
        by_cases h7 : (isLowerC c || isDigitC c || decide (c = '.')) = true
        · simp only [h7, if_true]
          by_cases hl : isLowerC c = true
          · right; left
            refine ⟨hl, ?_, by simp⟩
            simp only [hl, hv, Bool.true_and, Bool.or_eq_true, Bool.not_eq_true', not_or, Bool.not_eq_true,
              Bool.not_eq_false] at h6
            exact h6.2
          · right; right
            refine ⟨?_, by simp⟩
            simp only [hl, Bool.false_or] at h7
            simpa [subChar] using h7
        · simp [h7] at h

theorem not_upper_close : isUpperC ')' = false := by decide

/-- a successful strict first pass (ending at depth 0) has consumed the text as a sequence of items: what is
    scanned is `l ++ run ++ printL f` — an optional second letter of the symbol that `prev` began, the rest of the
    subscript under way, and a formula — provided the inside of every recorded bracket pair is a formula -/
theorem pass1_strict_shape (hv : v.strictFix = true) : ∀ (n : Nat) (s : List Char), s.length = n →
    ∀ (prev : Char) (U B E : List (List Char)) (st' : Scan),
    pass1 v s prev ⟨0, U, B, E⟩ = .ok st' → st'.nb = 0 →
    ∃ pairs : List (List Char × List Char),
      st'.begins = B ++ pairs.map (·.1) ∧ st'.ends = E ++ pairs.map (·.2) ∧
      (∀ p ∈ pairs, (inside p).length < s.length) ∧
      ((∀ p ∈ pairs, ∃ g : Formula, g.Shape ∧ g.printL = inside p) →
        ∃ (l run : List Char) (f : Formula), s = l ++ (run ++ f.printL) ∧ f.Shape ∧ (∀ c ∈ run, subChar c = true) ∧
          (l = [] ∨ (isUpperC prev = true ∧ ∃ c, l = [c] ∧ isLowerC c = true))) := by
  intro n
  induction n using Nat.strong_induction_on with
  | _ n ih =>
    intro s hn prev U B E st' h h0
    cases s with
    | nil =>
      simp only [pass1, Except.ok.injEq] at h
      subst h
      exact ⟨[], by simp, by simp, by simp, fun _ => ⟨[], [], .nil, by simp [Formula.printL], trivial, by simp, Or.inl rfl⟩⟩
    | cons c rest =>
      simp only [List.length_cons] at hn
      by_cases h1 : c = '('
      · subst h1
        have hs : pass1 v ('(' :: rest) prev ⟨0, U, B, E⟩ = pass1 v rest '(' ⟨0 + 1, U, B ++ ['(' :: rest], E⟩ := by
          rw [pass1]; simp
        rw [hs] at h
        obtain ⟨k, hk, hd, he⟩ := pass1_close rest 0 '(' U (B ++ ['(' :: rest]) E st' h h0
        rw [he] at h
        obtain ⟨pairs, hb, hee, hlen, himp⟩ := ih (rest.drop (k + 1)).length (by simp; omega) (rest.drop (k + 1)) rfl ')' U
          (B ++ ['(' :: rest]) (E ++ [rest.drop k]) st' h h0
        have hin : inside ('(' :: rest, rest.drop k) = rest.take k := by
          simp only [inside, List.drop_succ_cons, List.drop_zero, List.length_cons, List.length_drop]
          congr 1; omega
        refine ⟨('(' :: rest, rest.drop k) :: pairs, by simp [hb], by simp [hee], ?_, ?_⟩
        · intro p hp
          simp only [List.mem_cons] at hp
          rcases hp with rfl | hp
          · rw [hin, List.length_take, List.length_cons]; omega
          · have := hlen p hp
            have h2 : (rest.drop (k + 1)).length ≤ rest.length := by simp
            simp only [List.length_cons]; omega
        · intro hall
          obtain ⟨g, hg, hgp⟩ := hall ('(' :: rest, rest.drop k) (by simp)
          obtain ⟨l, run, f', hsplit, hf', hrun, hl⟩ := himp (fun p hp => hall p (by simp [hp]))
          have hl0 : l = [] := by
            rcases hl with hl | ⟨hu, _⟩
            · exact hl
            · rw [not_upper_close] at hu; cases hu
          subst hl0
          obtain ⟨sub, hsub, hsp⟩ := sub_of_run run hrun
          refine ⟨[], [], .group g sub f', ?_, ⟨hg, hsub, hf'⟩, by simp, Or.inl rfl⟩
          rw [hin] at hgp
          simp only [List.nil_append] at hsplit
          have hrest : rest = rest.take k ++ ')' :: (run ++ f'.printL) := by
            rw [← hsplit, ← hd, List.take_append_drop]
          simp only [List.nil_append, Formula.printL, hgp, hsp]
          simpa using hrest
      · by_cases h2 : c = ')'
        · subst h2
          rw [pass1] at h; simp at h
        · rcases pass1_strict_step hv h1 h2 h with ⟨hu, hs⟩ | ⟨hl, hpu, hs⟩ | ⟨hsc, hs⟩
          · rw [hs] at h
            obtain ⟨pairs, hb, hee, hlen, himp⟩ := ih rest.length (by omega) rest rfl c (U ++ [c :: rest]) B E st' h h0
            refine ⟨pairs, hb, hee, fun p hp => by have := hlen p hp; simp only [List.length_cons]; omega, ?_⟩
            intro hall
            obtain ⟨l, run, f', hsplit, hf', hrun, hl⟩ := himp hall
            obtain ⟨sub, hsub, hsp⟩ := sub_of_run run hrun
            have hsym : SymShape (c :: l) := by
              rcases hl with rfl | ⟨_, lc, rfl, hlc⟩
              · exact Or.inl ⟨c, rfl, hu⟩
              · exact Or.inr ⟨c, lc, rfl, hu, hlc⟩
            refine ⟨[], [], .atom (c :: l) sub f', ?_, ⟨hsym, hsub, hf'⟩, by simp, Or.inl rfl⟩
            simp only [List.nil_append, Formula.printL, hsp, hsplit]
            simp
          · rw [hs] at h
            obtain ⟨pairs, hb, hee, hlen, himp⟩ := ih rest.length (by omega) rest rfl c U B E st' h h0
            refine ⟨pairs, hb, hee, fun p hp => by have := hlen p hp; simp only [List.length_cons]; omega, ?_⟩
            intro hall
            obtain ⟨l, run, f', hsplit, hf', hrun, hl'⟩ := himp hall
            have hl0 : l = [] := by
              rcases hl' with hl' | ⟨hu, _⟩
              · exact hl'
              · rw [lower_not_upper hl] at hu; cases hu
            subst hl0
            exact ⟨[c], run, f', by simp [hsplit], hf', hrun, Or.inr ⟨hpu, c, rfl, hl⟩⟩
          · rw [hs] at h
            obtain ⟨pairs, hb, hee, hlen, himp⟩ := ih rest.length (by omega) rest rfl c U B E st' h h0
            refine ⟨pairs, hb, hee, fun p hp => by have := hlen p hp; simp only [List.length_cons]; omega, ?_⟩
            intro hall
            obtain ⟨l, run, f', hsplit, hf', hrun, hl'⟩ := himp hall
            have hl0 : l = [] := by
              rcases hl' with hl' | ⟨hu, _⟩
              · exact hl'
              · rw [(subChar_facts hsc).2.2.2.1] at hu; cases hu
            subst hl0
            refine ⟨[], c :: run, f', by simp [hsplit], hf', ?_, Or.inl rfl⟩
            intro x hx
            simp only [List.mem_cons] at hx
            rcases hx with rfl | hx
            · exact hsc
            · exact hrun x hx

/-- with the repair C07-4, whatever `CompoundParserSimple` accepts is the text of a formula of the grammar
    (`symbol subscript? | '(' formula ')' subscript?`, nothing skipped), at every nesting level -/
theorem parseSimple_strict_shape (hv : v.strictFix = true) (T : Tables) : ∀ (fuel : Nat) (s : List Char) (r : Atoms × Nat),
    s.length < fuel → parseSimple v T fuel s = .ok r → ∃ f : Formula, f.Shape ∧ f.printL = s := by
  intro fuel
  induction fuel with
  | zero => intro s r h; omega
  | succ n ih =>
    intro s r hlen h
    change parseLevel v T (parseSimple v T n) s = .ok r at h
    unfold parseLevel at h
    by_cases h0 : (isLowerC (cAt s 0) || isDigitC (cAt s 0) || (v.strictFix && decide (cAt s 0 = '.'))) = true
    · rw [if_pos h0] at h; cases h
    · rw [if_neg h0] at h
      cases hp : pass1 v s '\x00' {} with
      | error e => rw [hp] at h; cases h
      | ok st =>
        rw [hp] at h
        simp only [] at h
        by_cases h1 : (st.uppers.isEmpty && st.begins.isEmpty) = true
        · rw [if_pos h1] at h; cases h
        · rw [if_neg h1] at h
          by_cases h2 : st.nb > 0
          · rw [if_pos h2] at h; cases h
          · rw [if_neg h2] at h
            cases ha : atomsLoop v T st.uppers [] with
            | error e => rw [ha] at h; cases h
            | ok ca =>
              rw [ha] at h
              simp only [] at h
              cases hg : groupsLoop v (parseSimple v T n) (st.begins.zip st.ends) (ca, 0) with
              | error f => rw [hg] at h; cases h
              | ok r' =>
                obtain ⟨pairs, hb, he, hl, himp⟩ := pass1_strict_shape hv s.length s rfl '\x00' [] [] [] st hp (by omega)
                simp only [List.nil_append] at hb he
                rw [hb, he, zip_map_fst_snd] at hg
                have hall : ∀ p ∈ pairs, ∃ g : Formula, g.Shape ∧ g.printL = inside p := by
                  intro p hpp
                  obtain ⟨x, hx⟩ := groupsLoop_ok_rec _ _ _ _ hg p hpp
                  exact ih (inside p) x (by have := hl p hpp; omega) hx
                obtain ⟨l, run, f, hsplit, hf, hrun, hl'⟩ := himp hall
                have hl0 : l = [] := by
                  rcases hl' with hl' | ⟨hu, _⟩
                  · exact hl'
                  · exact absurd hu (by decide)
                subst hl0
                have hrun0 : run = [] := by
                  cases run with
                  | nil => rfl
                  | cons c t =>
                    exfalso
                    apply h0
                    have hc := hrun c (by simp)
                    simp only [hsplit, List.nil_append, List.cons_append, cAt_cons_zero, hv, Bool.true_and]
                    simp only [subChar, Bool.or_eq_true, decide_eq_true_eq] at hc
                    rcases hc with hc | hc
                    · simp [hc]
                    · simp [hc]
                subst hrun0
                exact ⟨f, hf, by simp [hsplit]⟩

end XrlParser
