import XrlParser.Hand.Parser
import Mathlib.Tactic.Ring
import Mathlib.Tactic.Linarith
import Mathlib.Tactic.Positivity
import Mathlib.Algebra.Order.Field.Rat
import Mathlib.Algebra.BigOperators.Group.List.Basic
/-!
# The sorted atom array of the model: invariant and the effect of `addAtom` / `addGroup`

`Inv ca g`: the array is strictly ascending in `Element`, lists `g z` atoms of element `z` (0 when `z` is not
listed) and every listed count is positive.  `addAtom`/`mergeZ` add `n` atoms of one element, `addGroup` adds
`n` times another array.
-/
namespace XrlParser.Hand

def keys (ca : Atoms) : List Nat := ca.map (·.1)

/-- atoms of element `z` listed in the array (sum over the entries whose key is `z`) -/
def cnt (ca : Atoms) (z : Nat) : Rat := ((ca.filter (fun e => e.1 == z)).map (·.2)).sum

structure Inv (ca : Atoms) (g : Nat → Rat) : Prop where
  sorted : (keys ca).Pairwise (· < ·)
  count : ∀ z, cnt ca z = g z
  pos : ∀ e ∈ ca, 0 < e.2

@[simp] theorem cnt_nil (z : Nat) : cnt [] z = 0 := rfl

theorem cnt_cons (e : Nat × Rat) (ca : Atoms) (z : Nat) :
    cnt (e :: ca) z = (if e.1 = z then e.2 else 0) + cnt ca z := by
  unfold cnt
  by_cases h : e.1 = z
  · simp [h]
  · simp [h]

theorem cnt_append (a b : Atoms) (z : Nat) : cnt (a ++ b) z = cnt a z + cnt b z := by
  unfold cnt; simp [List.filter_append]

theorem cnt_perm {a b : Atoms} (h : a.Perm b) (z : Nat) : cnt a z = cnt b z := by
  unfold cnt
  exact ((h.filter _).map _).sum_eq

theorem cnt_of_not_mem {ca : Atoms} {z : Nat} (h : z ∉ keys ca) : cnt ca z = 0 := by
  induction ca with
  | nil => rfl
  | cons e es ih =>
    simp only [keys, List.map_cons, List.mem_cons, not_or] at h
    rw [cnt_cons, ih (by simpa [keys] using h.2)]
    have : ¬ e.1 = z := fun h' => h.1 h'.symm
    simp [this]

theorem hasZ_iff (ca : Atoms) (Z : Nat) : hasZ ca Z = true ↔ Z ∈ keys ca := by
  simp [hasZ, keys, List.any_eq_true]

theorem keys_bump (ca : Atoms) (Z : Nat) (n : Rat) : keys (bumpZ ca Z n) = keys ca := by
  unfold keys bumpZ
  rw [List.map_map]
  apply List.map_congr_left
  intro e _
  simp only [Function.comp]
  split <;> rfl

theorem bump_of_not_mem {ca : Atoms} {Z : Nat} (n : Rat) (h : Z ∉ keys ca) : bumpZ ca Z n = ca := by
  induction ca with
  | nil => rfl
  | cons e es ih =>
    simp only [keys, List.map_cons, List.mem_cons, not_or] at h
    have h1 : ¬ e.1 = Z := fun h' => h.1 h'.symm
    simp only [bumpZ, List.map_cons] at *
    rw [ih (by simpa [keys] using h.2)]
    simp [h1]

theorem cnt_bump {ca : Atoms} (hs : (keys ca).Pairwise (· < ·)) (Z : Nat) (n : Rat) (hZ : Z ∈ keys ca) (z : Nat) :
    cnt (bumpZ ca Z n) z = cnt ca z + (if z = Z then n else 0) := by
  induction ca with
  | nil => simp [keys] at hZ
  | cons e es ih =>
    simp only [keys, List.map_cons, List.pairwise_cons] at hs
    by_cases he : e.1 = Z
    · have hnot : Z ∉ keys es := by
        intro hm
        have := hs.1 Z (by simpa [keys] using hm)
        omega
      have hb : bumpZ (e :: es) Z n = (e.1, e.2 + n) :: es := by
        have := bump_of_not_mem n hnot
        simp only [bumpZ, List.map_cons] at *
        rw [this]; simp [he]
      rw [hb, cnt_cons, cnt_cons]
      by_cases hz : z = Z
      · subst hz; simp [he]; ring
      · have : ¬ e.1 = z := by rw [he]; exact fun h => hz h.symm
        simp [this, hz]
    · have hZ' : Z ∈ keys es := by
        simp only [keys, List.map_cons, List.mem_cons] at hZ
        rcases hZ with h | h
        · exact absurd h.symm he
        · simpa [keys] using h
      have hb : bumpZ (e :: es) Z n = e :: bumpZ es Z n := by
        simp [bumpZ, he]
      rw [hb, cnt_cons, cnt_cons, ih (by simpa [keys] using hs.2) hZ']
      ring

/-- `qsort` leaves a permutation that is ascending in the key -/
theorem sortZ_perm (l : Atoms) : (sortZ l).Perm l := List.mergeSort_perm _ _

theorem sortZ_sorted (l : Atoms) : (keys (sortZ l)).Pairwise (· ≤ ·) := by
  have h := List.pairwise_mergeSort (le := fun (a b : Nat × Rat) => decide (a.1 ≤ b.1))
    (by intro a b c h1 h2; simp at *; omega) (by intro a b; simp; omega) l
  simp only [keys, List.pairwise_map]
  exact h.imp (by intro a b h; simpa using h)

theorem sorted_strict_of_nodup {l : List Nat} (h1 : l.Pairwise (· ≤ ·)) (h2 : l.Nodup) : l.Pairwise (· < ·) := by
  have := h1.and h2
  exact this.imp (by intro a b h; omega)

/-- lines 219-236 / 291-305: add `n` atoms of element `Z` -/
theorem mergeZ_inv {ca : Atoms} {g : Nat → Rat} (h : Inv ca g) (Z : Nat) {n : Rat} (hn : 0 < n) :
    Inv (mergeZ ca Z n) (fun z => g z + (if z = Z then n else 0)) := by
  unfold mergeZ
  by_cases hz : hasZ ca Z = true
  · rw [if_pos hz]
    have hm := (hasZ_iff ca Z).1 hz
    refine ⟨by rw [keys_bump]; exact h.sorted, ?_, ?_⟩
    · intro z; rw [cnt_bump h.sorted Z n hm z, h.count]
    · intro e he
      simp only [bumpZ, List.mem_map] at he
      obtain ⟨x, hx, rfl⟩ := he
      have := h.pos x hx
      by_cases hxz : (x.1 == Z) = true
      · simp only [hxz, if_true]; linarith
      · simp only [hxz]; exact this
  · rw [if_neg hz]
    have hm : Z ∉ keys ca := fun hm => hz ((hasZ_iff ca Z).2 hm)
    have hp := sortZ_perm (ca ++ [(Z, n)])
    have hk : (keys (sortZ (ca ++ [(Z, n)]))).Perm (keys ca ++ [Z]) := by
      have := hp.map (·.1)
      simpa [keys] using this
    have hnd : (keys ca ++ [Z]).Nodup := by
      have h1 : (keys ca).Nodup := h.sorted.imp (by intro a b h; omega)
      rw [List.nodup_append]
      refine ⟨h1, by simp, ?_⟩
      intro a ha b hb
      simp at hb; subst hb
      exact fun h => hm (h ▸ ha)
    refine ⟨sorted_strict_of_nodup (sortZ_sorted _) (hk.nodup_iff.2 hnd), ?_, ?_⟩
    · intro z
      rw [cnt_perm hp z, cnt_append, h.count, cnt_cons, cnt_nil]
      by_cases hzz : z = Z
      · subst hzz; simp
      · have : ¬ Z = z := fun h => hzz h.symm
        simp [hzz, this]
    · intro e he
      have := hp.mem_iff.1 he
      simp only [List.mem_append, List.mem_singleton] at this
      rcases this with h1 | h1
      · exact h.pos e h1
      · subst h1; exact hn

theorem inv_nil : Inv [] (fun _ => 0) := ⟨by simp [keys], fun _ => rfl, by simp⟩

theorem Inv.congr {ca : Atoms} {g g' : Nat → Rat} (h : Inv ca g) (he : ∀ z, g z = g' z) : Inv ca g' :=
  ⟨h.sorted, fun z => (h.count z).trans (he z), h.pos⟩

theorem inv_of_empty {ca : Atoms} {g : Nat → Rat} (h : Inv ca g) (he : ca.isEmpty = true) : ∀ z, g z = 0 := by
  intro z
  have : ca = [] := by simpa using he
  subst this
  exact (h.count z).symm

/-- lines 212-236 -/
theorem addAtom_inv {ca : Atoms} {g : Nat → Rat} (h : Inv ca g) (Z : Nat) {n : Rat} (hn : 0 < n) :
    Inv (addAtom ca Z n) (fun z => g z + (if z = Z then n else 0)) := by
  unfold addAtom
  by_cases he : ca.isEmpty = true
  · rw [if_pos he]
    have hg := inv_of_empty h he
    refine ⟨by simp [keys], ?_, ?_⟩
    · intro z
      rw [cnt_cons, cnt_nil, hg z]
      by_cases hz : z = Z
      · subst hz; simp
      · have : ¬ Z = z := fun h => hz h.symm
        simp [hz, this]
    · intro e he'; simp at he'; subst he'; exact hn
  · rw [if_neg he]; exact mergeZ_inv h Z hn

theorem foldl_mergeZ_inv (sub : Atoms) (n : Rat) (hn : 0 < n) (hp : ∀ e ∈ sub, 0 < e.2) :
    ∀ (ca : Atoms) (g : Nat → Rat), Inv ca g →
      Inv (sub.foldl (fun ca e => mergeZ ca e.1 (e.2 * n)) ca) (fun z => g z + n * cnt sub z) := by
  induction sub with
  | nil => intro ca g h; exact h.congr (by intro z; simp)
  | cons e es ih =>
    intro ca g h
    simp only [List.foldl_cons]
    have he : 0 < e.2 * n := by
      have := hp e (by simp); positivity
    have h1 := mergeZ_inv h e.1 he
    have h2 := ih (fun x hx => hp x (by simp [hx])) _ _ h1
    refine h2.congr ?_
    intro z
    rw [cnt_cons]
    by_cases hz : z = e.1
    · subst hz; simp; ring
    · have : ¬ e.1 = z := fun h => hz h.symm
      simp [hz, this]

/-- lines 283-309: add `n` times the array of a bracket -/
theorem addGroup_inv {ca sub : Atoms} {g h : Nat → Rat} (hca : Inv ca g) (hsub : Inv sub h) {n : Rat} (hn : 0 < n) :
    Inv (addGroup ca sub n) (fun z => g z + n * h z) := by
  unfold addGroup
  by_cases he : ca.isEmpty = true
  · rw [if_pos he]
    have hg := inv_of_empty hca he
    refine ⟨?_, ?_, ?_⟩
    · have : keys (sub.map (fun e => (e.1, e.2 * n))) = keys sub := by simp [keys]
      rw [this]; exact hsub.sorted
    · intro z
      rw [hg z, ← hsub.count z]
      unfold cnt
      rw [List.filter_map]
      simp only [List.map_map]
      have : ((fun e : Nat × Rat => e.1 == z) ∘ fun e : Nat × Rat => (e.1, e.2 * n)) = (fun e : Nat × Rat => e.1 == z) := by
        funext e; rfl
      rw [this]
      generalize sub.filter (fun e => e.1 == z) = l
      induction l with
      | nil => simp
      | cons x xs ih => simp only [List.map_cons, List.sum_cons, Function.comp] at *; rw [ih]; ring
    · intro e he'
      simp only [List.mem_map] at he'
      obtain ⟨x, hx, rfl⟩ := he'
      have := hsub.pos x hx
      positivity
  · rw [if_neg he]
    exact (foldl_mergeZ_inv sub n hn hsub.pos ca g hca).congr (by intro z; rw [hsub.count])

/-- in a strictly ascending array an entry's count is the listed one -/
theorem cnt_of_mem {ca : Atoms} (hs : (keys ca).Pairwise (· < ·)) {e : Nat × Rat} (he : e ∈ ca) : cnt ca e.1 = e.2 := by
  induction ca with
  | nil => simp at he
  | cons x xs ih =>
    simp only [keys, List.map_cons, List.pairwise_cons] at hs
    rw [cnt_cons]
    simp only [List.mem_cons] at he
    rcases he with rfl | he
    · have : e.1 ∉ keys xs := by
        intro hm
        have := hs.1 e.1 (by simpa [keys] using hm)
        omega
      rw [cnt_of_not_mem this]; simp
    · have hlt := hs.1 e.1 (List.mem_map.2 ⟨e, he, rfl⟩)
      have : ¬ x.1 = e.1 := by omega
      rw [ih (by simpa [keys] using hs.2) he]; simp [this]

theorem mem_keys_of_cnt_pos {ca : Atoms} {z : Nat} (h : 0 < cnt ca z) : z ∈ keys ca := by
  by_contra hn
  rw [cnt_of_not_mem hn] at h
  exact lt_irrefl _ h

end XrlParser.Hand
