import XrlParser.Lemmas.Result
/-!
# `add_compound_data`: ascending union, fractions wA·fA + wB·fB
-/
namespace XrlParser
open Hand Spec

def cdToComp (c : CD) : Composition :=
  { elements := c.elements, nAtoms := c.nAtoms, massFractions := c.massFractions, nAtomsAll := c.nAtomsAll, molarMass := c.molarMass }

theorem strictAsc_pairwise {l : List Nat} (h : StrictAsc l) : l.Pairwise (· < ·) := by
  induction l with
  | nil => simp
  | cons a t ih =>
    cases t with
    | nil => simp
    | cons b r =>
      have hr := ih h.2
      rw [List.pairwise_cons]
      refine ⟨?_, hr⟩
      intro x hx
      simp only [List.mem_cons] at hx
      rcases hx with rfl | hx
      · exact h.1
      · have := (List.pairwise_cons.1 hr).1 x hx; have := h.1; omega

theorem union_foldl (L : List Nat) (S : List Nat) (acc : List Nat) :
    S.foldl (fun acc z => if L.contains z then acc else acc ++ [z]) acc = acc ++ S.filter (fun z => !L.contains z) := by
  induction S generalizing acc with
  | nil => simp
  | cons x xs ih =>
    simp only [List.foldl_cons, List.filter_cons]
    by_cases hx : L.contains x = true
    · simp only [hx, if_true, Bool.not_true, Bool.false_eq_true, if_false]; exact ih acc
    · simp only [hx, Bool.false_eq_true, if_false]
      rw [ih]; simp

theorem sortNat_perm (l : List Nat) : (sortNat l).Perm l := List.mergeSort_perm _ _

theorem sortNat_sorted (l : List Nat) : (sortNat l).Pairwise (· ≤ ·) := by
  have h := List.pairwise_mergeSort (le := fun (a b : Nat) => decide (a ≤ b))
    (by intro a b c h1 h2; simp at *; omega) (by intro a b; simp; omega) l
  exact h.imp (by intro a b h; simpa using h)

theorem fracOf_foldl (l : List (Nat × Rat)) (w : Rat) (z : Nat) (a : Rat) :
    l.foldl (fun acc p => if p.1 = z then acc + p.2 * w else acc) a =
      a + l.foldl (fun acc p => if p.1 = z then acc + p.2 * w else acc) 0 := by
  induction l generalizing a with
  | nil => simp
  | cons p ps ih =>
    simp only [List.foldl_cons]
    rw [ih, ih (if p.1 = z then 0 + p.2 * w else 0)]
    split <;> ring

/-- the inner loops of lines 436-443 pick the listed fraction times the weight (elements without duplicates) -/
theorem fracOf_eq (els : List Nat) (fr : List Rat) (w : Rat) (z : Nat) (hnd : els.Nodup) :
    fracOf els fr w z = countIn els fr z * w := by
  unfold fracOf countIn
  induction els generalizing fr with
  | nil => simp
  | cons e es ih =>
    cases fr with
    | nil => simp
    | cons f fs =>
      simp only [List.zip_cons_cons, List.foldl_cons, List.find?_cons]
      rw [fracOf_foldl]
      have hnd' := List.nodup_cons.1 hnd
      by_cases he : e = z
      · subst he
        have hz : ∀ fs : List Rat, (es.zip fs).foldl (fun acc p => if p.1 = e then acc + p.2 * w else acc) 0 = 0 := by
          intro fs
          have : ∀ p ∈ es.zip fs, ¬ p.1 = e := by
            intro p hp h; exact hnd'.1 (h ▸ (List.of_mem_zip hp).1)
          generalize es.zip fs = l at this
          induction l with
          | nil => rfl
          | cons p ps ihp =>
            simp only [List.foldl_cons, this p (by simp), if_false]
            exact ihp (fun q hq => this q (by simp [hq]))
        simp [hz]
      · have : ¬ (e == z) = true := by simpa using he
        simp only [he, if_false, this, zero_add]
        exact ih fs hnd'.2

theorem countIn_map_self (els : List Nat) (g : Nat → Rat) (z : Nat) :
    countIn els (els.map g) z = if z ∈ els then g z else 0 := by
  unfold countIn
  induction els with
  | nil => simp
  | cons e es ih =>
    simp only [List.map_cons, List.zip_cons_cons, List.find?_cons]
    by_cases he : e = z
    · subst he; simp
    · have h1 : ¬ (e == z) = true := by simpa using he
      have h2 : ¬ z = e := fun h => he h.symm
      simp only [h1, List.mem_cons, h2, false_or]
      exact ih

theorem countIn_not_mem {els : List Nat} {fr : List Rat} {z : Nat} (h : z ∉ els) : countIn els fr z = 0 := by
  unfold countIn
  have : (els.zip fr).find? (fun p => p.1 == z) = none := by
    rw [List.find?_eq_none]
    intro p hp hpz
    exact h ((by simpa using hpz : p.1 = z) ▸ (List.of_mem_zip hp).1)
  rw [this]; rfl

/-- lines 384-447 for two compositions whose elements are strictly ascending -/
theorem addCompoundData_spec (A B : CD) (wA wB : Rat) (hA : StrictAsc A.elements) (hB : StrictAsc B.elements) :
    IsWeightedUnion wA wB (cdToComp A) (cdToComp B) (cdToComp (addCompoundData A wA B wB)) := by
  have pA := strictAsc_pairwise hA
  have pB := strictAsc_pairwise hB
  have ndA : A.elements.Nodup := pA.imp (by intro a b h; omega)
  have ndB : B.elements.Nodup := pB.imp (by intro a b h; omega)
  -- generic statement for (longest, shortest)
  have key : ∀ (L S : CD) (wL wS : Rat), L.elements.Nodup → S.elements.Nodup →
      let els := sortNat (S.elements.foldl (fun acc z => if L.elements.contains z then acc else acc ++ [z]) L.elements)
      StrictAsc els ∧ (∀ z, z ∈ els ↔ z ∈ L.elements ∨ z ∈ S.elements) ∧
      (∀ z, countIn els (els.map (fun z => fracOf L.elements L.massFractions wL z + fracOf S.elements S.massFractions wS z)) z
        = wL * countIn L.elements L.massFractions z + wS * countIn S.elements S.massFractions z) := by
    intro L S wL wS ndL ndS els
    have hmem : ∀ z, z ∈ els ↔ z ∈ L.elements ∨ z ∈ S.elements := by
      intro z
      show z ∈ sortNat _ ↔ _
      rw [(sortNat_perm _).mem_iff, union_foldl]
      simp only [List.mem_append, List.mem_filter, Bool.not_eq_true', List.contains_eq_mem, decide_eq_false_iff_not]
      constructor
      · rintro (h | ⟨h, _⟩)
        · exact Or.inl h
        · exact Or.inr h
      · rintro (h | h)
        · exact Or.inl h
        · by_cases hz : z ∈ L.elements
          · exact Or.inl hz
          · exact Or.inr ⟨h, hz⟩
    have hnd : els.Nodup := by
      show (sortNat _).Nodup
      rw [(sortNat_perm _).nodup_iff, union_foldl, List.nodup_append]
      refine ⟨ndL, ndS.filter _, ?_⟩
      intro a ha b hb hab
      subst hab
      simp only [List.mem_filter, Bool.not_eq_true', List.contains_eq_mem, decide_eq_false_iff_not] at hb
      exact hb.2 ha
    refine ⟨pairwise_strictAsc (sorted_strict_of_nodup (sortNat_sorted _) hnd), hmem, ?_⟩
    intro z
    rw [countIn_map_self]
    by_cases hz : z ∈ els
    · rw [if_pos hz, fracOf_eq _ _ _ _ ndL, fracOf_eq _ _ _ _ ndS]; ring
    · rw [if_neg hz]
      have := (hmem z).not.1 hz
      simp only [not_or] at this
      rw [countIn_not_mem this.1, countIn_not_mem this.2]; ring
  by_cases hlen : A.elements.length ≥ B.elements.length
  · obtain ⟨h1, h2, h3⟩ := key A B wA wB ndA ndB
    refine ⟨?_, ?_, ?_, ?_⟩
    · simpa [cdToComp, addCompoundData, hlen] using h1
    · intro z; simpa [cdToComp, addCompoundData, hlen] using h2 z
    · simp [cdToComp, addCompoundData]
    · intro z; simpa [cdToComp, addCompoundData, hlen] using h3 z
  · obtain ⟨h1, h2, h3⟩ := key B A wB wA ndB ndA
    refine ⟨?_, ?_, ?_, ?_⟩
    · simpa [cdToComp, addCompoundData, hlen] using h1
    · intro z; have := h2 z; simp only [cdToComp, addCompoundData, hlen, decide_false] at this ⊢
      simpa [or_comm] using this
    · simp [cdToComp, addCompoundData]
    · intro z; have := h3 z; simp only [cdToComp, addCompoundData, hlen, decide_false] at this ⊢
      rw [add_comm]; simpa using this

end XrlParser
