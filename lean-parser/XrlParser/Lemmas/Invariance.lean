import XrlParser.Lemmas.Result
/-!
# The result depends on the algebraic expansion only
-/
namespace XrlParser
open Hand Spec

theorem print_toList (f : Formula) : f.print.toList = f.printL := by simp [Formula.print]

theorem eval_append (E : Elements) (a b : Formula) (z : Nat) : (a.append b).eval E z = a.eval E z + b.eval E z := by
  induction a with
  | nil => simp [Formula.append, Formula.eval]
  | atom sym sub rest ih => simp only [Formula.append, Formula.eval, ih]; ring
  | group inner sub rest _ ih => simp only [Formula.append, Formula.eval, ih]; ring

theorem eval_reorder (E : Elements) {f g : Formula} (h : Reorder f g) : ∀ z, f.eval E z = g.eval E z := by
  induction h with
  | refl f => intro z; rfl
  | comm a b => intro z; rw [eval_append, eval_append]; ring
  | append _ _ ih1 ih2 => intro z; rw [eval_append, eval_append, ih1, ih2]
  | group s _ _ ih1 ih2 => intro z; simp only [Formula.eval, ih1, ih2]
  | trans _ _ ih1 ih2 => intro z; rw [ih1, ih2]

theorem eval_scaled (E : Elements) {n : Rat} {f g : Formula} (h : Scaled n f g) : ∀ z, g.eval E z = n * f.eval E z := by
  induction h with
  | nil => intro z; simp [Formula.eval]
  | atom sym hs _ ih => intro z; simp only [Formula.eval, hs, ih]; split <;> ring
  | group i hs _ ih => intro z; simp only [Formula.eval, hs, ih]; ring

/-- two well-formed formulas with the same expansion give the same `compoundData` -/
theorem parse_eval_invariant (v : Variant) (T : Tables) (l : Locale) {f g : Formula} (hf : WFV v (elementsOf T) f) (hg : WFV v (elementsOf T) g)
    (he : ∀ z, f.eval (elementsOf T) z = g.eval (elementsOf T) z) :
    (compoundParser v T l (some f.print.toList)).result = (compoundParser v T l (some g.print.toList)).result := by
  obtain ⟨ca, k, h1, h2⟩ := parseSimple_ok T (f.printL.length + 1) f hf (by omega)
  obtain ⟨cb, k', h3, h4⟩ := parseSimple_ok T (g.printL.length + 1) g hg (by omega)
  have : ca = cb := inv_unique h2 (h4.congr (fun z => (he z).symm))
  subst this
  simp only [compoundParser, print_toList, h1, h3]
  split <;> rfl

end XrlParser
