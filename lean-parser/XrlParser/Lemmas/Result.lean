import XrlParser.Lemmas.Main
import Mathlib.Tactic.FieldSimp
/-!
# From the atom array to the `compoundData` the property describes
-/
namespace XrlParser
open Hand Spec

/-- the result of the model as the specification's `Composition` (a non-finite fraction reads as 0; the
    theorems state separately that none occurs) -/
def toComposition (cd : CompoundData) : Composition :=
  { elements := cd.elements, nAtoms := cd.nAtoms, massFractions := cd.massFractions.map (·.getD 0),
    nAtomsAll := cd.nAtomsAll, molarMass := cd.molarMass }

/-- lines 346-362 -/
def mkCD (T : Tables) (ca : Atoms) : CompoundData :=
  let sum := ca.foldl (fun acc e => acc + atomicWeight T e.1 * e.2) 0
  { elements := ca.map (·.1), nAtoms := ca.map (·.2),
    massFractions := ca.map (fun e => cdiv (atomicWeight T e.1 * e.2) sum),
    nAtomsAll := ca.foldl (fun acc e => acc + e.2) 0, molarMass := sum }

theorem compoundParser_result_ok (v : Variant) (T : Tables) (l : Locale) (s : List Char) {ca : Atoms} {k : Nat}
    (h : parseSimple v T (s.length + 1) s = .ok (ca, k))
    (hw : v.weightFix = false ∨ ∀ e ∈ ca, atomicWeight T e.1 ≠ 0) :
    (compoundParser v T l (some s)).result = .ok (mkCD T ca) := by
  have hc : (v.weightFix && ca.any (fun e => decide (atomicWeight T e.1 = 0))) = false := by
    rcases hw with hw | hw
    · simp [hw]
    · rw [Bool.and_eq_false_iff]; right
      rw [List.any_eq_false]
      intro e he; simpa using hw e he
  simp only [compoundParser, h, mkCD, hc]
  rfl

theorem compoundParser_result_weightless (v : Variant) (T : Tables) (l : Locale) (s : List Char) {ca : Atoms} {k : Nat}
    (h : parseSimple v T (s.length + 1) s = .ok (ca, k))
    (hv : v.weightFix = true) (hw : ∃ e ∈ ca, atomicWeight T e.1 = 0) :
    (compoundParser v T l (some s)).result = .error .zRange := by
  have hc : (v.weightFix && ca.any (fun e => decide (atomicWeight T e.1 = 0))) = true := by
    obtain ⟨e, he, h0⟩ := hw
    rw [hv, Bool.true_and, List.any_eq_true]
    exact ⟨e, he, by simpa using h0⟩
  simp only [compoundParser, h, hc]
  rfl

theorem compoundParser_result_err (v : Variant) (T : Tables) (l : Locale) (s : List Char) {f : Fail}
    (h : parseSimple v T (s.length + 1) s = .error f) : (compoundParser v T l (some s)).result = .error f.err := by
  simp only [compoundParser, h]

/-- `LC_NUMERIC` after a call with a non-NULL string -/
theorem compoundParser_locale (v : Variant) (T : Tables) (l : Locale) (s : List Char) :
    (compoundParser v T l (some s)).locale = if v.localeFix = true then l else ⟨['C']⟩ := by
  cases hv : v.localeFix
  · simp only [compoundParser, setlocaleNumeric, hv, Bool.false_eq_true, if_false]
    split
    · split <;> rfl
    · rfl
  · simp only [compoundParser, setlocaleNumeric, hv, if_true]
    split
    · split <;> rfl
    · rfl

theorem compoundParser_live_fixed (v : Variant) (hv : v.leakFix = true) (T : Tables) (l : Locale) (s : List Char) :
    liveAfterFree (compoundParser v T l (some s)) = 0 := by
  simp only [compoundParser, hv, if_true]
  split
  · split <;> rfl
  · rfl

theorem foldl_add_eq (h : Nat × Rat → Rat) (l : Atoms) (a : Rat) :
    l.foldl (fun acc e => acc + h e) a = a + sumL (l.map h) := by
  induction l generalizing a with
  | nil => simp [sumL]
  | cons x xs ih => simp only [List.foldl_cons, List.map_cons, sumL, List.foldr_cons] at *; rw [ih]; ring

theorem sumL_cons (x : Rat) (l : List Rat) : sumL (x :: l) = x + sumL l := rfl

theorem sumL_map_div (l : List Rat) (c : Rat) : sumL (l.map (· / c)) = sumL l / c := by
  induction l with
  | nil => simp [sumL]
  | cons x xs ih => simp only [List.map_cons, sumL_cons, ih]; ring

theorem sumL_pos {l : List Rat} (hne : l ≠ []) (h : ∀ x ∈ l, 0 < x) : 0 < sumL l := by
  induction l with
  | nil => exact absurd rfl hne
  | cons x xs ih =>
    rw [sumL_cons]
    have hx := h x (by simp)
    by_cases hxs : xs = []
    · subst hxs; simpa [sumL] using hx
    · have := ih hxs (fun y hy => h y (by simp [hy])); linarith

/-- the listed value for `z` in parallel lists derived from one array -/
theorem countIn_map (ca : Atoms) (h : Nat × Rat → Rat) (z : Nat) :
    countIn (ca.map (·.1)) (ca.map h) z = (ca.find? (fun e => e.1 == z)).elim 0 h := by
  unfold countIn
  induction ca with
  | nil => rfl
  | cons x xs ih =>
    simp only [List.map_cons, List.zip_cons_cons, List.find?_cons]
    by_cases hx : (x.1 == z) = true
    · simp [hx]
    · simp only [hx]; exact ih

theorem find_key {ca : Atoms} (z : Nat) :
    (∃ e, ca.find? (fun e => e.1 == z) = some e ∧ e ∈ ca ∧ e.1 = z) ∨
    (ca.find? (fun e => e.1 == z) = none ∧ z ∉ keys ca) := by
  cases h : ca.find? (fun e => e.1 == z) with
  | some e =>
    left
    exact ⟨e, rfl, List.mem_of_find?_eq_some h, by simpa using List.find?_some h⟩
  | none =>
    right
    refine ⟨rfl, ?_⟩
    rw [List.find?_eq_none] at h
    intro hm
    simp only [keys, List.mem_map] at hm
    obtain ⟨e, he, rfl⟩ := hm
    exact h e he (by simp)

theorem dec_value_nonneg (d : Dec) : 0 ≤ d.value := by
  unfold Dec.value
  positivity

theorem sub_value_nonneg (s : Sub) : 0 ≤ s.value := by
  cases s with
  | one => simp [Sub.value]
  | dec d => exact dec_value_nonneg d
  | junk t => simp [Sub.value]

theorem eval_nonneg (E : Elements) (f : Formula) (z : Nat) : 0 ≤ f.eval E z := by
  induction f with
  | nil => simp [Formula.eval]
  | atom sym sub rest ih =>
    have := sub_value_nonneg sub
    simp only [Formula.eval]
    split <;> linarith
  | group inner sub rest ih1 ih2 =>
    have := sub_value_nonneg sub
    simp only [Formula.eval]
    positivity

theorem occurs_of_eval_pos (E : Elements) {f : Formula} {z : Nat} (h : 0 < f.eval E z) : f.Occurs E z := by
  induction f with
  | nil => simp [Formula.eval] at h
  | atom sym sub rest ih =>
    simp only [Formula.eval] at h
    by_cases hs : E.zOf sym = some z
    · exact Or.inl hs
    · simp only [hs, if_false, zero_add] at h; exact Or.inr (ih h)
  | group inner sub rest ih1 ih2 =>
    simp only [Formula.eval] at h
    by_cases hi : 0 < inner.eval E z
    · exact Or.inl (ih1 hi)
    · have h0 : inner.eval E z = 0 := le_antisymm (le_of_not_gt hi) (eval_nonneg E inner z)
      rw [h0] at h
      simp only [mul_zero, zero_add] at h
      exact Or.inr (ih2 h)

/-- a well-formed formula contains at least one atom -/
theorem exists_eval_pos (E : Elements) {f : Formula} (hne : f ≠ .nil) (hf : f.Shape) (hk : f.Known E) :
    ∃ z, 0 < f.eval E z := by
  induction f with
  | nil => exact absurd rfl hne
  | atom sym sub rest _ =>
    obtain ⟨Z, hZ⟩ := Option.isSome_iff_exists.1 hk.1
    refine ⟨Z, ?_⟩
    have := sub_value_pos hk.2.1
    have := eval_nonneg E rest Z
    simp only [Formula.eval, hZ, if_true]
    linarith
  | group inner sub rest ih1 _ =>
    obtain ⟨z, hz⟩ := ih1 hk.1 hf.1 hk.2.1
    refine ⟨z, ?_⟩
    have := sub_value_pos hk.2.2.1
    have := eval_nonneg E rest z
    simp only [Formula.eval]
    have : 0 < sub.value * inner.eval E z := by positivity
    linarith

theorem eval_pos_of_occurs (E : Elements) {f : Formula} (hk : f.Known E) {z : Nat} (h : f.Occurs E z) : 0 < f.eval E z := by
  induction f with
  | nil => exact absurd h (by simp [Formula.Occurs])
  | atom sym sub rest ih =>
    have hv := sub_value_pos hk.2.1
    have hr := eval_nonneg E rest z
    simp only [Formula.eval]
    rcases h with h | h
    · simp only [h, if_true]; linarith
    · have := ih hk.2.2 h
      split <;> linarith
  | group inner sub rest ih1 ih2 =>
    have hv := sub_value_pos hk.2.2.1
    have hi := eval_nonneg E inner z
    have hr := eval_nonneg E rest z
    simp only [Formula.eval]
    rcases h with h | h
    · have := ih1 hk.2.1 h
      have : 0 < sub.value * inner.eval E z := by positivity
      linarith
    · have := ih2 hk.2.2.2 h
      have : 0 ≤ sub.value * inner.eval E z := by positivity
      linarith

theorem atomicWeight_nonneg (T : Tables) (z : Nat) : 0 ≤ atomicWeight T z := by
  unfold atomicWeight
  split
  · exact le_refl 0
  · simp only []
    split
    · exact le_refl 0
    · linarith

/-- a well-formed formula with an element without atomic weight yields an array entry of weight 0 -/
theorem exists_weightless_entry (T : Tables) {f : Formula} (hf : f.WF (elementsOf T)) (hnw : ¬ f.Weighted (elementsOf T))
    {ca : Atoms} (h : Inv ca (f.eval (elementsOf T))) : ∃ e ∈ ca, atomicWeight T e.1 = 0 := by
  unfold Formula.Weighted at hnw
  simp only [not_forall] at hnw
  obtain ⟨z, hocc, hno⟩ := hnw
  have h0 : atomicWeight T z = 0 := by
    by_contra hne
    apply hno
    refine ⟨atomicWeight T z, by simp [elementsOf, hne], ?_⟩
    exact lt_of_le_of_ne (atomicWeight_nonneg T z) (Ne.symm hne)
  have hpos := eval_pos_of_occurs _ hf.2.2 hocc
  rw [← h.count] at hpos
  have hm := mem_keys_of_cnt_pos hpos
  obtain ⟨e, he, rfl⟩ := List.mem_map.1 hm
  exact ⟨e, he, h0⟩

theorem weight_pos_of_weighted (T : Tables) {f : Formula} (hw : f.Weighted (elementsOf T)) {ca : Atoms}
    (h : Inv ca (f.eval (elementsOf T))) {e : Nat × Rat} (he : e ∈ ca) : 0 < atomicWeight T e.1 := by
  have hpos : 0 < f.eval (elementsOf T) e.1 := by rw [← h.count, cnt_of_mem h.sorted he]; exact h.pos e he
  obtain ⟨w, hw1, hw2⟩ := hw e.1 (occurs_of_eval_pos _ hpos)
  simp only [elementsOf] at hw1
  by_cases h0 : atomicWeight T e.1 = 0
  · simp [h0] at hw1
  · simp only [h0, if_false, Option.some.injEq] at hw1
    rw [hw1]; exact hw2

theorem pairwise_strictAsc {l : List Nat} (h : l.Pairwise (· < ·)) : StrictAsc l := by
  induction l with
  | nil => trivial
  | cons a t ih =>
    cases t with
    | nil => trivial
    | cons b r =>
      have := List.pairwise_cons.1 h
      exact ⟨this.1 b (by simp), ih this.2⟩

theorem entry_eq {ca : Atoms} {ev : Nat → Rat} (h : Inv ca ev) {e : Nat × Rat} (he : e ∈ ca) : e.2 = ev e.1 := by
  rw [← h.count, cnt_of_mem h.sorted he]

/-- lines 346-362: the `compoundData` built from a correct atom array is the composition the property
    describes, when every listed element has a (positive) atomic weight -/
theorem composition_of_inv (w : Nat → Rat) {ca : Atoms} {ev : Nat → Rat} (h : Inv ca ev) (hne : ca ≠ [])
    (hw : ∀ e ∈ ca, 0 < w e.1) :
    let M := ca.foldl (fun acc e => acc + w e.1 * e.2) 0
    (∀ x ∈ ca.map (fun e => cdiv (w e.1 * e.2) M), x.isSome = true) ∧
    IsCompositionOf w ev
      { elements := ca.map (·.1), nAtoms := ca.map (·.2),
        massFractions := (ca.map (fun e => cdiv (w e.1 * e.2) M)).map (·.getD 0),
        nAtomsAll := ca.foldl (fun acc e => acc + e.2) 0, molarMass := M } := by
  intro M
  have hM : M = sumL (ca.map (fun e => w e.1 * e.2)) := by
    show ca.foldl (fun acc e => acc + w e.1 * e.2) 0 = _
    rw [foldl_add_eq (fun e => w e.1 * e.2) ca 0]; ring
  have hterm : ∀ e ∈ ca, 0 < w e.1 * e.2 := by
    intro e he
    have := hw e he; have := h.pos e he; positivity
  have hMpos : 0 < M := by
    rw [hM]
    apply sumL_pos
    · simpa using hne
    · intro x hx
      simp only [List.mem_map] at hx
      obtain ⟨e, he, rfl⟩ := hx
      exact hterm e he
  have hM0 : M ≠ 0 := ne_of_gt hMpos
  have hfr : (ca.map (fun e => cdiv (w e.1 * e.2) M)).map (·.getD 0) = ca.map (fun e => w e.1 * e.2 / M) := by
    rw [List.map_map]
    apply List.map_congr_left
    intro e _
    simp [cdiv, hM0]
  refine ⟨?_, ?_⟩
  · intro x hx
    simp only [List.mem_map] at hx
    obtain ⟨e, _, rfl⟩ := hx
    simp [cdiv, hM0]
  · rw [hfr]
    refine ⟨pairwise_strictAsc h.sorted, by simp, ?_, ?_, ?_, ?_, ?_, ?_, ?_⟩
    · intro z
      constructor
      · intro hz
        simp only [List.mem_map] at hz
        obtain ⟨e, he, rfl⟩ := hz
        rw [← entry_eq h he]; exact h.pos e he
      · intro hz
        rw [← h.count] at hz
        exact mem_keys_of_cnt_pos hz
    · intro z
      show countIn (ca.map (·.1)) (ca.map (·.2)) z = ev z
      rw [countIn_map ca (·.2) z]
      rcases find_key (ca := ca) z with ⟨e, hf, he, rfl⟩ | ⟨hf, hn⟩
      · rw [hf]; exact entry_eq h he
      · rw [hf, ← h.count, cnt_of_not_mem hn]; rfl
    · show ca.foldl (fun acc e => acc + e.2) 0 = sumL (ca.map (·.2))
      rw [foldl_add_eq (·.2) ca 0]; ring
    · show M = sumL ((ca.map (·.1)).map (fun z => w z * ev z))
      rw [hM, List.map_map]
      congr 1
      apply List.map_congr_left
      intro e he
      simp only [Function.comp, entry_eq h he]
    · intro z
      show countIn (ca.map (·.1)) (ca.map (fun e => w e.1 * e.2 / M)) z = _
      rw [countIn_map ca (fun e => w e.1 * e.2 / M) z]
      rcases find_key (ca := ca) z with ⟨e, hf, he, rfl⟩ | ⟨hf, hn⟩
      · have hm : e.1 ∈ ca.map (·.1) := List.mem_map.2 ⟨e, he, rfl⟩
        rw [hf, if_pos hm]
        simp only [Option.elim, entry_eq h he]
      · have hm : z ∉ ca.map (·.1) := hn
        rw [hf, if_neg hm]; rfl
    · intro x hx
      simp only [List.mem_map] at hx
      obtain ⟨e, he, rfl⟩ := hx
      have := hterm e he
      positivity
    · show sumL (ca.map (fun e => w e.1 * e.2 / M)) = 1
      have : ca.map (fun e => w e.1 * e.2 / M) = (ca.map (fun e => w e.1 * e.2)).map (· / M) := by
        rw [List.map_map]; rfl
      rw [this, sumL_map_div, ← hM]
      exact div_self hM0

theorem sorted_ext : ∀ (l1 l2 : List Nat), l1.Pairwise (· < ·) → l2.Pairwise (· < ·) → (∀ a, a ∈ l1 ↔ a ∈ l2) → l1 = l2 := by
  intro l1
  induction l1 with
  | nil =>
    intro l2 _ _ h
    cases l2 with
    | nil => rfl
    | cons b r => exact absurd ((h b).2 (by simp)) (by simp)
  | cons a t ih =>
    intro l2 h1 h2 h
    cases l2 with
    | nil => exact absurd ((h a).1 (by simp)) (by simp)
    | cons b r =>
      have p1 := List.pairwise_cons.1 h1
      have p2 := List.pairwise_cons.1 h2
      have hab : a = b := by
        by_contra hne
        have ha : a ∈ r := by
          have := (h a).1 (by simp); simp only [List.mem_cons] at this
          rcases this with h' | h'
          · exact absurd h' hne
          · exact h'
        have hb : b ∈ t := by
          have := (h b).2 (by simp); simp only [List.mem_cons] at this
          rcases this with h' | h'
          · exact absurd h'.symm hne
          · exact h'
        have := p1.1 b hb; have := p2.1 a ha; omega
      subst hab
      congr 1
      apply ih r p1.2 p2.2
      intro x
      constructor
      · intro hx
        have := (h x).1 (by simp [hx]); simp only [List.mem_cons] at this
        rcases this with h' | h'
        · have := p1.1 x hx; omega
        · exact h'
      · intro hx
        have := (h x).2 (by simp [hx]); simp only [List.mem_cons] at this
        rcases this with h' | h'
        · have := p2.1 x hx; omega
        · exact h'

theorem inv_repr {ca : Atoms} {ev : Nat → Rat} (h : Inv ca ev) : ca = (keys ca).map (fun z => (z, ev z)) := by
  unfold keys
  rw [List.map_map]
  conv => lhs; rw [← List.map_id ca]
  apply List.map_congr_left
  intro e he
  simp only [id, Function.comp, ← entry_eq h he]

/-- the invariant determines the array: strictly ascending, positive, listing exactly `ev` -/
theorem inv_unique {ca cb : Atoms} {ev : Nat → Rat} (ha : Inv ca ev) (hb : Inv cb ev) : ca = cb := by
  have hk : keys ca = keys cb := by
    apply sorted_ext _ _ ha.sorted hb.sorted
    intro z
    constructor
    · intro hz
      obtain ⟨e, he, rfl⟩ := List.mem_map.1 hz
      have : 0 < cnt cb e.1 := by rw [hb.count, ← entry_eq ha he]; exact ha.pos e he
      exact mem_keys_of_cnt_pos this
    · intro hz
      obtain ⟨e, he, rfl⟩ := List.mem_map.1 hz
      have : 0 < cnt ca e.1 := by rw [ha.count, ← entry_eq hb he]; exact hb.pos e he
      exact mem_keys_of_cnt_pos this
  rw [inv_repr ha, inv_repr hb, hk]

end XrlParser
