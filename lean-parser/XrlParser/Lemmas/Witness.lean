import XrlParser.Lemmas.Result
import XrlParser.Lemmas.Range
/-!
# Concrete table and formulas used as witnesses and non-vacuity instances by Props/C07.lean
-/
namespace XrlParser
open Hand Spec

/-- a table with the five elements used by the witnesses below; Rf has no weight (as in data/atomicweight.dat) -/
def T0 : Tables :=
  { mendel := [(['H'], 1), (['H', 'e'], 2), (['O'], 8), (['M', 'g'], 12), (['R', 'f'], 104)],
    mendelSorted := [(['H'], 1), (['H', 'e'], 2), (['M', 'g'], 12), (['O'], 8), (['R', 'f'], 104)],
    weight := [0, 1, 4, 0, 0, 0, 0, 0, 16, 0, 0, 0, 24] }

/-- the witness: `Rf` -/
def fRf : Formula := .atom ['R', 'f'] .one .nil

theorem fRf_wf : fRf.WF (elementsOf T0) := by
  refine ⟨by simp [fRf], ⟨Or.inr ⟨'R', 'f', rfl, by decide, by decide⟩, trivial, trivial⟩, ?_, trivial, trivial⟩
  show (lookupSym T0 ['R', 'f']).isSome = true
  decide

theorem fRf_not_weighted : ¬ fRf.Weighted (elementsOf T0) := by
  intro h
  obtain ⟨w, hw, _⟩ := h 104 (Or.inl (by show lookupSym T0 ['R', 'f'] = some 104; decide))
  simp [elementsOf, atomicWeight, T0] at hw

/-- `Mg(OH)2` -/
def fMgOH2 : Formula :=
  .atom ['M', 'g'] .one (.group (.atom ['O'] .one (.atom ['H'] .one .nil)) (.dec ⟨[2], none⟩) .nil)
/-- `MgO2H2.0` -/
def fMgO2H2 : Formula :=
  .atom ['M', 'g'] .one (.atom ['O'] (.dec ⟨[2], none⟩) (.atom ['H'] (.dec ⟨[2], some [0]⟩) .nil))
/-- `(OH)2Mg` -/
def fOH2Mg : Formula :=
  .group (.atom ['O'] .one (.atom ['H'] .one .nil)) (.dec ⟨[2], none⟩) (.atom ['M', 'g'] .one .nil)

theorem two_pos : 0 < (Dec.mk [2] none).value := by
  simp [Dec.value, Dec.fracDigits, natOfDigits]
theorem two0_pos : 0 < (Dec.mk [2] (some [0])).value := by
  simp [Dec.value, Dec.fracDigits, natOfDigits]

theorem symMg : SymShape ['M', 'g'] := Or.inr ⟨'M', 'g', rfl, by decide, by decide⟩
theorem symO : SymShape ['O'] := Or.inl ⟨'O', rfl, by decide⟩
theorem symH : SymShape ['H'] := Or.inl ⟨'H', rfl, by decide⟩
theorem knMg : (lookupSym T0 ['M', 'g']).isSome = true := by decide
theorem knO : (lookupSym T0 ['O']).isSome = true := by decide
theorem knH : (lookupSym T0 ['H']).isSome = true := by decide

theorem fMgOH2_wf : fMgOH2.WF (elementsOf T0) :=
  ⟨by simp [fMgOH2], ⟨symMg, trivial, ⟨symO, trivial, symH, trivial, trivial⟩, by simp [Sub.Shape, Dec.shape, Dec.fracDigits], trivial⟩,
   knMg, trivial, by simp, ⟨knO, trivial, knH, trivial, trivial⟩, two_pos, trivial⟩

theorem fMgO2H2_wf : fMgO2H2.WF (elementsOf T0) :=
  ⟨by simp [fMgO2H2], ⟨symMg, trivial, symO, by simp [Sub.Shape, Dec.shape, Dec.fracDigits], symH,
     by simp [Sub.Shape, Dec.shape, Dec.fracDigits], trivial⟩,
   knMg, trivial, knO, two_pos, knH, two0_pos, trivial⟩

theorem fOH2Mg_wf : fOH2Mg.WF (elementsOf T0) :=
  ⟨by simp [fOH2Mg], ⟨⟨symO, trivial, symH, trivial, trivial⟩, by simp [Sub.Shape, Dec.shape, Dec.fracDigits], symMg, trivial, trivial⟩,
   by simp, ⟨knO, trivial, knH, trivial, trivial⟩, two_pos, knMg, trivial, trivial⟩

theorem zOf_vals : lookupSym T0 ['M', 'g'] = some 12 ∧ lookupSym T0 ['O'] = some 8 ∧ lookupSym T0 ['H'] = some 1 := by
  refine ⟨?_, ?_, ?_⟩ <;> decide

theorem fMgOH2_weighted : fMgOH2.Weighted (elementsOf T0) := by
  intro z hz
  simp only [fMgOH2, Formula.Occurs, elementsOf, zOf_vals.1, zOf_vals.2.1, zOf_vals.2.2, Option.some.injEq, or_false] at hz
  rcases hz with rfl | rfl | rfl
  · exact ⟨24, by simp [elementsOf, atomicWeight, T0], by norm_num⟩
  · exact ⟨16, by simp [elementsOf, atomicWeight, T0], by norm_num⟩
  · exact ⟨1, by simp [elementsOf, atomicWeight, T0], by norm_num⟩

/-- `(H)` -/
def fParenH : Formula := .group (.atom ['H'] .one .nil) .one .nil

theorem fParenH_wf : fParenH.WF (elementsOf T0) :=
  ⟨by simp [fParenH], ⟨⟨symH, trivial, trivial⟩, trivial, trivial⟩, by simp, ⟨knH, trivial, trivial⟩, trivial, trivial⟩

/-- the model run on the witness `Rf` -/
theorem rf_atoms : parseSimple asIs T0 3 ['R', 'f'] = .ok ([(104, 1)], 0) := by rfl

/-! ## witnesses of the two findings of the audit (clauses 15 and 2/5) -/

def isOk {ε α : Type} : Except ε α → Bool
  | .ok _ => true
  | .error _ => false

theorem not_isOk_error {ε α : Type} {r : Except ε α} {e : ε} (h : r = .error e) : isOk r = false := by rw [h]; rfl

/-- `(H)a`: the lower-case letter behind the bracket belongs to nothing -/
def sHa : List Char := ['(', 'H', ')', 'a']

/-- the shipped scanner skips the `a`: the string is accepted (replayed on the library: `parse C (H)a` → H) -/
theorem sHa_accepted (v : Variant) (hv : v.strictFix = false) :
    isOk (compoundParser v T0 ⟨['C']⟩ (some sHa)).result = true := by
  obtain ⟨a, b, c, d, e⟩ := v
  simp only at hv
  subst hv
  cases a <;> cases b <;> cases c <;> cases e <;> decide +kernel

/-- … although it is not the text of any formula of the grammar: such a text passes the strict first pass
    (`pass1_print_ok`), `(H)a` does not -/
theorem sHa_not_formula : ¬ ∃ f : Formula, f.Shape ∧ f.printL = sHa := by
  rintro ⟨f, hf, hp⟩
  obtain ⟨st, hst⟩ := pass1_print_ok (v := ⟨false, false, false, true, false⟩) f hf
  rw [hp] at hst
  have : isOk (pass1 ⟨false, false, false, true, false⟩ sHa '\x00' {}) = false := by decide +kernel
  rw [hst] at this
  cases this

/-- `H1` followed by 309 zeros: 10^309 > DBL_MAX -/
def sBig : List Char := 'H' :: '1' :: List.replicate 309 '0'

/-- the shipped code accepts it and computes with `+inf` (replayed on the library: nAtoms inf, fraction NaN, no error) -/
theorem sBig_ovf (v : Variant) (hv : v.rangeFix = false) : (compoundParser v T0 ⟨['C']⟩ (some sBig)).ovf = true := by
  obtain ⟨a, b, c, d, e⟩ := v
  simp only at hv
  subst hv
  cases a <;> cases b <;> cases c <;> cases d <;> decide +kernel

theorem sub_one_fits : Sub.Fits .one := by constructor <;> decide +kernel
theorem sub_two_fits : Sub.Fits (.dec ⟨[2], none⟩) := by constructor <;> decide +kernel
theorem sub_two0_fits : Sub.Fits (.dec ⟨[2], some [0]⟩) := by constructor <;> decide +kernel

theorem fRf_fits : fRf.Fits := ⟨sub_one_fits, trivial⟩
theorem fMgOH2_fits : fMgOH2.Fits := ⟨sub_one_fits, ⟨sub_one_fits, sub_one_fits, trivial⟩, sub_two_fits, trivial⟩
theorem fMgO2H2_fits : fMgO2H2.Fits := ⟨sub_one_fits, sub_two_fits, sub_two0_fits, trivial⟩
theorem fOH2Mg_fits : fOH2Mg.Fits := ⟨⟨sub_one_fits, sub_one_fits, trivial⟩, sub_two_fits, sub_one_fits, trivial⟩
theorem fParenH_fits : fParenH.Fits := ⟨⟨sub_one_fits, trivial⟩, sub_one_fits, trivial⟩

end XrlParser
