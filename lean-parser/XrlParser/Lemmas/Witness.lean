import XrlParser.Lemmas.Result
/-!
# Concrete table and formulas used as witnesses and non-vacuity instances by Props/C07.lean
-/
namespace XrlParser
open Hand Spec

/-- a table with the five elements used by the witnesses below; Rf has no weight (as in data/atomicweight.dat) -/
def T0 : Tables :=
  { mendel := [(['H'], 1), (['H', 'e'], 2), (['O'], 8), (['M', 'g'], 12), (['R', 'f'], 104)],
    mendelSorted := [(['H'], 1), (['H', 'e'], 2), (['M', 'g'], 12), (['O'], 8), (['R', 'f'], 104)],
    weight := [0, 1, 4, 0, 0, 0, 0, 0, 16, 0, 0, 0, 24] }

/-- the witness: `Rf` -/
def fRf : Formula := .atom ['R', 'f'] .one .nil

theorem fRf_wf : fRf.WF (elementsOf T0) := by
  refine ⟨by simp [fRf], ⟨Or.inr ⟨'R', 'f', rfl, by decide, by decide⟩, trivial, trivial⟩, ?_, trivial, trivial⟩
  show (lookupSym T0 ['R', 'f']).isSome = true
  decide

theorem fRf_not_weighted : ¬ fRf.Weighted (elementsOf T0) := by
  intro h
  obtain ⟨w, hw, _⟩ := h 104 (Or.inl (by show lookupSym T0 ['R', 'f'] = some 104; decide))
  simp [elementsOf, atomicWeight, T0] at hw

/-- `Mg(OH)2` -/
def fMgOH2 : Formula :=
  .atom ['M', 'g'] .one (.group (.atom ['O'] .one (.atom ['H'] .one .nil)) (.dec ⟨[2], none⟩) .nil)
/-- `MgO2H2.0` -/
def fMgO2H2 : Formula :=
  .atom ['M', 'g'] .one (.atom ['O'] (.dec ⟨[2], none⟩) (.atom ['H'] (.dec ⟨[2], some [0]⟩) .nil))
/-- `(OH)2Mg` -/
def fOH2Mg : Formula :=
  .group (.atom ['O'] .one (.atom ['H'] .one .nil)) (.dec ⟨[2], none⟩) (.atom ['M', 'g'] .one .nil)

theorem two_pos : 0 < (Dec.mk [2] none).value := by
  simp [Dec.value, Dec.fracDigits, natOfDigits]
theorem two0_pos : 0 < (Dec.mk [2] (some [0])).value := by
  simp [Dec.value, Dec.fracDigits, natOfDigits]

theorem symMg : SymShape ['M', 'g'] := Or.inr ⟨'M', 'g', rfl, by decide, by decide⟩
theorem symO : SymShape ['O'] := Or.inl ⟨'O', rfl, by decide⟩
theorem symH : SymShape ['H'] := Or.inl ⟨'H', rfl, by decide⟩
theorem knMg : (lookupSym T0 ['M', 'g']).isSome = true := by decide
theorem knO : (lookupSym T0 ['O']).isSome = true := by decide
theorem knH : (lookupSym T0 ['H']).isSome = true := by decide

theorem fMgOH2_wf : fMgOH2.WF (elementsOf T0) :=
  ⟨by simp [fMgOH2], ⟨symMg, trivial, ⟨symO, trivial, symH, trivial, trivial⟩, by simp [Sub.Shape, Dec.shape, Dec.fracDigits], trivial⟩,
   knMg, trivial, by simp, ⟨knO, trivial, knH, trivial, trivial⟩, two_pos, trivial⟩

theorem fMgO2H2_wf : fMgO2H2.WF (elementsOf T0) :=
  ⟨by simp [fMgO2H2], ⟨symMg, trivial, symO, by simp [Sub.Shape, Dec.shape, Dec.fracDigits], symH,
     by simp [Sub.Shape, Dec.shape, Dec.fracDigits], trivial⟩,
   knMg, trivial, knO, two_pos, knH, two0_pos, trivial⟩

theorem fOH2Mg_wf : fOH2Mg.WF (elementsOf T0) :=
  ⟨by simp [fOH2Mg], ⟨⟨symO, trivial, symH, trivial, trivial⟩, by simp [Sub.Shape, Dec.shape, Dec.fracDigits], symMg, trivial, trivial⟩,
   by simp, ⟨knO, trivial, knH, trivial, trivial⟩, two_pos, knMg, trivial, trivial⟩

theorem zOf_vals : lookupSym T0 ['M', 'g'] = some 12 ∧ lookupSym T0 ['O'] = some 8 ∧ lookupSym T0 ['H'] = some 1 := by
  refine ⟨?_, ?_, ?_⟩ <;> decide

theorem fMgOH2_weighted : fMgOH2.Weighted (elementsOf T0) := by
  intro z hz
  simp only [fMgOH2, Formula.Occurs, elementsOf, zOf_vals.1, zOf_vals.2.1, zOf_vals.2.2, Option.some.injEq, or_false] at hz
  rcases hz with rfl | rfl | rfl
  · exact ⟨24, by simp [elementsOf, atomicWeight, T0], by norm_num⟩
  · exact ⟨16, by simp [elementsOf, atomicWeight, T0], by norm_num⟩
  · exact ⟨1, by simp [elementsOf, atomicWeight, T0], by norm_num⟩

/-- `(H)` -/
def fParenH : Formula := .group (.atom ['H'] .one .nil) .one .nil

theorem fParenH_wf : fParenH.WF (elementsOf T0) :=
  ⟨by simp [fParenH], ⟨⟨symH, trivial, trivial⟩, trivial, trivial⟩, by simp, ⟨knH, trivial, trivial⟩, trivial, trivial⟩

/-- the model run on the witness `Rf` -/
theorem rf_atoms : parseSimple T0 3 ['R', 'f'] = .ok ([(104, 1)], 0) := by rfl

end XrlParser
