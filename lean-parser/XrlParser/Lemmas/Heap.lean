import XrlParser.Lemmas.Result
/-!
# Blocks left behind by the shipped `CompoundParserSimple` on a well-formed formula

Exactly one per nesting level (the formula itself, the inside of every group) that contains no element symbol
directly: `tempBracketAtoms` of xraylib-parser.c:283-289.  (`parseSimple_ok` with the leak count made explicit.)
-/
namespace XrlParser
open Hand Spec

variable {v : Variant}

/-- the level has an element symbol directly (not only inside parentheses) -/
def directAtom : Formula → Bool
  | .nil => false
  | .atom _ _ _ => true
  | .group _ _ r => directAtom r

/-- Σ over the groups of the level of the blocks their insides leave behind -/
def innerLeak : Formula → Nat
  | .nil => 0
  | .atom _ _ r => innerLeak r
  | .group i _ r => ((if directAtom i then 0 else 1) + innerLeak i) + innerLeak r

/-- blocks left behind by parsing the level `f` -/
def leakOf (f : Formula) : Nat := (if directAtom f then 0 else 1) + innerLeak f

/-- the bracket loop started with an empty (`e = true`) or non-empty atom array -/
def gLeak : Formula → Bool → Nat
  | .nil, _ => 0
  | .atom _ _ r, e => gLeak r e
  | .group i _ r, e => leakOf i + (if e then 1 else 0) + gLeak r false

theorem gLeak_false (f : Formula) : gLeak f false = innerLeak f := by
  induction f with
  | nil => rfl
  | atom _ _ r ih => simpa [gLeak, innerLeak] using ih
  | group i s r _ ih => simp [gLeak, innerLeak, leakOf, ih]

theorem gLeak_level {f : Formula} (hne : f ≠ .nil) : gLeak f (!directAtom f) = leakOf f := by
  cases f with
  | nil => exact absurd rfl hne
  | atom sym s r => simp [directAtom, gLeak, leakOf, innerLeak, gLeak_false]
  | group i s r =>
    by_cases hd : directAtom r = true
    · simp [directAtom, gLeak, leakOf, innerLeak, gLeak_false, hd]
    · simp [directAtom, gLeak, leakOf, innerLeak, gLeak_false, hd]; omega

theorem mergeZ_ne (ca : Atoms) (Z : Nat) (n : Rat) : mergeZ ca Z n ≠ [] := by
  unfold mergeZ
  split
  · rename_i h
    intro hb
    have : ca = [] := by simpa [bumpZ] using hb
    subst this
    simp [hasZ] at h
  · intro hb
    have := (sortZ_perm (ca ++ [(Z, n)])).length_eq
    rw [hb] at this
    simp at this

theorem addAtom_ne (ca : Atoms) (Z : Nat) (n : Rat) : addAtom ca Z n ≠ [] := by
  unfold addAtom
  split
  · simp
  · exact mergeZ_ne ca Z n

theorem addGroup_ne {ca sub : Atoms} (n : Rat) (h : sub ≠ [] ∨ ca ≠ []) : addGroup ca sub n ≠ [] := by
  unfold addGroup
  split
  · rename_i he
    have hca : ca = [] := by simpa using he
    rcases h with h | h
    · simpa using h
    · exact absurd hca h
  · rename_i he
    have hca : ca ≠ [] := by simpa using he
    clear h he
    induction sub generalizing ca with
    | nil => exact hca
    | cons e es ih => simp only [List.foldl_cons]; exact ih (mergeZ_ne _ _ _)

theorem inv_ne {ca : Atoms} {f : Formula} {E : Elements} (h : Inv ca (f.eval E)) (hne : f ≠ .nil) (hs : f.Shape)
    (hk : f.Known E) : ca ≠ [] := by
  obtain ⟨z, hz⟩ := exists_eval_pos E hne hs hk
  intro hca
  subst hca
  rw [← h.count] at hz
  simp at hz

/-- the atom array after the symbol loop is empty exactly when it was and the level has no direct symbol -/
theorem atomsLoop_isEmpty (T : Tables) (f : Formula) (hf : f.Shape) (hk : KnownV v (elementsOf T) f) :
    ∀ (ca ca' : Atoms), atomsLoop v T (ups f []) ca = .ok ca' → ca'.isEmpty = (ca.isEmpty && !directAtom f) := by
  induction f with
  | nil => intro ca ca' h; simp only [ups, atomsLoop, Except.ok.injEq] at h; subst h; simp [directAtom]
  | atom sym sub rest ih =>
    intro ca ca' h
    obtain ⟨Z, hZ⟩ := Option.isSome_iff_exists.1 hk.1
    have hpa := parseAtom_ok T hf.1 (show lookupSym T sym = some Z from hZ) hf.2.1 hk.2.1 (stop_printL hf.2.2 stop_nil)
    simp only [ups, atomsLoop, hpa] at h
    have := ih hf.2.2 hk.2.2 _ _ h
    have hne := addAtom_ne ca Z sub.value
    have he : (addAtom ca Z sub.value).isEmpty = false := by simpa using hne
    rw [this, he]; simp [directAtom]
  | group inner sub rest _ ih =>
    intro ca ca' h
    simp only [ups] at h
    simpa [directAtom] using ih hf.2.2 hk.2.2.2 ca ca' h

/-- `groupsLoop_ok` with the number of blocks left behind -/
theorem groupsLoop_leak (T : Tables) (rec : List Char → Except Fail (Atoms × Nat)) (N : Nat)
    (hrec : ∀ g : Formula, WFV v (elementsOf T) g → g.printL.length < N →
      ∃ sub, rec g.printL = .ok (sub, leakOf g) ∧ Inv sub (g.eval (elementsOf T)))
    (f : Formula) (hf : f.Shape) (hk : KnownV v (elementsOf T) f) (hlen : f.printL.length ≤ N) :
    ∀ (ca : Atoms) (k : Nat) (g : Nat → Rat), Inv ca g →
      ∃ ca', groupsLoop v rec ((begs f []).zip (ens f [])) (ca, k) = .ok (ca', k + gLeak f ca.isEmpty) ∧
        Inv ca' (fun z => g z + evalG (elementsOf T) f z) := by
  induction f with
  | nil => intro ca k g h; exact ⟨ca, rfl, h.congr (by intro z; simp [evalG])⟩
  | atom sym sub rest ih =>
    intro ca k g h
    have hl : rest.printL.length ≤ N := by rw [printL_length_atom] at hlen; omega
    obtain ⟨ca', h1, h2⟩ := ih hf.2.2 hk.2.2 hl ca k g h
    exact ⟨ca', by simpa [begs, ens, gLeak] using h1, h2.congr (by intro z; simp [evalG])⟩
  | group inner sub rest _ ih =>
    intro ca k g h
    rw [printL_length_group] at hlen
    have hl : rest.printL.length ≤ N := by omega
    obtain ⟨sa, hr1, hr2⟩ := hrec inner ⟨hk.1, hf.1, hk.2.1⟩ (by omega)
    have hsub := subscript_ok (fun s => Err.convert s) hf.2.1 hk.2.2.1 (stop_printL hf.2.2 stop_nil)
    have hv := sub_value_pos hk.2.2.1.1
    have hsane : sa ≠ [] := inv_ne hr2 hk.1 hf.1 hk.2.1.known
    have hstep : groupStep v rec (ca, k)
        ('(' :: (inner.printL ++ ')' :: (sub.print ++ (rest.printL ++ []))), ')' :: (sub.print ++ (rest.printL ++ [])))
        = .ok (addGroup ca sa sub.value, k + leakOf inner + (if ca.isEmpty then 1 else 0)) := by
      unfold groupStep
      dsimp only
      rw [inside_eq, hr1]
      dsimp only
      rw [List.drop_succ_cons, List.drop_zero, hsub]
      by_cases he : ca.isEmpty = true
      · simp [he]
      · simp [he]
    have hne : (addGroup ca sa sub.value).isEmpty = false := by
      simpa using addGroup_ne sub.value (Or.inl hsane)
    obtain ⟨ca', h1, h2⟩ := ih hf.2.2 hk.2.2.2 hl _ (k + leakOf inner + (if ca.isEmpty then 1 else 0)) _
      (addGroup_inv h hr2 hv)
    refine ⟨ca', ?_, h2.congr (by intro z; simp only [evalG]; ring)⟩
    simp only [begs, ens, List.zip_cons_cons, groupsLoop, hstep]
    rw [h1, hne]
    simp only [gLeak]
    congr 2
    omega

theorem parseLevel_leak (T : Tables) (rec : List Char → Except Fail (Atoms × Nat)) (N : Nat)
    (hrec : ∀ g : Formula, WFV v (elementsOf T) g → g.printL.length < N →
      ∃ sub, rec g.printL = .ok (sub, leakOf g) ∧ Inv sub (g.eval (elementsOf T)))
    (f : Formula) (hwf : WFV v (elementsOf T) f) (hlen : f.printL.length ≤ N) :
    ∃ ca, parseLevel v T rec f.printL = .ok (ca, leakOf f) ∧ Inv ca (f.eval (elementsOf T)) := by
  obtain ⟨hne, hf, hk⟩ := hwf
  obtain ⟨p, hp⟩ := pass1_top f hf [] [] [] [] '\x00'
  simp only [List.append_nil, List.nil_append, pass1] at hp
  obtain ⟨caA, ha1, ha2⟩ := atomsLoop_ok T f hf hk [] _ inv_nil
  have hemp := atomsLoop_isEmpty T f hf hk [] caA ha1
  obtain ⟨ca, hg1, hg2⟩ := groupsLoop_leak T rec N hrec f hf hk hlen caA 0 _ ha2
  refine ⟨ca, ?_, hg2.congr (by intro z; rw [eval_split]; ring)⟩
  unfold parseLevel
  rw [if_neg (by rw [first_char_ok hne hf]; simp)]
  have hp' : pass1 v f.printL '\x00' {} = .ok ⟨0, ups f [], begs f [], ens f []⟩ := hp
  simp only [hp', scan_nonempty hne, ha1, hg1]
  simp only [List.isEmpty_nil, Bool.true_and] at hemp
  rw [hemp, gLeak_level hne]
  simp

/-- `CompoundParserSimple` on a printed well-formed formula leaves exactly `leakOf f` blocks behind -/
theorem parseSimple_leak (T : Tables) :
    ∀ (fuel : Nat) (f : Formula), WFV v (elementsOf T) f → f.printL.length < fuel →
      ∃ ca, parseSimple v T fuel f.printL = .ok (ca, leakOf f) ∧ Inv ca (f.eval (elementsOf T)) := by
  intro fuel
  induction fuel with
  | zero => intro f _ h; omega
  | succ n ih =>
    intro f hwf hlen
    exact parseLevel_leak T (parseSimple v T n) n ih f hwf (by omega)

/-- blocks still allocated after a successful parse by the shipped code and `FreeCompoundData` (or after the
    rejection for a missing atomic weight with repair C07-2): what `CompoundParserSimple` left behind -/
theorem compoundParser_live_ok (hv : v.leakFix = false) (T : Tables) (l : Locale) (s : List Char)
    {ca : Atoms} {k : Nat} (h : parseSimple v T (s.length + 1) s = .ok (ca, k)) :
    liveAfterFree (compoundParser v T l (some s)) = k := by
  simp only [compoundParser, h, hv, Bool.false_eq_true, if_false]
  split <;> simp [liveAfterFree]

end XrlParser
