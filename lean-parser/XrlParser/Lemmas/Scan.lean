import XrlParser.Hand.Parser
import XrlParser.Spec.Formula
import Mathlib.Tactic.Ring
import Mathlib.Tactic.Linarith
import Mathlib.Algebra.Order.Field.Rat
/-!
# The scanner of the model on printed formulas

What `pass1`, `scanSub`, `strtod`, `subscript`, `parseAtom` compute on the text `Formula.printL` produces.
-/
namespace XrlParser
open Hand Spec

variable {v : Variant}

/-! ## character facts -/

theorem digitChar_isDigit : ∀ d : Fin 10, isDigitC (digitChar d) = true := by decide
theorem digitChar_val : ∀ d : Fin 10, (digitChar d).toNat - 48 = d.val := by decide
theorem digitChar_ne_dot : ∀ d : Fin 10, digitChar d ≠ '.' := by decide

theorem dot_not_digit : isDigitC '.' = false := by decide

theorem upper_not_lower {c : Char} (h : isUpperC c = true) : isLowerC c = false := by
  simp [isUpperC, isLowerC] at *; omega
theorem upper_not_digit {c : Char} (h : isUpperC c = true) : isDigitC c = false := by
  simp [isUpperC, isDigitC] at *; omega
theorem digit_not_lower {c : Char} (h : isDigitC c = true) : isLowerC c = false := by
  simp [isDigitC, isLowerC] at *; omega
theorem digit_not_upper {c : Char} (h : isDigitC c = true) : isUpperC c = false := by
  simp [isDigitC, isUpperC] at *; omega
theorem lower_not_upper {c : Char} (h : isLowerC c = true) : isUpperC c = false := by
  simp [isUpperC, isLowerC] at *; omega

theorem upper_ne {c : Char} (h : isUpperC c = true) : c ≠ '(' ∧ c ≠ ')' ∧ c ≠ ' ' ∧ c ≠ '.' := by
  refine ⟨?_, ?_, ?_, ?_⟩ <;> (intro h'; subst h'; revert h; decide)
theorem lower_ne {c : Char} (h : isLowerC c = true) : c ≠ '(' ∧ c ≠ ')' ∧ c ≠ ' ' ∧ c ≠ '.' := by
  refine ⟨?_, ?_, ?_, ?_⟩ <;> (intro h'; subst h'; revert h; decide)
theorem digit_ne {c : Char} (h : isDigitC c = true) : c ≠ '(' ∧ c ≠ ')' ∧ c ≠ ' ' ∧ c ≠ '.' := by
  refine ⟨?_, ?_, ?_, ?_⟩ <;> (intro h'; subst h'; revert h; decide)

/-- facts about a subscript character (digit or point) -/
theorem subChar_facts {c : Char} (h : subChar c = true) :
    c ≠ '(' ∧ c ≠ ')' ∧ c ≠ ' ' ∧ isUpperC c = false ∧ isLowerC c = false := by
  simp only [subChar, Bool.or_eq_true, decide_eq_true_eq] at h
  rcases h with h | h
  · have := digit_ne h
    exact ⟨this.1, this.2.1, this.2.2.1, digit_not_upper h, digit_not_lower h⟩
  · subst h; decide

@[simp] theorem cAt_nil (j : Nat) : cAt [] j = '\x00' := by simp [cAt]
@[simp] theorem cAt_cons_zero (c : Char) (r : List Char) : cAt (c :: r) 0 = c := by simp [cAt]
@[simp] theorem cAt_cons_succ (c : Char) (r : List Char) (j : Nat) : cAt (c :: r) (j + 1) = cAt r j := by simp [cAt]

/-- what may follow a symbol or subscript in a printed formula: the end, an upper-case letter or a parenthesis -/
def Stop (r : List Char) : Prop := isLowerC (cAt r 0) = false ∧ subChar (cAt r 0) = false

theorem stop_nil : Stop [] := by constructor <;> decide
theorem stop_close (t : List Char) : Stop (')' :: t) := by constructor <;> simp <;> decide
theorem stop_open (t : List Char) : Stop ('(' :: t) := by constructor <;> simp <;> decide
theorem stop_upper {u : Char} (h : isUpperC u = true) (t : List Char) : Stop (u :: t) := by
  constructor
  · simpa using upper_not_lower h
  · simp [subChar, upper_not_digit h, (upper_ne h).2.2.2]

theorem symShape_cases {s : List Char} (h : SymShape s) :
    ∃ u t, s = u :: t ∧ isUpperC u = true ∧ (t = [] ∨ ∃ l, t = [l] ∧ isLowerC l = true) := by
  rcases h with ⟨u, rfl, hu⟩ | ⟨u, l, rfl, hu, hl⟩
  · exact ⟨u, [], rfl, hu, Or.inl rfl⟩
  · exact ⟨u, [l], rfl, hu, Or.inr ⟨l, rfl, hl⟩⟩

theorem stop_printL {f : Formula} (hf : f.Shape) {t : List Char} (ht : Stop t) : Stop (f.printL ++ t) := by
  cases f with
  | nil => simpa [Formula.printL] using ht
  | atom sym sub rest =>
    obtain ⟨u, t', rfl, hu, _⟩ := symShape_cases hf.1
    simpa [Formula.printL] using stop_upper hu _
  | group inner sub rest => simpa [Formula.printL] using stop_open _

/-! ## subscripts -/

theorem dec_print_chars (d : Dec) : ∀ c ∈ d.print, subChar c = true := by
  intro c hc
  simp only [Dec.print, List.mem_append, List.mem_map] at hc
  rcases hc with ⟨x, _, rfl⟩ | hc
  · simp [subChar, digitChar_isDigit]
  · cases hfp : d.fp with
    | none => simp [hfp] at hc
    | some f =>
      simp only [hfp, List.mem_cons, List.mem_map] at hc
      rcases hc with rfl | ⟨x, _, rfl⟩
      · simp [subChar]
      · simp [subChar, digitChar_isDigit]

theorem sub_print_chars {s : Sub} (hs : s.Shape) : ∀ c ∈ s.print, subChar c = true := by
  cases s with
  | one => intro c hc; simp [Sub.print] at hc
  | dec d => exact dec_print_chars d
  | junk t => exact hs.2.1

theorem stop_sub_lower {s : Sub} (hs : s.Shape) {r : List Char} (hr : Stop r) :
    isLowerC (cAt (s.print ++ r) 0) = false := by
  cases hp : s.print with
  | nil => simpa using hr.1
  | cons c t =>
    have := sub_print_chars hs c (by rw [hp]; simp)
    simpa using (subChar_facts this).2.2.2.2

/-- the `ndots` loop on a run of subscript characters followed by a stop -/
theorem scanSub_spec (s : List Char) (hs : ∀ c ∈ s, subChar c = true) {r : List Char} (hr : Stop r) :
    scanSub (s ++ r) = (s.length, (s.drop 1).count '.') := by
  induction s with
  | nil =>
    cases r with
    | nil => rfl
    | cons c t =>
      have h2 := hr.2
      simp only [cAt_cons_zero, subChar] at h2
      simp [scanSub, h2]
  | cons c t ih =>
    have hc := hs c (by simp)
    have iht := ih (fun x hx => hs x (by simp [hx]))
    simp only [subChar] at hc
    simp only [List.cons_append, scanSub, hc, if_true, iht, List.drop_succ_cons, List.drop_zero, List.length_cons]
    congr 1
    cases t with
    | nil =>
      have h2 := hr.2
      simp only [subChar, Bool.or_eq_false_iff, decide_eq_false_iff_not] at h2
      simp [h2.2]
    | cons d t' =>
      simp only [List.cons_append, cAt_cons_zero, List.drop_succ_cons, List.drop_zero, List.count_cons]
      by_cases hd : d = '.'
      · simp [hd]
      · simp [hd]

theorem digitsVal_digits (ds : List (Fin 10)) : digitsVal (ds.map digitChar) = natOfDigits ds := by
  unfold digitsVal natOfDigits
  generalize 0 = a
  induction ds generalizing a with
  | nil => rfl
  | cons d t ih => simp only [List.map_cons, List.foldl_cons, digitChar_val]; exact ih _

theorem takeWhile_digits (ds : List (Fin 10)) (r : List Char) (hr : isDigitC (cAt r 0) = false) :
    (ds.map digitChar ++ r).takeWhile isDigitC = ds.map digitChar ∧
    (ds.map digitChar ++ r).dropWhile isDigitC = r := by
  have hall : ∀ a ∈ ds.map digitChar, isDigitC a = true := by
    intro a ha; simp only [List.mem_map] at ha; obtain ⟨x, _, rfl⟩ := ha; exact digitChar_isDigit x
  rw [List.takeWhile_append_of_pos hall, List.dropWhile_append_of_pos hall]
  cases r with
  | nil => simp
  | cons c t =>
    simp only [cAt_cons_zero] at hr
    simp [hr]

theorem count_dot_digits (ds : List (Fin 10)) : (ds.map digitChar).count '.' = 0 := by
  rw [List.count_eq_zero]
  intro h
  simp only [List.mem_map] at h
  obtain ⟨x, _, hx⟩ := h
  exact digitChar_ne_dot x hx

theorem dec_print_length (d : Dec) :
    d.print.length = d.ip.length + (match d.fp with | none => 0 | some f => 1 + f.length) := by
  cases h : d.fp <;> simp [Dec.print, h]; omega

/-- `strtod` reads a printed numeral completely and exactly -/
theorem strtod_dec {d : Dec} (hd : d.shape) : strtod d.print = (d.print.length, d.value) := by
  unfold Dec.shape Dec.fracDigits at hd
  cases hfp : d.fp with
  | none =>
    simp only [hfp, Option.getD_none, List.length_nil, Nat.add_zero] at hd
    have h1 := takeWhile_digits d.ip [] (by decide)
    simp only [List.append_nil] at h1
    have hne : (d.ip.map digitChar).isEmpty = false := by
      cases hip : d.ip with
      | nil => simp [hip] at hd
      | cons a b => rfl
    simp only [strtod, Dec.print, hfp, List.append_nil, h1.1, h1.2, hne, Dec.value, Dec.fracDigits, Option.getD_none,
      List.length_nil, pow_zero, Nat.cast_one, div_one, digitsVal_digits, List.length_map]
    rfl
  | some f =>
    simp only [hfp, Option.getD_some] at hd
    have h1 := takeWhile_digits d.ip ('.' :: f.map digitChar) (by simpa using dot_not_digit)
    have h2 := takeWhile_digits f [] (by decide)
    simp only [List.append_nil] at h2
    have hne : ((d.ip.map digitChar).isEmpty && (f.map digitChar).isEmpty) = false := by
      cases hip : d.ip with
      | nil =>
        cases hf : f with
        | nil => simp [hip, hf] at hd
        | cons a b => rfl
      | cons a b => rfl
    simp only [strtod, Dec.print, hfp, h1.1, h1.2, h2.1, hne, Dec.value, Dec.fracDigits, Option.getD_some,
      ← List.map_append, digitsVal_digits, List.length_map, List.length_append, List.length_cons]
    simp only [Bool.false_eq_true, if_false]
    congr 1
    omega

theorem dec_print_ndots (d : Dec) : (d.print.drop 1).count '.' ≤ 1 := by
  have hle : (d.print.drop 1).count '.' ≤ d.print.count '.' := by
    cases h : d.print with
    | nil => simp
    | cons c t => simp only [List.drop_succ_cons, List.drop_zero, List.count_cons]; omega
  have : d.print.count '.' ≤ 1 := by
    cases hfp : d.fp with
    | none => simp [Dec.print, hfp, count_dot_digits]
    | some f => simp [Dec.print, hfp, List.count_append, count_dot_digits]
  omega

theorem dec_print_ne_nil {d : Dec} (hd : d.shape) : d.print.length ≠ 0 := by
  rw [dec_print_length]
  unfold Dec.shape Dec.fracDigits at hd
  cases hfp : d.fp with
  | none =>
    simp only [hfp, Option.getD_none, List.length_nil, Nat.add_zero] at hd ⊢
    omega
  | some f => simp only []; omega

/-- a subscript the variant `v` of the code converts to a count: positive, not rounded to `0.0` by `strtod`, and —
    with the repair C07-5 — not rounded to `+inf` -/
def SubOK (v : Variant) (s : Sub) : Prop :=
  s.Pos ∧ dblRoundsToZero s.value = false ∧ (v.rangeFix = true → dblRoundsToInf s.value = false)

/-- `Formula.Known` with `SubOK v` in the place of `Sub.Pos`: the formulas the variant `v` accepts (given weights) -/
def KnownV (v : Variant) (E : Elements) : Formula → Prop
  | .nil => True
  | .atom sym sub rest => (E.zOf sym).isSome ∧ SubOK v sub ∧ KnownV v E rest
  | .group inner sub rest => inner ≠ .nil ∧ KnownV v E inner ∧ SubOK v sub ∧ KnownV v E rest

theorem KnownV.known {E : Elements} : ∀ {f : Formula}, KnownV v E f → f.Known E
  | .nil, _ => trivial
  | .atom _ _ _, h => ⟨h.1, h.2.1.1, KnownV.known h.2.2⟩
  | .group _ _ _, h => ⟨h.1, KnownV.known h.2.1, h.2.2.1.1, KnownV.known h.2.2.2⟩

theorem subOK_of_fits {s : Sub} (hp : s.Pos) (hf : s.Fits) : SubOK v s := ⟨hp, hf.1, fun _ => hf.2⟩

/-- a formula with known symbols and positive subscripts that a double can hold is accepted by every variant -/
theorem knownV_of_fits {E : Elements} : ∀ {f : Formula}, f.Known E → f.Fits → KnownV v E f
  | .nil, _, _ => trivial
  | .atom _ _ _, hk, hf => ⟨hk.1, subOK_of_fits hk.2.1 hf.1, knownV_of_fits hk.2.2 hf.2⟩
  | .group _ _ _, hk, hf => ⟨hk.1, knownV_of_fits hk.2.1 hf.1, subOK_of_fits hk.2.2.1 hf.2.1, knownV_of_fits hk.2.2.2 hf.2.2⟩

/-- well-formed for the variant `v` -/
def WFV (v : Variant) (E : Elements) (f : Formula) : Prop := f ≠ .nil ∧ f.Shape ∧ KnownV v E f

theorem WFV.wf {E : Elements} {f : Formula} (h : WFV v E f) : f.WF E := ⟨h.1, h.2.1, h.2.2.known⟩

theorem wfv_of_fits {E : Elements} {f : Formula} (h : f.WF E) (hf : f.Fits) : WFV v E f :=
  ⟨h.1, h.2.1, knownV_of_fits h.2.2 hf⟩

theorem pos_of_not_roundsToZero {q : Rat} (h : dblRoundsToZero q = false) : 0 < q := by
  by_contra hq
  have hn : q.num ≤ 0 := Rat.num_nonpos.2 (not_lt.1 hq)
  have h1 : q.num * (2 : Int) ^ 1075 ≤ 0 := mul_nonpos_of_nonpos_of_nonneg hn (by positivity)
  have h2 : (0 : Int) ≤ (q.den : Int) := Int.natCast_nonneg _
  have : q.num * (2 : Int) ^ 1075 ≤ (q.den : Int) := le_trans h1 h2
  simp [dblRoundsToZero, this] at h

theorem subOK_one : SubOK v .one := by
  refine ⟨trivial, ?_, fun _ => ?_⟩ <;> simp only [Sub.value] <;> decide +kernel

/-- lines 135-163 on a well-formed subscript: the value of the numeral (1 when there is none) -/
theorem subscript_ok (zeroErr : List Char → Err) {s : Sub} (hs : s.Shape) (hp : SubOK v s) {r : List Char} (hr : Stop r) :
    subscript v zeroErr (s.print ++ r) = .ok s.value := by
  cases s with
  | junk t => exact absurd hp.1 (by simp [Sub.Pos])
  | one =>
    have := scanSub_spec [] (by simp) hr
    simp only [List.nil_append] at this
    simp [subscript, Sub.print, this, Sub.value]
  | dec d =>
    have hsc := scanSub_spec d.print (dec_print_chars d) hr
    have hnd := dec_print_ndots d
    have hlen := dec_print_ne_nil hs
    have htake : (d.print ++ r).take d.print.length = d.print := List.take_left' rfl
    have h2 : (v.rangeFix && dblRoundsToInf d.value) = false := by
      cases hr' : v.rangeFix
      · rfl
      · simpa [Sub.value] using hp.2.2 hr'
    have h3 : dblRoundsToZero d.value = false := hp.2.1
    simp only [subscript, Sub.print, hsc, htake, strtod_dec hs, Sub.value]
    rw [if_neg (by omega), if_neg hlen]
    simp [h2, h3]

/-! ## symbols -/

/-- lines 125-206 on `symbol subscript` followed by a stop -/
theorem parseAtom_ok (T : Tables) {sym : List Char} (hsym : SymShape sym) {Z : Nat} (hZ : lookupSym T sym = some Z)
    {s : Sub} (hs : s.Shape) (hp : SubOK v s) {r : List Char} (hr : Stop r) :
    parseAtom v T (sym ++ s.print ++ r) = .ok (Z, s.value) := by
  have hsub := subscript_ok (fun _ => Err.zero) hs hp hr
  have hlow := stop_sub_lower hs hr
  rcases hsym with ⟨u, rfl, hu⟩ | ⟨u, l, rfl, hu, hl⟩
  · simp only [parseAtom, List.cons_append, List.nil_append, cAt_cons_succ, hlow,
      Bool.false_and, Bool.not_false, if_true, List.take_succ_cons, List.take_zero, hZ, List.drop_succ_cons, List.drop_zero, hsub]
    simp
  · simp only [parseAtom, List.cons_append, List.nil_append, cAt_cons_succ, cAt_cons_zero, hl, hlow,
      Bool.not_false, Bool.and_self, if_true, List.take_succ_cons, List.take_zero, hZ, List.drop_succ_cons, List.drop_zero, hsub]

/-! ## the first pass -/

theorem pass1_sub_step {c : Char} (hc : subChar c = true) (rest : List Char) (prev : Char) (U B E : List (List Char)) :
    pass1 v (c :: rest) prev ⟨0, U, B, E⟩ = pass1 v rest c ⟨0, U, B, E⟩ := by
  obtain ⟨h1, h2, h3, h4, h5⟩ := subChar_facts hc
  simp only [subChar] at hc
  rw [pass1]
  simp [h1, h2, h3, h4, h5, hc]

theorem pass1_subs (s : List Char) (hs : ∀ c ∈ s, subChar c = true) (t : List Char) (U B E : List (List Char)) :
    ∀ prev, ∃ prev', pass1 v (s ++ t) prev ⟨0, U, B, E⟩ = pass1 v t prev' ⟨0, U, B, E⟩ := by
  induction s with
  | nil => intro prev; exact ⟨prev, rfl⟩
  | cons c s' ih =>
    intro prev
    obtain ⟨p', hp'⟩ := ih (fun x hx => hs x (by simp [hx])) c
    exact ⟨p', by rw [List.cons_append, pass1_sub_step (hs c (by simp)), hp']⟩

theorem pass1_deep_step {c : Char} (h1 : c ≠ '(') (h2 : c ≠ ')') (rest : List Char) (prev : Char) (n : Nat)
    (U B E : List (List Char)) :
    pass1 v (c :: rest) prev ⟨n + 1, U, B, E⟩ = pass1 v rest c ⟨n + 1, U, B, E⟩ := by
  rw [pass1]; simp [h1, h2]

/-- characters other than parentheses inside a bracket are skipped -/
theorem pass1_deep_plain (s : List Char) (hs : ∀ c ∈ s, c ≠ '(' ∧ c ≠ ')') (t : List Char) (n : Nat)
    (U B E : List (List Char)) :
    ∀ prev, ∃ prev', pass1 v (s ++ t) prev ⟨n + 1, U, B, E⟩ = pass1 v t prev' ⟨n + 1, U, B, E⟩ := by
  induction s with
  | nil => intro prev; exact ⟨prev, rfl⟩
  | cons c s' ih =>
    intro prev
    obtain ⟨p', hp'⟩ := ih (fun x hx => hs x (by simp [hx])) c
    have := hs c (by simp)
    exact ⟨p', by rw [List.cons_append, pass1_deep_step this.1 this.2, hp']⟩

theorem sym_chars_plain {sym : List Char} (h : SymShape sym) : ∀ c ∈ sym, c ≠ '(' ∧ c ≠ ')' := by
  rcases h with ⟨u, rfl, hu⟩ | ⟨u, l, rfl, hu, hl⟩
  · intro c hc; simp at hc; subst hc; exact ⟨(upper_ne hu).1, (upper_ne hu).2.1⟩
  · intro c hc; simp at hc
    rcases hc with rfl | rfl
    · exact ⟨(upper_ne hu).1, (upper_ne hu).2.1⟩
    · exact ⟨(lower_ne hl).1, (lower_ne hl).2.1⟩

theorem sub_chars_plain {s : Sub} (h : s.Shape) : ∀ c ∈ s.print, c ≠ '(' ∧ c ≠ ')' := by
  intro c hc
  have := subChar_facts (sub_print_chars h c hc)
  exact ⟨this.1, this.2.1⟩

/-- a printed formula inside a bracket (depth ≥ 1) leaves the scanner state unchanged -/
theorem pass1_deep (f : Formula) (hf : f.Shape) :
    ∀ (t : List Char) (n : Nat) (U B E : List (List Char)) (prev : Char),
      ∃ prev', pass1 v (f.printL ++ t) prev ⟨n + 1, U, B, E⟩ = pass1 v t prev' ⟨n + 1, U, B, E⟩ := by
  induction f with
  | nil => intro t n U B E prev; exact ⟨prev, rfl⟩
  | atom sym sub rest ih =>
    intro t n U B E prev
    obtain ⟨p1, h1⟩ := pass1_deep_plain sym (sym_chars_plain hf.1) (sub.print ++ (rest.printL ++ t)) n U B E prev
    obtain ⟨p2, h2⟩ := pass1_deep_plain sub.print (sub_chars_plain hf.2.1) (rest.printL ++ t) n U B E p1
    obtain ⟨p3, h3⟩ := ih hf.2.2 t n U B E p2
    exact ⟨p3, by simp only [Formula.printL, List.append_assoc]; rw [h1, h2, h3]⟩
  | group inner sub rest ih1 ih2 =>
    intro t n U B E prev
    obtain ⟨p1, h1⟩ := ih1 hf.1 (')' :: (sub.print ++ (rest.printL ++ t))) (n + 1) U B E '('
    obtain ⟨p2, h2⟩ := pass1_deep_plain sub.print (sub_chars_plain hf.2.1) (rest.printL ++ t) n U B E ')'
    obtain ⟨p3, h3⟩ := ih2 hf.2.2 t n U B E p2
    refine ⟨p3, ?_⟩
    simp only [Formula.printL, List.cons_append, List.append_assoc]
    rw [pass1]
    simp only [if_true, Nat.add_eq_zero_iff, Nat.one_ne_zero, and_false, if_false]
    rw [h1, pass1]
    simp only [Char.reduceEq, if_false, if_true, Nat.add_eq_zero_iff, Nat.one_ne_zero, and_false, Nat.add_sub_cancel,
      Nat.add_eq_right]
    rw [h2, h3]

/-- pointers recorded by the first pass at depth 0: `upper_locs`, `brackets_begin_locs`, `brackets_end_locs` -/
def ups : Formula → List Char → List (List Char)
  | .nil, _ => []
  | .atom sym sub rest, t => (sym ++ sub.print ++ (rest.printL ++ t)) :: ups rest t
  | .group _ _ rest, t => ups rest t

def begs : Formula → List Char → List (List Char)
  | .nil, _ => []
  | .atom _ _ rest, t => begs rest t
  | .group inner sub rest, t => ('(' :: (inner.printL ++ ')' :: (sub.print ++ (rest.printL ++ t)))) :: begs rest t

def ens : Formula → List Char → List (List Char)
  | .nil, _ => []
  | .atom _ _ rest, t => ens rest t
  | .group _ sub rest, t => (')' :: (sub.print ++ (rest.printL ++ t))) :: ens rest t

theorem pass1_upper_step {c : Char} (hc : isUpperC c = true) (rest : List Char) (prev : Char) (U B E : List (List Char)) :
    pass1 v (c :: rest) prev ⟨0, U, B, E⟩ = pass1 v rest c ⟨0, U ++ [c :: rest], B, E⟩ := by
  obtain ⟨h1, h2, h3, h4⟩ := upper_ne hc
  rw [pass1]; simp [h1, h2, hc]

theorem pass1_lower_step {c : Char} (hc : isLowerC c = true) {prev : Char} (hp : isUpperC prev = true) (rest : List Char)
    (U B E : List (List Char)) :
    pass1 v (c :: rest) prev ⟨0, U, B, E⟩ = pass1 v rest c ⟨0, U, B, E⟩ := by
  obtain ⟨h1, h2, h3, h4⟩ := lower_ne hc
  rw [pass1]; simp [h1, h2, h3, hc, hp, upper_not_digit hp, lower_not_upper hc]

/-- the first pass over a printed formula at depth 0 records exactly the top-level symbols and bracket pairs -/
theorem pass1_top (f : Formula) (hf : f.Shape) :
    ∀ (t : List Char) (U B E : List (List Char)) (prev : Char),
      ∃ prev', pass1 v (f.printL ++ t) prev ⟨0, U, B, E⟩ = pass1 v t prev' ⟨0, U ++ ups f t, B ++ begs f t, E ++ ens f t⟩ := by
  induction f with
  | nil => intro t U B E prev; exact ⟨prev, by simp [Formula.printL, ups, begs, ens]⟩
  | atom sym sub rest ih =>
    intro t U B E prev
    obtain ⟨u, tl, rfl, hu, htl⟩ := symShape_cases hf.1
    have hstep : ∃ p1, pass1 v ((u :: tl) ++ (sub.print ++ (rest.printL ++ t))) prev ⟨0, U, B, E⟩
        = pass1 v (sub.print ++ (rest.printL ++ t)) p1 ⟨0, U ++ [(u :: tl) ++ (sub.print ++ (rest.printL ++ t))], B, E⟩ := by
      rcases htl with rfl | ⟨l, rfl, hl⟩
      · exact ⟨u, by rw [List.cons_append, pass1_upper_step hu]; rfl⟩
      · refine ⟨l, ?_⟩
        rw [List.cons_append, pass1_upper_step hu, List.cons_append, pass1_lower_step hl hu]
        rfl
    obtain ⟨p1, h1⟩ := hstep
    obtain ⟨p2, h2⟩ := pass1_subs sub.print (sub_print_chars hf.2.1) (rest.printL ++ t)
      (U ++ [(u :: tl) ++ (sub.print ++ (rest.printL ++ t))]) B E p1
    obtain ⟨p3, h3⟩ := ih hf.2.2 t (U ++ [(u :: tl) ++ (sub.print ++ (rest.printL ++ t))]) B E p2
    refine ⟨p3, ?_⟩
    simp only [Formula.printL, List.append_assoc, ups, begs, ens]
    rw [h1, h2, h3]
    simp [List.append_assoc]
  | group inner sub rest ih1 ih2 =>
    intro t U B E prev
    obtain ⟨p1, h1⟩ := pass1_deep inner hf.1 (')' :: (sub.print ++ (rest.printL ++ t))) 0 U
      (B ++ ['(' :: (inner.printL ++ ')' :: (sub.print ++ (rest.printL ++ t)))]) E '('
    obtain ⟨p2, h2⟩ := pass1_subs sub.print (sub_print_chars hf.2.1) (rest.printL ++ t) U
      (B ++ ['(' :: (inner.printL ++ ')' :: (sub.print ++ (rest.printL ++ t)))])
      (E ++ [')' :: (sub.print ++ (rest.printL ++ t))]) ')'
    obtain ⟨p3, h3⟩ := ih2 hf.2.2 t U
      (B ++ ['(' :: (inner.printL ++ ')' :: (sub.print ++ (rest.printL ++ t)))])
      (E ++ [')' :: (sub.print ++ (rest.printL ++ t))]) p2
    refine ⟨p3, ?_⟩
    simp only [Formula.printL, List.cons_append, List.append_assoc, ups, begs, ens]
    rw [pass1]
    simp only [if_true]
    rw [h1, pass1]
    simp only [Char.reduceEq, if_false, if_true, Nat.zero_add, Nat.one_ne_zero, Nat.sub_self]
    rw [h2, h3]
    simp [List.append_assoc]

/-- the text of a shaped formula passes the first pass of every variant (in particular the strict one) -/
theorem pass1_print_ok (f : Formula) (hf : f.Shape) : ∃ st, pass1 v f.printL '\x00' {} = .ok st := by
  obtain ⟨p, hp⟩ := pass1_top (v := v) f hf [] [] [] [] '\x00'
  simp only [List.append_nil, List.nil_append, pass1] at hp
  exact ⟨_, hp⟩

theorem sub_fits_of_subOK (hv : v.rangeFix = true) {s : Sub} (h : SubOK v s) : s.Fits := ⟨h.2.1, h.2.2 hv⟩

/-- with the repair C07-5 the accepted formulas have subscripts a double can hold -/
theorem fits_of_knownV (hv : v.rangeFix = true) {E : Elements} : ∀ {f : Formula}, KnownV v E f → f.Fits
  | .nil, _ => trivial
  | .atom _ _ _, h => ⟨sub_fits_of_subOK hv h.2.1, fits_of_knownV hv h.2.2⟩
  | .group _ _ _, h => ⟨fits_of_knownV hv h.2.1, sub_fits_of_subOK hv h.2.2.1, fits_of_knownV hv h.2.2.2⟩

end XrlParser
