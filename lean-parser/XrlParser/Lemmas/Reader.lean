import XrlParser.Lemmas.Strict
/-!
# The recogniser of the specification decides derivability from the grammar

`Spec.read` (the recursive-descent reader the oracle uses) is exact: `read s = some f` iff `f` is shaped and
`printL f = s`.  Hence `read s = none` iff `s` is not the text of any formula of the grammar — the class for which the
oracle answers `expect reject not-a-formula`, and the hypothesis of `parse_rejects_nonformula_full`.
-/
namespace XrlParser
open Hand Spec

/-! ## digits -/

theorem digit_roundtrip : ∀ d : Fin 10, (⟨((digitChar d).toNat - 48) % 10, Nat.mod_lt _ (by decide)⟩ : Fin 10) = d := by decide

theorem readDigits_print (ds : List (Fin 10)) (r : List Char) (hr : isDigitC (cAt r 0) = false) :
    readDigits (ds.map digitChar ++ r) = (ds, r) := by
  induction ds with
  | nil =>
    cases r with
    | nil => rfl
    | cons c t =>
      simp only [cAt_cons_zero] at hr
      simp [readDigits, hr]
  | cons d t ih =>
    simp only [List.map_cons, List.cons_append, readDigits, digitChar_isDigit, if_true, ih, digit_roundtrip]

/-- what `readDigits` returns: the digits read and the remainder, which does not start with a digit -/
theorem readDigits_spec : ∀ (l : List Char) (ds : List (Fin 10)) (r : List Char), readDigits l = (ds, r) →
    l = ds.map digitChar ++ r ∧ isDigitC (cAt r 0) = false := by
  intro l
  induction l with
  | nil => intro ds r h; simp only [readDigits, Prod.mk.injEq] at h; obtain ⟨rfl, rfl⟩ := h; exact ⟨rfl, by decide⟩
  | cons c t ih =>
    intro ds r h
    by_cases hc : isDigitC c = true
    · simp only [readDigits, hc, if_true] at h
      cases hrd : readDigits t with
      | mk ds' r' =>
        rw [hrd] at h
        simp only [Prod.mk.injEq] at h
        obtain ⟨rfl, rfl⟩ := h
        obtain ⟨h1, h2⟩ := ih ds' r' hrd
        refine ⟨?_, h2⟩
        obtain ⟨d, hd⟩ := digit_of_char hc
        subst hd
        simp only [List.map_cons, List.cons_append, digit_roundtrip]
        rw [← h1]
    · simp only [readDigits, hc] at h
      simp only [Bool.false_eq_true, if_false, Prod.mk.injEq] at h
      obtain ⟨rfl, rfl⟩ := h
      exact ⟨rfl, by simpa using hc⟩

/-! ## subscripts -/

theorem takeWhile_sub_print {s : Sub} (hs : s.Shape) {r : List Char} (hr : Stop r) :
    (s.print ++ r).takeWhile subChar = s.print ∧ (s.print ++ r).dropWhile subChar = r := by
  have hall := sub_print_chars hs
  rw [List.takeWhile_append_of_pos hall, List.dropWhile_append_of_pos hall]
  cases r with
  | nil => simp
  | cons c t =>
    have := hr.2
    simp only [cAt_cons_zero] at this
    simp [this]

theorem count_dot_digits' (ds : List (Fin 10)) : (ds.map digitChar).count '.' = 0 := count_dot_digits ds

/-- the reader gives back the subscript that was printed -/
theorem readSub_print {s : Sub} (hs : s.Shape) {r : List Char} (hr : Stop r) : readSub (s.print ++ r) = (s, r) := by
  obtain ⟨htw, hdw⟩ := takeWhile_sub_print hs hr
  unfold readSub
  simp only [htw, hdw]
  cases s with
  | one => simp [Sub.print]
  | dec d =>
    have hne : d.print.isEmpty = false := by
      have := dec_print_ne_nil hs
      cases hp : d.print with
      | nil => rw [hp] at this; simp at this
      | cons a b => rfl
    simp only [Sub.print, hne, Bool.false_eq_true, if_false]
    have hs' : d.shape := hs
    unfold Dec.shape Dec.fracDigits at hs'
    obtain ⟨ip, fp⟩ := d
    cases fp with
    | none =>
      have h1 := readDigits_print ip [] (by decide)
      simp only [List.append_nil] at h1
      simp only [Dec.print, List.append_nil, h1]
    | some f =>
      have h1 := readDigits_print ip ('.' :: f.map digitChar) (by simpa using dot_not_digit)
      have h2 := readDigits_print f [] (by decide)
      simp only [List.append_nil] at h2
      simp only [Option.getD_some] at hs'
      have hb : (ip.isEmpty && f.isEmpty) = false := by
        cases ip with
        | nil =>
          cases f with
          | nil => simp at hs'
          | cons a b => rfl
        | cons a b => rfl
      simp only [Dec.print, h1, h2, List.isEmpty_nil, hb, Bool.not_false, Bool.and_self, if_true]
  | junk t =>
    obtain ⟨hne, hall, hj⟩ := hs
    have hne' : t.isEmpty = false := by
      cases t with
      | nil => exact absurd rfl hne
      | cons a b => rfl
    simp only [Sub.print, hne', Bool.false_eq_true, if_false]
    obtain ⟨hsplit, hnd⟩ := readDigits_spec t _ _ rfl
    split
    · rename_i hnil
      exfalso
      rw [hnil, List.append_nil] at hsplit
      rcases hj with hj | hj
      · rw [hsplit, count_dot_digits] at hj; omega
      · cases hip : (readDigits t).1 with
        | nil => rw [hip] at hsplit; exact hne hsplit
        | cons a b =>
          have := hj (digitChar a) (by rw [hsplit, hip]; simp)
          rw [digitChar_isDigit] at this; cases this
    · rename_i r' hcons
      obtain ⟨hsplit2, _⟩ := readDigits_spec r' _ _ rfl
      by_cases hgood : ((readDigits r').2.isEmpty && !((readDigits t).1.isEmpty && (readDigits r').1.isEmpty)) = true
      · exfalso
        simp only [Bool.and_eq_true, List.isEmpty_iff, Bool.not_eq_eq_eq_not, Bool.not_true,
          Bool.and_eq_false_iff] at hgood
        obtain ⟨hr2, hnon⟩ := hgood
        rw [hr2, List.append_nil] at hsplit2
        rw [hcons] at hsplit
        rcases hj with hj | hj
        · rw [hsplit, hsplit2, List.count_append, List.count_cons, count_dot_digits, count_dot_digits] at hj
          simp at hj
        · rcases hnon with hnon | hnon
          · cases hip : (readDigits t).1 with
            | nil => rw [hip] at hnon; simp at hnon
            | cons a b =>
              have := hj (digitChar a) (by rw [hsplit, hip]; simp)
              rw [digitChar_isDigit] at this; cases this
          · cases hfp : (readDigits r').1 with
            | nil => rw [hfp] at hnon; simp at hnon
            | cons a b =>
              have := hj (digitChar a) (by rw [hsplit, hsplit2, hfp]; simp)
              rw [digitChar_isDigit] at this; cases this
      · exact if_neg hgood
    · rfl

/-- what the reader returns is a shaped subscript whose text, followed by the remainder, is the input; the
    remainder does not start with a subscript character -/
theorem readSub_sound (s : List Char) (sub : Sub) (r : List Char) (h : readSub s = (sub, r)) :
    sub.Shape ∧ s = sub.print ++ r ∧ subChar (cAt r 0) = false := by
  have hsplit := List.takeWhile_append_dropWhile (p := subChar) (l := s)
  have hall : ∀ x ∈ s.takeWhile subChar, subChar x = true := mem_takeWhile s
  have hstop : subChar (cAt (s.dropWhile subChar) 0) = false := by
    cases hd : s.dropWhile subChar with
    | nil => decide
    | cons c t =>
      have := List.head_dropWhile_not subChar (l := s) (by rw [hd]; simp)
      simpa [hd] using this
  unfold readSub at h
  simp only [] at h
  by_cases he : (s.takeWhile subChar).isEmpty = true
  · rw [if_pos he] at h
    simp only [Prod.mk.injEq] at h
    obtain ⟨rfl, rfl⟩ := h
    have he' : s.takeWhile subChar = [] := by simpa using he
    rw [he', List.nil_append] at hsplit
    exact ⟨trivial, by simp [Sub.print], by rw [← hsplit]; exact hstop⟩
  · rw [if_neg he] at h
    have hne : s.takeWhile subChar ≠ [] := by simpa using he
    obtain ⟨hs1, hnd⟩ := readDigits_spec (s.takeWhile subChar) _ _ rfl
    -- the junk verdict, once the run is known to be junk
    have hjunk : (List.count '.' (s.takeWhile subChar) ≥ 2 ∨ ∀ c ∈ s.takeWhile subChar, isDigitC c = false) →
        (Sub.junk (s.takeWhile subChar)).Shape ∧ s = (Sub.junk (s.takeWhile subChar)).print ++ s.dropWhile subChar ∧
          subChar (cAt (s.dropWhile subChar) 0) = false :=
      fun hj => ⟨⟨hne, hall, hj⟩, by simp [Sub.print, hsplit], hstop⟩
    split at h
    · rename_i hnil
      simp only [Prod.mk.injEq] at h
      obtain ⟨rfl, rfl⟩ := h
      rw [hnil, List.append_nil] at hs1
      refine ⟨?_, by simp [Sub.print, Dec.print, ← hs1, hsplit], hstop⟩
      show 0 < (readDigits (s.takeWhile subChar)).1.length + (Dec.mk (readDigits (s.takeWhile subChar)).1 none).fracDigits.length
      have : (readDigits (s.takeWhile subChar)).1 ≠ [] := by intro hip; rw [hip] at hs1; exact hne hs1
      have : (readDigits (s.takeWhile subChar)).1.length ≠ 0 := fun hh => this (List.length_eq_zero_iff.1 hh)
      omega
    · rename_i r' hcons
      rw [hcons] at hs1
      obtain ⟨hs2, hnd2⟩ := readDigits_spec r' _ _ rfl
      split at h
      · rename_i hgood
        simp only [Prod.mk.injEq] at h
        obtain ⟨rfl, rfl⟩ := h
        simp only [Bool.and_eq_true, List.isEmpty_iff, Bool.not_eq_eq_eq_not, Bool.not_true,
          Bool.and_eq_false_iff] at hgood
        obtain ⟨hr2, hnon⟩ := hgood
        rw [hr2, List.append_nil] at hs2
        refine ⟨?_, by simp [Sub.print, Dec.print, ← hs2, ← hs1, hsplit], hstop⟩
        show 0 < (readDigits (s.takeWhile subChar)).1.length +
          (Dec.mk (readDigits (s.takeWhile subChar)).1 (some (readDigits r').1)).fracDigits.length
        simp only [Dec.fracDigits, Option.getD_some]
        rcases hnon with hnon | hnon
        · have : (readDigits (s.takeWhile subChar)).1.length ≠ 0 := fun hh => by
            rw [List.length_eq_zero_iff.1 hh] at hnon; simp at hnon
          omega
        · have : (readDigits r').1.length ≠ 0 := fun hh => by
            rw [List.length_eq_zero_iff.1 hh] at hnon; simp at hnon
          omega
      · rename_i hgood
        simp only [Prod.mk.injEq] at h
        obtain ⟨rfl, rfl⟩ := h
        apply hjunk
        by_cases hr2 : (readDigits r').2 = []
        · -- then both digit sequences are empty: the run is "."
          have hboth : (readDigits (s.takeWhile subChar)).1 = [] ∧ (readDigits r').1 = [] := by
            simp only [hr2, List.isEmpty_nil, Bool.true_and, Bool.not_eq_true', Bool.not_eq_false,
              Bool.and_eq_true, List.isEmpty_iff] at hgood
            simpa using hgood
          right
          rw [hs1, hs2, hboth.1, hboth.2, hr2]
          intro x hx
          simp only [List.map_nil, List.nil_append, List.append_nil, List.mem_singleton] at hx
          subst hx; decide
        · left
          -- the remainder starts with a second point
          cases hr2' : (readDigits r').2 with
          | nil => exact absurd hr2' hr2
          | cons c2 r2' =>
            rw [hr2'] at hs2 hnd2
            have hc2mem : c2 ∈ s.takeWhile subChar := by rw [hs1, hs2]; simp
            have hc2 : c2 = '.' := by
              simp only [cAt_cons_zero] at hnd2
              exact subChar_not_digit (hall c2 hc2mem) (by simp [hnd2])
            subst hc2
            rw [hs1, hs2]
            simp only [List.count_append, List.count_cons, count_dot_digits]
            simp
    · rename_i hnot1 hnot2
      -- the remainder of the digits starts with a character that is neither a digit nor the point: impossible in a run
      exfalso
      cases hr1 : (readDigits (s.takeWhile subChar)).2 with
      | nil => exact hnot1 hr1
      | cons c r' =>
        rw [hr1] at hs1 hnd
        have hcmem : c ∈ s.takeWhile subChar := by rw [hs1]; simp
        have hcdot : c = '.' := by
          simp only [cAt_cons_zero] at hnd
          exact subChar_not_digit (hall c hcmem) (by simp [hnd])
        exact hnot2 r' (by rw [hr1, hcdot])

/-! ## formulas -/

theorem stop_of_cont {t : List Char} (ht : t = [] ∨ ∃ t', t = ')' :: t') : Stop t := by
  rcases ht with rfl | ⟨t', rfl⟩
  · exact stop_nil
  · exact stop_close t'

/-- the reader gives back the formula that was printed: `t` is the continuation (nothing at depth 0, a closing
    parenthesis inside a group) -/
theorem readItems_print (f : Formula) (hf : f.Shape) : ∀ (fuel depth : Nat) (t : List Char),
    (f.printL ++ t).length < fuel → ((t = [] ∧ depth = 0) ∨ ((∃ t', t = ')' :: t') ∧ depth ≠ 0)) →
    readItems fuel depth (f.printL ++ t) = some (f, t) := by
  induction f with
  | nil =>
    intro fuel depth t hlen ht
    cases fuel with
    | zero => omega
    | succ n =>
      rcases ht with ⟨rfl, rfl⟩ | ⟨⟨t', rfl⟩, hd⟩
      · rfl
      · simp [Formula.printL, readItems, hd]
  | atom sym sub rest ih =>
    intro fuel depth t hlen ht
    cases fuel with
    | zero => omega
    | succ n =>
      have hcont : t = [] ∨ ∃ t', t = ')' :: t' := ht.imp (·.1) (·.1)
      have hstop : Stop (rest.printL ++ t) := stop_printL hf.2.2 (stop_of_cont hcont)
      have hlow := stop_sub_lower hf.2.1 hstop
      have hsub := readSub_print hf.2.1 hstop
      have hlen' : (rest.printL ++ t).length < n := by
        simp only [Formula.printL, List.length_append, List.length_cons] at hlen ⊢
        obtain ⟨u, tl, rfl, _, _⟩ := symShape_cases hf.1
        simp only [List.length_cons] at hlen
        omega
      have hrest := ih hf.2.2 n depth t hlen' ht
      obtain ⟨u, tl, rfl, hu, htl⟩ := symShape_cases hf.1
      obtain ⟨h1, h2, _, _⟩ := upper_ne hu
      rcases htl with rfl | ⟨l, rfl, hl⟩
      · simp only [Formula.printL, List.cons_append, List.nil_append, List.append_assoc, readItems, h1, h2, if_false, hu, if_true]
        cases hsp : sub.print ++ (rest.printL ++ t) with
        | nil =>
          rw [hsp] at hsub
          simp only [hsub, hrest]
        | cons c r =>
          rw [hsp] at hsub hlow
          simp only [cAt_cons_zero] at hlow
          simp only [hlow, Bool.false_eq_true, if_false, hsub, hrest]
      · simp only [Formula.printL, List.cons_append, List.nil_append, List.append_assoc, readItems, h1, h2, if_false, hu, if_true,
          hl, hsub, hrest]
  | group inner sub rest ih1 ih2 =>
    intro fuel depth t hlen ht
    cases fuel with
    | zero => omega
    | succ n =>
      have hcont : t = [] ∨ ∃ t', t = ')' :: t' := ht.imp (·.1) (·.1)
      have hstop : Stop (rest.printL ++ t) := stop_printL hf.2.2 (stop_of_cont hcont)
      have hsub := readSub_print hf.2.1 hstop
      simp only [Formula.printL, List.cons_append, List.append_assoc, List.length_cons, List.length_append] at hlen
      have hin := ih1 hf.1 n (depth + 1) (')' :: (sub.print ++ (rest.printL ++ t)))
        (by simp only [List.length_append, List.length_cons]; omega) (Or.inr ⟨⟨_, rfl⟩, by omega⟩)
      have hrest := ih2 hf.2.2 n depth t (by simp only [List.length_append]; omega) ht
      simp only [Formula.printL, List.cons_append, List.append_assoc, readItems, Char.reduceEq, if_false, if_true, hin, hsub, hrest]

/-- **completeness** of the reader: the text of a shaped formula is read back as that formula -/
theorem read_print {f : Formula} (hf : f.Shape) : Spec.read f.printL = some f := by
  have := readItems_print f hf (f.printL.length + 1) 0 [] (by simp) (Or.inl ⟨rfl, rfl⟩)
  simp only [List.append_nil] at this
  simp [Spec.read, this]

/-- soundness of `readItems`: what it returns is a shaped formula whose text, followed by the remainder, is the input -/
theorem readItems_sound : ∀ (fuel depth : Nat) (s : List Char) (f : Formula) (r : List Char),
    readItems fuel depth s = some (f, r) → f.Shape ∧ s = f.printL ++ r := by
  intro fuel
  induction fuel with
  | zero => intro depth s f r h; simp [readItems] at h
  | succ n ih =>
    intro depth s f r h
    cases s with
    | nil =>
      simp only [readItems] at h
      split at h
      · simp only [Option.some.injEq, Prod.mk.injEq] at h
        obtain ⟨rfl, rfl⟩ := h
        exact ⟨trivial, rfl⟩
      · cases h
    | cons c t =>
      by_cases h1 : c = ')'
      · simp only [readItems, h1, if_true] at h
        split at h
        · cases h
        · simp only [Option.some.injEq, Prod.mk.injEq] at h
          obtain ⟨rfl, rfl⟩ := h
          exact ⟨trivial, by simp [Formula.printL, h1]⟩
      · by_cases h2 : c = '('
        · subst h2
          simp only [readItems, Char.reduceEq, if_false, if_true] at h
          split at h
          · rename_i inner r1 hin
            obtain ⟨hsi, hti⟩ := ih _ _ _ _ hin
            obtain ⟨sub, r2, hrs⟩ : ∃ sub r2, readSub r1 = (sub, r2) := ⟨_, _, rfl⟩
            obtain ⟨hss, hts, _⟩ := readSub_sound r1 sub r2 hrs
            rw [hrs] at h
            simp only [] at h
            split at h
            · rename_i rest r3 hre
              simp only [Option.some.injEq, Prod.mk.injEq] at h
              obtain ⟨rfl, rfl⟩ := h
              obtain ⟨hsr, htr⟩ := ih _ _ _ _ hre
              refine ⟨⟨hsi, hss, hsr⟩, ?_⟩
              rw [hti, hts, htr]
              simp [Formula.printL]
            · cases h
          · cases h
        · by_cases h3 : isUpperC c = true
          · -- the symbol
            have key : ∀ (sym r1 : List Char), SymShape sym → c :: t = sym ++ r1 →
                (match readItems n depth (readSub r1).2 with
                  | some (rest, r3) => some (Formula.atom sym (readSub r1).1 rest, r3)
                  | none => none) = some (f, r) → f.Shape ∧ c :: t = f.printL ++ r := by
              intro sym r1 hsh hsplit hh
              obtain ⟨sub, r2, hrs⟩ : ∃ sub r2, readSub r1 = (sub, r2) := ⟨_, _, rfl⟩
              obtain ⟨hss, hts, _⟩ := readSub_sound r1 sub r2 hrs
              rw [hrs] at hh
              simp only [] at hh
              split at hh
              · rename_i rest r3 hre
                simp only [Option.some.injEq, Prod.mk.injEq] at hh
                obtain ⟨rfl, rfl⟩ := hh
                obtain ⟨hsr, htr⟩ := ih _ _ _ _ hre
                refine ⟨⟨hsh, hss, hsr⟩, ?_⟩
                rw [hsplit, hts, htr]
                simp [Formula.printL]
              · cases hh
            cases t with
            | nil =>
              simp only [readItems, h1, h2, if_false, h3, if_true] at h
              exact key [c] [] (Or.inl ⟨c, rfl, h3⟩) rfl h
            | cons l r' =>
              by_cases hl : isLowerC l = true
              · simp only [readItems, h1, h2, if_false, h3, if_true, hl] at h
                exact key [c, l] r' (Or.inr ⟨c, l, rfl, h3, hl⟩) rfl h
              · simp only [readItems, h1, h2, if_false, h3, if_true, hl] at h
                exact key [c] (l :: r') (Or.inl ⟨c, rfl, h3⟩) rfl h
          · simp [readItems, h1, h2, h3] at h

/-- **soundness** of the reader -/
theorem read_sound {s : List Char} {f : Formula} (h : Spec.read s = some f) : f.Shape ∧ f.printL = s := by
  unfold Spec.read at h
  cases hr : readItems (s.length + 1) 0 s with
  | none => rw [hr] at h; simp at h
  | some p =>
    obtain ⟨g, r⟩ := p
    rw [hr] at h
    cases r with
    | nil =>
      simp only [Option.some.injEq] at h
      subst h
      obtain ⟨h1, h2⟩ := readItems_sound _ _ _ _ _ hr
      exact ⟨h1, by simpa using h2.symm⟩
    | cons c t => simp at h

/-- the recogniser decides derivability: `read s = none` exactly when `s` is not the text of a formula of the grammar -/
theorem read_none_iff (s : List Char) : Spec.read s = none ↔ ¬ ∃ f : Formula, f.Shape ∧ f.printL = s := by
  constructor
  · rintro h ⟨f, hf, rfl⟩
    rw [read_print hf] at h
    cases h
  · intro h
    cases hr : Spec.read s with
    | none => rfl
    | some f => exact absurd ⟨f, read_sound hr⟩ h

end XrlParser
