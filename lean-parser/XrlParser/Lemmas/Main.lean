import XrlParser.Lemmas.Comp
import XrlParser.Lemmas.Scan
/-!
# `CompoundParserSimple` on a printed well-formed formula computes the algebraic expansion
-/
namespace XrlParser
open Hand Spec

variable {v : Variant}

/-- the element table of the specification as the parser reads it from the model's tables:
    symbol ↦ Z by the `bsearch` in `MendelArraySorted`, weight by `AtomicWeight` (none when it fails). -/
def elementsOf (T : Tables) : Elements :=
  { zOf := lookupSym T,
    weight := fun z => if atomicWeight T z = 0 then none else some (atomicWeight T z) }

/-- expansion restricted to the top-level symbols / to the top-level groups -/
def evalA (E : Elements) : Formula → Nat → Rat
  | .nil, _ => 0
  | .atom sym sub rest, z => (if E.zOf sym = some z then sub.value else 0) + evalA E rest z
  | .group _ _ rest, z => evalA E rest z

def evalG (E : Elements) : Formula → Nat → Rat
  | .nil, _ => 0
  | .atom _ _ rest, z => evalG E rest z
  | .group inner sub rest, z => sub.value * inner.eval E z + evalG E rest z

theorem eval_split (E : Elements) (f : Formula) (z : Nat) : f.eval E z = evalA E f z + evalG E f z := by
  induction f with
  | nil => simp [Formula.eval, evalA, evalG]
  | atom sym sub rest ih => simp only [Formula.eval, evalA, evalG, ih]; ring
  | group inner sub rest _ ih => simp only [Formula.eval, evalA, evalG, ih]; ring

theorem sub_value_pos {s : Sub} (h : s.Pos) : 0 < s.value := by
  cases s with
  | one => simp [Sub.value]
  | dec d => exact h
  | junk t => exact absurd h (by simp [Sub.Pos])

/-- the loop over `upper_locs` adds the top-level symbols -/
theorem atomsLoop_ok (T : Tables) (f : Formula) (hf : f.Shape) (hk : KnownV v (elementsOf T) f) :
    ∀ (ca : Atoms) (g : Nat → Rat), Inv ca g →
      ∃ ca', atomsLoop v T (ups f []) ca = .ok ca' ∧ Inv ca' (fun z => g z + evalA (elementsOf T) f z) := by
  induction f with
  | nil => intro ca g h; exact ⟨ca, rfl, h.congr (by intro z; simp [evalA])⟩
  | atom sym sub rest ih =>
    intro ca g h
    obtain ⟨Z, hZ⟩ := Option.isSome_iff_exists.1 hk.1
    have hZ' : lookupSym T sym = some Z := hZ
    have hpa := parseAtom_ok (v := v) T hf.1 hZ' hf.2.1 hk.2.1 (stop_printL hf.2.2 stop_nil)
    have hv := sub_value_pos hk.2.1.1
    obtain ⟨ca', h1, h2⟩ := ih hf.2.2 hk.2.2 _ _ (addAtom_inv h Z hv)
    refine ⟨ca', ?_, h2.congr ?_⟩
    · simp only [ups, atomsLoop, hpa]; exact h1
    · intro z
      simp only [evalA, elementsOf, hZ']
      by_cases hz : z = Z
      · subst hz; simp; ring
      · have : ¬ Z = z := fun h => hz h.symm
        simp [hz, this]
  | group inner sub rest _ ih =>
    intro ca g h
    obtain ⟨ca', h1, h2⟩ := ih hf.2.2 hk.2.2.2 ca g h
    exact ⟨ca', by simpa [ups] using h1, h2.congr (by intro z; simp [evalA])⟩

theorem printL_length_group (inner : Formula) (sub : Sub) (rest : Formula) :
    (Formula.group inner sub rest).printL.length = inner.printL.length + 2 + sub.print.length + rest.printL.length := by
  simp [Formula.printL]; omega

theorem printL_length_atom (sym : List Char) (sub : Sub) (rest : Formula) :
    (Formula.atom sym sub rest).printL.length = sym.length + sub.print.length + rest.printL.length := by
  simp [Formula.printL]; omega

/-- `strndup(begin+1, end-begin-1)` is the text between the brackets -/
theorem inside_eq (inner e : List Char) :
    (List.drop 1 ('(' :: (inner ++ e))).take (('(' :: (inner ++ e)).length - e.length - 1) = inner := by
  simp only [List.drop_succ_cons, List.drop_zero]
  apply List.take_left'
  simp only [List.length_cons, List.length_append]
  omega

/-- the loop over the bracket pairs adds the top-level groups, given that the recursive call is right on
    shorter well-formed formulas -/
theorem groupsLoop_ok (T : Tables) (rec : List Char → Except Fail (Atoms × Nat)) (N : Nat)
    (hrec : ∀ g : Formula, WFV v (elementsOf T) g → g.printL.length < N →
      ∃ sub l, rec g.printL = .ok (sub, l) ∧ Inv sub (g.eval (elementsOf T)))
    (f : Formula) (hf : f.Shape) (hk : KnownV v (elementsOf T) f) (hlen : f.printL.length ≤ N) :
    ∀ (ca : Atoms) (k : Nat) (g : Nat → Rat), Inv ca g →
      ∃ ca' k', groupsLoop v rec ((begs f []).zip (ens f [])) (ca, k) = .ok (ca', k') ∧
        Inv ca' (fun z => g z + evalG (elementsOf T) f z) := by
  induction f with
  | nil => intro ca k g h; exact ⟨ca, k, rfl, h.congr (by intro z; simp [evalG])⟩
  | atom sym sub rest ih =>
    intro ca k g h
    have hl : rest.printL.length ≤ N := by rw [printL_length_atom] at hlen; omega
    obtain ⟨ca', k', h1, h2⟩ := ih hf.2.2 hk.2.2 hl ca k g h
    exact ⟨ca', k', by simpa [begs, ens] using h1, h2.congr (by intro z; simp [evalG])⟩
  | group inner sub rest _ ih =>
    intro ca k g h
    rw [printL_length_group] at hlen
    have hl : rest.printL.length ≤ N := by omega
    obtain ⟨sa, l, hr1, hr2⟩ := hrec inner ⟨hk.1, hf.1, hk.2.1⟩ (by omega)
    have hsub := subscript_ok (v := v) (fun s => Err.convert s) hf.2.1 hk.2.2.1 (stop_printL hf.2.2 stop_nil)
    have hv := sub_value_pos hk.2.2.1.1
    have hstep : ∃ k1, groupStep v rec (ca, k)
        ('(' :: (inner.printL ++ ')' :: (sub.print ++ (rest.printL ++ []))), ')' :: (sub.print ++ (rest.printL ++ [])))
        = .ok (addGroup ca sa sub.value, k1) := by
      unfold groupStep
      dsimp only
      rw [inside_eq, hr1]
      dsimp only
      rw [List.drop_succ_cons, List.drop_zero, hsub]
      by_cases he : ca.isEmpty = true
      · exact ⟨k + l + 1, by simp [he]⟩
      · exact ⟨k + l, by simp [he]⟩
    obtain ⟨k1, hk1⟩ := hstep
    obtain ⟨ca', k', h1, h2⟩ := ih hf.2.2 hk.2.2.2 hl _ k1 _ (addGroup_inv h hr2 hv)
    refine ⟨ca', k', ?_, h2.congr (by intro z; simp only [evalG]; ring)⟩
    simp only [begs, ens, List.zip_cons_cons, groupsLoop, hk1]
    exact h1

theorem first_char_ok {f : Formula} (hne : f ≠ .nil) (hf : f.Shape) :
    (isLowerC (cAt f.printL 0) || isDigitC (cAt f.printL 0) || (v.strictFix && decide (cAt f.printL 0 = '.'))) = false := by
  cases f with
  | nil => exact absurd rfl hne
  | atom sym sub rest =>
    obtain ⟨u, t, rfl, hu, _⟩ := symShape_cases hf.1
    simp [Formula.printL, upper_not_lower hu, upper_not_digit hu, (upper_ne hu).2.2.2]
  | group inner sub rest => simp [Formula.printL]; decide

theorem scan_nonempty {f : Formula} (hne : f ≠ .nil) :
    ((ups f []).isEmpty && (begs f []).isEmpty) = false := by
  induction f with
  | nil => exact absurd rfl hne
  | atom sym sub rest _ => simp [ups]
  | group inner sub rest _ _ => simp [begs]

/-- one level of `CompoundParserSimple` on a printed well-formed formula -/
theorem parseLevel_ok (T : Tables) (rec : List Char → Except Fail (Atoms × Nat)) (N : Nat)
    (hrec : ∀ g : Formula, WFV v (elementsOf T) g → g.printL.length < N →
      ∃ sub l, rec g.printL = .ok (sub, l) ∧ Inv sub (g.eval (elementsOf T)))
    (f : Formula) (hwf : WFV v (elementsOf T) f) (hlen : f.printL.length ≤ N) :
    ∃ ca k, parseLevel v T rec f.printL = .ok (ca, k) ∧ Inv ca (f.eval (elementsOf T)) := by
  obtain ⟨hne, hf, hk⟩ := hwf
  obtain ⟨p, hp⟩ := pass1_top f hf [] [] [] [] '\x00'
  simp only [List.append_nil, List.nil_append, pass1] at hp
  obtain ⟨caA, ha1, ha2⟩ := atomsLoop_ok T f hf hk [] _ inv_nil
  obtain ⟨ca, k, hg1, hg2⟩ := groupsLoop_ok T rec N hrec f hf hk hlen caA 0 _ ha2
  refine ⟨ca, k, ?_, hg2.congr (by intro z; rw [eval_split]; ring)⟩
  unfold parseLevel
  rw [if_neg (by rw [first_char_ok hne hf]; simp)]
  have hp' : pass1 v f.printL '\x00' {} = .ok ⟨0, ups f [], begs f [], ens f []⟩ := hp
  simp only [hp', scan_nonempty hne, ha1, hg1]
  simp

/-- `CompoundParserSimple` on a printed well-formed formula of any depth and length -/
theorem parseSimple_ok (T : Tables) :
    ∀ (fuel : Nat) (f : Formula), WFV v (elementsOf T) f → f.printL.length < fuel →
      ∃ ca k, parseSimple v T fuel f.printL = .ok (ca, k) ∧ Inv ca (f.eval (elementsOf T)) := by
  intro fuel
  induction fuel with
  | zero => intro f _ h; omega
  | succ n ih =>
    intro f hwf hlen
    exact parseLevel_ok T (parseSimple v T n) n ih f hwf (by omega)

end XrlParser
