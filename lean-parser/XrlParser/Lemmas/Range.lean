import XrlParser.Lemmas.Rejects
import XrlParser.Lemmas.Result
/-!
# With the repair C07-5 no conversion of an accepting run returns `+inf`

`simpleOvf` (Hand/Parser.lean) reports whether one of the subscripts an accepting run of `CompoundParserSimple`
converts is rounded to `+inf` by `strtod`.  With `rangeFix` every such conversion is an error, so an accepted
string has none.
-/
namespace XrlParser
open Hand Spec

variable {v : Variant}

theorem roundsToInf_zero : dblRoundsToInf 0 = false := by decide +kernel

theorem strtod_nil : strtod [] = (0, 0) := by rfl

theorem subscript_ok_noOvf (hv : v.rangeFix = true) {zeroErr : List Char → Err} {p : List Char} {n : Rat}
    (h : subscript v zeroErr p = .ok n) : subOvf p = false := by
  unfold subscript at h
  simp only [] at h
  unfold subOvf
  by_cases h1 : (scanSub p).2 > 1
  · rw [if_pos h1] at h; cases h
  · rw [if_neg h1] at h
    by_cases h2 : (scanSub p).1 = 0
    · rw [h2, List.take_zero, strtod_nil]; exact roundsToInf_zero
    · rw [if_neg h2] at h
      by_cases h3 : (decide ((strtod (p.take (scanSub p).1)).1 ≠ (p.take (scanSub p).1).length) ||
          (v.rangeFix && dblRoundsToInf (strtod (p.take (scanSub p).1)).2)) = true
      · rw [if_pos h3] at h; cases h
      · simp only [hv, Bool.true_and, Bool.or_eq_true, not_or, Bool.not_eq_true] at h3
        exact h3.2

theorem parseAtom_ok_noOvf (hv : v.rangeFix = true) {T : Tables} {loc : List Char} {zn : Nat × Rat}
    (h : parseAtom v T loc = .ok zn) : atomOvf loc = false := by
  unfold parseAtom at h
  unfold atomOvf
  by_cases h1 : (isLowerC (cAt loc 1) && !isLowerC (cAt loc 2)) = true
  · rw [if_pos h1] at h ⊢
    simp only [] at h
    cases hl : lookupSym T (loc.take 2) with
    | none => rw [hl] at h; cases h
    | some Z =>
      rw [hl] at h
      simp only [] at h
      cases hs : subscript v (fun _ => Err.zero) (loc.drop 2) with
      | error e => rw [hs] at h; cases h
      | ok n => exact subscript_ok_noOvf hv hs
  · rw [if_neg h1] at h ⊢
    by_cases h2 : (!isLowerC (cAt loc 1)) = true
    · rw [if_pos h2] at h
      simp only [] at h
      cases hl : lookupSym T (loc.take 1) with
      | none => rw [hl] at h; cases h
      | some Z =>
        rw [hl] at h
        simp only [] at h
        cases hs : subscript v (fun _ => Err.zero) (loc.drop 1) with
        | error e => rw [hs] at h; cases h
        | ok n => exact subscript_ok_noOvf hv hs
    · rw [if_neg h2] at h; cases h

/-- a successful symbol loop has parsed every recorded symbol -/
theorem atomsLoop_ok_all (T : Tables) : ∀ (locs : List (List Char)) (ca ca' : Atoms), atomsLoop v T locs ca = .ok ca' →
    ∀ loc ∈ locs, ∃ zn, parseAtom v T loc = .ok zn := by
  intro locs
  induction locs with
  | nil => intro ca ca' _ loc hl; simp at hl
  | cons q qs ih =>
    intro ca ca' h loc hl
    rw [atomsLoop] at h
    cases hq : parseAtom v T q with
    | error e => rw [hq] at h; cases h
    | ok zn =>
      rw [hq] at h
      simp only [List.mem_cons] at hl
      rcases hl with rfl | hl
      · exact ⟨zn, hq⟩
      · exact ih _ _ h loc hl

/-- a successful bracket loop has converted the subscript behind every recorded pair -/
theorem groupsLoop_ok_sub (rec : List Char → Except Fail (Atoms × Nat)) :
    ∀ (l : List (List Char × List Char)) (acc r : Atoms × Nat), groupsLoop v rec l acc = .ok r →
      ∀ p ∈ l, ∃ n, subscript v (fun s => Err.convert s) (p.2.drop 1) = .ok n := by
  intro l
  induction l with
  | nil => intro acc r _ p hp; simp at hp
  | cons q qs ih =>
    intro acc r h p hp
    rw [groupsLoop] at h
    cases hq : groupStep v rec acc q with
    | error f => rw [hq] at h; simp at h
    | ok acc' =>
      rw [hq] at h
      simp only [List.mem_cons] at hp
      rcases hp with rfl | hp
      · unfold groupStep at hq
        simp only [] at hq
        cases hr : rec ((p.1.drop 1).take (p.1.length - p.2.length - 1)) with
        | error f => rw [hr] at hq; cases hq
        | ok x =>
          rw [hr] at hq
          simp only [] at hq
          cases hs : subscript v (fun s => Err.convert s) (p.2.drop 1) with
          | error e => rw [hs] at hq; cases hq
          | ok n => exact ⟨n, rfl⟩
      · exact ih acc' r h p hp

/-- with the repair C07-5 no conversion of an accepting run of `CompoundParserSimple` returns `+inf` -/
theorem parseSimple_noOvf (hv : v.rangeFix = true) (T : Tables) : ∀ (fuel : Nat) (s : List Char) (r : Atoms × Nat),
    parseSimple v T fuel s = .ok r → simpleOvf v fuel s = false := by
  intro fuel
  induction fuel with
  | zero => intro s r h; cases h
  | succ n ih =>
    intro s r h
    change parseLevel v T (parseSimple v T n) s = .ok r at h
    change levelOvf v (simpleOvf v n) s = false
    unfold parseLevel at h
    unfold levelOvf
    split at h
    · cases h
    · cases hp : pass1 v s '\x00' {} with
      | error e => rfl
      | ok st =>
        rw [hp] at h
        simp only [] at h ⊢
        split at h
        · cases h
        · split at h
          · cases h
          · cases ha : atomsLoop v T st.uppers [] with
            | error e => rw [ha] at h; cases h
            | ok ca =>
              rw [ha] at h
              simp only [] at h
              cases hg : groupsLoop v (parseSimple v T n) (st.begins.zip st.ends) (ca, 0) with
              | error f => rw [hg] at h; cases h
              | ok r' =>
                rw [Bool.or_eq_false_iff]
                constructor
                · rw [List.any_eq_false]
                  intro loc hl
                  obtain ⟨zn, hzn⟩ := atomsLoop_ok_all T _ _ _ ha loc hl
                  simp [parseAtom_ok_noOvf hv hzn]
                · rw [List.any_eq_false]
                  intro be hbe
                  obtain ⟨x, hx⟩ := groupsLoop_ok_rec _ _ _ _ hg be hbe
                  obtain ⟨m, hm⟩ := groupsLoop_ok_sub _ _ _ _ hg be hbe
                  have h1 := ih _ _ hx
                  have h2 := subscript_ok_noOvf hv hm
                  simp only [inside] at h1
                  rw [h1, h2]; decide

/-! ## a formula whose subscripts a double can hold raises no flag, in any variant -/

/-- the first pass reads the switch `strictFix` only -/
theorem pass1_congr {v w : Variant} (h : v.strictFix = w.strictFix) : ∀ (s : List Char) (prev : Char) (st : Scan),
    pass1 v s prev st = pass1 w s prev st := by
  intro s
  induction s with
  | nil => intro prev st; rfl
  | cons c rest ih =>
    intro prev st
    rw [pass1, pass1]
    simp only [ih, h]

theorem simpleOvf_congr {v w : Variant} (h : v.strictFix = w.strictFix) : ∀ (fuel : Nat) (s : List Char),
    simpleOvf v fuel s = simpleOvf w fuel s := by
  intro fuel
  induction fuel with
  | zero => intro s; rfl
  | succ n ih =>
    intro s
    have hrec : simpleOvf v n = simpleOvf w n := funext ih
    show levelOvf v (simpleOvf v n) s = levelOvf w (simpleOvf w n) s
    unfold levelOvf
    rw [pass1_congr h, hrec]

/-- no conversion of a well-formed formula whose subscripts a double can hold returns `+inf` -/
theorem simpleOvf_print_fits (T : Tables) {f : Formula} (hf : f.WF (elementsOf T)) (hfit : f.Fits) :
    simpleOvf v (f.printL.length + 1) f.printL = false := by
  let w : Variant := { v with rangeFix := true }
  obtain ⟨ca, k, hok, _⟩ := parseSimple_ok (v := w) T (f.printL.length + 1) f (wfv_of_fits hf hfit) (by omega)
  rw [simpleOvf_congr (v := v) (w := w) rfl]
  exact parseSimple_noOvf (v := w) rfl T _ _ _ hok

/-- the flag of an accepted string -/
theorem compoundParser_ovf_ok (v : Variant) (T : Tables) (l : Locale) (s : List Char) {cd : CompoundData}
    (h : (compoundParser v T l (some s)).result = .ok cd) :
    (compoundParser v T l (some s)).ovf = simpleOvf v (s.length + 1) s := by
  cases hp : parseSimple v T (s.length + 1) s with
  | error f => rw [compoundParser_result_err v T l s hp] at h; cases h
  | ok r =>
    obtain ⟨ca, k⟩ := r
    simp only [compoundParser, hp] at h ⊢
    split
    · rename_i hc; rw [if_pos hc] at h; cases h
    · rfl

/-- a rejected string raises no flag -/
theorem compoundParser_ovf_err (v : Variant) (T : Tables) (l : Locale) (s : Option (List Char)) {e : Err}
    (h : (compoundParser v T l s).result = .error e) : (compoundParser v T l s).ovf = false := by
  cases s with
  | none => rfl
  | some s =>
    cases hp : parseSimple v T (s.length + 1) s with
    | error f => simp only [compoundParser, hp]
    | ok r =>
      obtain ⟨ca, k⟩ := r
      simp only [compoundParser, hp] at h ⊢
      split
      · rfl
      · rename_i hc; rw [if_neg hc] at h; cases h

end XrlParser
