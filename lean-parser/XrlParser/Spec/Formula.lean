import XrlParser.Core.Ascii
import XrlParser.Core.Double
/-!
# Specification of C07, written from the property text (not from the C code)

"For every formula built from known element symbols, positive decimal subscripts and arbitrarily nested
parentheses, the parser returns the elements in strictly ascending atomic number without duplicates, atom
counts equal to the algebraic expansion of the formula, total atom count and molar mass equal to their sums,
and mass fractions equal to count times atomic weight over molar mass (positive, summing to 1) …"

* `Formula`  — a formula is a sequence of items; an item is an element symbol or a parenthesised formula,
  each with an optional decimal subscript.  (The sequence is the spine `nil/atom/group` so that structural
  induction is available directly.)
* `print`    — the text of a formula.
* `eval`     — the algebraic expansion: atoms of element `Z` in the formula.
* `Composition`, `IsCompositionOf` — what the property says the result must be.

Core Lean only (the driver executes `eval` for the violation search).
-/

namespace XrlParser.Spec

/-- a decimal numeral as written: integer digits, optionally a point and fraction digits.
    `"12"` = ⟨[1,2], none⟩, `"2.50"` = ⟨[2], some [5,0]⟩, `".5"` = ⟨[], some [5]⟩, `"5."` = ⟨[5], some []⟩. -/
structure Dec where
  ip : List (Fin 10)
  fp : Option (List (Fin 10))
  deriving Repr, DecidableEq

/-- value of a digit sequence, most significant first -/
def natOfDigits (ds : List (Fin 10)) : Nat := ds.foldl (fun a d => 10 * a + d.val) 0

def Dec.fracDigits (d : Dec) : List (Fin 10) := d.fp.getD []

/-- the number a decimal numeral denotes -/
def Dec.value (d : Dec) : Rat :=
  (natOfDigits (d.ip ++ d.fracDigits) : Rat) / ((10 ^ d.fracDigits.length : Nat) : Rat)

/-- at least one digit -/
def Dec.shape (d : Dec) : Prop := 0 < d.ip.length + d.fracDigits.length

def digitChar (d : Fin 10) : Char := Char.ofNat (48 + d.val)

def Dec.print (d : Dec) : List Char :=
  d.ip.map digitChar ++ (match d.fp with | none => [] | some f => '.' :: f.map digitChar)

/-- optional subscript; no subscript means 1.  `junk` is a subscript text over `[0-9.]` that is *not* a
    decimal numeral (no digit, or more than one point): used only to state rejection. -/
inductive Sub
  | one
  | dec (d : Dec)
  | junk (s : List Char)
  deriving Repr, DecidableEq

def Sub.value : Sub → Rat
  | .one => 1
  | .dec d => d.value
  | .junk _ => 0

def Sub.print : Sub → List Char
  | .one => []
  | .dec d => d.print
  | .junk s => s

/-- a formula = sequence of items -/
inductive Formula
  | nil
  | atom (sym : List Char) (sub : Sub) (rest : Formula)
  | group (inner : Formula) (sub : Sub) (rest : Formula)
  deriving Repr, DecidableEq

def Formula.printL : Formula → List Char
  | .nil => []
  | .atom sym sub rest => sym ++ sub.print ++ rest.printL
  | .group inner sub rest => '(' :: inner.printL ++ ')' :: sub.print ++ rest.printL

def Formula.print (f : Formula) : String := String.ofList f.printL

/-- concatenation of item sequences -/
def Formula.append : Formula → Formula → Formula
  | .nil, g => g
  | .atom s n r, g => .atom s n (r.append g)
  | .group i n r, g => .group i n (r.append g)

/-- "reordering of terms": `g` is `f` with its terms permuted, at any nesting level -/
inductive Reorder : Formula → Formula → Prop
  | refl (f : Formula) : Reorder f f
  | comm (a b : Formula) : Reorder (a.append b) (b.append a)
  | append {a a' b b' : Formula} : Reorder a a' → Reorder b b' → Reorder (a.append b) (a'.append b')
  | group {i i' : Formula} (s : Sub) {r r' : Formula} : Reorder i i' → Reorder r r' → Reorder (.group i s r) (.group i' s r')
  | trans {f g h : Formula} : Reorder f g → Reorder g h → Reorder f h

/-- `g` is `f` with every top-level subscript multiplied by `n` (what "expanding a parenthesised group
    `(f)n`" does to the terms of `f`; the numerals of `g` are arbitrary numerals of the right value) -/
inductive Scaled (n : Rat) : Formula → Formula → Prop
  | nil : Scaled n .nil .nil
  | atom (sym : List Char) {s s' : Sub} {r r' : Formula} :
      s'.value = n * s.value → Scaled n r r' → Scaled n (.atom sym s r) (.atom sym s' r')
  | group (i : Formula) {s s' : Sub} {r r' : Formula} :
      s'.value = n * s.value → Scaled n r r' → Scaled n (.group i s r) (.group i s' r')

/-- the element table as the property sees it: symbol ↦ atomic number, atomic number ↦ atomic weight
    (`none`: the element has no atomic weight). -/
structure Elements where
  zOf : List Char → Option Nat
  weight : Nat → Option Rat

/-- algebraic expansion: number of atoms of element `z` -/
def Formula.eval (E : Elements) : Formula → Nat → Rat
  | .nil, _ => 0
  | .atom sym sub rest, z => (if E.zOf sym = some z then sub.value else 0) + rest.eval E z
  | .group inner sub rest, z => sub.value * inner.eval E z + rest.eval E z

/-- an element symbol is an upper-case letter optionally followed by one lower-case letter -/
def SymShape (s : List Char) : Prop :=
  (∃ u, s = [u] ∧ isUpperC u = true) ∨ (∃ u l, s = [u, l] ∧ isUpperC u = true ∧ isLowerC l = true)

/-- the characters a subscript text may contain -/
def subChar (c : Char) : Bool := isDigitC c || c = '.'

/-- syntactic shape: symbols look like symbols, numerals have a digit, junk really is junk -/
def Sub.Shape : Sub → Prop
  | .one => True
  | .dec d => d.shape
  | .junk s => s ≠ [] ∧ (∀ c ∈ s, subChar c = true) ∧ (s.count '.' ≥ 2 ∨ ∀ c ∈ s, isDigitC c = false)

def Formula.Shape : Formula → Prop
  | .nil => True
  | .atom sym sub rest => SymShape sym ∧ sub.Shape ∧ rest.Shape
  | .group inner sub rest => inner.Shape ∧ sub.Shape ∧ rest.Shape

/-- positive decimal subscript (or none) -/
def Sub.Pos : Sub → Prop
  | .one => True
  | .dec d => 0 < d.value
  | .junk _ => False

/-- "built from known element symbols, positive decimal subscripts" (and no empty parentheses) -/
def Formula.Known (E : Elements) : Formula → Prop
  | .nil => True
  | .atom sym sub rest => (E.zOf sym).isSome ∧ sub.Pos ∧ rest.Known E
  | .group inner sub rest => inner ≠ .nil ∧ inner.Known E ∧ sub.Pos ∧ rest.Known E

/-- well-formed formula of the property: non-empty, shaped, known symbols, positive subscripts -/
def Formula.WF (E : Elements) (f : Formula) : Prop := f ≠ .nil ∧ f.Shape ∧ f.Known E

/-- the subscript is a number a `double` can hold as a finite positive value (Core/Double.lean): the counts of the
    result are doubles, so "atom counts equal to the algebraic expansion" can only be demanded of such formulas;
    a formula with a subscript outside this range has to be rejected (no composition can be returned for it). -/
def Sub.Fits (s : Sub) : Prop := dblRoundsToZero s.value = false ∧ dblRoundsToInf s.value = false

def Formula.Fits : Formula → Prop
  | .nil => True
  | .atom _ sub rest => sub.Fits ∧ rest.Fits
  | .group inner sub rest => inner.Fits ∧ sub.Fits ∧ rest.Fits

/-- the atomic numbers that occur in a formula -/
def Formula.Occurs (E : Elements) : Formula → Nat → Prop
  | .nil, _ => False
  | .atom sym _ rest, z => E.zOf sym = some z ∨ rest.Occurs E z
  | .group inner _ rest, z => inner.Occurs E z ∨ rest.Occurs E z

/-- every element of the formula has an atomic weight -/
def Formula.Weighted (E : Elements) (f : Formula) : Prop := ∀ z, f.Occurs E z → ∃ w, E.weight z = some w ∧ 0 < w

/-! ## The result the property demands -/

/-- a composition as returned: parallel lists -/
structure Composition where
  elements : List Nat
  nAtoms : List Rat
  massFractions : List Rat
  nAtomsAll : Rat
  molarMass : Rat
  deriving Repr

def StrictAsc : List Nat → Prop
  | [] => True
  | [_] => True
  | a :: b :: r => a < b ∧ StrictAsc (b :: r)

/-- count listed for `z` (0 when `z` is not listed) -/
def countIn (els : List Nat) (ns : List Rat) (z : Nat) : Rat :=
  ((els.zip ns).find? (fun p => p.1 == z)).elim 0 (·.2)

def sumL (l : List Rat) : Rat := l.foldr (· + ·) 0

/-- "elements in strictly ascending atomic number without duplicates, atom counts equal to the algebraic
    expansion, total atom count and molar mass equal to their sums, mass fractions equal to count times
    atomic weight over molar mass (positive, summing to 1)" for the expansion `cnt` and weights `w`. -/
structure IsCompositionOf (w : Nat → Rat) (cnt : Nat → Rat) (c : Composition) : Prop where
  ascending : StrictAsc c.elements
  lengths : c.nAtoms.length = c.elements.length ∧ c.massFractions.length = c.elements.length
  listed : ∀ z, z ∈ c.elements ↔ 0 < cnt z
  counts : ∀ z, countIn c.elements c.nAtoms z = cnt z
  total : c.nAtomsAll = sumL c.nAtoms
  molar : c.molarMass = sumL (c.elements.map (fun z => w z * cnt z))
  fractions : ∀ z, countIn c.elements c.massFractions z = (if z ∈ c.elements then w z * cnt z / c.molarMass else 0)
  fracPos : ∀ x ∈ c.massFractions, 0 < x
  fracSum : sumL c.massFractions = 1

/-- "Combining two compositions with weights yields the ascending union of their elements with mass fractions
    wA*fA + wB*fB" (a fraction is 0 for an element a composition does not list). -/
structure IsWeightedUnion (wA wB : Rat) (A B C : Composition) : Prop where
  ascending : StrictAsc C.elements
  union : ∀ z, z ∈ C.elements ↔ z ∈ A.elements ∨ z ∈ B.elements
  lengths : C.massFractions.length = C.elements.length
  fractions : ∀ z, countIn C.elements C.massFractions z =
    wA * countIn A.elements A.massFractions z + wB * countIn B.elements B.massFractions z

/-! ## Reference reader: `print`'s inverse, a recursive-descent parser written from the grammar

    formula   := item+
    item      := (symbol | '(' formula ')') subscript?
    symbol    := [A-Z][a-z]?
    subscript := [0-9]+ ('.' [0-9]*)? | '.' [0-9]+          (any other run of [0-9.] is a malformed subscript)

Used by the violation search (`spec` op of the driver) against the real library. -/

def readDigits : List Char → List (Fin 10) × List Char
  | [] => ([], [])
  | c :: r =>
    if isDigitC c then
      let (ds, r') := readDigits r
      (⟨(c.toNat - 48) % 10, Nat.mod_lt _ (by decide)⟩ :: ds, r')
    else ([], c :: r)

/-- optional subscript at the head of the text: the maximal run of `[0-9.]`; a run that is not a decimal
    numeral is returned as `junk` (so that "malformed subscript" is a class the oracle can name). -/
def readSub (s : List Char) : Sub × List Char :=
  let run := s.takeWhile subChar
  let rest := s.dropWhile subChar
  if run.isEmpty then (.one, s)
  else
    let (ip, r) := readDigits run
    match r with
    | [] => (.dec ⟨ip, none⟩, rest)
    | '.' :: r' =>
      let (fp, r'') := readDigits r'
      if r''.isEmpty && !(ip.isEmpty && fp.isEmpty) then (.dec ⟨ip, some fp⟩, rest) else (.junk run, rest)
    | _ => (.junk run, rest)

/-- `readItems fuel depth s`: items up to the end of text (depth 0) or up to the closing parenthesis.
    Returns the formula and the remaining text. -/
def readItems : Nat → Nat → List Char → Option (Formula × List Char)
  | 0, _, _ => none
  | _ + 1, depth, [] => if depth = 0 then some (.nil, []) else none
  | fuel + 1, depth, c :: r =>
    if c = ')' then (if depth = 0 then none else some (.nil, c :: r))
    else if c = '(' then
      match readItems fuel (depth + 1) r with
      | some (inner, ')' :: r1) =>
        let (sub, r2) := readSub r1
        match readItems fuel depth r2 with
        | some (rest, r3) => some (.group inner sub rest, r3)
        | none => none
      | _ => none
    else if isUpperC c then
      let (sym, r1) := match r with
        | l :: r' => if isLowerC l then ([c, l], r') else ([c], r)
        | [] => ([c], [])
      let (sub, r2) := readSub r1
      match readItems fuel depth r2 with
      | some (rest, r3) => some (.atom sym sub rest, r3)
      | none => none
    else none

/-- depth of parenthesis nesting after a text, started at depth `d`; `none` when a `)` has no partner -/
def depthAfter : List Char → Nat → Option Nat
  | [], d => some d
  | c :: r, d =>
    if c = '(' then depthAfter r (d + 1)
    else if c = ')' then (if d = 0 then none else depthAfter r (d - 1))
    else depthAfter r d

/-- balanced parentheses -/
def Balanced (s : List Char) : Prop := depthAfter s 0 = some 0

/-- the formula alphabet: letters, digits, the point and the two parentheses -/
def inAlphabet (c : Char) : Bool := isUpperC c || isLowerC c || isDigitC c || c = '.' || c = '(' || c = ')'

/-- the formula a text denotes, if it is one -/
def read (s : List Char) : Option Formula :=
  match readItems (s.length + 1) 0 s with
  | some (f, []) => some f
  | _ => none

/-- decidable versions of the side conditions, for the executable oracle -/
def Sub.posB : Sub → Bool
  | .one => true
  | .dec d => decide (0 < d.value)
  | .junk _ => false

def Formula.okB (E : Elements) : Formula → Bool
  | .nil => true
  | .atom sym sub rest => (E.zOf sym).isSome && sub.posB && rest.okB E
  | .group inner sub rest => (match inner with | .nil => false | _ => true) && inner.okB E && sub.posB && rest.okB E

def Sub.fitsB (s : Sub) : Bool := !dblRoundsToZero s.value && !dblRoundsToInf s.value

def Formula.fitsB : Formula → Bool
  | .nil => true
  | .atom _ sub rest => sub.fitsB && rest.fitsB
  | .group inner sub rest => inner.fitsB && sub.fitsB && rest.fitsB

/-- some subscript is too large for a `double` (for the label of the oracle's verdict) -/
def Formula.hasOverflow : Formula → Bool
  | .nil => false
  | .atom _ sub rest => dblRoundsToInf sub.value || rest.hasOverflow
  | .group inner sub rest => inner.hasOverflow || dblRoundsToInf sub.value || rest.hasOverflow

def Formula.elems (E : Elements) : Formula → List Nat
  | .nil => []
  | .atom sym _ rest => (match E.zOf sym with | some z => [z] | none => []) ++ rest.elems E
  | .group inner _ rest => inner.elems E ++ rest.elems E

def insertAsc (z : Nat) : List Nat → List Nat
  | [] => [z]
  | x :: xs => if z < x then z :: x :: xs else if z = x then x :: xs else x :: insertAsc z xs

/-- the composition the property demands for a well-formed formula whose subscripts a double can hold and whose
    elements all have weights; `none` when the formula must be rejected. -/
def expected (E : Elements) (f : Formula) : Option Composition :=
  if f.okB E && f.fitsB && (match f with | .nil => false | _ => true) then
    let els := (f.elems E).foldr insertAsc []
    if els.all (fun z => match E.weight z with | some w => decide (0 < w) | none => false) then
      let w := fun z => (E.weight z).getD 0
      let ns := els.map (f.eval E)
      let mm := sumL (els.map (fun z => w z * f.eval E z))
      some { elements := els, nAtoms := ns, massFractions := els.map (fun z => w z * f.eval E z / mm),
             nAtomsAll := sumL ns, molarMass := mm }
    else none
  else none

end XrlParser.Spec
