import XrlParser.Hand.Parser
import XrlParser.Spec.Formula
