"""C17 — concurrent queries from many threads are race-free and agree with serial results.

Decided by the theorems of lean-sched/XrlSched/Props/C17.lean (schedule model + footprint table + MT-safety
table); tied to the real library by harness/c17_threads.c under ThreadSanitizer: 8–16 threads, seeded mixes of
every thread-safe entry point, per-thread results compared with a serial run of the same scripts; any TSan report
contradicts the model's `race_free`.  The setlocale search of DESIGN §3 C17 is run as a separate experiment."""
import os, sys, re, json, time, subprocess, random
HERE = os.path.dirname(os.path.abspath(__file__))
sys.path.insert(0, os.path.join(os.path.dirname(HERE), 'tools'))
import schedlib as sl
from schedlib import core, cbuild, xrlops, log

ID = 'C17'
MODULE = 'XrlSched.Props.C17'
NAMESPACE = 'XrlSched.C17'
PROPS = os.path.join(sl.LEAN_DIR, 'XrlSched', 'Props', 'C17.lean')
PROPS16 = os.path.join(sl.LEAN_DIR, 'XrlSched', 'Props', 'C16.lean')
KEY_LOCALE = 'CompoundParser:setlocale(LC_NUMERIC) tsan:free-vs-app-read'
NONVACUITY = ['exConfig', 'glibcExtC', 'exConfig_conf']
TSAN_ENV = dict(TSAN_OPTIONS='halt_on_error=0 exitcode=66 report_signal_unsafe=0 second_deadlock_stack=1')
EXCLUDED_OPS = ('AddBuiltin',)        # mutation of the shared built-in crystal array needs external locking, as documented

def tsan_reports(stderr):
    return re.findall(r'WARNING: ThreadSanitizer: [^\n]*(?:\n(?!==================)[^\n]*){0,40}', stderr)

def run(tier, seed, replay=None):
    ctx = sl.Ctx(ID, tier, seed)
    try:
        return _run(ctx, replay)
    except sl.BuildError as e:
        log('BUILD ERROR', str(e)[:3000])
        path = core.write_replay(ctx, 'check %s could not build the working tree or its own harness:\n%s\n' % (ID, str(e)[:4000]), 'txt')
        print('VIOLATION property=%s replay=%s no-failing-input-found' % (ID, path))
        sl.write_evidence(ctx, 'proof', dict(obligations=1, discharged=0, checker_cmd='cd lean-sched && lake build ' + MODULE, trusted_base=sl.TRUSTED_BASE,
                          explanation='build failed: ' + str(e)[:500], evaluations=1, distinct_nontrivial=0), 1, [])
        return 1
    finally:
        ctx.close()

def make_script(rng, meta, nthreads, nops, only=None):
    g = xrlops.OpGen(random.Random(rng.getrandbits(64)), meta, threads=True)
    lines = []
    for t in range(nthreads):
        if only:
            g.fresh_p = 0.05
            ops = [g.generic_op(g.rng.choice(only)) for _ in range(nops)]
        else:
            ops = [o for o in g.ops(nops) if not o.startswith(EXCLUDED_OPS)]
        lines += ['%d %s' % (t, o) for o in ops]
    return lines

def _run(ctx, replay):
    rep = dict(proof_broken=[], tie_broken=[], problems=[], known=[])
    known = sl.known(ID)
    objs, fl = sl.build_c(ctx, 'thread', 'tsan')
    meta, lean_tmp, fp_problems = sl.extract_footprint(ctx)
    rep['tie_broken'] += ['footprint extraction: ' + p for p in fp_problems]
    evals = ['Gen.localeProtocols.any (fun p => (firstLit p.ops).isSome)', 'Gen.localeProtocols.length', 'C16.pureEntries.length', 'C16.localeEntries.length',
             'Gen.localeProtocols.all (fun p => exhibits p)']
    with sl.Lock():
        changed = sl.install_gen(lean_tmp)
        ok_props, blog = sl.lake_build(ctx, [MODULE])
        theorems, axioms, ev, aprobs = (sl.theorems_of(PROPS, NAMESPACE), {}, {}, [])
        if ok_props:
            theorems, axioms, ev, aprobs = sl.audit(ctx, MODULE, NAMESPACE, PROPS, evals)
        if ok_props and ctx.tier == 'thorough':
            okc, txt = sl.leanchecker(ctx, MODULE)
            if not okc: aprobs.append('leanchecker rejected %s: %s' % (MODULE, txt))
            else: ctx.notes.append('leanchecker re-checked %s' % MODULE)
    rep['problems'] += aprobs
    src = open(PROPS).read()
    for w in NONVACUITY:
        if not re.search(r'\b%s\b' % re.escape(w), src): rep['problems'].append('non-vacuity witness %s missing from %s' % (w, MODULE))
    explain = []
    if not ok_props:
        rep['proof_broken'] = sl.failing_theorems(blog, PROPS) + ['C16.' + x for x in sl.failing_theorems(blog, PROPS16)] or ['(module %s does not build)' % MODULE]
        rep['proof_log'] = sl.first_errors(blog)
        mt = sl.names_in(PROPS, ['mtSafe'])['mtSafe']
        explain = sl.explain_footprint(meta, set(mt) | {'setlocale'})
    uses_setlocale = ev.get(evals[0], 'unknown')

    exe = sl.link_harness(ctx, objs, fl, 'c17_threads.c', 'c17_threads', libs=('-lm', '-lpthread'), meta=meta)
    env = {k: v for k, v in os.environ.items() if not k.startswith('LC_') and k != 'LANG'}
    env.update(TSAN_ENV)
    stats = dict(rounds=0, calls=0, threads=[], tsan_reports=0, serial_mismatches=0, distinct_ops=0, locale_runs=0, locale_tsan=0, locale_changed=0)
    viol = []; all_ops = set(); samples = []; ok_texts = set()

    def runh(args, e, tmo=240):
        """harness process with a deadline: a corrupted heap or a deadlock in the library under test must not hang the check"""
        class R: pass
        try:
            return subprocess.run(args, capture_output=True, text=True, env=e, errors='replace', timeout=tmo)
        except subprocess.TimeoutExpired as ex:
            r = R(); r.returncode = -9
            r.stdout = (ex.stdout.decode('latin1') if isinstance(ex.stdout, bytes) else (ex.stdout or ''))
            r.stderr = (ex.stderr.decode('latin1') if isinstance(ex.stderr, bytes) else (ex.stderr or '')) + '\n[harness killed after %d s: hang]' % tmo
            return r

    def one_round(lines, sd, label):
        if sum(1 for v in viol if v['kind'] == 'crash') >= 2: return      # two crashed / hung rounds are evidence enough: do not wait for more deadlines
        path = ctx.sc.path('script_%d.txt' % stats['rounds'])
        with open(path, 'w') as f: f.write('\n'.join(lines) + '\n')
        e = dict(env, LC_ALL='C')
        r = runh([exe, 'run', path, str(sd)], e)
        s = runh([exe, 'serial', path, str(sd)], e)
        if ctx.tier == 'thorough' and r.returncode == 0 and r.stdout == s.stdout:
            # the same scripts under two more schedules (other yield/spin pattern)
            for extra in (1, 2):
                r2 = runh([exe, 'run', path, str(sd + 7919 * extra)], e)
                stats['schedules'] = stats.get('schedules', 0) + 1
                if r2.returncode != 0 or r2.stdout != s.stdout: r = r2; break
        stats['rounds'] += 1; stats['calls'] += len(lines)
        nt = 1 + max(int(l.split(' ', 1)[0]) for l in lines)
        stats['threads'].append(nt)
        for l in lines: all_ops.add(l.split(' ', 1)[1])
        reps = tsan_reports(r.stderr) + tsan_reports(s.stderr)
        if r.returncode not in (0, 66) and s.returncode == 0:
            # the serial run of the same script is fine, the concurrent one crashed or hung: that is the property failing
            stats['tsan_reports'] += len(reps)
            viol.append(dict(kind='crash', what='concurrent run of a script whose serial run is fine %s (exit %d): %s' % (
                'hung' if r.returncode == -9 else 'crashed', r.returncode, (reps[0].split('\n')[0] if reps else r.stderr[-300:])),
                report=(reps[0][:2500] if reps else r.stderr[-2500:]), lines=lines, seed=sd, label=label))
            return
        if r.returncode not in (0, 66) or s.returncode != 0:
            rep['tie_broken'].append('%s: thread harness exited %d / serial %d: %s' % (label, r.returncode, s.returncode, (r.stderr + s.stderr)[-300:]))
            return
        if reps:
            stats['tsan_reports'] += len(reps)
            viol.append(dict(kind='race', what='ThreadSanitizer: ' + reps[0].split('\n')[0], report=reps[0][:2500], lines=lines, seed=sd, label=label))
        if r.stdout != s.stdout:
            a = r.stdout.splitlines(); b = s.stdout.splitlines()
            d = [(x, y) for x, y in zip(a, b) if x != y]
            stats['serial_mismatches'] += len(d) or 1
            viol.append(dict(kind='serial', what='a call returned something else than in the serial run: %s | serial: %s' % (d[0] if d else ('(length)', '')), lines=lines, seed=sd, label=label))
        else:
            byt = {}
            for l in lines:
                t_, o_ = l.split(' ', 1); byt.setdefault(int(t_), []).append(o_)
            for ol in r.stdout.splitlines():
                m = re.match(r'T (\d+) (\d+) (.*)', ol)
                if m and not re.search(r' e:\d|:~|bad-op|unparsed|noerr', m.group(3)): ok_texts.add(byt[int(m.group(1))][int(m.group(2))])
            if not samples: samples.append(dict(script_line=lines[0], result=r.stdout.splitlines()[0][:160]))

    if replay:
        txt = open(replay).read()
        m = re.search(r'^#seed (\d+)', txt, flags=re.M); sd = int(m.group(1)) if m else 0
        lines = [l for l in txt.splitlines() if l and not l.startswith('#')]
        if re.search(r'^#mode locale', txt, flags=re.M): lines = []
        for k in range(5):
            if lines: one_round(lines, sd + k, 'replay')
            if viol: break
    else:
        plan = [(8, 220), (16, 160), (12, 200), (16, 120), (8, 300), (10, 200), (16, 200), (14, 150)] if ctx.tier == 'quick' else [(8, 600), (16, 450), (12, 500), (10, 450), (16, 700)] * 40
        cdir = os.path.join(sl.VERIF, 'corpus')                      # corpus first
        for fn in sorted(os.listdir(cdir)) if os.path.isdir(cdir) else []:
            if fn.startswith(ID + '-') and fn.endswith('.lines'):
                txt = open(os.path.join(cdir, fn)).read()
                one_round([l for l in txt.splitlines() if l and not l.startswith('#')], 1, 'corpus ' + fn)
        for i, (nt, nops) in enumerate(plan):
            one_round(make_script(ctx.rng, meta, nt, nops), ctx.rng.getrandbits(31), 'round %d (%d threads)' % (i, nt))
        if explain:       # the footprint / MT-safety theorem is broken: concentrate 16 threads on the offending entries
            ents = [e for e in sorted(set(x['entry'] for x in explain)) if e in xrlops.generic_functions(meta)]
            for k in range(8):
                if not ents or any(v['kind'] == 'race' for v in viol): break
                one_round(make_script(ctx.rng, meta, 16, 300, only=ents), ctx.rng.getrandbits(31), 'targeted round %d (%s)' % (k, ','.join(ents[:4])))
    stats['distinct_ops'] = len(all_ops)

    # ---- DESIGN §3 C17: try to EXHIBIT the setlocale race -----------------------------------------------
    locale_finding = None
    if not replay or re.search(r'^#mode locale', open(replay).read(), flags=re.M):
        for k in range(3 if ctx.tier == 'quick' else 10):
            p = runh([exe, 'locale', '16', '150', 'Ca5(PO4)3F'], env)
            stats['locale_runs'] += 1
            reps = tsan_reports(p.stderr)
            m = re.search(r'L queries (\d+) changed (\d+) final (\S+)', p.stdout)
            if p.returncode == 3:
                ctx.notes.append('locale C.utf8 unavailable: setlocale search skipped'); break
            ch = int(m.group(2)) if m else 0
            if reps: stats['locale_tsan'] += 1
            if ch: stats['locale_changed'] += 1
            if (reps or ch) and locale_finding is None:
                in_parser = bool(reps) and 'setlocale' in reps[0] and 'CompoundParser' in reps[0]
                locale_finding = dict(kind='locale', what=('ThreadSanitizer: %s; ' % reps[0].split('\n')[0] if reps else '') + 'application thread saw LC_NUMERIC change in %d of %s queries (final %s)' % (ch, m.group(1) if m else '?', m.group(3) if m else '?'),
                                      report=(reps[0][:2500] if reps else ''), key=KEY_LOCALE if (in_parser or (ch and not reps)) else None)
        if locale_finding:
            hit = [k for k in known if k[0] == locale_finding.get('key')]
            if uses_setlocale == 'false':
                rep['tie_broken'].append('Lean: no function of libxrl switches the locale; real library: ' + locale_finding['what'])
            if hit: rep['known'].append((locale_finding, hit[0]))
            else: viol.append(locale_finding)
        elif uses_setlocale == 'true':
            ctx.notes.append('setlocale race not exhibited in %d runs on this libc: serial_equivalence_partial / race_free_partial stand on their named hypotheses only' % stats['locale_runs'])

    # ---- report ------------------------------------------------------------------------------------------
    exit_code = 0
    for f, k in rep['known']:
        print('KNOWN-FINDING: property=%s %s: %s' % (ID, k[0], k[1]))
    broken = rep['proof_broken'] or rep['tie_broken'] or rep['problems']
    if viol:
        v = viol[0]
        body = '# violation of %s on the real library under ThreadSanitizer (harness/c17_threads.c)\n# %s\n# %s\n' % (ID, v['what'], v.get('label', ''))
        if v.get('report'): body += '# ' + v['report'].replace('\n', '\n# ') + '\n'
        if v['kind'] == 'locale': body += '#mode locale\n# replay: c17_threads locale 16 150 Ca5(PO4)3F  (LC_NUMERIC=C.utf8 held by one application thread)\n'
        else: body += '#seed %d\n' % v['seed'] + '\n'.join(v['lines']) + '\n'
        for x in explain[:20]: body += '# footprint: entry %s reaches %s (%s): writes %s, external calls outside the MT-Safe list %s\n' % (x['entry'], x['function'], x['file'], x['writes'], x['exts'])
        if broken: body += '# broken obligations: %s\n' % json.dumps(dict(proof=rep['proof_broken'], tie=rep['tie_broken'], other=rep['problems']))[:3000]
        path = core.write_replay(ctx, body)
        print('VIOLATION property=%s replay=%s' % (ID, path)); exit_code = 1
    elif broken:
        body = '# %s is no longer shown to hold; %d TSan rounds (%d calls) exhibited no race and no deviation from the serial run\n' % (ID, stats['rounds'], stats['calls'])
        if rep['proof_broken']: body += '# theorems that no longer check: %s\n# %s\n' % (', '.join(rep['proof_broken']), rep.get('proof_log', '').replace('\n', '\n# '))
        for x in explain[:40]: body += '# footprint: entry %s reaches %s (%s): writes %s, external calls outside the MT-Safe list %s\n' % (x['entry'], x['function'], x['file'], x['writes'], x['exts'])
        for tb in rep['tie_broken']: body += '# tie broken: %s\n' % tb
        for pb in rep['problems']: body += '# %s\n' % pb
        path = core.write_replay(ctx, body)
        print('VIOLATION property=%s replay=%s no-failing-input-found' % (ID, path)); exit_code = 1

    n_dis = 0 if not ok_props else sum(1 for th in theorems if th in axioms and not (set(axioms[th]) - sl.ALLOWED_AXIOMS))
    ex = xrlops.exercised(sorted(all_ops), meta)
    cov = dict(obligations=max(len(theorems), 1), discharged=n_dis,
               checker_cmd='cd lean-sched && lake build %s  (then `#print axioms` on each theorem; thorough: leanchecker)' % MODULE,
               trusted_base=sl.TRUSTED_BASE + ['ThreadSanitizer (clang-14) as the observer of the tie: it sees the library and the harness, not the inside of libc'],
               theorems=[dict(name=th, axioms=axioms.get(th)) for th in theorems],
               traces_validated_against_impl=stats['calls'], evaluations=stats['calls'] + stats['locale_runs'], distinct_nontrivial=len(ok_texts), distinct_calls=stats['distinct_ops'],
               rule='seeded scripts for 8-16 threads over every thread-safe entry point (tools/xrlops.py; failing calls that allocate error objects, _CP functions that '
                    'parse and free, crystal lookups that copy, catalogue lookups, error API), executed concurrently under ThreadSanitizer and serially; per-thread result '
                    'vectors must be identical and TSan silent.  distinct_nontrivial = distinct call texts (function + arguments) executed concurrently that agreed with the serial run and produced a value/object rather than an error.  Separately: the setlocale search (16 parser threads '
                    'vs one application thread holding LC_NUMERIC=C.utf8)',
               samples=samples + [dict(finding=f['what'], key=k[0]) for f, k in rep['known']] + [dict(violation=v['what']) for v in viol[:2]],
               thread_stats=stats, lean_verdicts=ev, public_functions_exercised=len(ex),
               not_exercised=sorted(set(n for n, c in meta['classes'].items() if c != 'mutator') - ex),
               excluded_as_documented=sorted(n for n, c in meta['classes'].items() if c == 'mutator'),
               known_findings_reproduced=len(rep['known']), table_sha256=meta['sha256'],
               broken=dict(proof=rep['proof_broken'], tie=rep['tie_broken'], other=rep['problems']))
    sl.write_evidence(ctx, 'proof', cov, len(viol) + (1 if broken and not viol else 0),
                      ['MT-safety classes of the external callees (DESIGN §6): malloc family, vasprintf, qsort, bsearch, lfind, strtod, fprintf(stderr), strerror (glibc >= 2.32), libm, str*/mem*: MT-Safe; setlocale: MT-Unsafe',
                       'every access is atomic and sequentially consistent in the model: the hardware/compiler memory model and races inside libc are not exhibited by it',
                       'a C function behaves as SOME program of atomic accesses within its syntactic footprint (checked, not proved, by the TSan harness)'])
    log('%s %s: exit %d (%.1fs; theorems %d/%d; %d TSan rounds, %d calls, threads %s; tsan reports %d, serial mismatches %d; locale search: tsan %d/%d changed %d/%d; known %d)' % (
        ID, ctx.tier, exit_code, time.time() - ctx.t0, n_dis, len(theorems), stats['rounds'], stats['calls'], sorted(set(stats['threads'])), stats['tsan_reports'],
        stats['serial_mismatches'], stats['locale_tsan'], stats['locale_runs'], stats['locale_changed'], stats['locale_runs'], len(rep['known'])))
    return exit_code

class _Check:
    id = ID
    def run(self, tier, seed, replay=None): return run(tier, seed, replay)

CHECK = _Check()
