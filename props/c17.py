"""C17 — concurrent queries from many threads are race-free and agree with serial results.

Decided by the theorems of lean-sched/XrlSched/Props/C17.lean (schedule model + footprint table + MT-safety
table); tied to the real library by harness/c17_threads.c under ThreadSanitizer: 8–16 threads, seeded mixes of
every thread-safe entry point, per-thread results compared with a serial run of the same scripts; any TSan report
contradicts the model's `race_free`.  The setlocale search of DESIGN §3 C17 is run as a separate experiment.
Rounds run on the tables as shipped AND on the regenerated Kissel configuration (where the Kissel / cascade family succeeds);
every thread also READS one user crystal array shared by all threads (promised safe); a canary round (two threads inserting
into the built-in array without a lock: documented as unsafe) must make ThreadSanitizer speak, else the detector is not live."""
import os, sys, re, json, time, subprocess, random
HERE = os.path.dirname(os.path.abspath(__file__))
sys.path.insert(0, os.path.join(os.path.dirname(HERE), 'tools'))
import schedlib as sl
from schedlib import core, cbuild, xrlops, log

ID = 'C17'
MODULE = 'XrlSched.Props.C17'
NAMESPACE = 'XrlSched.C17'
PROPS = os.path.join(sl.LEAN_DIR, 'XrlSched', 'Props', 'C17.lean')
PROPS16 = os.path.join(sl.LEAN_DIR, 'XrlSched', 'Props', 'C16.lean')
KEY_LOCALE = 'CompoundParser:setlocale(LC_NUMERIC) tsan:free-vs-app-read'
NONVACUITY = ['exConfig', 'glibcExtC', 'exConfig_conf', 'exSharedReaders', 'exSharedReaders_conf', 'exSharedWriter']
TSAN_ENV = dict(TSAN_OPTIONS='halt_on_error=0 exitcode=66 report_signal_unsafe=0 second_deadlock_stack=1')
EXCLUDED_OPS = ('AddBuiltin', 'ReadFileBuiltin')        # mutation of the shared built-in crystal array needs external locking, as documented
ERR_RE = re.compile(r' e:\d|:~|bad-op|unparsed|noerr')
SHARED_READERS = ('Bragg_angle', 'Crystal_dSpacing', 'Crystal_UnitCellVolume', 'Q_scattering_amplitude', 'Crystal_F_H_StructureFactor',
                  'Crystal_F_H_StructureFactor_Partial', 'Crystal_F_H_StructureFactor2', 'Crystal_F_H_StructureFactor_Partial2')

def opname(o): return o.split(' ', 1)[0].replace('retain-', '')

def tsan_reports(stderr):
    return re.findall(r'WARNING: ThreadSanitizer: [^\n]*(?:\n(?!==================)[^\n]*){0,160}', stderr)

def access_blocks(rep):
    """the stacks of a report: [(what, [(function, location), …])] for the two accesses and, for a heap location, its allocation"""
    out = []
    for m in re.finditer(r'^  ((?:Previous )?(?:[Aa]tomic )?(?:[Ww]rite|[Rr]ead) of size \d+|Location is heap block of size \d+|Mutex \S+)[^\n]*\n((?:    #\d+ [^\n]*\n?)+)', rep, flags=re.M):
        out.append((m.group(1), re.findall(r'#\d+ (\S+) (\S+)', m.group(2))))
    return out

def report_class(rep):
    """a ThreadSanitizer report -> its class: (kind, the first frame WITH a source position of either access, the location)"""
    kind = rep.split('\n')[0].replace('WARNING: ThreadSanitizer: ', '').split(' (pid')[0]
    tops = []
    for what, fr in access_blocks(rep):
        if what.startswith(('Location', 'Mutex')): continue
        src = [f for f, loc in fr if loc.startswith('/')] or [f for f, loc in fr if not loc.startswith('<null>')]
        tops.append('%s in %s' % (re.sub(r'^previous | of size \d+', '', what.lower()), src[0] if src else (fr[0][0] if fr else '?')))
    loc = re.search(r"Location is (global '[^']+'|heap block|stack of \S+ thread|thread-local|file descriptor \d+)", rep)
    return '%s: %s [%s]' % (kind, ' / '.join(sorted(tops)), loc.group(1) if loc else 'unknown location')

def setlocale_lines(repo):
    try: src = open(os.path.join(repo, 'src', 'xraylib-parser.c')).read().splitlines()
    except OSError: return set()
    return {i + 1 for i, l in enumerate(src) if 'setlocale' in l}

def locale_report_known(rep, lines):
    """is this report of the setlocale experiment the KNOWN race (known_findings.txt: CompoundParser's setlocale calls vs the application thread's
    reads of the locale name, or vs the setlocale calls of another parser thread)?  Every access must be either the application thread
    (harness: holder_thread) or lie INSIDE a setlocale call made by CompoundParser: no libxrl function between the access and that call, and the
    call sits on a line of xraylib-parser.c that calls setlocale.  Anything else in the same run is a different race and is reported."""
    acc = [(w, fr) for w, fr in access_blocks(rep) if not w.startswith(('Location', 'Mutex'))]
    if len(acc) < 2: return False
    # The application thread of the experiment touches shared memory in ONE way only: it reads the string setlocale(LC_NUMERIC, NULL) returned.
    # A report with that read on one side is therefore about the locale name — possibly about the block after setlocale freed it under the
    # reader and malloc handed it to somebody else (seen: `xrl_strdup(compoundString)` of another parser thread): the same defect.
    if any(re.match(r'(?:previous )?read', w.lower()) and 'holder_thread' in [f for f, _ in fr] for w, fr in acc): return True
    for w, fr in acc:
        fns = [f for f, _ in fr]
        if 'holder_thread' in fns: continue
        if 'CompoundParser' not in fns: return False
        i = fns.index('CompoundParser')
        if any('/src/' in loc and 'libc' not in loc and not loc.startswith(('locale/', 'string/', 'stdlib/', 'malloc/')) for _, loc in fr[:i]): return False
        m = re.search(r':(\d+)(?::\d+)?$', fr[i][1])
        if not m or int(m.group(1)) not in lines: return False
    return True

def run(tier, seed, replay=None):
    ctx = sl.Ctx(ID, tier, seed)
    try:
        return _run(ctx, replay)
    except sl.BuildError as e:
        log('BUILD ERROR', str(e)[:3000])
        path = core.write_replay(ctx, 'check %s could not build the working tree or its own harness:\n%s\n' % (ID, str(e)[:4000]), 'txt')
        print('VIOLATION property=%s replay=%s no-failing-input-found' % (ID, path))
        sl.write_evidence(ctx, 'proof', dict(obligations=1, discharged=0, checker_cmd='cd lean-sched && lake build ' + MODULE, trusted_base=sl.TRUSTED_BASE,
                          explanation='build failed: ' + str(e)[:500], evaluations=1, distinct_nontrivial=0), 1, [])
        return 1
    finally:
        ctx.close()

def make_script(rng, meta, nthreads, nops, only=None, files=(), mode=None, extra=()):
    """mode None: the whole mix; 'kissel': biased to the Kissel / cascade family with arguments valid on the regenerated table (`only` = the family,
    `extra` = known-good calls); 'shared': every thread only READS the one shared user crystal array"""
    g = xrlops.OpGen(random.Random(rng.getrandbits(64)), meta, threads=True, shared=True, files=files)
    if mode == 'kissel':
        g.Z = [26, 82, 47, 29, 56] + [g.rng.choice([0, 120, 99])]; g.E = [95.0, 30.0, 12.0] + [g.rng.uniform(1, 120) for _ in range(2)] + [g.rng.choice([0.0, -1.0, 1e4])]
    lines = []
    for t in range(nthreads):
        if mode == 'kissel':
            ops = []
            for _ in range(nops):
                r_ = g.rng.random()
                ops.append(g.generic_op(g.rng.choice(only)) if r_ < 0.6 else g.rng.choice(extra) if (r_ < 0.8 and extra) else g.op())
        elif mode == 'shared':
            ops = []
            for _ in range(nops):
                r_ = g.rng.random()
                if r_ < 0.25: ops.append('SharedGet %s %s' % (xrlops.esc(g.rng.choice(xrlops.SHARED_NAMES + ['Unobtainium'])), g.slot()))
                elif r_ < 0.35: ops.append('SharedList %s' % g.slot())
                else:
                    o = g.generic_op(g.rng.choice([f for f in SHARED_READERS if f in g.generic]))
                    ops.append(re.sub(r' [@~]\S*', lambda m: ' $' + xrlops.esc(g.rng.choice(xrlops.SHARED_NAMES)), o, count=1))
        elif only:
            g.fresh_p = 0.05
            ops = [g.generic_op(g.rng.choice(only)) for _ in range(nops)]
        else:
            ops = g.ops(nops)
        lines += ['%d %s' % (t, o) for o in ops if opname(o) not in EXCLUDED_OPS]
    return lines

def header_note(repo):
    """the clause "as documented": include/xraylib-crystal-diffraction.h must carry the note for multithreaded programs, and the functions it
    names should exist.  -> dict(present, named, stale, current_mutators_named)"""
    try: txt = open(os.path.join(repo, 'include', 'xraylib-crystal-diffraction.h')).read()
    except OSError: return dict(present=False, named=[], stale=[], text='')
    m = re.search(r'/\*\s*Note for multithreaded programs:(.*?)(?:\n \*\s*\n|\*/)', txt, flags=re.S)
    if not m: return dict(present=False, named=[], stale=[], text='')
    note = re.sub(r'\s*\n \* ?', ' ', m.group(1)).strip()
    named = re.findall(r'\b(Crystal\w+)\b', note)
    hdrs = ''.join(open(os.path.join(repo, 'include', f)).read() for f in sorted(os.listdir(os.path.join(repo, 'include'))) if f.endswith('.h'))
    hdrs = hdrs.replace(m.group(0), ' ')           # a name counts as existing when a header declares it (function or type) OUTSIDE the note
    stale = sorted(set(n for n in named if not re.search(r'\b%s\b' % re.escape(n), hdrs)))
    named = sorted(set(named))
    return dict(present=True, named=named, stale=stale, text=note, says_not_thread_safe=bool(re.search(r'not thread.?safe', note, flags=re.I)),
                says_locking=bool(re.search(r'lock', note, flags=re.I)))

def _run(ctx, replay):
    rep = dict(proof_broken=[], tie_broken=[], problems=[], known=[])
    known = sl.known(ID)
    objs, fl = sl.build_c(ctx, 'thread', 'tsan')
    meta, lean_tmp, fp_problems = sl.extract_footprint(ctx)
    rep['tie_broken'] += ['footprint extraction: ' + p for p in fp_problems]
    evals = ['Gen.localeProtocols.any (fun p => (firstLit p.ops).isSome)', 'Gen.localeProtocols.length', 'C16.pureEntries.length', 'C16.localeEntries.length',
             'Gen.localeProtocols.all (fun p => exhibits p)']
    with sl.Lock():
        changed = sl.install_gen(lean_tmp)
        ok_props, blog = sl.lake_build(ctx, [MODULE])
        theorems, axioms, ev, aprobs = (sl.theorems_of(PROPS, NAMESPACE), {}, {}, [])
        if ok_props:
            theorems, axioms, ev, aprobs = sl.audit(ctx, MODULE, NAMESPACE, PROPS, evals)
        if ok_props and ctx.tier == 'thorough':
            okc, txt = sl.leanchecker(ctx, MODULE)
            if not okc: aprobs.append('leanchecker rejected %s: %s' % (MODULE, txt))
            else: ctx.notes.append('leanchecker re-checked %s' % MODULE)
    rep['problems'] += aprobs
    src = open(PROPS).read()
    for w in NONVACUITY:
        if not re.search(r'\b%s\b' % re.escape(w), src): rep['problems'].append('non-vacuity witness %s missing from %s' % (w, MODULE))
    explain = []
    if not ok_props:
        rep['proof_broken'] = sl.failing_theorems(blog, PROPS) + ['C16.' + x for x in sl.failing_theorems(blog, PROPS16)] or ['(module %s does not build)' % MODULE]
        rep['proof_log'] = sl.first_errors(blog)
        mt = sl.names_in(PROPS, ['mtSafe'])['mtSafe']
        explain = sl.explain_footprint(meta, set(mt) | {'setlocale'})
        for n_ in meta.get('escapes_bad', []):
            rep['problems'].append('handed_out_objects_fresh: %s hands out (or writes) memory that is not its caller\'s alone: %s' % (n_, meta['escapes'][n_]))
    uses_setlocale = ev.get(evals[0], 'unknown')

    exe = sl.link_harness(ctx, objs, fl, 'c17_threads.c', 'c17_threads', libs=('-lm', '-lpthread'), meta=meta)
    files = xrlops.write_crystal_files(ctx.sc.dir)
    good_files = [f for f in files if f in ('xv_user1.dat', 'xv_user2.dat')]
    shared_file = 'xv_user1.dat'                      # read into the shared user array by the main thread before the threads start
    exeR = None; fam = sl.kissel_family(meta); famg = [f for f in fam if f in xrlops.generic_functions(meta)]
    try:
        exeR = sl.link_harness(ctx, sl.build_c_kissel(ctx, objs, 'thread', 'tsan'), fl, 'c17_threads.c', 'c17_threadsR', libs=('-lm', '-lpthread'), meta=meta)
    except sl.BuildError as ex:
        rep['tie_broken'].append('regenerated-Kissel configuration could not be built (data/kissel -> kissel_pe.dat -> prdata): %s' % str(ex)[:400])
    env = {k: v for k, v in os.environ.items() if not k.startswith('LC_') and k != 'LANG'}
    env.update(TSAN_ENV)
    stats = dict(rounds=0, calls=0, threads=[], tsan_reports=0, tsan_report_classes={}, serial_mismatches=0, distinct_ops=0, locale_runs=0, locale_tsan=0, locale_changed=0,
                 locale_reports=0, locale_reports_other=0, shared_array_rounds=0, shared_array_reads=0, kissel_rounds=0)
    viol = []; all_ops = set(); samples = []; ok_texts = set(); ok_kissel = set()

    def runh(args, e, tmo=240):
        """harness process with a deadline: a corrupted heap or a deadlock in the library under test must not hang the check"""
        class R: pass
        try:
            return subprocess.run(args, capture_output=True, text=True, env=e, errors='replace', timeout=tmo, cwd=ctx.sc.dir)
        except subprocess.TimeoutExpired as ex:
            r = R(); r.returncode = -9
            r.stdout = (ex.stdout.decode('latin1') if isinstance(ex.stdout, bytes) else (ex.stdout or ''))
            r.stderr = (ex.stderr.decode('latin1') if isinstance(ex.stderr, bytes) else (ex.stderr or '')) + '\n[harness killed after %d s: hang]' % tmo
            return r

    def classes_of(reps):
        cl = {}
        for x in reps:
            c_ = report_class(x); cl[c_] = cl.get(c_, 0) + 1
            stats['tsan_report_classes'][c_] = stats['tsan_report_classes'].get(c_, 0) + 1
        return cl

    def one_round(lines, sd, label, exe=exe, okset=ok_texts):
        if sum(1 for v in viol if v['kind'] == 'crash') >= 2: return      # two crashed / hung rounds are evidence enough: do not wait for more deadlines
        path = ctx.sc.path('script_%d.txt' % stats['rounds'])
        with open(path, 'w') as f: f.write('\n'.join(lines) + '\n')
        e = dict(env, LC_ALL='C')
        r = runh([exe, 'run', path, str(sd), shared_file], e)
        s = runh([exe, 'serial', path, str(sd), shared_file], e)
        if ctx.tier == 'thorough' and r.returncode == 0 and r.stdout == s.stdout:
            # the same scripts under two more schedules (other yield/spin pattern)
            for extra in (1, 2):
                r2 = runh([exe, 'run', path, str(sd + 7919 * extra), shared_file], e)
                stats['schedules'] = stats.get('schedules', 0) + 1
                if r2.returncode != 0 or r2.stdout != s.stdout: r = r2; break
        stats['rounds'] += 1; stats['calls'] += len(lines)
        nt = 1 + max(int(l.split(' ', 1)[0]) for l in lines)
        stats['threads'].append(nt)
        for l in lines: all_ops.add(l.split(' ', 1)[1])
        reps = tsan_reports(r.stderr) + tsan_reports(s.stderr)
        kis = exe is exeR and exeR is not None
        if r.returncode not in (0, 66) and s.returncode == 0:
            # the serial run of the same script is fine, the concurrent one crashed or hung: that is the property failing
            stats['tsan_reports'] += len(reps)
            viol.append(dict(kind='crash', what='concurrent run of a script whose serial run is fine %s (exit %d): %s' % (
                'hung' if r.returncode == -9 else 'crashed', r.returncode, (reps[0].split('\n')[0] if reps else r.stderr[-300:])),
                report=(reps[0][:2500] if reps else r.stderr[-2500:]), classes=classes_of(reps), lines=lines, seed=sd, label=label, kissel=kis))
            return
        if r.returncode not in (0, 66) or s.returncode != 0:
            rep['tie_broken'].append('%s: thread harness exited %d / serial %d: %s' % (label, r.returncode, s.returncode, (r.stderr + s.stderr)[-300:]))
            return
        if reps:
            # EVERY report is classified (kind, the two code locations, the object), not only the first: the replay names each class once
            stats['tsan_reports'] += len(reps)
            cl = classes_of(reps); first = {}
            for x in reps: first.setdefault(report_class(x), x)
            viol.append(dict(kind='race', what='ThreadSanitizer: %d report(s) in %d class(es): %s' % (len(reps), len(cl), '; '.join('%s (x%d)' % kv for kv in sorted(cl.items()))[:900]),
                             report='\n'.join(v_[:1800] for v_ in list(first.values())[:4]), classes=cl, lines=lines, seed=sd, label=label, kissel=kis))
        arr = [l for l in r.stdout.splitlines() if l.startswith('A shared-array')]
        if len(arr) != 2 or arr[0] != arr[1] or arr[0].split()[2] in ('-1', '0'):
            viol.append(dict(kind='shared-array', what='the shared user crystal array was modified while the threads were only reading it (or could not be built): %s' % arr, lines=lines, seed=sd, label=label, kissel=kis))
        if r.stdout != s.stdout:
            a = r.stdout.splitlines(); b = s.stdout.splitlines()
            d = [(x, y) for x, y in zip(a, b) if x != y]
            stats['serial_mismatches'] += len(d) or 1
            viol.append(dict(kind='serial', what='a call returned something else than in the serial run: %s | serial: %s' % (d[0] if d else ('(length)', '')), lines=lines, seed=sd, label=label, kissel=kis))
        else:
            byt = {}
            for l in lines:
                t_, o_ = l.split(' ', 1); byt.setdefault(int(t_), []).append(o_)
            for ol in r.stdout.splitlines():
                m = re.match(r'T (\d+) (\d+) (.*)', ol)
                if m and not ERR_RE.search(m.group(3)): okset.add(byt[int(m.group(1))][int(m.group(2))])
            if not samples: samples.append(dict(script_line=lines[0], result=[l for l in r.stdout.splitlines() if l.startswith('T ')][0][:160]))
        stats['shared_array_reads'] += sum(1 for l in lines if ' $' in l or ' Shared' in l)

    def errshare_round(nt, epochs, sd, label):
        """round ErrorShare (harness: `c17_threads errshare`): errors (and crystal copies) made by ONE thread through the public API, their copies handed to
        the other threads through a barrier, then every thread copies / propagates / clears / frees its own objects concurrently.  TSan must be silent,
        every copy must carry the recorded code and text, and the output must equal the serial one."""
        if sum(1 for v in viol if v['kind'] == 'crash') >= 2: return
        e = dict(env, LC_ALL='C')
        r = runh([exe, 'errshare', str(nt), str(epochs), str(sd)], e, tmo=180)
        s = runh([exe, 'errshare', str(nt), str(epochs), str(sd), 'serial'], e, tmo=180)
        stats['errshare_rounds'] = stats.get('errshare_rounds', 0) + 1
        lines = ['#mode errshare %d %d' % (nt, epochs)]
        reps = tsan_reports(r.stderr) + tsan_reports(s.stderr)
        if s.returncode != 0 or not re.search(r'^E 0 copies [1-9]', s.stdout, flags=re.M):
            rep['tie_broken'].append('%s: serial reference run of the ErrorShare round failed (exit %d): %s' % (label, s.returncode, (s.stdout + s.stderr)[-300:])); return
        if r.returncode not in (0, 66):
            stats['tsan_reports'] += len(reps)
            viol.append(dict(kind='crash', what='ErrorShare round: threads copying / freeing their OWN error objects (copies of one original, handed over through a barrier) %s (exit %d) while the serial run is fine: %s' % (
                'hung' if r.returncode == -9 else 'crashed', r.returncode, (reps[0].split('\n')[0] if reps else r.stderr[-300:])),
                report=(reps[0][:2500] if reps else r.stderr[-2500:]), classes=classes_of(reps), lines=lines, seed=sd, label=label, kissel=False)); return
        cop = sum(int(x) for x in re.findall(r'^E \d+ copies (\d+)', r.stdout, flags=re.M))
        stats['errshare_copies'] = stats.get('errshare_copies', 0) + cop
        if reps:
            stats['tsan_reports'] += len(reps)
            cl = classes_of(reps); first = {}
            for x in reps: first.setdefault(report_class(x), x)
            viol.append(dict(kind='race', what='ErrorShare round: ThreadSanitizer: %d report(s) in %d class(es) while every thread handled only its own error objects / crystal copies: %s' % (
                len(reps), len(cl), '; '.join('%s (x%d)' % kv for kv in sorted(cl.items()))[:900]),
                report='\n'.join(v_[:1800] for v_ in list(first.values())[:4]), classes=cl, lines=lines, seed=sd, label=label, kissel=False))
        bad = [l for l in r.stdout.splitlines() if re.match(r'E \d+ copies \d+ mismatches [1-9]', l)]
        if bad:
            stats['serial_mismatches'] += len(bad)
            viol.append(dict(kind='error-copy', what='ErrorShare round: a copy of an error (or crystal) did not carry the code / text of its original: %s' % bad[0][:400], lines=lines, seed=sd, label=label, kissel=False))
        elif r.stdout != s.stdout:
            stats['serial_mismatches'] += 1
            viol.append(dict(kind='serial', what='ErrorShare round: concurrent output differs from the serial one: %r vs %r' % (r.stdout[:200], s.stdout[:200]), lines=lines, seed=sd, label=label, kissel=False))

    if replay:
        txt = open(replay).read()
        m = re.search(r'^#seed (\d+)', txt, flags=re.M); sd = int(m.group(1)) if m else 0
        m = re.search(r'^#mode errshare (\d+) (\d+)', txt, flags=re.M)
        if m:
            for k in range(3):
                errshare_round(int(m.group(1)), int(m.group(2)), sd + k, 'replay')
                if viol: break
        lines = [l for l in txt.splitlines() if l and not l.startswith('#')]
        if re.search(r'^#mode (locale|errshare)', txt, flags=re.M): lines = []
        rexe = exeR if (exeR is not None and re.search(r'^#config kissel', txt, flags=re.M)) else exe
        for k in range(5):
            if lines: one_round(lines, sd + k, 'replay', exe=rexe)
            if viol: break
    else:
        plan = [(8, 220), (16, 160), (12, 200), (16, 120), (8, 300), (10, 200), (16, 200), (14, 150)] if ctx.tier == 'quick' else [(8, 600), (16, 450), (12, 500), (10, 450), (16, 700)] * 40
        cdir = os.path.join(sl.VERIF, 'corpus')                      # corpus first
        for fn in sorted(os.listdir(cdir)) if os.path.isdir(cdir) else []:
            if fn.startswith(ID + '-') and fn.endswith('.lines'):
                txt = open(os.path.join(cdir, fn)).read()
                m = re.search(r'^#mode errshare (\d+) (\d+)', txt, flags=re.M)
                if m:
                    m2 = re.search(r'^#seed (\d+)', txt, flags=re.M)
                    errshare_round(int(m.group(1)), int(m.group(2)), int(m2.group(1)) if m2 else 1, 'corpus ' + fn); continue
                one_round([l for l in txt.splitlines() if l and not l.startswith('#')], 1, 'corpus ' + fn)
        for i, (nt, nops) in enumerate(plan):
            one_round(make_script(ctx.rng, meta, nt, nops, files=good_files + ['xv_bad.dat']), ctx.rng.getrandbits(31), 'round %d (%d threads)' % (i, nt))
        # every thread only READS the one shared user array (lookups that copy, lists, the numeric functions on the entries themselves)
        for i, (nt, nops) in enumerate([(16, 250), (8, 400)] if ctx.tier == 'quick' else [(16, 500), (8, 800), (12, 600)] * 6):
            one_round(make_script(ctx.rng, meta, nt, nops, mode='shared'), ctx.rng.getrandbits(31), 'shared-array round %d (%d threads reading one user Crystal_Array)' % (i, nt))
            stats['shared_array_rounds'] += 1
        # round ErrorShare: an error and its copies in DIFFERENT threads (made by one thread, handed over through a barrier, then handled concurrently)
        for i, (nt, ep) in enumerate([(8, 6), (16, 4)] if ctx.tier == 'quick' else [(8, 20), (16, 12), (4, 40), (12, 16)] * 3):
            errshare_round(nt, ep, ctx.rng.getrandbits(31), 'ErrorShare round %d (%d threads, %d epochs)' % (i, nt, ep))
        # the regenerated Kissel configuration: the Kissel / cascade family on its success path, concurrently
        if exeR is not None:
            from props import c16 as C16
            good = C16.kissel_good_ops(meta, fam)
            for i, (nt, nops) in enumerate([(16, 160), (8, 300), (12, 200)] if ctx.tier == 'quick' else [(16, 450), (8, 700), (12, 500), (10, 500)] * 8):
                one_round(make_script(ctx.rng, meta, nt, nops, only=famg, files=good_files, mode='kissel', extra=good), ctx.rng.getrandbits(31),
                          'Kissel round %d (%d threads, regenerated kissel_pe.dat)' % (i, nt), exe=exeR, okset=ok_kissel)
                stats['kissel_rounds'] += 1
            ksucc = {f: 0 for f in famg}
            for o in ok_kissel:
                if opname(o) in ksucc: ksucc[opname(o)] += 1
            stats['kissel'] = dict(family=len(fam), distinct_succeeding_calls=sum(ksucc.values()), succeeded_per_function=ksucc)
            never = sorted(f for f, n_ in ksucc.items() if n_ == 0)
            if never and not viol:
                rep['tie_broken'].append('regenerated-Kissel configuration: %d Kissel/cascade functions never succeeded concurrently (%s): their success path was not exercised' % (len(never), ', '.join(never[:12])))
        if explain:       # the footprint / MT-safety theorem is broken: concentrate 16 threads on the offending entries
            ents = [e for e in sorted(set(x['entry'] for x in explain)) if e in xrlops.generic_functions(meta)]
            for k in range(8):
                if not ents or any(v['kind'] == 'race' for v in viol): break
                one_round(make_script(ctx.rng, meta, 16, 300, only=ents), ctx.rng.getrandbits(31), 'targeted round %d (%s)' % (k, ','.join(ents[:4])))
                if exeR is not None and any(e_ in fam for e_ in ents):
                    one_round(make_script(ctx.rng, meta, 16, 200, only=[e_ for e_ in ents if e_ in fam], mode='kissel', extra=C16.kissel_good_ops(meta, [e_ for e_ in ents if e_ in fam])),
                              ctx.rng.getrandbits(31), 'targeted Kissel round %d' % k, exe=exeR, okset=ok_kissel)
        # ---- canary: the documented exception.  Two threads insert into the built-in array without a lock: ThreadSanitizer MUST report
        # a race on Crystal_arr.  If it stays silent the detector is not live (mis-built harness, suppressed reports) and nothing above
        # means anything.  (Until now liveness was only shown by the known setlocale finding, which a repair would remove.)
        canary = ['%d AddBuiltin @%s Canary%d_%d E' % (t_, ['Si', 'Ge'][t_], t_, k_) for k_ in range(3) for t_ in range(2)]
        cpath = ctx.sc.path('canary.txt')
        with open(cpath, 'w') as f: f.write('\n'.join(canary) + '\n')
        for k in range(4):
            c_ = runh([exe, 'run', cpath, str(k + 1), shared_file], dict(env, LC_ALL='C'), tmo=120)
            creps = [x for x in tsan_reports(c_.stderr) if 'Crystal_AddCrystal' in x]
            stats['canary_runs'] = k + 1; stats['canary_reports'] = len(creps)
            if creps:
                stats['canary_class'] = report_class(creps[0]); break
        if not stats.get('canary_reports'):
            sr = runh([exe, 'selfrace'], dict(env, LC_ALL='C'), tmo=60)
            stats['canary_selfrace_reports'] = len(tsan_reports(sr.stderr))
            rep['tie_broken'].append(('ThreadSanitizer does report an unsynchronised counter of the harness itself, so either the library objects are not instrumented or '
                                      'Crystal_AddCrystal synchronises internally now (then the documented exemption and this canary are obsolete); ' if stats['canary_selfrace_reports'] else '') +'detector not live: two threads inserting into the built-in crystal array without a lock (documented as unsafe) produced no ThreadSanitizer report in %d runs (exit %s): silence of the other rounds proves nothing' % (stats['canary_runs'], c_.returncode))
    # ---- "as documented": the header's note for multithreaded programs -------------------------------------------------------------
    note = header_note(cbuild.REPO)
    stats['header_note'] = {k: v for k, v in note.items() if k != 'text'}
    if not replay:
        if not note['present'] or not note.get('says_not_thread_safe') or not note.get('says_locking'):
            rep['problems'].append('include/xraylib-crystal-diffraction.h no longer carries the note for multithreaded programs (crystal-array mutators need locking): the exemption of C17 is "as documented"')
        elif note['stale']:
            ctx.notes.append('OBSERVATION (documentation): the threading note of include/xraylib-crystal-diffraction.h names %s, which no header declares; the functions that modify '
                             'a crystal array today are %s.  The note still says what the property needs (adding to the built-in array is not thread safe, use a lock), '
                             'but by obsolete names' % (note['stale'], sorted(n for n, c in meta['classes'].items() if c == 'mutator')))
            log('OBSERVATION property=%s header threading note names functions that do not exist: %s' % (ID, note['stale']))
    stats['distinct_ops'] = len(all_ops)

    # ---- DESIGN §3 C17: try to EXHIBIT the setlocale race -----------------------------------------------
    locale_finding = None; sl_lines = setlocale_lines(cbuild.REPO)
    if not replay or re.search(r'^#mode locale', open(replay).read(), flags=re.M):
        for k in range(3 if ctx.tier == 'quick' else 10):
            p = runh([exe, 'locale', '16', '150', 'Ca5(PO4)3F'], env)
            stats['locale_runs'] += 1
            reps = tsan_reports(p.stderr)
            m = re.search(r'L queries (\d+) changed (\d+) final (\S+)', p.stdout)
            if p.returncode == 3:
                ctx.notes.append('locale C.utf8 unavailable: setlocale search skipped'); break
            ch = int(m.group(2)) if m else 0
            if reps: stats['locale_tsan'] += 1
            if ch: stats['locale_changed'] += 1
            # EVERY report of the run is classified: the known race is "inside a setlocale call made by CompoundParser vs the application's
            # read of the locale name / another parser thread's setlocale"; anything else in the same run is a different race, reported as such
            kn = [x for x in reps if locale_report_known(x, sl_lines)]; other = [x for x in reps if not locale_report_known(x, sl_lines)]
            stats['locale_reports'] += len(reps); stats['locale_reports_other'] += len(other)
            stats.setdefault('locale_report_classes', {})
            for x in reps:
                c_ = report_class(x); stats['locale_report_classes'][c_] = stats['locale_report_classes'].get(c_, 0) + 1
            if other and not any(v['kind'] == 'locale-other' for v in viol):
                viol.append(dict(kind='locale-other', what='ThreadSanitizer, during the setlocale experiment, reports a race that is NOT the known one (not inside a setlocale call of CompoundParser): %s' % report_class(other[0]),
                                 report=other[0][:2500], key=None))
            if (kn or ch) and locale_finding is None:
                locale_finding = dict(kind='locale', what=('ThreadSanitizer: %s; ' % report_class(kn[0]) if kn else '') + 'application thread saw LC_NUMERIC change in %d of %s queries (final %s)' % (ch, m.group(1) if m else '?', m.group(3) if m else '?'),
                                      report=(kn[0][:2500] if kn else ''), key=KEY_LOCALE)
        if locale_finding:
            hit = [k for k in known if k[0] == locale_finding.get('key')]
            if uses_setlocale == 'false':
                rep['tie_broken'].append('Lean: no function of libxrl switches the locale; real library: ' + locale_finding['what'])
            if hit: rep['known'].append((locale_finding, hit[0]))
            else: viol.append(locale_finding)
        elif uses_setlocale == 'true':
            ctx.notes.append('setlocale race not exhibited in %d runs on this libc: serial_equivalence_partial / race_free_partial stand on their named hypotheses only' % stats['locale_runs'])

    # ---- report ------------------------------------------------------------------------------------------
    exit_code = 0
    for f, k in rep['known']:
        print('KNOWN-FINDING: property=%s %s: %s' % (ID, k[0], k[1]))
    broken = rep['proof_broken'] or rep['tie_broken'] or rep['problems']
    if viol:
        v = viol[0]
        body = '# violation of %s on the real library under ThreadSanitizer (harness/c17_threads.c)\n# %s\n# %s\n' % (ID, v['what'], v.get('label', ''))
        if v.get('report'): body += '# ' + v['report'].replace('\n', '\n# ') + '\n'
        if v.get('classes'): body += ''.join('# report class (x%d): %s\n' % (n_, c_) for c_, n_ in sorted(v['classes'].items()))
        for v2 in viol[1:4]: body += '# also: %s (%s)\n' % (v2['what'][:400], v2.get('label', ''))
        if v['kind'] in ('locale', 'locale-other'): body += '#mode locale\n# replay: c17_threads locale 16 150 Ca5(PO4)3F  (LC_NUMERIC=C.utf8 held by one application thread)\n'
        elif v.get('lines') and v['lines'][0].startswith('#mode errshare'):
            body += '# replay: c17_threads errshare <threads> <epochs> <seed>  (per epoch: the main thread makes 10 error objects through the public API — failing calls of 7 families, 3 constructors — and 3 crystal\n' \
                    '# copies, makes one xrl_error_copy / Crystal_MakeCopy per thread (odd indices: copies of copies), hands them over through a pthread barrier; then every thread\n' \
                    '# does 60 rounds of copy / compare / propagate / matches / clear / free on ITS objects; see harness/c17_threads.c)\n#seed %d\n%s\n' % (v['seed'], v['lines'][0])
        else: body += ('#config kissel   (tables of the regenerated Kissel configuration: tools/regen_kissel.py)\n' if v.get('kissel') else '') + '#seed %d\n' % v['seed'] + '\n'.join(v['lines']) + '\n'
        for x in explain[:20]: body += '# footprint: entry %s reaches %s (%s): writes %s, external calls outside the MT-Safe list %s\n' % (x['entry'], x['function'], x['file'], x['writes'], x['exts'])
        if broken: body += '# broken obligations: %s\n' % json.dumps(dict(proof=rep['proof_broken'], tie=rep['tie_broken'], other=rep['problems']))[:3000]
        path = core.write_replay(ctx, body)
        print('VIOLATION property=%s replay=%s' % (ID, path)); exit_code = 1
    elif broken:
        body = '# %s is no longer shown to hold; %d TSan rounds (%d calls) exhibited no race and no deviation from the serial run\n' % (ID, stats['rounds'], stats['calls'])
        if rep['proof_broken']: body += '# theorems that no longer check: %s\n# %s\n' % (', '.join(rep['proof_broken']), rep.get('proof_log', '').replace('\n', '\n# '))
        for x in explain[:40]: body += '# footprint: entry %s reaches %s (%s): writes %s, external calls outside the MT-Safe list %s\n' % (x['entry'], x['function'], x['file'], x['writes'], x['exts'])
        for tb in rep['tie_broken']: body += '# tie broken: %s\n' % tb
        for pb in rep['problems']: body += '# %s\n' % pb
        path = core.write_replay(ctx, body)
        print('VIOLATION property=%s replay=%s no-failing-input-found' % (ID, path)); exit_code = 1

    n_dis = 0 if not ok_props else sum(1 for th in theorems if th in axioms and not (set(axioms[th]) - sl.ALLOWED_AXIOMS))
    ex = xrlops.exercised(sorted(all_ops), meta)
    cov = dict(obligations=max(len(theorems), 1), discharged=n_dis,
               checker_cmd='cd lean-sched && lake build %s  (then `#print axioms` on each theorem; thorough: leanchecker)' % MODULE,
               trusted_base=sl.TRUSTED_BASE + ['ThreadSanitizer (clang-14) as the observer of the tie: it sees the library and the harness, not the inside of libc'],
               theorems=[dict(name=th, axioms=axioms.get(th)) for th in theorems],
               traces_validated_against_impl=stats['calls'], evaluations=stats['calls'] + stats['locale_runs'], distinct_nontrivial=len(ok_texts) + len(ok_kissel), distinct_calls=stats['distinct_ops'],
               distinct_nontrivial_shipped_tables=len(ok_texts), distinct_nontrivial_regenerated_kissel=len(ok_kissel),
               rule='seeded scripts for 8-16 threads over every thread-safe entry point (tools/xrlops.py; failing calls that allocate error objects, _CP functions that '
                    'parse and free, crystal lookups that copy, catalogue lookups, error API), executed concurrently under ThreadSanitizer and serially; per-thread result '
                    'vectors must be identical and TSan silent.  distinct_nontrivial = distinct call texts (function + arguments) executed concurrently that agreed with the serial run and produced a value/object rather than an error, '
                    'summed over the two data configurations (tables as shipped: the Kissel/cascade family can only fail; kissel_pe.dat regenerated from data/kissel: thread_stats.kissel.succeeded_per_function).  '
                    'In every round all threads also read ONE user Crystal_Array built by the main thread (lookups, lists, numeric functions on the entries themselves, uncopied), and there are rounds of only that; '
                    'the array must be bit-identical afterwards.  Canary: two threads inserting into the built-in array without a lock must produce a TSan report, else the check fails (detector not live).  '
                    'Round ErrorShare (thread_stats.errshare_rounds / errshare_copies): one thread obtains error objects through the public API (failing calls of seven families, three constructors) and crystal copies, '
                    'makes one xrl_error_copy / Crystal_MakeCopy per thread (and copies of copies), hands them over through a pthread barrier, then ALL threads copy / compare / propagate / match / clear / free '
                    'their own objects concurrently: TSan silent, every copy carries the code and text recorded at creation, output equal to the serial run.  '
                    'Separately: the setlocale search (16 parser threads vs one application thread holding LC_NUMERIC=C.utf8), every one of whose reports is classified',
               samples=samples + [dict(finding=f['what'], key=k[0]) for f, k in rep['known']] + [dict(violation=v['what']) for v in viol[:2]],
               thread_stats=stats, lean_verdicts=ev, public_functions_exercised=len(ex),
               not_exercised=sorted(set(n for n, c in meta['classes'].items() if c != 'mutator') - ex),
               excluded_as_documented=sorted(n for n, c in meta['classes'].items() if c == 'mutator'),
               known_findings_reproduced=len(rep['known']), table_sha256=meta['sha256'],
               broken=dict(proof=rep['proof_broken'], tie=rep['tie_broken'], other=rep['problems']))
    sl.write_evidence(ctx, 'proof', cov, len(viol) + (1 if broken and not viol else 0),
                      ['MT-safety classes of the external callees (DESIGN §6): malloc family, vasprintf, qsort, bsearch, lfind, strtod, fprintf(stderr), strerror (glibc >= 2.32), libm, str*/mem*: MT-Safe; setlocale: MT-Unsafe',
                       'every access is atomic and sequentially consistent in the model: the hardware/compiler memory model and races inside libc are not exhibited by it',
                       'a C function behaves as SOME program of atomic accesses within its syntactic footprint (checked, not proved, by the TSan harness)'])
    log('%s %s: exit %d (%.1fs; theorems %d/%d; %d TSan rounds, %d calls, threads %s; tsan reports %d, serial mismatches %d; locale search: tsan %d/%d changed %d/%d; known %d)' % (
        ID, ctx.tier, exit_code, time.time() - ctx.t0, n_dis, len(theorems), stats['rounds'], stats['calls'], sorted(set(stats['threads'])), stats['tsan_reports'],
        stats['serial_mismatches'], stats['locale_tsan'], stats['locale_runs'], stats['locale_changed'], stats['locale_runs'], len(rep['known'])))
    return exit_code

class _Check:
    id = ID
    def run(self, tier, seed, replay=None): return run(tier, seed, replay)

CHECK = _Check()
