"""C09 — jump-ratio XRF cross sections = photo cross section x jump share x yield x rate."""
import math, json, os
from vlib.runner import Check
from vlib import core
from vlib.core import hx, unhx

FNS = ['CS_FluorShell', 'CSb_FluorShell', 'CS_FluorLine', 'CSb_FluorLine']
L3O45, L3O4, L3O5 = -102, -101, -103          # the doublet slot and its members (include/xraylib-lines.h; checked against Hdr below)

class C09(Check):
    id = 'C09'
    module = 'Xrl.Props.C09'
    namespace = 'Xrl.C09'
    # C09b: L-beta with every member once (under the executed condition "no rate for the doublet slot L3O45 AND one of its members"),
    # the cross sections as (whatever CS_Photo returns) x factor for EVERY photo table (the hybrid oracle for Z = 96), a witness
    # on which fluorshell_jump_spec / fluorline_jump_spec yield a value
    extra_modules = [('Xrl.Props.C09b', 'Xrl.C09')]
    functions = FNS + ['Jump_from_K', 'Jump_from_L1', 'Jump_from_L2', 'Jump_from_L3']
    assumptions = ['theorems assume the shape of the photo table (vecOkB) and the edge-order invariant edgeOrderB (E_L1 >= E_L2 >= E_L3 among present edges, no gap, yield => edge); '
                   'both are executed on the dumped tables on every run (spec.edgeOrderFailures must be empty; spec.shapeFailures must not name a photo table other than the known Photo:96)',
                   'where vecOkB fails (Z = 96) the theorems fluorshell_factorises / fluorline_factorises / fluorline_LB_factorises need no shape hypothesis: the search compares with '
                   'library CS_Photo x spec.shellFactorOf / spec.lineFactor there, at every energy including the span of the two out-of-order knots',
                   'the L-beta sum uses the 15-line list of cs_line.c (13 of kissel_pe.c + L3O4 + L3O5): on a table carrying a rate for the doublet slot L3O45 AND for one of its members it counts '
                   'that transition twice.  fluorline_LB_once holds under lbDoubleCountB = false, which is executed on every run: spec.lbDoubleCount must be [], the public RadRate must not report '
                   'a rate for L3O45 and for L3O4/L3O5 of the same element, and every L-beta call is also compared with the once-counted sum (spec.CS_FluorLine_LBonce)']

    def edges(self, ctx):
        if hasattr(ctx, '_e09'): return ctx._e09
        ls = ['EdgeEnergy %d %d N' % (Z, s) for Z in range(1, 121) for s in range(4)]
        out = ctx.run_c(ls); e = {}
        for l, o in zip(ls, out):
            _, Z, s, _ = l.split(); e[(int(Z), int(s))] = core.parse_answer(o)['vals'][0]
        ctx._e09 = e
        return e

    def photo_knots(self, ctx):
        """Z -> abscissae ln(1000 E) of the photo table, from the dumped tables"""
        if hasattr(ctx, '_k09'): return ctx._k09
        try: out = ctx.run_model(['vec E_Photo_arr %d' % Z for Z in range(1, 121)])
        except core.BuildError: out = []
        ctx._k09 = {Z: [unhx(t) for t in o.split(' ')[1:] if t] for Z, o in zip(range(1, 121), out)}
        return ctx._k09

    def bad_spans(self, xs):
        """energy spans (keV) around out-of-order knot pairs of a photo table: there the bracketing interval, hence CS_Photo, is undefined"""
        sp = []
        for k in range(len(xs) - 1):
            if xs[k + 1] < xs[k]:                  # the inverted pair itself: below xs[k+1] and above xs[k] every bracketing rule agrees
                sp.append((math.exp(xs[k + 1] - 1e-9) / 1000.0, math.exp(xs[k] + 1e-9) / 1000.0))
        return sp

    def points(self, ctx):
        if hasattr(ctx, '_p09'): return ctx._p09
        e = self.edges(ctx); r = ctx.rng
        kn = self.photo_knots(ctx)
        step = 1 if ctx.tier == 'thorough' else 3; off = r.randrange(step)
        pts = []
        lines = [0, 1, 2, 3, 4, -1, -2, -3, -4, -16, -29, -30, -31, -43, -58, -59, -60, -63, -85, -86, -89, -90, -95, -102, -113, -114, -120, -383, 7]
        Zs = list(range(1 + off, 121, step)) + [0, -1, 121]
        if 96 not in Zs: Zs.append(96)           # curium is judged by the hybrid oracle in every run
        for Z in Zs:
            Es = {0.0, -1.0, 0.3, 1.0, 5.0, 20.0, 80.0, 150.0, 900.0}
            for s in range(4):
                ed = e.get((Z, s), 0.0)
                if ed > 0:
                    for f in (1 - 1e-9, 1.0, 1 + 1e-9, 1.02, 0.98): Es.add(ed * f)
            xs = kn.get(Z, [])
            if len(xs) >= 2:                       # both ends of the photo table
                for x, fs in ((xs[0], (1 - 1e-9, 1.0, 1 + 1e-9)), (xs[-1], (1 - 1e-9, 1.0, 1 + 1e-6))):
                    for f in fs: Es.add(math.exp(x) / 1000.0 * f)
                for lo, hi in self.bad_spans(xs):  # inside and on both sides of a span of out-of-order knots
                    for E in (lo * (1 - 1e-6), lo, 0.5 * (lo + hi), math.sqrt(lo * hi), hi, hi * (1 + 1e-6)): Es.add(E)
            Es = sorted(Es)
            for E in Es:
                for sh in range(-1, 6): pts.append(('Shell', Z, sh, E))
                for ln in lines: pts.append(('Line', Z, ln, E))
        ctx._p09 = pts
        return pts

    def corr_lines(self, ctx):
        out = []
        for k, Z, x, E in self.points(ctx):
            for pre in ('CS', 'CSb'):
                out.append('%s_Fluor%s %d %d %s E' % (pre, k, Z, x, hx(E)))
        return out + [l[:-1] + 'N' for l in out[::11]]

    def search(self, ctx):
        cl = []; sl = []; fl = []; pl = []
        for k, Z, x, E in self.points(ctx):
            for pre in ('CS', 'CSb'):
                cl.append('%s_Fluor%s %d %d %s E' % (pre, k, Z, x, hx(E))); sl.append('spec.%s_Fluor%s %d %d %s' % (pre, k, Z, x, hx(E)))
                fl.append('spec.%s %d %d %s' % ('shellFactorOf' if k == 'Shell' else 'lineFactor', Z, x, hx(E)))
                pl.append('CS_Photo %d %s E' % (Z, hx(E)))
        c = ctx.run_c(cl)
        inv_ops = ['spec.edgeOrderFailures', 'spec.lineShellNamesAgree', 'spec.shapeFailures', 'spec.lbDoubleCount', 'spec.lbMemberRates']
        try: e = ctx.run_model(sl + inv_ops)
        except core.BuildError: return 0, [], {'rule': 'specification driver unavailable'}
        e_order, e_names, e_shape, e_dbl, e_mem = e[len(sl):]
        viol = []; stats = {}; nontriv = set()
        if e_order.strip() != 'list []':
            viol.append(dict(key='edge-order', got=e_order, expected='list []', what='edge-order data invariant fails on the tables of the working tree'))
        if e_names.strip() != 'bool true':
            viol.append(dict(key='line-shell-map', got=e_names, expected='bool true', what='line->shell ranges differ from the name-derived map'))
        # ---- photo tables that violate vecOkB: only the ones recorded as a known finding of C02 are judged by the hybrid oracle; any other is new
        known_shape = {k[0][len('shape:'):] for k in core.load_known_findings().get('C02', []) if k[0].startswith('shape:')}
        bad_shape = set(x for x in e_shape[len('shape ['):-1].split(', ') if x)
        badZ = set()
        for sname in sorted(bad_shape):
            if sname.startswith('Photo:'):
                badZ.add(int(sname.split(':')[1]))
                if sname not in known_shape:
                    viol.append(dict(key='shape:' + sname, got='vecOkB false', expected='knots non-decreasing, count inside the vectors',
                                     what='data hypothesis of the C09 theorems fails for a photo table that is not a recorded finding'))
        kn = self.photo_knots(ctx)
        spans = {Z: self.bad_spans(kn.get(Z, [])) for Z in badZ}
        # ---- L-beta double count: the executable form of the hypothesis of fluorline_LB_once, on the tables and through the public RadRate
        n_extra = 0
        if e_dbl.strip() != 'list []':
            viol.append(dict(key='lb-double-count', got=e_dbl, expected='list []', what='an element has a radiative rate for the doublet slot L3O45 and for one of its members L3O4 / L3O5: '
                             'the 15-line L-beta sum of cs_line.c counts that transition twice (hypothesis of C09.fluorline_LB_once)'))
        vals = json.load(open(ctx.sc.path('aux', 'hdr_vals.json')))
        for nm, val in (('L3O45_LINE', L3O45), ('L3O4_LINE', L3O4), ('L3O5_LINE', L3O5)):
            if vals[nm]['value'] != val: viol.append(dict(key='header:' + nm, got=str(vals[nm]['value']), expected=str(val), what='macro value used by the L-beta data check'))
        rq = ['RadRate %d %d N' % (Z, ln) for Z in range(1, 121) for ln in (L3O45, L3O4, L3O5)]
        rr = [core.parse_answer(o) for o in ctx.run_c(rq)]; n_extra += len(rq)
        has = lambda p: p['kind'] == 'ok' and bool(p['vals']) and p['vals'][0] != 0
        slot_Z = [Z for Z in range(1, 121) if has(rr[3 * (Z - 1)])]
        memb_Z = [Z for Z in range(1, 121) if has(rr[3 * (Z - 1) + 1]) or has(rr[3 * (Z - 1) + 2])]
        for Z in sorted(set(slot_Z) & set(memb_Z))[:5]:
            l3 = self.edges(ctx).get((Z, 3), 0.0)
            viol.append(dict(key='CS_FluorLine %d 3 %s E' % (Z, hx(max(l3, 0.1) * 1.5)), got='RadRate reports a rate for L3O45 and for L3O4/L3O5 of Z = %d' % Z, expected='the doublet carries its rate once',
                             what='L-beta of this element counts the L3-O4,5 transition twice'))
        lb_once = [(i, 'spec.CS_FluorLine_LBonce %s %s' % (l.split()[1], l.split()[3])) for i, l in enumerate(cl) if l.startswith('CS_FluorLine ') and l.split()[2] == '3']
        lb_e = ctx.run_model([x for _, x in lb_once]) if lb_once else []
        n_extra += len(lb_once)
        # ---- hybrid oracle for the elements whose photo table violates vecOkB: library CS_Photo x specified factor (theorems *_factorises)
        hyb = [i for i, l in enumerate(cl) if int(l.split()[1]) in badZ]
        hyb_stats = dict(elements=sorted(badZ), calls=0, value_expected=0, inside_bad_span=0, spans_keV=[list(map(lambda v: round(v, 6), sp)) for Z in sorted(badZ) for sp in spans[Z]])
        if hyb:
            fac = ctx.run_model([fl[i] for i in hyb])
            pho = ctx.run_c(sorted(set(pl[i] for i in hyb))); phd = dict(zip(sorted(set(pl[i] for i in hyb)), pho))
            avog = float(vals['AVOGNUM']['value'])
            awq = ['AtomicWeight %d N' % Z for Z in sorted(badZ)]
            aw = {Z: core.parse_answer(o)['vals'][0] for Z, o in zip(sorted(badZ), ctx.run_c(awq))}
            n_extra += len(hyb)
            for i, fo in zip(hyb, fac):
                l = cl[i]; t = l.split(); Z = int(t[1]); E = unhx(t[3])
                pa = core.parse_answer(phd[pl[i]])
                hyb_stats['calls'] += 1
                if any(lo <= E <= hi for lo, hi in spans[Z]): hyb_stats['inside_bad_span'] += 1
                if fo == 'fails' or not (pa['kind'] == 'ok' and pa['slot'] == 'E' and pa['vals'][0] != 0):
                    exp = 'fails'                 # the factor fails, or the library's own CS_Photo fails: the product must fail
                elif fo.startswith('value'):
                    v = pa['vals'][0] * unhx(fo.split(' ')[1])
                    if l.startswith('CSb_'): v = v * aw[Z] / avog
                    exp = 'value ' + hx(v); hyb_stats['value_expected'] += 1
                else: continue
                if not core.expect_agrees(c[i], exp, rel=1e-12, stats=stats):
                    viol.append(dict(key=l, got=c[i], expected=exp + '  (= library CS_Photo(%d, E) = %s  x  %s)' % (Z, phd[pl[i]], fo),
                                     what='jump-ratio XRF cross section of an element whose photo table violates vecOkB: library vs library CS_Photo x specified factor'))
        for i, (l, co, eo) in enumerate(zip(cl, c, e)):
            if eo.startswith('value'): nontriv.add(l)
            Z = int(l.split()[1])
            if Z in badZ:
                # known data defect (C02): out-of-order photo knots; only inside their span is CS_Photo — and with it the full specification —
                # undefined (the hybrid oracle above judges those calls); everywhere else the element is judged like any other
                E_ = unhx(l.split()[-2])
                if any(lo <= E_ <= hi for lo, hi in spans[Z]): continue
            if not core.expect_agrees(co, eo, rel=1e-11, stats=stats):
                viol.append(dict(key=l, got=co, expected=eo, what='jump-ratio XRF cross section: library vs specification'))
        for (i, _), eo in zip(lb_once, lb_e):
            Z = int(cl[i].split()[1])
            if Z in badZ and any(lo <= unhx(cl[i].split()[-2]) <= hi for lo, hi in spans[Z]): continue
            if not core.expect_agrees(c[i], eo, rel=1e-11, stats=stats):
                viol.append(dict(key=cl[i], got=c[i], expected=eo + '  (every L-beta member transition counted once)', what='L-beta: library (15-line list) vs the sum with the doublet L3O45 counted once'))
        stats.update(rule='Z (every %s, and 96) x shells [-1,5] x 29 line macros (all classes, groups, boundaries) x energies at, +-1e-9 and +-2%% around every K/L1/L2/L3 edge of the element, both ends of its photo table, '
                          'plus fixed energies, for CS/CSb FluorShell/FluorLine; non-trivial = calls with a value expected' % ('Z' if ctx.tier == 'thorough' else '3rd Z, seeded offset'),
                     distinct_nontrivial=len(nontriv), hybrid_oracle=hyb_stats,
                     lbeta=dict(double_count=e_dbl, member_rates=e_mem, radrate_slot_elements=len(slot_Z), radrate_member_elements=len(memb_Z), once_counted_comparisons=len(lb_once)),
                     samples=[dict(call=cl[i], impl=c[i], expected=e[i]) for i in (3, len(cl) // 2, len(cl) - 2)])
        return len(cl) + n_extra, viol[:200], stats

CHECK = C09()
