"""C09 — jump-ratio XRF cross sections = photo cross section x jump share x yield x rate."""
import math
from vlib.runner import Check
from vlib import core
from vlib.core import hx, unhx

FNS = ['CS_FluorShell', 'CSb_FluorShell', 'CS_FluorLine', 'CSb_FluorLine']

class C09(Check):
    id = 'C09'
    module = 'Xrl.Props.C09'
    namespace = 'Xrl.C09'
    functions = FNS + ['Jump_from_K', 'Jump_from_L1', 'Jump_from_L2', 'Jump_from_L3']
    assumptions = ['theorems assume the shape of the photo table (vecOkB) and the edge-order invariant edgeOrderB (E_L1 >= E_L2 >= E_L3 among present edges, no gap, yield => edge); '
                   'both are executed on the dumped tables on every run (spec.shapeFailures / spec.edgeOrderFailures must be empty, up to the known Photo:96 entry)',
                   'the L-beta sum uses the 15-line list of cs_line.c (13 of kissel_pe.c + L3O4 + L3O5); on tables carrying rates for the doublet slot L3O45 AND its members it would double-count — the shipped radrate.dat carries only the slot (lb_members_vs_kissel)']

    def edges(self, ctx):
        if hasattr(ctx, '_e09'): return ctx._e09
        ls = ['EdgeEnergy %d %d N' % (Z, s) for Z in range(1, 121) for s in range(4)]
        out = ctx.run_c(ls); e = {}
        for l, o in zip(ls, out):
            _, Z, s, _ = l.split(); e[(int(Z), int(s))] = core.parse_answer(o)['vals'][0]
        ctx._e09 = e
        return e

    def points(self, ctx):
        if hasattr(ctx, '_p09'): return ctx._p09
        e = self.edges(ctx); r = ctx.rng
        step = 1 if ctx.tier == 'thorough' else 3; off = r.randrange(step)
        pts = []
        lines = [0, 1, 2, 3, 4, -1, -2, -3, -4, -16, -29, -30, -31, -43, -58, -59, -60, -63, -85, -86, -89, -90, -95, -102, -113, -114, -120, -383, 7]
        for Z in list(range(1 + off, 121, step)) + [0, -1, 121]:
            Es = {0.0, -1.0, 0.3, 1.0, 5.0, 20.0, 80.0, 150.0, 900.0}
            for s in range(4):
                ed = e.get((Z, s), 0.0)
                if ed > 0:
                    for f in (1 - 1e-9, 1.0, 1 + 1e-9, 1.02, 0.98): Es.add(ed * f)
            Es = sorted(Es)
            for E in Es:
                for sh in range(-1, 6): pts.append(('Shell', Z, sh, E))
                for ln in lines: pts.append(('Line', Z, ln, E))
        ctx._p09 = pts
        return pts

    def corr_lines(self, ctx):
        out = []
        for k, Z, x, E in self.points(ctx):
            for pre in ('CS', 'CSb'):
                out.append('%s_Fluor%s %d %d %s E' % (pre, k, Z, x, hx(E)))
        return out + [l[:-1] + 'N' for l in out[::11]]

    def search(self, ctx):
        cl = []; sl = []
        for k, Z, x, E in self.points(ctx):
            for pre in ('CS', 'CSb'):
                cl.append('%s_Fluor%s %d %d %s E' % (pre, k, Z, x, hx(E))); sl.append('spec.%s_Fluor%s %d %d %s' % (pre, k, Z, x, hx(E)))
        c = ctx.run_c(cl)
        try: e = ctx.run_model(sl + ['spec.edgeOrderFailures', 'spec.lineShellNamesAgree', 'spec.shapeFailures'])
        except core.BuildError: return 0, [], {'rule': 'specification driver unavailable'}
        viol = []; stats = {}; nontriv = set()
        if e[-3].strip() != 'list []':
            viol.append(dict(key='edge-order', got=e[-3], expected='list []', what='edge-order data invariant fails on the tables of the working tree'))
        if e[-2].strip() != 'bool true':
            viol.append(dict(key='line-shell-map', got=e[-2], expected='bool true', what='line->shell ranges differ from the name-derived map'))
        for l, co, eo in zip(cl, c, e):
            if eo.startswith('value'): nontriv.add(l)
            Z = int(l.split()[1])
            if Z == 96 and 'Photo:96' in e[-1]:
                # known data defect (C02): two photo knots of Cm are out of order near ln E[eV] = 8.295 (E ~ 4.00 keV); only THERE is the
                # photo cross section — and with it this product — undefined; everywhere else curium is judged like any other element
                from vlib.core import unhx as _u
                try: E_ = _u(l.split()[-2])
                except Exception: E_ = None
                if E_ is not None and 3.95 <= E_ <= 4.06: continue
            if not core.expect_agrees(co, eo, rel=1e-11, stats=stats):
                viol.append(dict(key=l, got=co, expected=eo, what='jump-ratio XRF cross section: library vs specification'))
        stats.update(rule='Z (every %s) x shells [-1,5] x 29 line macros (all classes, groups, boundaries) x energies at, +-1e-9 and +-2%% around every K/L1/L2/L3 edge of the element plus fixed energies, '
                          'for CS/CSb FluorShell/FluorLine; non-trivial = calls with a value expected' % ('Z' if ctx.tier == 'thorough' else '3rd Z, seeded offset'),
                     distinct_nontrivial=len(nontriv), samples=[dict(call=cl[i], impl=c[i], expected=e[i]) for i in (3, len(cl) // 2, len(cl) - 2)])
        return len(cl), viol[:200], stats

CHECK = C09()
