"""C03 — errors are reported if and only if the call failed; results are finite."""
import math, re
from vlib.runner import Check
from vlib import core
from vlib import apisweep
from vlib.core import unhx

class C03(Check):
    id = 'C03'
    module = 'Xrl.Props.C03'
    namespace = 'Xrl.C03'
    extra_modules = [('Xrl.Props.C03b', 'Xrl.C03'), ('Xrl.Props.C03c', 'Xrl.C03')]
    functions = None
    assumptions = ['contract theorems exist for the functions that have a specification theorem (accessors, line energies/rates, spline sites, totals); '
                   'the other exported numeric functions are covered by the contract oracle on the real library and by the correspondence run only',
                   'constructors/strings (parser, catalogues, crystals) are covered by the checks of C07, C14, C15 (their error/NULL contracts are part of those models)',
                   'finiteness over the reals means "no non-finite intermediate (division by zero, log/sqrt/asin outside their domain)"; IEEE overflow is not modelled']

    def lines(self, ctx):
        if not hasattr(ctx, '_c03'):
            ctx._c03 = apisweep.lines_for(ctx.meta, ctx.rng, ctx.tier, extreme=False, budget=6000 if ctx.tier == 'quick' else 60000)
        return ctx._c03

    def corr_lines(self, ctx):
        ls = self.lines(ctx)
        return ls + [l[:-1] + 'N' for l in ls if l.endswith(' E')][::3]

    def search(self, ctx):
        ls = [l for l in self.lines(ctx) if l.endswith(' E')]
        ln = [l[:-1] + 'N' for l in ls]
        a = ctx.run_c(ls); b = ctx.run_c(ln)
        viol = []; nontriv = set(); dist = {}; neg = {}
        for l, x, y in zip(ls, a, b):
            fn = l.split(' ')[0]
            p = core.parse_answer(x); q = core.parse_answer(y)
            d = dist.setdefault(fn, [0, 0]); 
            if p['kind'] != 'ok' or q['kind'] != 'ok':
                viol.append(dict(key=l, got=x, expected='a result (no abort)', what='call aborted')); continue
            v = p['vals'][0]
            if p['slot'] == 'E':
                d[0] += 1; nontriv.add(l)
                if isinstance(v, float) and not math.isfinite(v):
                    viol.append(dict(key=l, got=x, expected='finite value', what='non-finite result without an error'))
                elif apisweep.is_positive_quantity(fn) and v == 0:
                    viol.append(dict(key=l, got=x, expected='non-zero or an error', what='positive quantity returned as 0 without an error'))
                elif apisweep.is_positive_quantity(fn) and v < 0:
                    neg[fn] = neg.get(fn, 0) + 1        # observation, not a clause of C03 (e.g. spline undershoot of FF_Rayl at large q)
            else:
                d[1] += 1
                m = re.fullmatch(r'F(\d+):(.+)', p['slot'], re.S)
                if not m or int(m.group(1)) > 5 or v != 0:
                    viol.append(dict(key=l, got=x, expected='sentinel 0 with one error (code 0..5, non-empty message)', what='malformed failure'))
                elif int(m.group(1)) != 1:
                    # "a meaningful code": every way a numeric function can fail is a bad argument or data that do not exist for the argument —
                    # XRL_ERROR_INVALID_ARGUMENT in this library (the C++, Java and Python bindings map the code to an exception class)
                    viol.append(dict(key=l, got=x, expected='error code 1 (XRL_ERROR_INVALID_ARGUMENT)', what='failure of a numeric function reported with another error code'))
            # no slot: same value
            w = q['vals'][0]
            same = (v == w) or (isinstance(v, float) and isinstance(w, float) and math.isnan(v) and math.isnan(w))
            if not same or q['slot'] != 'N':
                viol.append(dict(key=l, got='%s | without slot: %s' % (x, y), expected='identical value', what='passing no error slot changed the result'))
        stats = dict(rule='every exported numeric function of the generated dispatch (%d) x discrete arguments (all Z in [-3,125] / all macros for 1-2 argument functions, structured subsets + seeded values otherwise) '
                          'x structured energies/angles, each call made with an empty slot and with NULL; non-trivial = successful calls' % len(dist),
                     distinct_nontrivial=len(nontriv), negative_values_observed=neg, per_function_ok_err={k: v for k, v in sorted(dist.items())},
                     samples=[dict(call=ls[i], with_slot=a[i], without=b[i]) for i in (0, len(ls) // 2, len(ls) - 1)])
        # ---- the functions that read the Kissel tables fail for every input in the shipped configuration: judge them once more on the table
        #      regenerated from data/kissel, where they succeed
        KRE = re.compile(r'Kissel|Photo_Total|Photo_Partial|^ElectronConfig$|^P[LM]\d_')
        kls = [l for l in ls if KRE.search(l.split(' ')[0])]
        nk = 0
        if kls:
            try:
                suf = ctx.build_kissel_config('real'); kexe = ctx.sc.path('cdrv' + suf)
                ka = ctx.run_c(kls, exe=kexe); kb = ctx.run_c([l[:-1] + 'N' for l in kls], exe=kexe)
                ksucc = 0
                for l, x, y in zip(kls, ka, kb):
                    fn = l.split(' ')[0]; p_ = core.parse_answer(x); q_ = core.parse_answer(y); nk += 2
                    if p_['kind'] != 'ok' or q_['kind'] != 'ok':
                        viol.append(dict(key=l + '  @real', got=x, expected='a result (no abort)', what='call aborted (regenerated Kissel table)')); continue
                    v = p_['vals'][0]
                    if p_['slot'] == 'E':
                        ksucc += 1
                        if isinstance(v, float) and not math.isfinite(v): viol.append(dict(key=l + '  @real', got=x, expected='finite value', what='non-finite result without an error'))
                        elif apisweep.is_positive_quantity(fn) and v == 0: viol.append(dict(key=l + '  @real', got=x, expected='non-zero or an error', what='positive quantity returned as 0 without an error'))
                    else:
                        m_ = re.fullmatch(r'F(\d+):(.+)', p_['slot'], re.S)
                        if not m_ or int(m_.group(1)) > 5 or v != 0: viol.append(dict(key=l + '  @real', got=x, expected='sentinel 0 with one error (code 0..5, non-empty message)', what='malformed failure'))
                    w = q_['vals'][0]
                    if not ((v == w) or (isinstance(v, float) and isinstance(w, float) and math.isnan(v) and math.isnan(w))) or q_['slot'] != 'N':
                        viol.append(dict(key=l + '  @real', got='%s | without slot: %s' % (x, y), expected='identical value', what='passing no error slot changed the result'))
                stats['kissel_regenerated'] = dict(calls=nk, succeeded=ksucc)
            except core.BuildError as ex:
                viol.append(dict(key='regenerated-Kissel configuration', got=str(ex)[:300], expected='builds', what='data/kissel -> kissel_pe.dat -> prdata'))
        on, ov, ost = self.object_api(ctx)
        stats.update(ost)
        stats['rule'] += '; plus the string / object API (formula parser, NIST and radionuclide lookups and lists, symbols, the 21 _CP functions and 3 refractive-index entry points, crystal lookups / copies / lists) ' \
                         'on valid formulas, NIST names, garbage and NULL, at energies on both sides of every table end, each call with a slot and without'
        return 2 * len(ls) + on + nk, (viol + ov)[:300], stats

    def object_api(self, ctx):
        """the error contract on the functions that take strings / hand out objects (harness/c04heap.c)"""
        import os
        from props import c04 as C4
        from vlib import cbuild
        from vlib.core import REPO, VERIF
        exe = ctx.sc.path('c04heap')
        if not os.path.exists(exe):
            cbuild.link(ctx.sc, ctx.objs, [os.path.join(VERIF, 'harness', 'c04heap.c')], exe, ctx.cfl + ['-I' + os.path.join(REPO, 'src')] + C4.WRAP)
        allg = C4.heap_groups(ctx, ctx.sc.path('c03files'))
        singles = [g[0] for g in allg if len(g) == 1 and not g[0].startswith(('err ', 'bfill '))]
        keep = [g for g in allg if len(g) == 1 and g[0].startswith('err ') and int(g[0].split(' ')[1]) >= 6]
        groups = [[l] for l in singles] + [['N:' + l] for l in singles]
        res = C4.run_heap(ctx, exe, groups)
        kres = C4.run_heap(ctx, exe, keep)
        def parse(a):
            m = re.match(r'(-?\d+) d=(\S+) e=(\d) c=(-?\d+) m=(-?\d+) v=(\S+)', a)
            return None if not m else dict(rc=int(m.group(1)), e=int(m.group(3)), c=int(m.group(4)), m=int(m.group(5)), v=m.group(6))
        viol = []; ok = fail = 0; kinds = {}
        for i, g in enumerate(keep):
            got, died = kres.get(i, ([], 'not run'))
            if died is not None or not got or not got[0].startswith('1 '):
                viol.append(dict(key=g[0], got=(got[0] if got else str(died)[-200:]), expected='1: the slot still holds the first error object, unchanged',
                                 what='a later failing call replaced / changed an error that was already stored in the slot (no call stores an error over an existing one)'))
        n = len(singles)
        for i, l in enumerate(singles):
            (ga, da), (gb, db) = res.get(i, ([], 'not run')), res.get(n + i, ([], 'not run'))
            if da is not None or db is not None or not ga or not gb:
                viol.append(dict(key=l, got=str(da or db)[-200:], expected='a result (no abort)', what='call aborted')); continue
            a, b = parse(ga[0]), parse(gb[0])
            if a is None or b is None:
                viol.append(dict(key=l, got=ga[0] + ' | ' + gb[0], expected='an answer', what='malformed answer')); continue
            op = l.split(' ')[0]; kinds[op] = kinds.get(op, 0) + 1
            num = a['v'].startswith('x')
            val = unhx(a['v']) if num else None
            if a['e']:
                fail += 1
                if a['rc'] != 0 or not (0 <= a['c'] <= 5) or a['m'] <= 0 or (num and val != 0):
                    viol.append(dict(key=l, got=ga[0], expected='sentinel 0 / NULL with one error (code 0..5, non-empty message)', what='malformed failure'))
                elif a['c'] != 1:
                    viol.append(dict(key=l, got=ga[0], expected='error code 1 (XRL_ERROR_INVALID_ARGUMENT): no file, allocation or capacity failure is involved in this call', what='failure reported with another error code'))
            else:
                ok += 1
                if num and not math.isfinite(val):
                    viol.append(dict(key=l, got=ga[0], expected='finite value', what='non-finite result without an error'))
                positive = op in ('cp', 'nistn', 'nisti', 'radn', 'radi', 'z2s', 's2z', 'cget', 'ccopy', 'nistl', 'radl', 'clist', 'ri', 'af') or (op == 'cfun' and int(l.split(' ')[1]) in (0, 4, 5)) or (op == 'cscp' and int(l.split(' ')[1]) < 13)
                if positive and a['rc'] == 0:
                    viol.append(dict(key=l, got=ga[0], expected='a non-NULL object / non-zero value, or an error', what='0 / NULL returned without an error'))
            if b['e'] or b['rc'] != a['rc'] or b['v'] != a['v']:
                viol.append(dict(key=l, got='%s | without slot: %s' % (ga[0], gb[0]), expected='identical result', what='passing no error slot changed the result'))
        return 2 * n, viol, dict(object_api=dict(calls=2 * n, succeeded=ok, failed=fail, kinds=kinds))

CHECK = C03()
