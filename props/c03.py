"""C03 — errors are reported if and only if the call failed; results are finite."""
import math, re
from vlib.runner import Check
from vlib import core
from vlib import apisweep
from vlib.core import unhx

class C03(Check):
    id = 'C03'
    module = 'Xrl.Props.C03'
    namespace = 'Xrl.C03'
    extra_modules = [('Xrl.Props.C03b', 'Xrl.C03'), ('Xrl.Props.C03c', 'Xrl.C03'), ('Xrl.Props.C03d', 'Xrl.C03'), ('Xrl.Props.C03e', 'Xrl.C03')]
    functions = None
    assumptions = ['contract theorems exist for the functions that have a specification theorem (accessors, line energies/rates, spline sites, totals); '
                   'the other exported numeric functions are covered by the contract oracle on the real library and by the correspondence run only',
                   'constructors/strings (parser, catalogues, crystals) are covered by the checks of C07, C14, C15 (their error/NULL contracts are part of those models)',
                   'finiteness over the reals means "no non-finite intermediate (division by zero, log/sqrt/asin outside their domain)"; IEEE overflow is not modelled']

    def lines(self, ctx):
        if not hasattr(ctx, '_c03'):
            ctx._c03 = apisweep.lines_for(ctx.meta, ctx.rng, ctx.tier, extreme=False, budget=6000 if ctx.tier == 'quick' else 60000)
        return ctx._c03

    def corr_lines(self, ctx):
        ls = self.lines(ctx)
        return ls + [l[:-1] + 'N' for l in ls if l.endswith(' E')][::3]

    def judge(self, ctx, ls, exe, tag, viol, dist, nontriv, neg, pre_every=5):
        """the contract on the lines `ls` (slot E): each also without a slot (N) and — every failing call, every `pre_every`-th successful one —
        with a slot that already holds an error (P).  -> (calls made, successes)"""
        ln = [l[:-1] + 'N' for l in ls]
        a = ctx.run_c(ls, exe=exe); b = ctx.run_c(ln, exe=exe)
        pidx = []; succ = 0
        for i, (l, x, y) in enumerate(zip(ls, a, b)):
            fn = l.split(' ')[0]
            p = core.parse_answer(x); q = core.parse_answer(y)
            d = dist.setdefault(fn, [0, 0])
            if p['kind'] != 'ok' or q['kind'] != 'ok':
                viol.append(dict(key=l + tag, got=x if p['kind'] != 'ok' else y, expected='a result (no abort)', what='call aborted' + (': an error was stored over an existing one inside ONE call' if 'overwrite' in x + y else ''))); continue
            v = p['vals'][0]
            if p['slot'] == 'E':
                d[0] += 1; nontriv.add(l + tag); succ += 1
                if i % pre_every == 0: pidx.append(i)
                if isinstance(v, float) and not math.isfinite(v):
                    viol.append(dict(key=l + tag, got=x, expected='finite value', what='non-finite result without an error'))
                elif apisweep.is_positive_quantity(fn) and v == 0 and not any(t_ in TINY for t_ in l.split(' ')):
                    viol.append(dict(key=l + tag, got=x, expected='non-zero or an error', what='positive quantity returned as 0 without an error'))
                elif apisweep.is_positive_quantity(fn) and v < 0:
                    neg[fn] = neg.get(fn, 0) + 1        # observation, not a clause of C03 (e.g. spline undershoot of FF_Rayl at large q)
            else:
                d[1] += 1; pidx.append(i)
                m = re.fullmatch(r'F(\d+):(.+)', p['slot'], re.S)
                if not m or int(m.group(1)) > 5 or v != 0:
                    viol.append(dict(key=l + tag, got=x, expected='sentinel 0 with one error (code 0..5, non-empty message)', what='malformed failure'))
                elif int(m.group(1)) != 1:
                    # "a meaningful code": every way a numeric function can fail is a bad argument or data that do not exist for the argument —
                    # XRL_ERROR_INVALID_ARGUMENT in this library (the C++, Java and Python bindings map the code to an exception class); see ERROR_CODES
                    viol.append(dict(key=l + tag, got=x, expected='error code 1 (XRL_ERROR_INVALID_ARGUMENT)', what='failure of a numeric function reported with another error code'))
            # no slot: same value
            w = q['vals'][0]
            same = (v == w) or (isinstance(v, float) and isinstance(w, float) and math.isnan(v) and math.isnan(w))
            if not same or q['slot'] != 'N':
                viol.append(dict(key=l + tag, got='%s | without slot: %s' % (x, y), expected='identical value', what='passing no error slot changed the result'))
        # a slot that already holds an error: it still holds the SAME error afterwards (pointer, code, message), the returned number is the one
        # the call returns with an empty slot, and the library's diagnostic appears exactly when the call failed
        lp = [ls[i][:-1] + 'P' for i in pidx]
        c = ctx.run_c(lp, exe=exe)
        for i, z in zip(pidx, c):
            l = ls[i]; p = core.parse_answer(a[i]); r_ = core.parse_answer(z)
            if p['kind'] != 'ok': continue
            m = re.fullmatch(r'P(\d):(\d+)', r_.get('slot', '')) if r_['kind'] == 'ok' else None
            if not m:
                viol.append(dict(key=l[:-1] + 'P' + tag, got=z, expected='a result (no abort)', what='call with a slot that already holds an error: aborted / malformed answer')); continue
            v = p['vals'][0]; w = r_['vals'][0]; failed = p['slot'] != 'E'
            same = (v == w) or (isinstance(v, float) and isinstance(w, float) and math.isnan(v) and math.isnan(w))
            if m.group(1) != '1':
                viol.append(dict(key=l[:-1] + 'P' + tag, got=z, expected='P1: the slot still holds the first error object, unchanged', what='a call replaced / changed an error that was already stored in the slot (no call stores an error over an existing one)'))
            elif not same:
                viol.append(dict(key=l[:-1] + 'P' + tag, got='%s | with an empty slot: %s' % (z, a[i]), expected='identical value', what='an error already present in the slot changed the result of the call'))
            elif (int(m.group(2)) >= 1) != failed:
                viol.append(dict(key=l[:-1] + 'P' + tag, got='%s | with an empty slot: %s' % (z, a[i]), expected='the overwrite diagnostic exactly when the call fails',
                                 what='a successful call tried to store an error' if not failed else 'a failing call did not report its error to the occupied slot'))
        return 2 * len(ls) + len(lp), succ, a, b

    def search(self, ctx):
        from props import c04 as C4
        ls = [l for l in self.lines(ctx) if l.endswith(' E')]
        viol = []; nontriv = set(); dist = {}; neg = {}
        ncalls, _, a, b = self.judge(ctx, ls, None, '', viol, dist, nontriv, neg)
        stats = dict(rule='every exported numeric function of the generated dispatch (%d) x discrete arguments (all Z in [-3,125] / all macros for 1-2 argument functions, structured subsets + seeded values otherwise) '
                          'x structured energies/angles, each call made with an empty slot, with NULL, and (every failing call, every 5th successful one) with a slot that already holds an error; '
                          'non-trivial = successful calls' % len(dist),
                     negative_values_observed=neg, per_function_ok_err={k: v for k, v in sorted(dist.items())},
                     samples=[dict(call=ls[i], with_slot=a[i], without=b[i]) for i in (0, len(ls) // 2, len(ls) - 1)])
        # ---- "negative and huge values": every double position at -0.0, denormals, 1e-30, 1e30, 1e100 (judged), and at 1e300, DBL_MAX, -1e300
        #      (beyond about 1e150 keV the closed-form Klein-Nishina expressions overflow IEEE doubles: counted, not judged — DESIGN §2.1)
        xl = [l for l in C4.extreme_double_lines(ctx) if l.endswith(' E')]
        big = re.compile(r'x7e37e43c8800759c|x7fefffffffffffff|xfe37e43c8800759c')
        xj = [l for l in xl if not big.search(l)]; xo = [l for l in xl if big.search(l)]
        xdist = {}
        n2, xs, _, _ = self.judge(ctx, xj, None, '', viol, xdist, nontriv, neg)
        ncalls += n2
        oa = ctx.run_c(xo); nf = {}
        for l, x in zip(xo, oa):
            p = core.parse_answer(x)
            if p['kind'] != 'ok': viol.append(dict(key=l, got=x, expected='a result (no abort)', what='call aborted'))
            elif p['slot'] == 'E' and isinstance(p['vals'][0], float) and not math.isfinite(p['vals'][0]): nf[l.split(' ')[0]] = nf.get(l.split(' ')[0], 0) + 1
        ncalls += len(xo)
        stats['extreme_doubles'] = dict(judged_calls=n2, judged_succeeded=xs, beyond_1e150_calls=len(xo), beyond_1e150_nonfinite_without_error=nf)
        # ---- "edges +/- epsilon": every tabulated absorption edge of every element, the energy of the edge itself and one part in 1e9 to
        #      either side, in every function of (Z, E), (Z, shell, E) and (Z, line, E)
        el = self.edge_lines(ctx)
        edist = {}
        n3, es, _, _ = self.judge(ctx, el, None, '', viol, edist, nontriv, neg, pre_every=7)
        ncalls += n3
        stats['edge_energies'] = dict(calls=n3, succeeded=es, functions=len(edist))
        xj = xj + el
        # ---- the functions that read the Kissel tables fail for every input in the shipped configuration: judge them once more on the table
        #      regenerated from data/kissel, where they succeed
        KRE = re.compile(r'Kissel|Photo_Total|Photo_Partial|^ElectronConfig$|^P[LM]\d_')
        kls = [l for l in ls + xj if KRE.search(l.split(' ')[0])]
        suf = None
        if kls:
            try:
                suf = ctx.build_kissel_config('real'); kexe = ctx.sc.path('cdrv' + suf)
                kdist = {}
                nk, ksucc, _, _ = self.judge(ctx, kls, kexe, '  @real', viol, kdist, nontriv, neg)
                ncalls += nk
                stats['kissel_regenerated'] = dict(calls=nk, succeeded=ksucc, functions_never_successful=sorted(f for f, d in kdist.items() if d[0] == 0))
            except core.BuildError as ex:
                viol.append(dict(key='regenerated-Kissel configuration', got=str(ex)[:300], expected='builds', what='data/kissel -> kissel_pe.dat -> prdata'))
        stats['distinct_nontrivial'] = len(nontriv)
        on, ov, ost = self.object_api(ctx, suf)
        stats.update(ost)
        stats['error_code_table'] = ERROR_CODES
        stats['rule'] += '; the same functions with every double position at -0.0, denormals, 1e-30, 1e30, 1e100; the Kissel-dependent functions once more on the regenerated table; ' \
                         'plus the string / object API through harness/c04heap.c (formula parser incl. formulas synthesised in C, add_compound_data, NIST and radionuclide lookups and lists, symbols, the 21 _CP functions ' \
                         'and 3 refractive-index entry points, crystal lookups / copies / lists, the seven numeric crystal functions over a box of Miller indices, every F_H flag value and the ends of int, ' \
                         'user crystal arrays with additions and file loads judged operation by operation, NULL at every pointer position, the error API, XRayInit, deprecated setters, c_abs/c_mul) ' \
                         'on valid formulas, NIST names, garbage and NULL, at energies on both sides of every table end: each call with a slot, without, and with a slot that already holds an error; ' \
                         'the overwrite diagnostic of the library is observed on the C stream stderr of every call; every failure is checked against the per-family table of admissible error codes'
        return ncalls + on, (viol + ov)[:300], stats

    def edge_lines(self, ctx):
        """energies at the absorption edges the library itself reports (EdgeEnergy(Z, shell)), and 1e-9 relative to either side"""
        from vlib.core import hx
        meta = ctx.meta; thorough = ctx.tier == 'thorough'
        q = ['EdgeEnergy %d %d N' % (Z, sh) for Z in range(1, 105) for sh in range(0, 28)]
        edges = {}
        for l, x in zip(q, ctx.run_c(q)):
            p = core.parse_answer(x)
            if p['kind'] == 'ok' and p['vals'][0] > 0:
                _, Z, sh, _ = l.split(' '); edges.setdefault(int(Z), []).append((int(sh), p['vals'][0]))
        sigs = dict(meta.get('untranslated', {})); sigs.update(meta['functions'])
        f2 = []; f3 = []
        for f in sorted(sigs):
            fi = sigs[f]
            if fi['static'] or fi['outs'] or fi['ret'] != 'double' or not fi['has_error'] or fi['file'] in ('pr_data.c', 'xrf_cross_sections_aux-private.c'): continue
            ps = [(n, t) for n, t in fi['params'] if t in ('int', 'double')]
            if any(t not in ('int', 'double', 'errpp') for _, t in fi['params']): continue
            ts = [t for _, t in ps]
            if ts == ['int', 'double'] and ps[0][0].lower() == 'z' and ps[1][0].lower() in ('e', 'energy', 'e0'): f2.append(f)
            elif ts == ['int', 'int', 'double'] and ps[0][0].lower() == 'z' and ps[2][0].lower() in ('e', 'energy', 'e0'): f3.append((f, 'line' if 'line' in ps[1][0].lower() else 'shell'))
        lines_of = {0: [-1, -2, -3, -6, 0, 1], 1: [-30, -34, 3], 2: [-60, -63, 3], 3: [-86, -89, -90, 2, 3]}       # a few lines of the K, L1, L2, L3 series and the group macros
        out = []
        Zs = list(edges) if thorough else [Z for Z in edges if Z % 3 == ctx.seed % 3 or Z in (1, 3, 11, 26, 47, 82, 92, 98)]
        for Z in Zs:
            for sh, E0 in edges[Z]:
                if not thorough and sh > 8 and (Z + sh) % 4: continue
                for E in (E0, E0 * (1 - 1e-9), E0 * (1 + 1e-9)):
                    for f in f2: out.append('%s %d %s E' % (f, Z, hx(E)))
                    for f, kind in f3:
                        if kind == 'shell':
                            for s2 in {sh, max(sh - 1, 0)}: out.append('%s %d %d %s E' % (f, Z, s2, hx(E)))
                        elif sh in lines_of:
                            for ln in lines_of[sh]: out.append('%s %d %d %s E' % (f, Z, ln, hx(E)))
        return out

    def bragg_cutoff(self, ctx, exe, viol):
        """every built-in crystal (the names of Crystal_GetCrystalsList, by index) x every reflection of a box of Miller indices x the cut-off
        energy hc/(2d) itself and its neighbouring doubles x Bragg_angle, Q_scattering_amplitude (3 relative angles), F_H, F_H_Partial, with and
        without slot.  The harness judges (finite value or 0 + one INVALID_ARGUMENT error; same bits without slot) and names each failing call;
        the failing calls are made once more, one by one, through the single-call operations `cfun` / `cfunp` — those lines are the replay."""
        from props import c04 as C4
        from vlib.core import hx, REPO
        thorough = ctx.tier == 'thorough'
        hmax, ulps = (9, 6) if thorough else (5, 4)
        nmax = len(C4.crystal_entries(REPO)) + 12
        lines = ['cedge %s %d %d' % (C4.esc('#%d' % i), hmax, ulps) for i in range(nmax)]
        res = C4.run_heap(ctx, exe, [[l] for l in lines])
        HEAD = re.compile(r'cedge name=(\S+) calls=(\d+) refl=(\d+) skipped=(\d+) ok=(\d+) err=(\d+) nv=(\d+) d=(-?\d+) ow=(\d+)')
        ENT = re.compile(r'(\d) (-?\d+) (-?\d+) (-?\d+) (x[0-9a-f]{16}) ([SN]) (x[0-9a-f]{16}) (x[0-9a-f]{16}) e=(\d) c=(-?\d+) m=(-?\d+) w=(\d)')
        WHAT = {1: ('finite value', 'non-finite result without an error'), 2: ('sentinel 0 with one error (code 1 XRL_ERROR_INVALID_ARGUMENT, non-empty message)', 'malformed failure'),
                3: ('identical value', 'passing no error slot changed the result')}
        one = hx(1.0); rels = {1: 1.0, 2: 0.5, 3: 1.5}
        tot = dict(crystals=0, calls=0, reflections=0, succeeded=0, failed=0, violations=0); end = None; cand = []
        for i, l in enumerate(lines):
            got, died = res.get(i, ([], 'not run'))
            x = got[0] if got else ''
            if died is not None or not x:
                viol.append(dict(key=l, got=str(died)[-200:], expected='a result (no abort)', what='call aborted (sweep of the Bragg cut-off energies of one crystal)')); continue
            if x.startswith('cedge end='):
                end = int(x[10:]) if end is None else end; continue
            m = HEAD.match(x)
            if not m:
                viol.append(dict(key=l, got=x[:300], expected='an answer', what='malformed answer')); continue      # `bad-op`: a broken tie (runner)
            name = m.group(1); tot['crystals'] += 1
            for k_, j in (('calls', 2), ('reflections', 3), ('succeeded', 5), ('failed', 6), ('violations', 7)): tot[k_] += int(m.group(j))
            if int(m.group(9)):
                viol.append(dict(key=l + '   [crystal %s]' % name, got=x[:300], expected='at most one error stored by one call', what='an error was stored over an existing one inside ONE call (overwrite diagnostic of the library)'))
            for en in list(ENT.finditer(x[m.end():]))[:4]:      # a few per crystal: the report names failing calls on many crystals
                fn, h, k, l_, E, sn, vre, vim = int(en.group(1)), int(en.group(2)), int(en.group(3)), int(en.group(4)), en.group(5), en.group(6), en.group(7), en.group(8)
                if fn in (0, 1): line = 'cfun %d %s %s %d %d %d %s' % (fn, C4.esc(name), E, h, k, l_, one)
                elif fn in (2, 3): line = 'cfunp %s %s %d %d %d %s %s 2 2 2 q' % (C4.esc(name), E, h, k, l_, one, hx(rels[fn]))
                else: line = 'cfun %d %s %s %d %d %d %s' % (fn - 2, C4.esc(name), E, h, k, l_, one)
                fname = ('Bragg_angle', 'Q_scattering_amplitude', 'Q_scattering_amplitude', 'Q_scattering_amplitude', 'Crystal_F_H_StructureFactor', 'Crystal_F_H_StructureFactor_Partial')[fn]
                cand.append((('N:' if sn == 'N' else '') + line, int(en.group(12)),
                             '%s(%s, E = %s = %.17g keV, hkl = %d %d %d%s) %s an error slot returned re %s = %r im %s = %r, error set %s code %s message length %s'
                             % (fname, name, E, unhx(E), h, k, l_, '' if fn in (0, 4, 5) else ', rel_angle %g' % rels[fn], 'without' if sn == 'N' else 'with', vre, unhx(vre), vim, unhx(vim), en.group(9), en.group(10), en.group(11))))
        if end is None or tot['crystals'] == 0 or end != tot['crystals']:
            viol.append(dict(key=lines[0], got='crystals swept %d, Crystal_GetCrystalsList count %s' % (tot['crystals'], end), expected='every built-in crystal swept', what='the sweep of the Bragg cut-off energies did not reach the whole list of built-in crystals'))
        # the failing calls once more through the single-call operations: the standard answer line goes into the report
        cand = cand[:60]
        rr = C4.run_heap(ctx, exe, [[c[0]] for c in cand]) if cand else {}
        for i, (line, w, desc) in enumerate(cand):
            got, died = rr.get(i, ([], 'not run'))
            again = got[0] if got and died is None else 'single call: %s' % str(died)[-200:]
            viol.append(dict(key=line, got='%s | single call: %s' % (desc, again), expected=WHAT.get(w, WHAT[1])[0],
                             what=WHAT.get(w, WHAT[1])[1] + ' (energy at / next to the Bragg cut-off hc/(2d) of the reflection, d from Crystal_dSpacing)'))
        tot.update(box='[-%d,%d]^3' % (hmax, hmax), energies_per_reflection=2 * ulps + 1, single_call_replays=len(cand))
        return tot['calls'] + len(lines) + len(cand), tot

    def object_api(self, ctx, ksuf=None):
        """the error contract on the functions that take strings / hand out objects (harness/c04heap.c)"""
        import os
        from props import c04 as C4
        from vlib import cbuild
        from vlib.core import REPO, VERIF
        exe = ctx.sc.path('c04heap')
        lfl = ctx.cfl + ['-I' + os.path.join(REPO, 'src')] + C4.WRAP
        if not os.path.exists(exe):
            cbuild.link(ctx.sc, ctx.objs, [os.path.join(VERIF, 'harness', 'c04heap.c')], exe, lfl)
        fdir = ctx.sc.path('c03files')
        allg = C4.heap_groups(ctx, fdir)
        singles = [g[0] for g in allg if len(g) == 1 and not g[0].startswith(('err ', 'bfill ', 'cpdeep %d ' % C4.DEEP_OVERFLOW))]
        keep = [g for g in allg if len(g) == 1 and g[0].startswith('err ') and int(g[0].split(' ')[1]) >= 6]
        brackets = [g for g in allg if len(g) > 1]
        nopre = ('misc ', 'cpdeep ', 'cplong ')
        pre = [l for l in singles if not l.startswith(nopre)]
        groups = [[l] for l in singles] + [['N:' + l] for l in singles] + [['P:' + l] for l in pre]
        res = C4.run_heap(ctx, exe, groups)
        kres = C4.run_heap(ctx, exe, keep)
        viol = []; ok = fail = 0; kinds = {}; codes = {}
        for i, g in enumerate(keep):
            got, died = kres.get(i, ([], 'not run'))
            if died is not None or not got or not got[0].startswith('1 '):
                viol.append(dict(key=g[0], got=(got[0] if got else str(died)[-200:]), expected='1: the slot still holds the first error object, unchanged',
                                 what='a later failing call replaced / changed an error that was already stored in the slot (no call stores an error over an existing one)'))
        n = len(singles); pidx = {l: 2 * n + j for j, l in enumerate(pre)}
        def answer(i):
            got, died = res.get(i, ([], 'not run'))
            if died is not None or not got: return None, str(died)[-200:]
            return C4.parse_heap(got[0]), got[0]
        for i, l in enumerate(singles):
            (a, ra), (b, rb) = answer(i), answer(n + i)
            if a is None or b is None:
                viol.append(dict(key=l, got=(ra if a is None else rb), expected='a result (no abort)', what='call aborted / malformed answer')); continue
            op = l.split(' ')[0]; kinds[op] = kinds.get(op, 0) + 1
            num = a['v'].startswith('x')
            val = unhx(a['v']) if num else None
            if a['ow'] or b['ow']:
                viol.append(dict(key=l, got=ra if a['ow'] else rb, expected='at most one error stored by one call',
                                 what='the library reported "xrl_error set over the top of a previous xrl_error": an error was stored over an existing one inside ONE call'))
            if a['e']:
                fail += 1
                adm = admissible_codes(l, fdir)
                codes[a['c']] = codes.get(a['c'], 0) + 1
                if (a['rc'] != 0 and op not in ('null',)) or not (0 <= a['c'] <= 5) or a['m'] <= 0 or (num and val != 0):
                    viol.append(dict(key=l, got=ra, expected='sentinel 0 / NULL with one error (code 0..5, non-empty message)', what='malformed failure'))
                elif a['c'] not in adm:
                    viol.append(dict(key=l, got=ra, expected='error code in %s (%s)' % (sorted(adm), ', '.join(CODE_NAMES[c] for c in sorted(adm))), what='failure reported with an error code that this function may not use here (see error_code_table)'))
            else:
                ok += 1
                if num and not math.isfinite(val):
                    viol.append(dict(key=l, got=ra, expected='finite value', what='non-finite result without an error'))
                if is_positive_op(l) and a['rc'] == 0:
                    viol.append(dict(key=l, got=ra, expected='a non-NULL object / non-zero value, or an error', what='0 / NULL returned without an error'))
                if op == 'null':
                    exp = C4.NULL_EXPECT.get(int(l.split(' ')[1]))
                    if exp and ((exp[0] is not None and a['rc'] != exp[0]) or exp[1] != 0):
                        viol.append(dict(key=l, got=ra, expected='rc=%s e=%d (the documented behaviour for a NULL argument)' % (exp[0], exp[1]), what='NULL pointer argument: not the documented behaviour'))
                if op == 'misc' and a['rc'] != 1:
                    viol.append(dict(key=l, got=ra, expected='rc=1', what='auxiliary function (XRayInit / deprecated setters / c_abs, c_mul / xrl_strdup, xrl_strndup, xrl_malloc / xrl_error_matches, xrl_error_copy): wrong result'))
            if op == 'null' and a['e']:
                exp = C4.NULL_EXPECT.get(int(l.split(' ')[1]))
                if exp and (exp[1] != 1 or a['rc'] != exp[0]):
                    viol.append(dict(key=l, got=ra, expected='rc=%s e=%d (the documented behaviour for a NULL argument)' % (exp[0], exp[1]), what='NULL pointer argument: not the documented behaviour'))
            if b['e'] or b['rc'] != a['rc'] or b['v'] != a['v']:
                viol.append(dict(key=l, got='%s | without slot: %s' % (ra, rb), expected='identical result', what='passing no error slot changed the result'))
            if l in pidx:
                c, rc_ = answer(pidx[l])
                if c is None:
                    viol.append(dict(key='P:' + l, got=rc_, expected='a result (no abort)', what='call with a slot that already holds an error: aborted / malformed answer')); continue
                if c['p'] != 1:
                    viol.append(dict(key='P:' + l, got=rc_, expected='p=1: the slot still holds the first error object, unchanged', what='a call replaced / changed an error that was already stored in the slot (no call stores an error over an existing one)'))
                elif c['rc'] != a['rc'] or c['v'] != a['v']:
                    viol.append(dict(key='P:' + l, got='%s | with an empty slot: %s' % (rc_, ra), expected='identical result', what='an error already present in the slot changed the result of the call'))
                elif (c['ow'] >= 1) != bool(a['e']) and not (op == 'null' and int(l.split(' ')[1]) in (21, 22, 23)):
                    viol.append(dict(key='P:' + l, got='%s | with an empty slot: %s' % (rc_, ra), expected='the overwrite diagnostic exactly when the call fails',
                                     what='a successful call tried to store an error' if not a['e'] else 'a failing call did not report its error to the occupied slot'))
        ncalls = len(groups) + len(keep)
        # ---- user crystal arrays: every operation of every bracket judged (constructor -> non-NULL or one error; additions / loads -> 1 or one error),
        #      and the whole bracket once more WITHOUT a slot: the same sequence of results
        bn = [['N:' + l for l in g] for g in brackets]
        bres = C4.run_heap(ctx, exe, brackets + bn)
        nb = len(brackets); bops = 0; bfail = 0
        for i, g in enumerate(brackets):
            (got, died), (gotn, diedn) = bres.get(i, ([], 'not run')), bres.get(nb + i, ([], 'not run'))
            if died is not None or diedn is not None:
                viol.append(dict(key=' ; '.join(g), got=str(died or diedn)[-200:], expected='a result (no abort)', what='call history over a user crystal array aborted')); continue
            refused = False
            for l, x, y in zip(g, got, gotn):
                bops += 2
                if x == 'bad-op' and refused: continue
                a, b = C4.parse_heap(x), C4.parse_heap(y)
                key = '%s   [in: %s]' % (l, ' ; '.join(g)[:400])
                if a is None or b is None:
                    viol.append(dict(key=key, got=x + ' | ' + y, expected='an answer', what='malformed answer')); continue
                op = l.split(' ')[0]; kinds[op] = kinds.get(op, 0) + 1
                if op == 'ainit' and a['rc'] == 0: refused = True
                if a['ow'] or b['ow']:
                    viol.append(dict(key=key, got=x if a['ow'] else y, expected='at most one error stored by one call', what='an error was stored over an existing one inside ONE call (overwrite diagnostic of the library)'))
                if a['e']:
                    bfail += 1; adm = admissible_codes(l, fdir); codes[a['c']] = codes.get(a['c'], 0) + 1
                    if a['rc'] != 0 or not (0 <= a['c'] <= 5) or a['m'] <= 0:
                        viol.append(dict(key=key, got=x, expected='0 / NULL with one error (code 0..5, non-empty message)', what='malformed failure'))
                    elif a['c'] not in adm:
                        viol.append(dict(key=key, got=x, expected='error code in %s (%s)' % (sorted(adm), ', '.join(CODE_NAMES[c] for c in sorted(adm))), what='failure reported with an error code that this function may not use here (see error_code_table)'))
                elif op in ('ainit', 'aadd', 'aread', 'aget', 'ahold') and a['rc'] == 0:
                    viol.append(dict(key=key, got=x, expected='a non-NULL object / 1, or an error', what='0 / NULL returned without an error'))
                if b['e'] or b['rc'] != a['rc']:
                    viol.append(dict(key='N:' + key, got='%s | without slot: %s' % (x, y), expected='identical result', what='passing no error slot changed the result'))
        ncalls += bops
        # ---- the Bragg cut-off of every reflection: energies bit-identical to hc/(2d) (computed by the harness from the library's own
        #      Crystal_dSpacing) and the neighbouring doubles — sin(theta) within a few ulp of 1 on either side — through Bragg_angle,
        #      Q_scattering_amplitude, Crystal_F_H_StructureFactor[_Partial], with and without slot (`cedge`, judged in the harness, one line per crystal)
        ce_n, ce_st = self.bragg_cutoff(ctx, exe, viol)
        ncalls += ce_n
        st = dict(calls=ncalls, succeeded=ok, failed=fail, kinds=kinds, prefilled_slot_calls=len(pre), bracket_ops=bops, bracket_failures=bfail, error_codes_seen={CODE_NAMES.get(k, str(k)): v for k, v in sorted(codes.items())},
                  bragg_cutoff=ce_st)
        # ---- the _CP functions over the Kissel tables succeed only on the regenerated configuration
        if ksuf:
            kexe = ctx.sc.path('c04heap' + ksuf)
            if not os.path.exists(kexe):
                kobjs = [x for x in ctx.objs if not x.endswith('xrayglob_inline.c.o')] + [ctx.sc.path('o_san', 'xrayglob_inline_%s.c.o' % ksuf)]
                cbuild.link(ctx.sc, kobjs, [os.path.join(VERIF, 'harness', 'c04heap.c')], kexe, lfl)
            kl = [l for l in singles if re.match(r'cscp (8|9|10|11) ', l)]
            kr = C4.run_heap(ctx, kexe, [[l] for l in kl] + [['N:' + l] for l in kl] + [['P:' + l] for l in kl])
            ks = 0
            for i, l in enumerate(kl):
                xs = []
                for j in (i, len(kl) + i, 2 * len(kl) + i):
                    got, died = kr.get(j, ([], 'not run'))
                    xs.append((C4.parse_heap(got[0]) if got and died is None else None, got[0] if got else str(died)[-200:]))
                (a, ra), (b, rb), (c, rc_) = xs
                if a is None or b is None or c is None:
                    viol.append(dict(key=l + '  @real', got=[r for m_, r in xs if m_ is None][0], expected='a result (no abort)', what='call aborted (regenerated Kissel table)')); continue
                val = unhx(a['v'])
                if a['ow'] or b['ow']: viol.append(dict(key=l + '  @real', got=ra, expected='at most one error stored by one call', what='an error was stored over an existing one inside ONE call'))
                if a['e']:
                    if a['rc'] != 0 or a['c'] != 1 or a['m'] <= 0 or val != 0: viol.append(dict(key=l + '  @real', got=ra, expected='sentinel 0 with one error (code 1, non-empty message)', what='malformed failure'))
                else:
                    ks += 1
                    if not math.isfinite(val): viol.append(dict(key=l + '  @real', got=ra, expected='finite value', what='non-finite result without an error'))
                    elif val == 0: viol.append(dict(key=l + '  @real', got=ra, expected='a non-zero value, or an error', what='0 returned without an error'))
                if b['e'] or b['v'] != a['v']: viol.append(dict(key=l + '  @real', got='%s | without slot: %s' % (ra, rb), expected='identical result', what='passing no error slot changed the result'))
                if c['p'] != 1 or c['v'] != a['v'] or (c['ow'] >= 1) != bool(a['e']):
                    viol.append(dict(key='P:' + l + '  @real', got='%s | with an empty slot: %s' % (rc_, ra), expected='slot untouched, identical value, diagnostic iff failure', what='a slot that already holds an error changed the behaviour of the call'))
            ncalls += 3 * len(kl); st['kissel_cp'] = dict(calls=3 * len(kl), succeeded=ks)
        return ncalls, viol, dict(object_api=st)


# ---------------------------------------------------------------------------------------------------------------------------------
# "a meaningful code": which error codes a function may legitimately use (the bindings map the code to an exception class:
# MEMORY -> MemoryError / std::bad_alloc, INVALID_ARGUMENT -> ValueError / std::invalid_argument, IO -> IOError, RUNTIME -> RuntimeError …)
CODE_NAMES = {0: 'XRL_ERROR_MEMORY', 1: 'XRL_ERROR_INVALID_ARGUMENT', 2: 'XRL_ERROR_IO', 3: 'XRL_ERROR_TYPE', 4: 'XRL_ERROR_UNSUPPORTED', 5: 'XRL_ERROR_RUNTIME'}
ERROR_CODES = {
    'numeric API (every function of xraylib.h / xrf_cross_sections_aux.h that returns a number; Atomic_Factors, Bragg_angle, Q_scattering_amplitude, Crystal_F_H_StructureFactor[_Partial], Crystal_UnitCellVolume, Crystal_dSpacing)':
        'XRL_ERROR_INVALID_ARGUMENT only: no allocation, file or capacity is involved',
    '_CP functions, Refractive_Index*, CompoundParser, SymbolToAtomicNumber, AtomicNumberToSymbol':
        'XRL_ERROR_INVALID_ARGUMENT (bad formula / element / energy / density); XRL_ERROR_MEMORY only when an allocation fails',
    'GetCompoundDataNISTByName/ByIndex/List, GetRadioNuclideDataByName/ByIndex/List, Crystal_GetCrystal, Crystal_MakeCopy, Crystal_GetCrystalsList':
        'XRL_ERROR_INVALID_ARGUMENT (unknown name, index out of range, NULL); XRL_ERROR_MEMORY only when an allocation fails',
    'Crystal_ArrayInit': 'XRL_ERROR_INVALID_ARGUMENT (negative capacity); XRL_ERROR_MEMORY (capacity that cannot be allocated)',
    'Crystal_AddCrystal': 'XRL_ERROR_INVALID_ARGUMENT (NULL crystal, name already present); XRL_ERROR_RUNTIME (built-in collection full); XRL_ERROR_MEMORY (growth / copy fails)',
    'Crystal_ReadFile': 'XRL_ERROR_IO (NULL / unreadable file, malformed content, premature end); XRL_ERROR_INVALID_ARGUMENT (a name of the file is already present / occurs twice); '
                        'XRL_ERROR_RUNTIME (built-in collection full); XRL_ERROR_MEMORY (allocation fails)',
    'any function': 'XRL_ERROR_TYPE and XRL_ERROR_UNSUPPORTED are never used by the C library',
}

def admissible_codes(line, fdir):
    """-> set of error codes the operation `line` of harness/c04heap.c may report when NO allocation is made to fail"""
    t = line.split(' '); op = t[0]
    if op == 'aread': return {1, 2}          # content / open errors: IO; a name already present or occurring twice: INVALID_ARGUMENT
    if op == 'null' and t[1] == '0': return {2}
    if op == 'ainit':
        n = int(t[1]); return {1} if n < 0 else {0}
    if op == 'bfill': return {5}
    return {1}

# arguments at which a positive quantity legitimately UNDERFLOWS to 0 (SF_Compt(Z, q = 5e-324), Refractive_Index_Im at density 5e-324 …): IEEE
# underflow, like the overflow beyond 1e150 keV — finiteness and the error contract are judged there, "never 0 without an error" is not
TINY = (core.hx(5e-324), core.hx(1e-310), core.hx(2.2250738585072014e-308))

def is_positive_op(l):
    t = l.split(' '); op = t[0]
    if any(x in TINY for x in t): return False
    if op in ('cp', 'nistn', 'nisti', 'radn', 'radi', 'z2s', 's2z', 'cget', 'ccopy', 'nistl', 'radl', 'clist', 'ri', 'af', 'cpdeep', 'cplong', 'acd'): return True
    if op == 'cfun': return int(t[1]) in (0, 4, 5)
    if op == 'cscp': return int(t[1]) < 17            # the four polarised ones are only non-negative (C03d: nonneg_DCSP_Thoms)
    return False

CHECK = C03()
