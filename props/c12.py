"""C12 — closed-form scattering formulas are mutually consistent and physically bounded."""
import math
from vlib.runner import Check
from vlib import core
from vlib.core import hx, unhx

FNS = {'DCS_Thoms': 'T', 'DCSP_Thoms': 'TP', 'DCS_KN': 'ET', 'DCSP_KN': 'ETP', 'CS_KN': 'E', 'ComptonEnergy': 'ET', 'MomentTransf': 'ET'}

class C12(Check):
    id = 'C12'
    module = 'Xrl.Props.C12'
    namespace = 'Xrl.C12'
    functions = sorted(FNS)
    assumptions = ['exact-arithmetic identities over the reals; floating-point cancellation in CS_KN below ~1e-2 keV is measured (evidence: max_rel_dev_spec_lowE), not proved',
                   'the generated CS_KN carries the double literal 3.141592653589793 for PI; cs_kn_is_integral is stated with the factor pi/PI_lit and |pi/PI_lit - 1| < 1e-15 is proved']

    def grid(self, ctx):
        if hasattr(ctx, '_g12'): return ctx._g12
        n = 25 if ctx.tier == 'quick' else 121
        Es = [10 ** (-6 + 12 * i / (n - 1)) for i in range(n)] + [0.0, -1.0, -1e-300]
        th = [0.0, math.pi / 2, math.pi, -0.3, -math.pi, 2 * math.pi + 0.1, 7.5, 1e-9, 1.234]
        ph = [0.0, math.pi / 2, math.pi, -1.0, 6.9]
        r = ctx.rng
        th += [r.uniform(-7, 7) for _ in range(3 if ctx.tier == 'quick' else 20)]
        ph += [r.uniform(-7, 7) for _ in range(2 if ctx.tier == 'quick' else 10)]
        out = []
        for fn, sig in FNS.items():
            if sig == 'T': out += [(fn, (t,)) for t in th]
            elif sig == 'TP': out += [(fn, (t, p)) for t in th for p in ph]
            elif sig == 'E': out += [(fn, (e,)) for e in Es]
            elif sig == 'ET': out += [(fn, (e, t)) for e in Es for t in th]
            else: out += [(fn, (e, t, p)) for e in Es for t in th for p in ph]
        ctx._g12 = out
        return out

    def corr_lines(self, ctx):
        ls = [' '.join([fn] + [hx(a) for a in args] + ['E']) for fn, args in self.grid(ctx)]
        return ls + [l[:-1] + 'N' for l in ls[::9]]

    def search(self, ctx):
        g = self.grid(ctx)
        clines = [' '.join([fn] + [hx(a) for a in args] + ['E']) for fn, args in g]
        slines = [' '.join(['spec.' + fn] + [hx(a) for a in args]) for fn, args in g]
        c = ctx.run_c(clines)
        try: e = ctx.run_model(slines)
        except core.BuildError: return 0, [], {'rule': 'specification driver unavailable'}
        viol = []; stats = {}; low = 0.0; nontriv = set()
        for (fn, args), cl, co, eo in zip(g, clines, c, e):
            if eo.startswith('value'): nontriv.add(cl)
            if fn == 'CS_KN' and 0 < args[0] < 1e-2 and eo.startswith('value'):
                pc = core.parse_answer(co)
                if pc['kind'] == 'ok' and pc['slot'] == 'E':
                    v = unhx(eo.split(' ')[1]); a = pc['vals'][0]
                    if v != 0: low = max(low, abs(a - v) / abs(v))
                    continue
            if not core.expect_agrees(co, eo, rel=1e-9, stats=stats):
                viol.append(dict(key=cl, got=co, expected=eo, what='closed form: library vs textbook formula'))
            # physical bounds stated by the property, checked directly on the library's numbers
            pc = core.parse_answer(co)
            if pc['kind'] == 'ok' and pc['slot'] == 'E' and fn in ('DCS_Thoms', 'DCS_KN', 'CS_KN', 'ComptonEnergy'):
                if not (pc['vals'][0] > 0 and math.isfinite(pc['vals'][0])) and not (fn == 'CS_KN' and args[0] < 1e-2) and args[0] < 1e290:
                    viol.append(dict(key=cl, got=co, expected='finite and > 0', what='positivity/finiteness'))
        stats.update(rule='7 closed-form functions x energies log-spaced 1e-6..1e6 keV (+0, negatives) x theta/phi grids incl. 0, pi/2, pi, negative, > 2pi and seeded angles; '
                          'non-trivial = distinct calls with a value expected', distinct_nontrivial=len(nontriv), max_rel_dev_spec_lowE_CS_KN=low,
                     samples=[dict(call=clines[i], impl=c[i], expected=e[i]) for i in (0, len(g) // 2, len(g) - 1)])
        return len(g), viol, stats

CHECK = C12()
