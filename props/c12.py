"""C12 — closed-form scattering formulas are mutually consistent and physically bounded."""
import math
from vlib.runner import Check
from vlib import core
from vlib.core import hx, unhx

FNS = {'DCS_Thoms': 'T', 'DCSP_Thoms': 'TP', 'DCS_KN': 'ET', 'DCSP_KN': 'ETP', 'CS_KN': 'E', 'ComptonEnergy': 'ET', 'MomentTransf': 'ET'}

class C12(Check):
    id = 'C12'
    module = 'Xrl.Props.C12'
    namespace = 'Xrl.C12'
    functions = sorted(FNS)
    assumptions = ['exact-arithmetic identities over the reals; in doubles CS_KN is compared with the specification at 1e-13 relative and with the quadrature of the library\'s own DCS_KN at 1e-9 '
                   '(the low-energy cancellation of the closed form was repaired in /repo, known_findings.txt: fixed)',
                   'the generated CS_KN carries the double literal 3.141592653589793 for PI; cs_kn_is_integral is stated with the factor pi/PI_lit and |pi/PI_lit - 1| < 1e-15 is proved']

    def grid(self, ctx):
        if hasattr(ctx, '_g12'): return ctx._g12
        n = 25 if ctx.tier == 'quick' else 121
        Es = [10 ** (-6 + 12 * i / (n - 1)) for i in range(n)] + [0.0, -1.0, -1e-300]
        sw = 0.02 * 510.998928           # the series/closed-form switch of CS_KN
        Es += [sw, math.nextafter(sw, 0), math.nextafter(sw, 1e9), sw * (1 - 1e-9), sw * (1 + 1e-9), 10.2199, 10.22, 5.0, 0.5, 0.03]
        th = [0.0, math.pi / 2, math.pi, -0.3, -math.pi, 2 * math.pi + 0.1, 7.5, 1e-9, 1.234]
        ph = [0.0, math.pi / 2, math.pi, -1.0, 6.9]
        r = ctx.rng
        th += [r.uniform(-7, 7) for _ in range(3 if ctx.tier == 'quick' else 20)]
        ph += [r.uniform(-7, 7) for _ in range(2 if ctx.tier == 'quick' else 10)]
        out = []
        for fn, sig in FNS.items():
            if sig == 'T': out += [(fn, (t,)) for t in th]
            elif sig == 'TP': out += [(fn, (t, p)) for t in th for p in ph]
            elif sig == 'E': out += [(fn, (e,)) for e in Es]
            elif sig == 'ET': out += [(fn, (e, t)) for e in Es for t in th]
            else: out += [(fn, (e, t, p)) for e in Es for t in th for p in ph]
        ctx._g12 = out
        return out

    def corr_lines(self, ctx):
        ls = [' '.join([fn] + [hx(a) for a in args] + ['E']) for fn, args in self.grid(ctx)]
        return ls + [l[:-1] + 'N' for l in ls[::9]]

    def search(self, ctx):
        g = self.grid(ctx)
        clines = [' '.join([fn] + [hx(a) for a in args] + ['E']) for fn, args in g]
        slines = [' '.join(['spec.' + fn] + [hx(a) for a in args]) for fn, args in g]
        c = ctx.run_c(clines)
        try: e = ctx.run_model(slines)
        except core.BuildError: return 0, [], {'rule': 'specification driver unavailable'}
        viol = []; stats = {}; low = 0.0; nontriv = set()
        MEC2 = 510.998928; EPS = 2.220446049250313e-16
        for (fn, args), cl, co, eo in zip(g, clines, c, e):
            if eo.startswith('value'): nontriv.add(cl)
            pc = core.parse_answer(co)
            if not core.expect_agrees(co, eo, rel=1e-13 if fn == 'CS_KN' else 1e-9, stats=stats):
                viol.append(dict(key=cl, got=co, expected=eo, what='closed form: library vs textbook formula (%s)' % cl))
            if fn == 'CS_KN' and eo.startswith('value') and pc['kind'] == 'ok' and pc['slot'] == 'E' and math.isfinite(pc['vals'][0]):
                v = unhx(eo.split(' ')[1]); low = max(low, abs(pc['vals'][0] - v) / abs(v) if v else float('inf'))
            # physical bounds stated by the property, checked directly on the library's numbers
            if pc['kind'] == 'ok' and pc['slot'] == 'E' and fn in ('DCS_Thoms', 'DCS_KN', 'CS_KN', 'ComptonEnergy'):
                if not (pc['vals'][0] > 0 and math.isfinite(pc['vals'][0])) and args[0] < 1e290:
                    viol.append(dict(key=cl, got=co, expected='finite and > 0', what='positivity/finiteness (%s)' % cl))
        # ---- the integral clauses by numerical quadrature over the LIBRARY's own differential forms (independent of the closed-form spec):
        #      CS_KN(E) = 2 pi * int_0^pi DCS_KN(E, t) sin t dt   (composite 11 x 16-point Gauss-Legendre);  DCS_KN(E, t) = mean over phi of DCSP_KN(E, t, phi)
        #      (16-point periodic trapezoid: exact for the cos^2(phi) dependence);  CS_KN <= Thomson total and -> Thomson as E -> 0
        def gauss_legendre(n):
            xs = []; ws = []
            for i in range(1, n + 1):
                x = math.cos(math.pi * (i - 0.25) / (n + 0.5))
                for _ in range(100):
                    p0, p1 = 1.0, x
                    for k in range(2, n + 1): p0, p1 = p1, ((2 * k - 1) * x * p1 - (k - 1) * p0) / k
                    dp = n * (x * p1 - p0) / (x * x - 1); dx = p1 / dp; x -= dx
                    if abs(dx) < 1e-16: break
                xs.append(x); ws.append(2 / ((1 - x * x) * dp * dp))
            return xs, ws
        gx0, gw0 = gauss_legendre(16)
        # composite rule: the differential form is forward-peaked with width ~ mc2/E, so the panels are geometric towards theta = 0
        brk = [0.0] + [10.0 ** k for k in range(-7, 0)] + [0.3, 1.0, 2.0, math.pi]
        gx = []; gw = []        # nodes as angles, weights incl. the panel half-width
        for lo_, hi_ in zip(brk, brk[1:]):
            for x, w in zip(gx0, gw0):
                gx.append(0.5 * (hi_ - lo_) * x + 0.5 * (hi_ + lo_)); gw.append(0.5 * (hi_ - lo_) * w)
        Es = sorted({a_[0] for f_, a_ in g if f_ == 'CS_KN' and a_[0] > 0})
        ql = ['DCS_KN %s %s E' % (hx(E_), hx(x)) for E_ in Es for x in gx]
        qa = dict(zip(ql, ctx.run_c(ql)))
        THOMSON = 8 * math.pi / 3 * 0.079407877      # 8 pi/3 r_e^2 in barn
        ck = {cl_: co_ for cl_, co_ in zip(clines, c)}
        nq = 0
        for E_ in Es:
            vals_ = [core.parse_answer(qa['DCS_KN %s %s E' % (hx(E_), hx(x))]) for x in gx]
            if any(p_['kind'] != 'ok' or p_['slot'] != 'E' for p_ in vals_): continue
            integ = 2 * math.pi * math.fsum(w * p_['vals'][0] * math.sin(x) for x, w, p_ in zip(gx, gw, vals_))
            pc = core.parse_answer(ck['CS_KN %s E' % hx(E_)]); nq += 1
            if pc['kind'] != 'ok' or pc['slot'] != 'E': continue
            got = pc['vals'][0]
            d = abs(got - integ) / integ
            if d > 1e-9:
                viol.append(dict(key='CS_KN %s E' % hx(E_), got=repr(got), expected='%r = 2 pi int DCS_KN sin(theta) d theta (64-point Gauss-Legendre over the library\'s DCS_KN)' % integ,
                                 what='Klein-Nishina total vs the solid-angle integral of its differential form (CS_KN %s E)' % hx(E_)))
            elif got > THOMSON * (1 + 1e-9):
                viol.append(dict(key='CS_KN %s E' % hx(E_), got=repr(got), expected='<= Thomson total %r' % THOMSON, what='Klein-Nishina total exceeds the Thomson total'))
            if E_ <= 1e-5 and abs(integ - THOMSON) / THOMSON > 1e-6:
                viol.append(dict(key='DCS_KN at %r keV' % E_, got=repr(integ), expected='-> Thomson total %r as E -> 0' % THOMSON, what='low-energy limit of the integrated differential form'))
        # azimuthal average
        pts = [(E_, t_) for E_ in Es[::4] for t_ in (0.3, 1.234, math.pi / 2, 2.5, -0.7)]
        al = ['DCSP_KN %s %s %s E' % (hx(E_), hx(t_), hx(2 * math.pi * k / 16)) for E_, t_ in pts for k in range(16)] + ['DCS_KN %s %s E' % (hx(E_), hx(t_)) for E_, t_ in pts]
        aa = dict(zip(al, ctx.run_c(al)))
        for E_, t_ in pts:
            ps_ = [core.parse_answer(aa['DCSP_KN %s %s %s E' % (hx(E_), hx(t_), hx(2 * math.pi * k / 16))]) for k in range(16)]
            pu = core.parse_answer(aa['DCS_KN %s %s E' % (hx(E_), hx(t_))]); nq += 1
            if any(p_['kind'] != 'ok' or p_['slot'] != 'E' for p_ in ps_ + [pu]): continue
            mean = sum(p_['vals'][0] for p_ in ps_) / 16
            if abs(mean - pu['vals'][0]) > 1e-10 * abs(pu['vals'][0]):
                viol.append(dict(key='DCS_KN %s %s E' % (hx(E_), hx(t_)), got=repr(pu['vals'][0]), expected='%r = azimuthal mean of DCSP_KN' % mean, what='unpolarised differential cross section vs the azimuthal average of the polarised one'))
        stats['quadrature_cases'] = nq
        stats.update(rule='7 closed-form functions x energies log-spaced 1e-6..1e6 keV (+0, negatives) x theta/phi grids incl. 0, pi/2, pi, negative, > 2pi and seeded angles; '
                          'non-trivial = distinct calls with a value expected', distinct_nontrivial=len(nontriv), max_rel_dev_spec_CS_KN=low,
                     samples=[dict(call=clines[i], impl=c[i], expected=e[i]) for i in (0, len(g) // 2, len(g) - 1)])
        return len(g) + nq, viol, stats

CHECK = C12()
