"""C13 — crystal diffraction results obey Bragg's law and structure-factor algebra.

Decided by the Lean theorems of lean-c13/XrlC13/Props/C13.lean about the hand model lean-c13/XrlC13/Hand/CrystalNum.lean of
the numeric half of src/crystal_diffraction.c (over the reals, for every crystal record, Miller triple, energy, flag triple,
and every behaviour of the elemental functions FF_Rayl/Fi/Fii, which are parameters of the model), and tied to the C source
statically: on every run tools/c13_c2lean.py translates the nine numeric functions of the working tree's
src/crystal_diffraction.c (clang JSON AST) into lean-c13/XrlC13/Gen/Crystal.lean, and lean-c13/XrlC13/Props/C13g.lean proves
`Gen.f = Hand.f repaired` for every input (NULL crystal, every slot state) — a semantic change of the C breaks a proof.

Flow (DESIGN 2.7): build the library + harness/c13drv.c from the working tree (ASan+UBSan); regenerate the translation;
`lake build` the model driver, the theorems and the refinement theorems; audit; probe which of the proposed repairs C13-1..5 the tree contains and run the model with the same
switches; correspondence (compiled model vs library on the 38 built-in crystals + seeded generated cells, incl. degenerate /
near-degenerate cells, NULL, illegal Zatom, huge Miller indices, all flag combinations and invalid flags; the elemental
factors the model needs are read from the library in the same run); violation search (Spec/Crystal.lean in Float + the
relations of the property text evaluated on the library's own answers); evidence."""
import os, sys, re, json, time, subprocess, random, hashlib, fcntl, math, struct, itertools
from concurrent.futures import ThreadPoolExecutor
from vlib import core, cbuild
from vlib.cbuild import VERIF, REPO, BuildError
from vlib.core import hx, unhx, log

ID = 'C13'
LEAN_DIR = os.path.join(VERIF, 'lean-c13')
MODULE = 'XrlC13.Props.C13'
MODULE_GEN = 'XrlC13.Props.C13g'
NAMESPACE = 'Xrl.C13'
PROPS_FILE = os.path.join(LEAN_DIR, 'XrlC13', 'Props', 'C13.lean')
PROPS_GEN = os.path.join(LEAN_DIR, 'XrlC13', 'Props', 'C13g.lean')
GEN_DIR = os.path.join(LEAN_DIR, 'XrlC13', 'Gen')
TRANSLATOR = os.path.join(VERIF, 'tools', 'c13_c2lean.py')
HARNESS = os.path.join(VERIF, 'harness', 'c13drv.c')
CORPUS = os.path.join(VERIF, 'corpus')

# known-finding keys (exact): one per defect of the unchanged tree, each with a proposed repair
K_BRAGG = 'Bragg_angle no reflection asin(>1) crystal_diffraction.c:248'
K_NULL = 'Crystal_F_H_StructureFactor_Partial crystal=NULL hkl=000 crystal_diffraction.c:349'
K_ZATOM = 'Crystal_F_H_StructureFactor_Partial Zatom outside 0..119 crystal_diffraction.c:352'
K_ZERO = 'Atomic_Factors zero factor taken for failure crystal_diffraction.c:290-300'
K_OVF = 'Crystal_dSpacing int overflow 2*i_miller*j_miller crystal_diffraction.c:472-474'

REQUIRED_THEOREMS = [
    'volume_formula', 'volume_null_fails', 'volume_degenerate_nf',
    'dspacing_inversion', 'dspacing_scale', 'recip_metric_is_inverse', 'dspacing_reciprocal_metric_scaled', 'dspacing_reciprocal_metric',
    'dspacing_meets_spec', 'dspacing_no_ub_partial', 'dspacing_no_ub_full_fails', 'dspacing_no_ub_fixed',
    'bragg_law', 'bragg_law_valid_cell', 'bragg_nonpositive_energy_fails', 'bragg_no_reflection_nf', 'bragg_no_reflection_full_fails', 'bragg_no_reflection_fixed',
    'atomic_factors_spec', 'atomic_factors_debye_fails', 'atomic_factors_zero_silent', 'atomic_factors_zero_full_fails', 'atomic_factors_zero_fixed',
    'fh_explicit_sum', 'fh_explicit_sum_list', 'fh_explicit_sum_complex', 'fh_additive_flags', 'fh_friedel', 'fh_000_general', 'fh_000',
    'fh_invalid_flags', 'fh_invalid_flags_no_atoms', 'fh_no_abort',
    'fh_no_ub_full_fails_null', 'fh_no_ub_full_fails_zatom', 'fh_no_ub_partial', 'fh_no_ub_fixed', 'fh_null_fixed', 'fh_is_partial_222',
    'c_abs_spec', 'c_mul_spec',
    'volume_meets_spec', 'bragg_meets_spec', 'q_sin_over_lambda', 'q_meets_spec', 'fh_meets_spec',
]
# the static tie: generated code (XrlC13/Gen/Crystal.lean, from the working tree) = hand model, and the property theorems restated for it
REQUIRED_GEN = [
    'gen_volume_refines', 'gen_dspacing_refines', 'gen_bragg_refines', 'gen_q_refines', 'gen_atomic_factors_refines',
    'gen_atomic_factors_refines_cases', 'gen_fh_partial_refines', 'gen_fh_refines', 'gen_c_abs_refines', 'gen_c_mul_refines',
    'gen_volume_meets_spec', 'gen_dspacing_inversion', 'gen_dspacing_scale', 'gen_dspacing_meets_spec', 'gen_bragg_meets_spec',
    'gen_q_meets_spec', 'gen_fh_meets_spec', 'gen_fh_additive_flags', 'gen_fh_friedel', 'gen_fh_000', 'P0_sane', 'cube_gen_d', 'cube_gen_hQ',
]
# which refinement theorem speaks about which C function (a function the translator rejects breaks these)
REFINES = {'Crystal_UnitCellVolume': 'gen_volume_refines', 'Crystal_dSpacing': 'gen_dspacing_refines', 'Bragg_angle': 'gen_bragg_refines',
           'Q_scattering_amplitude': 'gen_q_refines', 'Atomic_Factors': 'gen_atomic_factors_refines',
           'Crystal_F_H_StructureFactor_Partial': 'gen_fh_partial_refines', 'Crystal_F_H_StructureFactor': 'gen_fh_refines',
           'c_abs': 'gen_c_abs_refines', 'c_mul': 'gen_c_mul_refines'}

FLAGS12 = [(a, b, c) for a in (0, 1, 2) for b in (0, 2) for c in (0, 2)]
BADFLAGS = [(3, 2, 2), (-1, 0, 0), (2, 1, 2), (2, 2, 1), (2, 3, 0), (0, 0, -2), (7, 7, 7), (2147483647, 2, 2)]
PI = 3.1415926535897932384626433832795
DEGRAD = PI / 180.0
KEV2ANGST = 12.39841930

# ------------------------------------------------------------------------------------------------
# crystals

class Cr:
    def __init__(self, cid, name, cell, vol, atoms, builtin=False, family='generated'):
        self.id = cid; self.name = name; self.cell = [float(x) for x in cell]; self.vol = float(vol)
        self.atoms = [(int(a[0]), float(a[1]), float(a[2]), float(a[3]), float(a[4])) for a in atoms]
        self.builtin = builtin; self.family = family
        self.via = None; self.path = None         # 'add': through Crystal_AddCrystal + Crystal_GetCrystal; 'file': through Crystal_ReadFile
    def line(self):
        t = ['crystal', str(self.id), self.name] + [hx(v) for v in self.cell] + [hx(self.vol), str(len(self.atoms))]
        for a in self.atoms: t += [str(a[0])] + [hx(v) for v in a[1:]]
        return ' '.join(t)
    def cline(self):
        if self.builtin: return 'builtin %d %s' % (self.id, self.name)
        if self.via == 'add': return 'viaadd' + self.line()[len('crystal'):]
        if self.via == 'file': return 'viafile %s %d %s' % (self.path, self.id, self.name)
        return self.line()
    def file_text(self):
        """the cell in the syntax of data/Crystals.dat (shortest round-trip decimals); None when a line would be too long for the
        reader's 100-character line buffer"""
        ls = ['#S 1 %s' % self.name, '#UCELL ' + ' '.join(repr(v) for v in self.cell), '#L  AtomicNumber  Fraction  X  Y  Z']
        ls += ['%d %s' % (a[0], ' '.join(repr(v) for v in a[1:])) for a in self.atoms] + ['#EOF']
        if any(len(l) > 90 for l in ls) or len(self.name) > 20 or not self.atoms: return None
        return '\n'.join(ls) + '\n'
    def detc(self):
        ca, cb, cg = (math.cos(x * DEGRAD) for x in self.cell[3:6])
        return 1 - ca * ca - cb * cb - cg * cg + 2 * ca * cb * cg
    def zs(self):
        return list(dict.fromkeys(a[0] for a in self.atoms))
    def dsp(self, h, k, l):
        """d-spacing from the reciprocal metric tensor of the cell (written from the textbook formula, not from the library)"""
        a, b, c = self.cell[:3]
        ca, cb, cg = (math.cos(x * DEGRAD) for x in self.cell[3:6])
        sa, sb, sg = (math.sin(x * DEGRAD) for x in self.cell[3:6])
        det = self.detc()
        if not (det > 0) or min(a, b, c) <= 0: return None
        s = (h * h * sa * sa / (a * a) + k * k * sb * sb / (b * b) + l * l * sg * sg / (c * c)
             + 2 * h * k * (ca * cb - cg) / (a * b) + 2 * k * l * (cb * cg - ca) / (b * c) + 2 * h * l * (cg * ca - cb) / (a * c)) / det
        return 1 / math.sqrt(s) if s > 0 else None

def parse_crystal_line(l, builtin=False, family='replay'):
    t = l.split(' ')
    n = int(t[10]); a = t[11:]
    atoms = [(int(a[5 * i]),) + tuple(unhx(x) for x in a[5 * i + 1:5 * i + 5]) for i in range(n)]
    return Cr(int(t[1]), t[2], [unhx(x) for x in t[3:9]], unhx(t[9]), atoms, builtin, family)

def formula_volume(cell):
    a, b, c = cell[:3]
    ca, cb, cg = (math.cos(x * DEGRAD) for x in cell[3:6])
    d = 1 - ca * ca - cb * cb - cg * cg + 2 * ca * cb * cg
    return a * b * c * math.sqrt(d) if d >= 0 else float('nan')

def _f32_bits(x): return struct.unpack('<I', struct.pack('<f', x))[0]
def _f32_from_bits(b): return struct.unpack('<f', struct.pack('<I', b))[0]

def dec_to_f32(s):
    """the value of the C constant `<decimal s>f`: the float nearest to the decimal text (ties to even), as a double"""
    from fractions import Fraction
    x = Fraction(s)
    b = _f32_bits(float(s))
    cands = [_f32_from_bits(bb) for bb in (b - 1, b, b + 1) if 0 <= (bb & 0x7fffffff) < 0x7f800000]
    return min(cands, key=lambda f: (abs(Fraction(f) - x), _f32_bits(f) & 1))

def as_printed(v):
    """what the library holds for a number that prdata writes into xrayglob_inline.c as `%ff` (src/pr_data.c:1134,1144): the value printed
    with six decimals, read back by the compiler as a float constant"""
    return dec_to_f32('%f' % v)

def parse_crystals_dat(path):
    """independent reading of data/Crystals.dat: name -> (cell[6] as doubles, atoms)"""
    out = {}; cur = None; inatoms = False
    for l in open(path, errors='replace'):
        if l.startswith('#S'):
            t = l.split()
            if len(t) >= 3: cur = dict(cell=None, atoms=[]); out[t[2][:20]] = cur; inatoms = False
        elif cur is not None and l.startswith('#UCELL'):
            cur['cell'] = [float(x) for x in l.split()[1:7]]
        elif cur is not None and l.startswith('#L'):
            inatoms = True
        elif cur is not None and inatoms:
            if l.startswith('#'): inatoms = False
            else:
                t = l.split()
                if len(t) >= 5: cur['atoms'].append((int(t[0]),) + tuple(float(x) for x in t[1:5]))
    return out

ZPOOL = [1, 3, 6, 8, 13, 14, 26, 29, 31, 32, 33, 47, 55, 74, 79, 82, 92]

def gen_atoms(r, n, zs=None):
    out = []
    for _ in range(n):
        z = r.choice(zs) if zs else (r.choice(ZPOOL) if r.random() < 0.8 else r.randint(1, 98))
        occ = r.choice([1.0, 1.0, 1.0, 0.5, 0.25, round(r.uniform(0.05, 1), 3)])
        pos = [r.choice([0.0, 0.25, 0.5, 0.75, 1 / 3, 2 / 3, round(r.uniform(0, 1), 4), r.uniform(0, 1)]) for _ in range(3)]
        out.append((z, occ) + tuple(pos))
    return out

def gen_crystals(r, first_id, n_valid, thorough):
    """seeded cells: orthogonal / hexagonal / monoclinic / triclinic (valid), degenerate, near-degenerate, inconsistent stored
    volume, illegal Zatom, no atoms"""
    out = []; cid = first_id
    def add(name, cell, vol, atoms, fam):
        nonlocal cid
        out.append(Cr(cid, name, cell, vol, atoms, False, fam)); cid += 1
    for k in range(n_valid):
        a = round(r.uniform(2, 20), 4); b = a if r.random() < 0.3 else round(r.uniform(2, 20), 4); c = a if r.random() < 0.2 else round(r.uniform(2, 25), 4)
        u = r.random()
        if u < 0.15: ang = [90.0, 90.0, 90.0]
        elif u < 0.25: ang = [90.0, 90.0, 120.0]
        elif u < 0.4: ang = [90.0, round(r.uniform(60, 125), 3), 90.0]
        else:
            for _ in range(100):
                ang = [round(r.uniform(50, 130), 3) for _ in range(3)]
                ca, cb, cg = (math.cos(x * DEGRAD) for x in ang)
                if 1 - ca * ca - cb * cb - cg * cg + 2 * ca * cb * cg > 0.05: break
            else: ang = [80.0, 95.0, 101.0]
        cell = [a, b, c] + ang
        add('tri%d' % k, cell, formula_volume(cell), gen_atoms(r, r.choice([1, 2, 2, 3, 4, 6, 8, 12])), 'triclinic-valid')
    # inconsistent stored volume (the d-spacing scales with it), no atoms
    for k, vol in enumerate([0.0, 1.0, -3.5, 1e300, round(r.uniform(1, 500), 2)]):
        cell = [round(r.uniform(2, 12), 3), round(r.uniform(2, 12), 3), round(r.uniform(2, 12), 3), 90.0, round(r.uniform(70, 110), 2), 90.0]
        add('vol%d' % k, cell, vol, gen_atoms(r, 2), 'stored-volume-inconsistent')
    add('empty', [4.0, 5.0, 6.0, 90.0, 90.0, 90.0], 120.0, [], 'no-atoms')
    add('cube', [1.0, 1.0, 1.0, 90.0, 90.0, 90.0], 1.0, [(14, 1.0, 0.0, 0.0, 0.0)], 'theorem-witness')
    # degenerate: coplanar axes (alpha + beta = gamma), zero / straight angles, zero and negative edges
    degs = [[5.0, 6.0, 7.0, 40.0, 50.0, 90.0], [5.0, 6.0, 7.0, 0.0, 0.0, 0.0], [5.0, 6.0, 7.0, 90.0, 90.0, 180.0], [5.0, 6.0, 7.0, 30.0, 100.0, 130.0],
            [0.0, 6.0, 7.0, 90.0, 90.0, 90.0], [5.0, 0.0, 7.0, 80.0, 95.0, 101.0], [5.0, 6.0, 0.0, 90.0, 90.0, 120.0], [-5.0, 6.0, 7.0, 90.0, 90.0, 90.0],
            [5.0, 6.0, 7.0, 20.0, 30.0, 120.0], [5.0, 6.0, 7.0, 170.0, 170.0, 170.0]]
    for k, cell in enumerate(degs):
        v = formula_volume(cell)
        add('deg%d' % k, cell, v if math.isfinite(v) else r.choice([0.0, 1.0, 100.0]), gen_atoms(r, 2), 'degenerate')
    for k in range(6 if not thorough else 60):
        al = round(r.uniform(30, 80), 2); be = round(r.uniform(30, 80), 2); eps = 10.0 ** (-r.randint(1, 9))
        cell = [round(r.uniform(3, 9), 2), round(r.uniform(3, 9), 2), round(r.uniform(3, 9), 2), al, be, al + be - eps]
        v = formula_volume(cell)
        add('near%d' % k, cell, v if math.isfinite(v) else 1.0, gen_atoms(r, 2), 'near-degenerate')
    # illegal atomic numbers (subscripts of the stack arrays f_re[120], f_im[120], f_is_computed[120])
    for k, z in enumerate([120, -1, 150, 121, 119, 0, 100000, -2147483648, 2147483647, 108]):
        atoms = gen_atoms(r, 2, [14, 8]); pos = r.randrange(3)
        atoms.insert(pos, (z, 1.0, 0.5, 0.5, 0.5))
        add('zat%d' % k, [5.0, 5.0, 5.0, 90.0, 90.0, 90.0], 125.0, atoms, 'zatom-edge')
    return out

# ------------------------------------------------------------------------------------------------
# lines

def L(*a):
    return ' '.join(x if isinstance(x, str) else (str(x) if isinstance(x, int) else hx(x)) for x in a)

def aux_of(main):
    """the oracle request that accompanies a call line (elemental factors / the library's own d, theta, q)"""
    t = main.split(' ')
    op = t[0]
    if op == 'bragg': return ' '.join(['auxd', t[1], t[2], t[3], t[4], t[5], hx(1.0)])
    if op == 'q': return ' '.join(['auxd'] + t[1:7])
    if op in ('fh', 'fh2'): return ' '.join(['aux', t[1], t[2], t[3], t[4], t[5], t[7]])
    if op in ('fhp', 'fhp2'): return ' '.join(['aux', t[1], t[2], t[3], t[4], t[5], t[7]])
    if op == 'af': return ' '.join(['auxaf', t[1], t[2], t[3]])
    return None

def vals(ans):
    return [unhx(x) for x in ans.split(' ') if re.fullmatch(r'x[0-9a-f]{16}', x)]

def parse(ans):
    """-> dict(kind=ok|abort|died|other, vals, ints, slot)"""
    t = ans.split(' ')
    if t[0] == 'ok':
        v = []; i = 1
        while i < len(t) and (re.fullmatch(r'x[0-9a-f]{16}', t[i]) or re.fullmatch(r'-?\d+', t[i]) or t[i] == '-'):
            v.append(unhx(t[i]) if t[i].startswith('x') else (None if t[i] == '-' else int(t[i]))); i += 1
        return dict(kind='ok', vals=v, slot=' '.join(t[i:]))
    if t[0] == 'abort': return dict(kind='abort', why=t[1] if len(t) > 1 else '', detail=' '.join(t[2:]))
    if t[0] == 'died': return dict(kind='died', detail=' '.join(t[1:]))
    return dict(kind='other', text=ans)

def parse_aux(a):
    """aux d=.. th=.. q=.. ; Z:ff:err:fi:err:fii:err ..."""
    t = a.split(' ')
    d = {}
    if t[0] != 'aux': return None
    for x in t[1:4]:
        k, v = x.split('=')
        d[k] = None if v == '-' else unhx(v)
    rows = {}
    for x in t[5:]:
        f = x.split(':')
        rows[int(f[0])] = dict(ff=unhx(f[1]), fferr=f[2], fi=unhx(f[3]), fierr=f[4], fii=unhx(f[5]), fiierr=f[6])
    d['rows'] = rows
    return d

def is_float(v): return isinstance(v, float)
def finite(v): return is_float(v) and math.isfinite(v)

REL = 1e-12
VOL_TOL = 2e-7        # stored vs recomputed volume of a built-in crystal: both are floats of six-decimal texts (worst real deviation 1.28e-7)

def close(a, b, rel=REL, floor=0.0):
    if a == b: return True
    if not (finite(a) and finite(b)): return (not finite(a)) and (not finite(b))
    return abs(a - b) <= rel * max(abs(a), abs(b)) + floor

def agree(main, c, m, aux, stats):
    """correspondence: library answer `c` vs model answer `m` for one request"""
    if c == m: return True
    pc, pm = parse(c), parse(m)
    if pm['kind'] == 'abort' and pm['detail'].startswith('ORACLE'): return False
    if pm['kind'] == 'abort' and pm['why'] == 'nf':
        # the model stops at the first non-finite intermediate; the C run goes on computing with NaN/inf (and may even
        # run into undefined behaviour later).  The non-finite value must be visible: in the result, or in the public
        # intermediate results (d, theta, q) the library reports for the same arguments
        if pc['kind'] == 'ok' and any(is_float(v) and not math.isfinite(v) for v in pc['vals']): return True
        if aux and any(aux.get(k) is not None and not math.isfinite(aux[k]) for k in ('d', 'th', 'q')): return pc['kind'] in ('ok', 'died')
        return False
    if pc['kind'] == 'died': return pm['kind'] == 'abort' and pm['why'] == 'ub'
    if pm['kind'] == 'abort' and pm['why'] == 'ub': return False
    if pc['kind'] == 'ok' and pm['kind'] == 'ok':
        if pc['slot'] != pm['slot'] or len(pc['vals']) != len(pm['vals']): return False
        fl = [abs(v) for v in pc['vals'] if finite(v)]
        scale = max(fl) if fl else 0.0
        for a, b in zip(pc['vals'], pm['vals']):
            if is_float(a) and is_float(b):
                # components of one complex result share a floor: a cancelling sum has no relative accuracy of its own
                if not close(a, b, REL, 1e-13 * scale if main.startswith('f') or main.startswith('cmul') else 0.0): return False
                if a != b and finite(a) and finite(b) and max(abs(a), abs(b)) > 0:
                    stats['max_rel_dev'] = max(stats.get('max_rel_dev', 0.0), abs(a - b) / max(abs(a), abs(b), scale))
            elif a != b: return False
        return True
    return False

# ------------------------------------------------------------------------------------------------

class Run:
    def __init__(self, tier, seed):
        self.ctx = core.Ctx(ID, tier, seed)
        self.tier = tier; self.seed = seed; self.thorough = tier == 'thorough'
        self.rng = random.Random(seed * 1000003 + 13)
        self.sc = self.ctx.sc
        self.stderr_lines = 0; self.died = 0
        self.variant = '00000'
        self.dlib = {}

    def cenv(self):
        return dict(os.environ, ASAN_OPTIONS='detect_leaks=0:abort_on_error=0:halt_on_error=1', UBSAN_OPTIONS='print_stacktrace=0')

    def build_c(self):
        t = time.time()
        cbuild.build_prdata(self.sc, REPO)
        objs, fl = cbuild.build_lib(self.sc, REPO)
        self.cdrv = self.sc.path('c13drv')
        cbuild.link(self.sc, objs, [HARNESS], self.cdrv, fl)
        self.ctx.tick('c_build', t)
        p = subprocess.run([self.cdrv], input='dump\nzeros\n', capture_output=True, text=True, env=self.cenv())
        out = p.stdout.splitlines()
        if p.returncode != 0 or len(out) < 2 or out[-2] != 'end':
            raise BuildError('c13drv dump failed: ' + (p.stdout[-500:] + p.stderr[-1500:]))
        self.builtins = [parse_crystal_line(l, True, 'built-in') for l in out[:-2]]
        for k, c in enumerate(self.builtins): c.id = k
        self.zero_pts = []
        for x in out[-1].split(' ')[1:]:
            f = x.split(':'); self.zero_pts.append((f[0], int(f[1]), unhx(f[2])))

    def regen_and_lake(self, target_groups):
        """under the project lock: translate src/crystal_diffraction.c of the working tree into XrlC13/Gen/Crystal.lean (the file is
        rewritten only when its text changes), then `lake build` each group of targets.  -> (unsupported lines, gen meta, [(ok, log)])"""
        out = []
        with open(os.path.join(LEAN_DIR, '.verif.lock'), 'w') as lf:
            fcntl.flock(lf, fcntl.LOCK_EX)
            try:
                t = time.time()
                p = subprocess.run([sys.executable, TRANSLATOR, REPO, GEN_DIR, self.sc.path('b'), self.sc.path()], capture_output=True, text=True)
                self.ctx.timings['translate'] = round(time.time() - t, 2)
                if p.returncode not in (0, 3): raise BuildError('tools/c13_c2lean.py crashed: ' + p.stderr[-2000:])
                unsupported = [l for l in p.stdout.splitlines() if l.startswith('UNSUPPORTED')]
                try: meta = json.load(open(self.sc.path('gen_meta.json')))
                except (OSError, ValueError): meta = None
                t = time.time()
                for targets in target_groups:
                    q = subprocess.run(['lake', 'build'] + targets, cwd=LEAN_DIR, capture_output=True, text=True)
                    out.append((q.returncode == 0, q.stdout + q.stderr))
                self.ctx.timings['lake_build'] = round(time.time() - t, 2)
            finally:
                fcntl.flock(lf, fcntl.LOCK_UN)
        return unsupported, meta, out

    def model_exe(self): return os.path.join(LEAN_DIR, '.lake', 'build', 'bin', 'c13-model')

    # ---- drivers: every chunk starts with the crystal definitions ----------------------------------
    def _chunks(self, lines, fn, chunk):
        if len(lines) <= chunk: return fn(lines)
        parts = [lines[i:i + chunk] for i in range(0, len(lines), chunk)]
        with ThreadPoolExecutor(max_workers=14) as ex:
            res = list(ex.map(fn, parts))
        return [x for r in res for x in r]

    def run_c(self, lines, crystals, chunk=6000):
        env = self.cenv(); hdr = [c.cline() for c in crystals] + (['allsafe 1'] if self.variant[4] == '1' else [])
        def one(ls):
            out = []; i = 0
            while i < len(ls):
                p = subprocess.run([self.cdrv], input='\n'.join(hdr + ls[i:]) + '\n', capture_output=True, text=True, env=env)
                got = p.stdout.splitlines()
                if len(got) < len(hdr) or any(not g.startswith('def ') for g in got[:len(hdr)]):
                    raise BuildError('c13drv rejected a crystal definition: ' + ' / '.join(got[:len(hdr)])[-300:] + p.stderr[-500:])
                got = got[len(hdr):][:len(ls) - i]
                out += got; i += len(got)
                if i < len(ls):
                    if p.returncode == 0: raise BuildError('c13drv stopped early without a diagnostic at: ' + ls[i])
                    m = re.search(r'(runtime error: [^\n]*|ERROR: AddressSanitizer: [^\n]*|SUMMARY: [^\n]*)', p.stderr)
                    out.append('died ' + (m.group(1)[:200] if m else 'exit %d' % p.returncode)); i += 1
                    self.died += 1
                elif p.stderr.strip():
                    self.stderr_lines += len(p.stderr.strip().splitlines()); self.stderr_sample = p.stderr[:300]
            return out
        return self._chunks(lines, one, chunk)

    def run_model(self, lines, crystals, chunk=6000):
        hdr = [c.line() for c in crystals]
        def one(ls):
            p = subprocess.run([self.model_exe(), self.variant], input='\n'.join(hdr + ls) + '\n', capture_output=True, text=True)
            out = p.stdout.splitlines()
            if p.returncode != 0 or len(out) != len(hdr) + len(ls):
                raise BuildError('c13-model failed (%d answers for %d lines): %s' % (len(out), len(hdr) + len(ls), p.stderr[-1000:]))
            return out[len(hdr):]
        return self._chunks(lines, one, chunk)

    def run_pairs(self, mains, crystals):
        """library: aux + main per case; model: main | aux.  -> (c_out, aux_out(list of str|None), m_out)"""
        cl = []; idx = []
        for m in mains:
            a = aux_of(m)
            if a is not None: cl.append(a)
            idx.append(len(cl)); cl.append(m)
        t = time.time()
        co = self.run_c(cl, crystals)
        self.ctx.timings['run_library'] = round(self.ctx.timings.get('run_library', 0) + time.time() - t, 2)
        c_out = [co[i] for i in idx]
        aux_out = [co[i - 1] if aux_of(m) is not None else None for i, m in zip(idx, mains)]
        ml = [m if a is None else m + ' | ' + a for m, a in zip(mains, aux_out)]
        t = time.time()
        m_out = self.run_model(ml, crystals)
        self.ctx.timings['run_model'] = round(self.ctx.timings.get('run_model', 0) + time.time() - t, 2)
        return c_out, aux_out, m_out

    def coverage(self, mains, crystals):
        """thorough tier: region coverage of the functions under study reached by the correspondence lines, measured on a
        second, coverage-instrumented build of the working tree (observer only)"""
        t = time.time()
        covfl = ('-fprofile-instr-generate', '-fcoverage-mapping')
        objs, fl = cbuild.build_lib(self.sc, REPO, san=None, extra=covfl, tag='cov')
        exe = self.sc.path('c13drv_cov')
        cbuild.link(self.sc, objs, [HARNESS], exe, fl)
        pdir = self.sc.path('prof'); os.makedirs(pdir, exist_ok=True)
        env = dict(os.environ, LLVM_PROFILE_FILE=os.path.join(pdir, 'c13-%p.profraw'))
        hdr = [c.cline() for c in crystals]
        # lines on which the sanitizer build died would crash the plain build: leave them out
        def one(ls):
            subprocess.run([exe], input='\n'.join(hdr + ls) + '\n', capture_output=True, text=True, env=env); return []
        self._chunks(mains, one, 20000)
        raws = [os.path.join(pdir, f) for f in os.listdir(pdir)]
        merged = self.sc.path('c13.profdata')
        p = subprocess.run(['llvm-profdata-14', 'merge', '-sparse'] + raws + ['-o', merged], capture_output=True, text=True)
        if p.returncode != 0: return dict(error=p.stderr[-300:])
        src = os.path.join(REPO, 'src', 'crystal_diffraction.c')
        p = subprocess.run(['llvm-cov-14', 'export', '-instr-profile=' + merged, exe, src], capture_output=True, text=True)
        self.ctx.tick('coverage', t)
        want = ['c_abs', 'c_mul', 'Bragg_angle', 'Q_scattering_amplitude', 'Atomic_Factors', 'Crystal_F_H_StructureFactor', 'Crystal_F_H_StructureFactor2',
                'Crystal_F_H_StructureFactor_Partial', 'Crystal_F_H_StructureFactor_Partial2', 'Crystal_UnitCellVolume', 'Crystal_dSpacing']
        try:
            out = {}
            for f in json.loads(p.stdout)['data'][0]['functions']:
                if f['name'] in want:
                    regs = [r for r in f['regions'] if r[7] == 0]      # code regions
                    out[f['name']] = dict(calls=f['count'], regions=len(regs), regions_covered=sum(1 for r in regs if r[4] > 0))
            return out
        except Exception as e:
            return dict(error=str(e)[:200] + p.stderr[-200:])

    # ---- which repairs does the tree contain? -------------------------------------------------------
    def probe_variant(self):
        cube = Cr(0, 'cube', [1, 1, 1, 90, 90, 90], 1.0, [(14, 1.0, 0, 0, 0)])
        zat = Cr(1, 'zat', [5, 5, 5, 90, 90, 90], 125.0, [(120, 1.0, 0, 0, 0)])
        zp = [z for z in self.zero_pts if z[0] == 'fii']
        zl = L('af', zp[0][1], zp[0][2], 0.0, 1.0, 7, 'E') if zp else L('af', 8, 0.001, 0.0, 1.0, 7, 'E')
        ls = [L('bragg', 0, 1.0, 1, 0, 0, 'E'), L('fhp', 1, 8.0, 1, 0, 0, 1.0, 1.0, 2, 2, 2, 'E'), L('fhp', 'N', 8.0, 0, 0, 0, 1.0, 1.0, 2, 2, 2, 'E'),
              zl, L('dsp', 0, 40000, 40000, 1, 'E')]
        o = [parse(x) for x in self.run_c(ls, [cube, zat])]
        bragg = o[0]['kind'] == 'ok' and o[0]['slot'].startswith('F')
        zfix = o[1]['kind'] == 'ok'
        nfix = o[2]['kind'] == 'ok'
        zero = o[3]['kind'] == 'ok' and o[3]['vals'][:1] == [1]
        ovf = o[4]['kind'] == 'ok'
        self.variant = ''.join('1' if b else '0' for b in (bragg, zfix, nfix, zero, ovf))
        self.probe_lines = list(zip(ls, [x for x in self.run_c(ls, [cube, zat])]))
        return self.variant

# ------------------------------------------------------------------------------------------------
# generator

def energies(r, n):
    es = [0.1, 200.0, 8.047, 17.48] + [10 ** r.uniform(-1, math.log10(200)) for _ in range(n)]
    return es

def hkl_box(m=6):
    return [(i, j, k) for i in range(-m, m + 1) for j in range(-m, m + 1) for k in range(-m, m + 1)]

def gen_cases(R, crystals):
    """-> list of (family, main line)"""
    r = R.rng; th = R.thorough
    out = []
    box = hkl_box()
    nz = [h for h in box if h != (0, 0, 0)]
    builtin = [c for c in crystals if c.builtin]
    gen = [c for c in crystals if not c.builtin]
    # A. volumes (every crystal, both slot modes) ----------------------------------------------------
    for c in crystals:
        out.append(('vol', L('vol', c.id, 'E'))); out.append(('vol', L('vol', c.id, 'N')))
    out += [('vol', 'vol N E'), ('vol', 'vol N N')]
    # B. d-spacing: the whole box [-6,6]^3 for the built-in crystals (exhaustive), samples for generated cells -----------
    for c in builtin:
        for h in box: out.append(('dsp', L('dsp', c.id, h[0], h[1], h[2], 'E')))
        # multiples that leave the box: d(7h) = d(h)/7, d(-7h) = d(h)/7 (the relations look the lines up by text)
        for h in r.sample(nz, 60 if th else 16):
            for n in (7, -7): out.append(('dsp-7h', L('dsp', c.id, n * h[0], n * h[1], n * h[2], 'E')))
    for c in gen:
        for h in r.sample(nz, 120 if th else 14):
            out.append(('dsp', L('dsp', c.id, h[0], h[1], h[2], 'E')))
            out.append(('dsp', L('dsp', c.id, -h[0], -h[1], -h[2], 'N' if r.random() < 0.3 else 'E')))
            n = r.choice([2, 3, -2, 5, -7])
            out.append(('dsp', L('dsp', c.id, n * h[0], n * h[1], n * h[2], 'E')))
        out.append(('dsp', L('dsp', c.id, 0, 0, 0, 'E')))
    for c in gen:
        if c.via:
            for h in hkl_box(2): out.append(('dsp-via', L('dsp', c.id, h[0], h[1], h[2], 'E')))
    for h in r.sample(nz, 20): out.append(('dsp', L('dsp', 'N', h[0], h[1], h[2], r.choice('EN'))))
    out.append(('dsp', 'dsp N 0 0 0 E'))
    # huge Miller indices: the int products 2*i*j
    for c in (builtin[:2] + gen[:2]):
        for h in [(32767, 32767, 32767), (-32767, 32767, -32767), (32768, 32768, 1), (40000, 40000, 1), (1, 46341, 46341), (46341, 1, -46341),
                  (2147483647, 1, 0), (1073741824, 1, 0), (-2147483648, 0, 1), (65536, 16384, 0), (65536, -16384, 0), (0, 2147483647, 2147483647), (2147483647, 0, 0)]:
            out.append(('dsp-huge', L('dsp', c.id, h[0], h[1], h[2], 'E')))
    # C/D. Bragg angle and Q.  Built-in crystals: the WHOLE box at 4 energies (8.047 keV, 17.48 keV and two seeded ones, log-uniform
    #      in 0.1..200 keV), Q with a relative angle from a fixed list + a seeded one --------------------------------------
    rels = [1.0, 0.5, 0.0, 1.7, -1.0, 100.0, 0.9, 1.1]
    for c in builtin:
        Es = [8.047, 17.48, 10 ** r.uniform(-1, math.log10(200)), 10 ** r.uniform(-1, math.log10(200))]
        rl = rels + [r.uniform(0, 2)]
        for E in Es:
            for n_, h in enumerate(box):
                out.append(('bragg-box', L('bragg', c.id, E, h[0], h[1], h[2], 'E')))
                out.append(('q-box', L('q', c.id, E, h[0], h[1], h[2], rl[(n_ + h[0]) % len(rl)], 'E')))
    #      sampled: energies across 0.1..200 keV, at and around the cut-off, non-positive ---------
    cs = crystals if th else (builtin + gen)
    for c in cs:
        hs = r.sample(nz, 30 if th else 6) + [(1, 1, 1), (0, 0, 0)]
        for h in hs:
            d0 = None
            for E in energies(r, 8 if th else 3) + [0.0, -1.0]:
                out.append(('bragg', L('bragg', c.id, E, h[0], h[1], h[2], r.choice('EEN'))))
            # both sides of the backscattering energy hc/(2 d): just below it no reflection exists and the call must fail
            d0 = c.dsp(*h) if h != (0, 0, 0) else None
            if d0 and math.isfinite(d0):
                Eb = KEV2ANGST / (2 * d0)
                for dl in ((1e-3, 1e-5, 3e-7, 1e-8) if th else (1e-5, 3e-7, 1e-8)):
                    out.append(('bragg-cutoff', L('bragg', c.id, Eb * (1 - dl), h[0], h[1], h[2], 'E')))
                    out.append(('bragg-cutoff', L('bragg', c.id, Eb * (1 + dl), h[0], h[1], h[2], 'E')))
                out.append(('q-cutoff', L('q', c.id, Eb * (1 - 3e-7), h[0], h[1], h[2], 1.0, 'E')))
            rel = r.choice([1.0, 1.0, 0.5, 0.0, 1.7, -1.0, 100.0, r.uniform(0, 2)])
            out.append(('q', L('q', c.id, r.choice(energies(r, 2)), h[0], h[1], h[2], rel, r.choice('EEN'))))
    # cut-off with the spacing the LIBRARY reports (first pass `R.dlib` over chosen (crystal, hkl) pairs): the backscattering energy to
    # the last bit, +-1e-12 / +-1e-10 relative and the three neighbouring doubles on both sides — a clamp window of any width shows
    for (cid_, h), dl_ in R.dlib.items():
        if dl_ and math.isfinite(dl_) and dl_ > 0:
            Eb = KEV2ANGST / (2 * dl_)
            Es_ = [Eb, Eb * (1 - 1e-12), Eb * (1 + 1e-12), Eb * (1 - 1e-10), Eb * (1 + 1e-10)]
            x = Eb
            for _ in range(3): x = math.nextafter(x, 0.0); Es_.append(x)
            x = Eb
            for _ in range(3): x = math.nextafter(x, math.inf); Es_.append(x)
            for E in Es_:
                out.append(('bragg-cutoff-ulp', L('bragg', cid_, E, h[0], h[1], h[2], 'E')))
            out.append(('q-cutoff-ulp', L('q', cid_, math.nextafter(Eb, 0.0), h[0], h[1], h[2], 1.0, 'E')))
    out += [('bragg', L('bragg', 'N', 8.0, 1, 1, 1, 'E')), ('bragg', L('bragg', 'N', -8.0, 1, 1, 1, 'E')), ('q', L('q', 'N', 8.0, 0, 0, 0, 1.0, 'E')),
            ('q', L('q', 'N', 8.0, 1, 0, 0, 1.0, 'E')), ('q', L('q', 'N', 0.0, 0, 0, 0, 1.0, 'N'))]
    # E. Atomic_Factors: every Z in [-2,122], all pointer masks, Debye factors incl. <= 0, energies incl. exact zeros of Fii --
    zer = [(z[1], z[2]) for z in R.zero_pts]
    for Z in range(-2, 123):
        for _ in range(60 if th else 4):
            E = r.choice([8.0, 0.5, 30.0, 150.0, 10 ** r.uniform(-1, 2.3), 0.0011, 1e-4, 1e5])
            q = r.choice([0.0, 0.16, 0.5, 2.0, 7.9, -0.1, 1e9, r.uniform(0, 8)])
            out.append(('af', L('af', Z, E, q, r.choice([1.0, 0.9, 0.5, 0.0, -1.0, 1e-300]), r.choice([7, 7, 7] + list(range(8))), r.choice('EEN'))))
    for Z, E in zer[:8]:
        for mask in (7, 4, 3, 5):
            out.append(('af-zero', L('af', Z, E, 0.3, 0.9, mask, 'E')))
    # F. structure factors: bundles (crystal, hkl, E, debye, rel) x all 12 flag triples + invalid flags + Friedel partner
    #    + the 000 reflection + the wrappers ---------------------------------------------------------------
    def bundle(c, h, E, deb, rel, full=True, allbad=False):
        fl = FLAGS12 if full else r.sample(FLAGS12, 3) + [(2, 2, 2), (2, 0, 0), (0, 2, 0), (0, 0, 2), (2, 2, 0), (1, 2, 2), (1, 0, 0)]
        for f in dict.fromkeys(fl): out.append(('fhp', L('fhp', c.id, E, h[0], h[1], h[2], deb, rel, f[0], f[1], f[2], 'E')))
        for f in [(2, 2, 0), (1, 0, 0)]: out.append(('fhp-friedel', L('fhp', c.id, E, -h[0], -h[1], -h[2], deb, rel, f[0], f[1], f[2], 'E')))
        out.append(('fh', L('fh', c.id, E, h[0], h[1], h[2], deb, rel, 'E')))
        for f in (BADFLAGS if allbad else [r.choice(BADFLAGS)]):
            out.append(('fhp-badflag', L('fhp', c.id, E, h[0], h[1], h[2], deb, rel, f[0], f[1], f[2], r.choice('EEN'))))
    for c in builtin:
        for n_ in range(40 if th else 3):
            # energies over the whole range of the property, 0.1..200 keV (below ~2 keV most reflections do not exist: the call must fail)
            bundle(c, r.choice(nz), r.choice([8.047, 17.48, 10 ** r.uniform(-1, math.log10(200)), 10 ** r.uniform(-1, math.log10(200))]),
                   r.choice([1.0, 0.9, 0.7]), r.choice([1.0, 1.0, 0.9, 1.1]), full=(len(c.atoms) <= 30 or th), allbad=(n_ == 0))
        # one bundle that certainly reflects at each end of the energy range: the longest spacing of the cell at 200 keV and at the lowest
        # energy of 0.1..3 keV at which it still reflects
        hl = max(((1, 0, 0), (0, 1, 0), (0, 0, 1), (1, 1, 0), (1, 1, 1)), key=lambda h: c.dsp(*h) or 0.0)
        dmax = c.dsp(*hl)
        if dmax:
            bundle(c, hl, r.uniform(160.0, 200.0), 0.9, 1.0, full=False)
            bundle(c, hl, max(0.1, min(3.0, 1.02 * KEV2ANGST / (2 * dmax) * r.uniform(1.0, 1.5))), 0.9, 1.0, full=False)
        out.append(('fhp-000', L('fhp', c.id, r.choice([8.047, 25.0]), 0, 0, 0, 0.9, r.choice([1.0, 0.3]), 2, 0, 0, 'E')))
        out.append(('fhp-000', L('fhp', c.id, 12.0, 0, 0, 0, 0.8, 1.0, 2, 2, 2, 'E')))
        out.append(('fhp-lowE', L('fhp', c.id, r.choice([0.1, 0.3, 0.7]), 1, 1, 1, 1.0, 1.0, 2, 2, 2, 'E')))
    small = [c for c in gen if len(c.atoms) <= 12]
    for c in small:
        for n_ in range(12 if th else 2):
            bundle(c, r.choice(nz), 10 ** r.uniform(-1, 2.3), r.choice([1.0, 0.9, 0.5, 0.0, -0.5]), r.choice([1.0, 0.0, 0.5, 2.5, -1.0]), full=(th or bool(c.via)),
                   allbad=(n_ == 0))
        out.append(('fhp-000', L('fhp', c.id, 8.0, 0, 0, 0, 1.0, 1.0, 2, 0, 0, r.choice('EN'))))
        for deb in (0.9, r.choice([0.37, 0.5, 0.75, 1.6])):          # the (0,0,0) reduction carries the Debye factor
            out.append(('fhp-000', L('fhp', c.id, r.choice([8.0, 17.48, 40.0]), 0, 0, 0, deb, r.choice([1.0, 0.3]), 2, 0, 0, 'E')))
        if c.via:
            for h in ((1, 1, 1), (2, 0, -1)):
                for E in (8.047, 30.0): out.append(('bragg-via', L('bragg', c.id, E, h[0], h[1], h[2], 'E')))
    for c in r.sample(crystals, 12):
        h = r.choice(nz); E = 10 ** r.uniform(0, 2); deb = r.choice([1.0, 0.9]); rel = 1.0
        out.append(('fh2', L('fh2', c.id, E, h[0], h[1], h[2], deb, rel, 'E')))
        out.append(('fhp2', L('fhp2', c.id, E, h[0], h[1], h[2], deb, rel, 2, 0, 2, 'N')))
        out.append(('fhp', L('fhp', c.id, E, h[0], h[1], h[2], deb, rel, 2, 2, 2, 'N')))
        out.append(('fhp', L('fhp', c.id, r.choice([0.0, -3.0]), h[0], h[1], h[2], deb, rel, 2, 2, 2, 'E')))
    # zero factors inside a structure factor
    for Z, E in zer[:3]:
        c = next((x for x in builtin if Z in x.zs()), None) or builtin[0]
        out.append(('fhp-zero', L('fhp', c.id, E, 0, 0, 0, 1.0, 1.0, 2, 2, 2, 'E')))
    # G. NULL crystal, huge Miller indices, non-finite arguments -----------------------------------------------
    for h in [(0, 0, 0), (1, 0, 0), (0, 0, 3)]:
        for E in (8.0, 0.0):
            out.append(('fhp-null', L('fhp', 'N', E, h[0], h[1], h[2], 1.0, 1.0, 2, 2, 2, 'E')))
            out.append(('fhp-null', L('fh', 'N', E, h[0], h[1], h[2], 1.0, 1.0, 'N')))
    out.append(('fhp-huge', L('fhp', builtin[0].id, 8.0, 40000, 40000, 1, 1.0, 1.0, 2, 2, 2, 'E')))
    out.append(('bragg-huge', L('bragg', builtin[0].id, 8.0, 1, 46341, 46341, 'E')))
    for E in (float('nan'), float('inf')):
        out.append(('nonfinite-arg', L('bragg', builtin[0].id, E, 1, 1, 1, 'E')))
    # H. c_abs, c_mul ------------------------------------------------------------------------------------------
    for _ in range(60):
        a = [r.choice([0.0, 1.0, -1.0, r.uniform(-100, 100), r.gauss(0, 1e6), 3.0, 4.0]) for _ in range(4)]
        out.append(('cabs', L('cabs', a[0], a[1]))); out.append(('cmul', L('cmul', a[0], a[1], a[2], a[3])))
    return out

# ------------------------------------------------------------------------------------------------
# violation search: what the property text demands, evaluated on the library's own answers

class Finding:
    def __init__(self, line, key, what, got='', expected=''):
        self.line = line; self.key = key; self.what = what; self.got = got; self.expected = expected

def small_miller(h): return all(abs(x) <= 32767 for x in h)

def search(R, crystals, mains, c_out, aux_out, spec_out, valid):
    """-> (list of Finding, stats)"""
    cmap = {c.id: c for c in crystals}
    res = {m: (parse(c), parse_aux(a) if a else None) for m, c, a in zip(mains, c_out, aux_out)}
    out = []; st = dict(cases={}, max_dev={})
    def dev(name, x):
        st['max_dev'][name] = max(st['max_dev'].get(name, 0.0), x)
    def cnt(name):
        st['cases'][name] = st['cases'].get(name, 0) + 1
    for m, c, a, e in zip(mains, c_out, aux_out, spec_out):
        t = m.split(' '); op = t[0]
        pc, pa = res[m]
        cid = None if op in ('af', 'cabs', 'cmul') or t[1] == 'N' else int(t[1])
        cr = cmap.get(cid)
        if pc['kind'] == 'died':
            h = tuple(int(x) for x in (t[2:5] if op == 'dsp' else t[3:6])) if op not in ('vol', 'af', 'cabs', 'cmul') else (0, 0, 0)
            key = None
            if 'signed integer overflow' in pc['detail'] and not small_miller(h): key = K_OVF
            elif op.startswith('fh') and t[1] == 'N' and h == (0, 0, 0) and 'null pointer' in pc['detail']: key = K_NULL
            elif op.startswith('fh') and cr is not None and any(not 0 <= z < 120 for z in cr.zs()) and 'out of bounds' in pc['detail']: key = K_ZATOM
            out.append(Finding(m, key, 'undefined behaviour in the library: ' + pc['detail'], c, 'a value or an error')); continue
        if pc['kind'] != 'ok':
            out.append(Finding(m, None, 'no answer from the library', c)); continue
        v = pc['vals']; slot = pc['slot']; err = slot.startswith('F')
        E_ = unhx(t[2]) if op in ('bragg', 'q', 'fh', 'fh2', 'fhp', 'fhp2') else None
        noreflect = bool(E_ is not None and pa and pa.get('d') is not None and finite(pa['d']) and pa['d'] > 0 and E_ > 0 and KEV2ANGST / E_ > 2 * pa['d'])
        nonfinite_arg = any(is_float(unhx(x)) and not math.isfinite(unhx(x)) for x in t if re.fullmatch(r'x[0-9a-f]{16}', x))
        # every result finite; an error comes with the sentinel 0
        if op != 'af' and not nonfinite_arg:
            bad_nf = [x for x in v if is_float(x) and not math.isfinite(x)]
            vc = valid.get(cid, {})
            if bad_nf and not err and (cr is None or (vc.get('cell') and vc.get('atoms'))):
                key = K_BRAGG if noreflect else None
                out.append(Finding(m, key, 'non-finite result without an error', c, 'a finite value or an error')); continue
            if err and any(x != 0 for x in v if is_float(x)):
                out.append(Finding(m, None, 'error reported together with a non-zero value', c)); continue
        # expectation of the specification (no claim for NaN / infinite arguments)
        if e and e != 'any' and not nonfinite_arg:
            cnt('spec.' + op)
            if e == 'fails':
                ok = all((x == 0) for x in v if is_float(x)) and (err or slot == 'N')
                if not ok:
                    key = K_BRAGG if (noreflect and not err) else None
                    out.append(Finding(m, key, 'the specification demands an error here', c, e))
            elif e.startswith('value'):
                ev = vals(e)
                vc = valid.get(cid, {})
                cond = 1.0
                if op in ('vol', 'dsp'): cond = 1.0 / max(min(1.0, vc.get('detC', 1.0)), 1e-300)
                tol = 1e-10 if op.startswith('f') else 1e-12 * cond
                if tol > 1e-7: continue                      # nearly flat cell: the comparison would say nothing
                sc = fscale(cr, pa, unhx(t[6])) if op.startswith('f') else 0.0
                good = (not err) and slot in ('E', 'N') and len(ev) == len([x for x in v if is_float(x)]) and \
                    all(close(a_, b_, tol, (1e-12 * sc if op.startswith('f') else 0.0)) for a_, b_ in zip([x for x in v if is_float(x)], ev))
                if good:
                    for a_, b_ in zip([x for x in v if is_float(x)], ev):
                        if a_ != b_ and max(abs(a_), abs(b_)) > 0: dev('spec.' + op, abs(a_ - b_) / max(abs(a_), abs(b_), sc))
                else:
                    key = None
                    if op.startswith('f') and not err and all(x == 0 for x in v if is_float(x)) and pa and any(
                            (row['ff'] == 0 and row['fferr'] == '-') or (row['fi'] == 0 and row['fierr'] == '-') or (row['fii'] == 0 and row['fiierr'] == '-') for row in pa['rows'].values()):
                        key = K_ZERO
                    out.append(Finding(m, key, 'result differs from the specification', c, e))
        # Atomic_Factors: failure iff an error; values = elemental value x Debye factor
        if op == 'af':
            cnt('af')
            row = pa['rows'].get(int(t[1])) if pa else None
            mask = int(t[5]); deb = unhx(t[4]); rc = v[0]
            if row is not None and deb > 0:
                want = [('ff', 1), ('fi', 2), ('fii', 4)]
                # evaluation stops at the first failing term — and, in the shipped code, at the first zero product
                failing = None; zero_first = False
                for k, b in want:
                    if not mask & b: continue
                    if row[k + 'err'] != '-': failing = k; break
                    if row[k] * deb == 0 and R.variant[3] != '1': zero_first = True; break     # repaired code (zeroFix): a zero product is a value, evaluation goes on
                if zero_first:
                    if rc == 0 and not err: out.append(Finding(m, K_ZERO, 'a factor is exactly 0 (no elemental error): Atomic_Factors reports failure without an error', c, 'rc 1'))
                    elif rc != 1: out.append(Finding(m, None, 'a factor is exactly 0: neither success nor the known silent failure', c, 'rc 1'))
                elif failing is None:
                    if rc != 1 or err:
                        zero = any(mask & b and row[k] * deb == 0 for k, b in want)
                        out.append(Finding(m, K_ZERO if (zero and rc == 0 and not err) else None, 'all requested factors are available, yet Atomic_Factors reports failure' + (' without an error' if not err else ''), c, 'rc 1'))
                    else:
                        exp = [row['ff'] * deb if mask & 1 else None, row['fi'] * deb if mask & 2 else None, -row['fii'] * deb if mask & 4 else None]
                        if any((a_ is None) != (b_ is None) or (a_ is not None and not close(a_, b_, 1e-15)) for a_, b_ in zip(v[1:4], exp)):
                            out.append(Finding(m, None, 'factors differ from FF_Rayl*D, Fi*D, -Fii*D', c, str(exp)))
                elif rc != 0 or (not err and slot != 'N'):
                    out.append(Finding(m, None, 'an elemental factor is unavailable, yet no failure is reported', c, 'rc 0 + error'))
            elif deb <= 0 and (rc != 0 or (not err and slot != 'N')):
                out.append(Finding(m, None, 'non-positive Debye factor accepted', c))
    # ---- relations between answers ------------------------------------------------------------------------------
    def get(m):
        x = res.get(m)
        return x[0] if x and x[0]['kind'] == 'ok' else None
    for m in mains:
        t = m.split(' '); op = t[0]
        if op == 'dsp' and t[1] != 'N':
            h = [int(x) for x in t[2:5]]; a = get(m)
            if a is None or not small_miller(h) or not small_miller([7 * x for x in h]): continue
            vc = valid.get(int(t[1]), {})
            gtol = 1e-13 / max(min(1.0, vc.get('detC', 1.0)), 1e-300)      # cancellation in a nearly flat cell
            if not (vc.get('cell') and gtol <= 1e-7): continue
            p = get(' '.join(['dsp', t[1]] + [str(-x) for x in h] + [t[5]])) or get(' '.join(['dsp', t[1]] + [str(-x) for x in h] + ['E'])) or get(' '.join(['dsp', t[1]] + [str(-x) for x in h] + ['N']))
            if p is not None:
                cnt('inversion')
                if not close(a['vals'][0], p['vals'][0], 1e-15): out.append(Finding(m, None, 'd(-h) = %r differs from d(h) = %r' % (p['vals'][0], a['vals'][0])))
            # the library's d against the reciprocal-metric formula evaluated in Python from the cell alone (no stored volume): built-in
            # crystals within the accuracy of their stored volume (written with six decimals as a float), user cells to rounding
            cr_ = cmap.get(int(t[1]))
            if cr_ is not None and h != [0, 0, 0] and finite(a['vals'][0]) and not a['slot'].startswith('F'):
                dref = cr_.dsp(*h)
                if dref is not None and (cr_.builtin or cr_.family in ('triclinic-valid', 'theorem-witness') or cr_.via):
                    cnt('dsp-formula')
                    ftol = (VOL_TOL if cr_.builtin else 1e-12) / max(min(1.0, vc.get('detC', 1.0)), 1e-300)
                    if ftol <= 1e-6:
                        if not close(a['vals'][0], dref, ftol): out.append(Finding(m, None, 'd = %r differs from the reciprocal-metric formula %r (relative %.3g, tolerance %.3g)' % (a['vals'][0], dref, abs(a['vals'][0] - dref) / dref, ftol)))
                        else: dev('dsp-formula-builtin' if cr_.builtin else 'dsp-formula-user', abs(a['vals'][0] - dref) / dref)
            for n in (2, 3, -2, 5, -7, 7):
                p = get(' '.join(['dsp', t[1]] + [str(n * x) for x in h] + ['E']))
                if p is not None and finite(a['vals'][0]) and h != [0, 0, 0]:
                    cnt('scaling')
                    if not close(p['vals'][0], a['vals'][0] / abs(n), gtol): out.append(Finding(m, None, 'd(%d h) = %r differs from d(h)/%d = %r' % (n, p['vals'][0], abs(n), a['vals'][0] / abs(n))))
                    else: dev('scaling', abs(p['vals'][0] - a['vals'][0] / abs(n)) / max(abs(p['vals'][0]), 1e-300))
        if op == 'bragg' and t[1] != 'N':
            a, pa = res[m]
            if a['kind'] == 'ok' and not a['slot'].startswith('F') and pa and pa.get('d') and finite(a['vals'][0]) and finite(pa['d']) and pa['d'] != 0 and unhx(t[2]) > 0 and math.isfinite(unhx(t[2])) and a['slot'] != 'N':
                cnt('bragg-law')
                lhs = 2 * pa['d'] * math.sin(a['vals'][0]); rhs = KEV2ANGST / unhx(t[2])
                if not close(lhs, rhs, 1e-11): out.append(Finding(m, None, "Bragg's law: 2 d sin(theta) = %r, hc/E = %r" % (lhs, rhs)))
                else: dev('bragg-law', abs(lhs - rhs) / rhs)
        if op == 'fhp' and t[1] != 'N' and t[8:11] in (['2', '2', '2'], ['1', '2', '2']) and t[11] == 'E':
            parts = [get(' '.join(t[:8] + list(f) + ['E'])) for f in ((t[8], '0', '0'), ('0', '2', '0'), ('0', '0', '2'))]
            a = get(m)
            if a and all(parts) and not a['slot'].startswith('F') and not any(p['slot'].startswith('F') for p in parts) and all(finite(x) for x in a['vals']):
                cnt('additivity' if t[8] == '2' else 'additivity-1')
                sc = fscale(cmap.get(int(t[1])), res[m][1], unhx(t[6])) + 1e-300
                d = abs(a['vals'][0] - sum(p['vals'][0] for p in parts)) + abs(a['vals'][1] - sum(p['vals'][1] for p in parts))
                if d > 1e-12 * sc: out.append(Finding(m, None, 'F(%s,2,2) = %r differs from F(%s,0,0)+F(0,2,0)+F(0,0,2) by %g' % (t[8], a['vals'], t[8], d)))
                else: dev('additivity', d / sc)
        if op == 'fhp' and t[1] != 'N' and t[10] == '0' and t[11] == 'E':
            h = [int(x) for x in t[3:6]]
            p = get(' '.join(t[:3] + [str(-x) for x in h] + t[6:])); a = get(m)
            if a and p and h != [0, 0, 0] and small_miller(h) and not a['slot'].startswith('F') and not p['slot'].startswith('F') and all(finite(x) for x in a['vals'] + p['vals']):
                cnt('friedel')
                sc = fscale(cmap.get(int(t[1])), res[m][1], unhx(t[6])) + 1e-300
                d = abs(a['vals'][0] - p['vals'][0]) + abs(a['vals'][1] + p['vals'][1])
                if d > 1e-13 * sc: out.append(Finding(m, None, "Friedel: F(-h) = %r is not the conjugate of F(h) = %r" % (p['vals'], a['vals'])))
                else: dev('friedel', d / sc)
        if op == 'fhp' and t[1] != 'N' and t[3:6] == ['0', '0', '0'] and t[8:11] == ['2', '0', '0']:
            a, pa = res[m]; cr = cmap.get(int(t[1]))
            if a['kind'] == 'ok' and not a['slot'].startswith('F') and a['slot'] != 'N' and cr is not None and unhx(t[2]) > 0 and unhx(t[6]) > 0 and pa and all(
                    z in pa['rows'] and all(pa['rows'][z][k] == '-' for k in ('fferr', 'fierr', 'fiierr')) and pa['rows'][z]['fi'] != 0 and pa['rows'][z]['fii'] != 0 for z in cr.zs()):
                cnt('000')
                exp = sum(x[1] * x[0] for x in cr.atoms) * unhx(t[6])
                if not (close(a['vals'][0], exp, 1e-12) and a['vals'][1] == 0): out.append(Finding(m, None, 'F(000; f0 only) = %r, sum(occ*Z)*Debye = %r' % (a['vals'], exp)))
                else: dev('000', abs(a['vals'][0] - exp) / max(abs(exp), 1e-300))
    return out, st

def fscale(cr, pa, deb):
    """magnitude of the terms a structure factor sums: sum occ * (|FF| + |Fi| + |Fii| + 1) * |D| (a cancelling sum has no
    relative accuracy of its own)"""
    if cr is None or not pa: return 0.0
    s = 0.0
    for a in cr.atoms:
        row = pa['rows'].get(a[0])
        if row is None: return 0.0
        x = sum(abs(row[k]) for k in ('ff', 'fi', 'fii') if math.isfinite(row[k]))
        s += abs(a[1]) * (x * abs(deb) + 1.0)
    return s

def spec_line(m):
    t = m.split(' '); op = t[0]
    if op == 'vol': return 'spec.vol ' + t[1]
    if op == 'dsp': return ' '.join(['spec.dsp'] + t[1:5])
    if op == 'bragg': return ' '.join(['spec.bragg'] + t[1:6])
    if op == 'q': return ' '.join(['spec.q'] + t[1:7])
    if op in ('fh', 'fh2'): return ' '.join(['spec.fhp'] + t[1:8] + ['2', '2', '2', 'E'])
    if op in ('fhp', 'fhp2'): return ' '.join(['spec.fhp'] + t[1:11] + ['E'])
    return None

# ------------------------------------------------------------------------------------------------

def lean_sources():
    out = []
    for root, dirs, files in os.walk(os.path.join(LEAN_DIR, 'XrlC13')):
        for f in files:
            if f.endswith('.lean'): out.append(os.path.join(root, f))
    out.append(os.path.join(LEAN_DIR, 'Driver.lean'))
    return sorted(out)

def print_axioms(run, names, modules=(MODULE,)):
    src = ''.join('import %s\n' % m for m in modules) + ''.join('#print axioms %s\n' % n for n in names)
    path = run.sc.path('Audit.lean'); open(path, 'w').write(src)
    p = subprocess.run(['lake', 'env', 'lean', path], cwd=LEAN_DIR, capture_output=True, text=True)
    res = {}; txt = p.stdout + p.stderr
    for m in re.finditer(r"'([^']+)' depends on axioms: \[([^\]]*)\]|'([^']+)' does not depend on any axioms", txt):
        if m.group(1): res[m.group(1)] = [a.strip() for a in m.group(2).replace('\n', ' ').split(',') if a.strip()]
        else: res[m.group(3)] = []
    return res, txt

def failing_theorems(build_log):
    names = []
    for m in re.finditer(r'error: (XrlC13/[\w/]+\.lean):(\d+):\d+', build_log):
        rel, ln = m.group(1), int(m.group(2))
        try: src = open(os.path.join(LEAN_DIR, rel)).read().splitlines()
        except OSError: continue
        for i in range(min(ln, len(src)) - 1, -1, -1):
            mm = re.match(r'\s*(?:private\s+)?(?:theorem|def)\s+([\w\.\']+)', src[i])
            if mm:
                n = mm.group(1) if re.search(r'Props/C13g?\.lean$', rel) else '%s:%s' % (rel[len('XrlC13/'):-5], mm.group(1))
                if n not in names: names.append(n)
                break
    return names

def load_known():
    """the ONLY file that can suppress a violation is /verif/known_findings.txt"""
    return list(core.load_known_findings().get(ID, []))

def _errs(txt, n=6):
    errs = re.findall(r'error: [^\n]*(?:\n(?!error:|info:|trace:|✖|✔)[^\n]*){0,6}', txt)
    return '\n'.join(errs[:n])[:4000]

def _sha(p):
    try: return hashlib.sha256(open(p, 'rb').read()).hexdigest()[:16]
    except OSError: return None

def corpus_files():
    out = []
    if os.path.isdir(CORPUS):
        for f in sorted(os.listdir(CORPUS)):
            if f.startswith(ID + '-') and f.endswith('.lines'): out.append(os.path.join(CORPUS, f))
    return out

def read_lines_file(path, first_id):
    """a corpus / replay file: `crystal <id> …` definitions (ids local to the file) and call lines.  Ids are shifted to
    `first_id`.. so that several files can share one run.  -> (crystals, call lines)"""
    crs = []; calls = []; idmap = {}
    for l in open(path):
        l = l.strip()
        if not l or l.startswith('#'): continue
        t = l.split(' ')
        if t[0] in ('crystal', 'viaadd', 'viafilecell'):
            c = parse_crystal_line(l, False, 'replay'); idmap[str(c.id)] = str(first_id + len(crs)); c.id = first_id + len(crs); crs.append(c)
            if t[0] != 'crystal': c.via = 'add' if t[0] == 'viaadd' else 'file'      # the public ingestion route the violation was seen on
        elif t[0] == 'builtin':
            idmap[t[1]] = 'B:' + t[2]
        else:
            calls.append(t)
    return crs, calls, idmap

# ------------------------------------------------------------------------------------------------

class C13:
    id = ID

    def run(self, tier, seed, replay=None):
        R = Run(tier, seed)
        try:
            return self._run(R, replay)
        except BuildError as e:
            log('BUILD ERROR', str(e)[:3000])
            body = 'check %s could not build the working tree or its own harness:\n%s\n' % (ID, str(e)[:4000])
            path = core.write_replay(R.ctx, body, 'txt')
            print('VIOLATION property=%s replay=%s no-failing-input-found' % (ID, path))
            core.write_evidence(R.ctx, 'proof', dict(obligations=len(REQUIRED_THEOREMS) + len(REQUIRED_GEN), discharged=0, checker_cmd='cd lean-c13 && lake build %s %s' % (MODULE, MODULE_GEN),
                                trusted_base=TRUSTED, explanation='build failed: ' + str(e)[:500], evaluations=1, distinct_nontrivial=0), 1)
            return 1
        finally:
            R.ctx.close()

    def via_crystals(self, R, crystals):
        """user-supplied crystals on the PUBLIC ingestion routes: copies of valid generated cells that reach the numeric functions
        through Crystal_AddCrystal + Crystal_GetCrystal (the caller's struct carries a stale volume) and through a file written in the
        syntax of data/Crystals.dat + Crystal_ReadFile + Crystal_GetCrystal.  The model gets the same cell with the volume the library
        recomputes for the plain struct (first pass)."""
        src = [c for c in crystals if c.family == 'triclinic-valid' and 1 <= len(c.atoms) <= 8][:(16 if R.thorough else 4)]
        if not src: return []
        vols = [parse(a) for a in R.run_c([L('vol', c.id, 'E') for c in src], crystals)]
        out = []; nid = len(crystals)
        for c, pv in zip(src, vols):
            if pv['kind'] != 'ok' or pv['slot'] != 'E' or not finite(pv['vals'][0]): continue
            for route in ('add', 'file'):
                v = Cr(nid, '%s_%s' % (c.name, route), c.cell, pv['vals'][0], c.atoms, False, 'via-AddCrystal' if route == 'add' else 'via-ReadFile')
                v.via = route
                if route == 'file':
                    txt = v.file_text()
                    if txt is None: continue
                    v.path = R.sc.path('cell_%d.dat' % nid)
                    with open(v.path, 'w') as f: f.write(txt)
                out.append(v); nid += 1
        return out

    def first_pass(self, R, crystals):
        """the spacing the library reports for chosen (crystal, hkl) pairs: places the cut-off probes to the last bit"""
        r = R.rng; nz = [h for h in hkl_box() if h != (0, 0, 0)]
        pairs = []
        for c in crystals:
            if c.builtin or c.family in ('triclinic-valid', 'theorem-witness'):
                if not c.builtin and not R.thorough and len(pairs) > 400: continue
                for h in [(1, 1, 1), (2, 2, 0)] + r.sample(nz, 6 if R.thorough else 3): pairs.append((c.id, h))
        ans = R.run_c([L('dsp', cid, h[0], h[1], h[2], 'N') for cid, h in pairs], crystals)
        R.dlib = {}
        for (cid, h), a in zip(pairs, ans):
            pa = parse(a)
            if pa['kind'] == 'ok' and finite(pa['vals'][0]) and pa['vals'][0] > 0: R.dlib[(cid, h)] = pa['vals'][0]

    def resolve_file(self, R, path, crystals):
        """append the crystals of a corpus/replay file, return its call lines with the ids of this run"""
        crs, calls, idmap = read_lines_file(path, len(crystals))
        for c in crs:
            if c.via == 'file':
                txt = c.file_text()
                if txt is None: c.via = None; continue
                c.path = R.sc.path('cell_%d.dat' % c.id)
                with open(c.path, 'w') as f: f.write(txt)
        crystals += crs
        byname = {c.name: c.id for c in crystals if c.builtin}
        out = []
        for t in calls:
            if t[0] in ('vol', 'dsp', 'bragg', 'q', 'fh', 'fh2', 'fhp', 'fhp2') and t[1] != 'N':
                x = idmap.get(t[1], t[1])
                if x.startswith('B:'):
                    if x[2:] not in byname: continue
                    x = str(byname[x[2:]])
                t = [t[0], x] + t[2:]
            out.append(' '.join(t))
        return out

    def _run(self, R, replay):
        ctx = R.ctx
        rep = dict(proof_broken=[], tie_broken=[], problems=[])
        known = load_known()
        # ---- 1. C artefacts, 2. translation of the working tree's crystal_diffraction.c + lake ------------------------
        R.build_c()
        unsupported, gen_meta, builds = R.regen_and_lake([['c13-model'], [MODULE], [MODULE_GEN]])
        (ok_exe, log_exe), (ok_props, log_props), (ok_gen, log_gen) = builds
        if not ok_exe: raise BuildError('model driver does not build: ' + _errs(log_exe))
        if not ok_props:
            rep['proof_broken'] = failing_theorems(log_props) or ['(module %s does not build)' % MODULE]
            rep['proof_log'] = _errs(log_props, 10)
        for u in unsupported:
            rep['tie_broken'].append('the translator rejects the working tree: ' + u)
        if not ok_gen:
            names = failing_theorems(log_gen)
            for u in unsupported:
                m_ = re.match(r'UNSUPPORTED \S+ (\w+):', u)
                if m_ and REFINES.get(m_.group(1)) and REFINES[m_.group(1)] not in names: names.insert(0, REFINES[m_.group(1)])
            rep['proof_broken'] += [n for n in (names or ['(module %s does not build)' % MODULE_GEN]) if n not in rep['proof_broken']]
            rep['proof_log'] = (rep.get('proof_log', '') + '\n' + _errs(log_gen, 10)).strip()
        # ---- 3. audit ----------------------------------------------------------------------------------------
        bad = core.audit_sources(lean_sources())
        if bad: rep['problems'].append('forbidden construct in Lean sources: ' + '; '.join(bad[:5]))
        th_props = core.theorems_of(PROPS_FILE, NAMESPACE) if os.path.exists(PROPS_FILE) else []
        th_gen = core.theorems_of(PROPS_GEN, NAMESPACE) if os.path.exists(PROPS_GEN) else []
        theorems = th_props + th_gen
        for th in REQUIRED_THEOREMS:
            if NAMESPACE + '.' + th not in th_props: rep['problems'].append('property theorem %s missing from %s' % (th, MODULE))
        for th in REQUIRED_GEN:
            if NAMESPACE + '.' + th not in th_gen: rep['problems'].append('refinement theorem %s missing from %s' % (th, MODULE_GEN))
        axioms = {}
        audited = (th_props if ok_props else []) + (th_gen if ok_props and ok_gen else [])
        if audited:
            t = time.time()
            axioms, txt = print_axioms(R, audited, [MODULE] + ([MODULE_GEN] if ok_gen else []))
            ctx.tick('axiom_audit', t)
            for th in audited:
                if th not in axioms: rep['problems'].append('axiom audit: no report for %s' % th)
                elif set(axioms[th]) - core.ALLOWED_AXIOMS: rep['problems'].append('axiom audit: %s depends on %s' % (th, sorted(set(axioms[th]) - core.ALLOWED_AXIOMS)))
        for f_, need in ((PROPS_FILE, 20), (PROPS_GEN, 3)):
            if os.path.exists(f_):
                src = core.strip_comments(open(f_).read())
                n_ex = len(re.findall(r'^\s*example\b', src, flags=re.M))
                if n_ex < need: rep['problems'].append('non-vacuity examples missing from %s (%d found)' % (os.path.basename(f_), n_ex))
        if R.thorough and ok_props:
            t = time.time()
            for mod in [MODULE] + ([MODULE_GEN] if ok_gen else []):
                p = subprocess.run(['lake', 'env', 'leanchecker', mod], cwd=LEAN_DIR, capture_output=True, text=True)
                if p.returncode != 0: rep['problems'].append('leanchecker rejected %s: %s' % (mod, (p.stdout + p.stderr)[-400:]))
                else: ctx.notes.append('leanchecker re-checked %s' % mod)
            ctx.tick('leanchecker', t)
        variant = R.probe_variant()
        if variant != '00000':
            ctx.notes.append('working tree contains proposed repairs (braggFix, zFix, nullFix, zeroFix, ovfFix) = %s; the model runs with the same switches' % variant)
        # ---- 5. crystals, cases ----------------------------------------------------------------------------------
        t = time.time()
        crystals = list(R.builtins)
        fam = []; mains = []
        if replay:
            mains = self.resolve_file(R, replay, crystals); fam = ['replay'] * len(mains)
        else:
            for f in corpus_files():
                ls = self.resolve_file(R, f, crystals); mains += ls; fam += ['corpus'] * len(ls)
            crystals += gen_crystals(R.rng, len(crystals), 400 if R.thorough else 14, R.thorough)
            crystals += self.via_crystals(R, crystals)
            self.first_pass(R, crystals)
            for f, l in gen_cases(R, crystals): fam.append(f); mains.append(l)
        # duplicates carry no information (and the relations look lines up by text)
        seen = set(); mm = []; ff = []
        for f, l in zip(fam, mains):
            if l not in seen: seen.add(l); mm.append(l); ff.append(f)
        mains, fam = mm, ff
        ctx.tick('generate', t)
        # validity predicate of the model (executed, Float) + recomputed volume for every crystal
        vo = R.run_model(['valid %d' % c.id for c in crystals], crystals)
        valid = {}
        for c, l in zip(crystals, vo):
            d = dict(x.split('=') for x in l.split(' ')[1:])
            valid[c.id] = dict(cell=d['cell'] == 'true', atoms=d['atoms'] == 'true', nondeg=d['nondeg'] == 'true', vol=unhx(d['vol']), detC=unhx(d['detC']))
        c_out, aux_out, m_out = R.run_pairs(mains, crystals)
        t = time.time()
        stats = {}; mism = []
        for l, c, a, m in zip(mains, c_out, aux_out, m_out):
            if not agree(l, c, m, parse_aux(a) if a else None, stats): mism.append((l, c, m))
        ctx.tick('compare', t)
        if mism:
            rep['tie_broken'].append('model and implementation disagree on %d of %d lines; first: %s | impl: %s | model: %s' % (
                len(mism), len(mains), mism[0][0], mism[0][1][:300], mism[0][2][:300]))
        if R.stderr_lines:
            rep['tie_broken'].append('library wrote %d diagnostic line(s) to stderr (error stored over an error?): %s' % (R.stderr_lines, getattr(R, 'stderr_sample', '')))
        pos = {l: i for i, l in enumerate(mains)}
        # ---- stored vs recomputed volume of the built-in crystals.  (1) EXACT: every number of a built-in record (cell, stored volume,
        #      atoms) must be what prdata prints for the record of data/Crystals.dat — `%ff`: six decimals, read back as a float constant —
        #      where the volume is the formula evaluated on the cell of the data file (read here, independently of the library's reader);
        #      (2) the library's recomputation from the (rounded) cell it holds agrees with the stored value to VOL_TOL = 2e-7 --------
        vol_dev = []
        for c in crystals:
            if c.builtin:
                pc = parse(c_out[pos[L('vol', c.id, 'E')]]) if L('vol', c.id, 'E') in pos else None
                if pc and pc['kind'] == 'ok' and finite(pc['vals'][0]) and c.vol:
                    vol_dev.append((abs(pc['vals'][0] - c.vol) / abs(c.vol), c.name, c.vol, pc['vals'][0]))
        vol_dev.sort(reverse=True)
        exact_bad = []; exact_n = 0
        if not replay:
            try: dat = parse_crystals_dat(os.path.join(REPO, 'data', 'Crystals.dat'))
            except OSError as e_: dat = None; rep['problems'].append('data/Crystals.dat cannot be read: %s' % e_)
            for c in (crystals if dat is not None else []):
                if not c.builtin: continue
                rec = dat.get(c.name)
                if rec is None or rec['cell'] is None:
                    exact_bad.append((c, 'built-in crystal %s has no record in data/Crystals.dat' % c.name)); continue
                exact_n += 1
                want_cell = [as_printed(v) for v in rec['cell']]
                want_vol = as_printed(formula_volume(rec['cell']))
                want_atoms = [(a[0],) + tuple(as_printed(v) for v in a[1:]) for a in rec['atoms']]
                if c.cell != want_cell:
                    exact_bad.append((c, 'cell of built-in crystal %s = %r, the record of data/Crystals.dat as prdata prints it is %r' % (c.name, c.cell, want_cell)))
                elif c.vol != want_vol:
                    exact_bad.append((c, 'stored volume of built-in crystal %s = %r (%s); the volume of its cell in data/Crystals.dat, %r, as prdata prints it (six decimals, float) is %r (%s)' % (
                        c.name, c.vol, hx(c.vol), formula_volume(rec['cell']), want_vol, hx(want_vol))))
                elif c.atoms != want_atoms:
                    exact_bad.append((c, 'atoms of built-in crystal %s differ from the record of data/Crystals.dat as prdata prints it (first difference: %r)' % (
                        c.name, next(((x, y) for x, y in zip(c.atoms, want_atoms) if x != y), (len(c.atoms), len(want_atoms))))))
        # ---- user-supplied crystals on the public routes (Crystal_AddCrystal / Crystal_ReadFile, then Crystal_GetCrystal): the struct handed
        #      out stores exactly the volume the library computes for that cell
        via_bad = []; vias = [c for c in crystals if c.via]
        if vias:
            for c, a in zip(vias, R.run_c(['stored2 %d' % c.id for c in vias], crystals)):
                pa_ = parse(a)
                if pa_['kind'] != 'ok' or pa_['slot'] != 'E' or len(pa_['vals']) != 2: via_bad.append((c, 'no answer: ' + a[:200])); continue
                st_, rc_ = pa_['vals']
                if not (st_ == rc_ == c.vol):
                    via_bad.append((c, 'user-supplied crystal %s through %s: the struct handed out stores volume %r, Crystal_UnitCellVolume of it is %r, of the original cell %r' % (
                        c.name, 'Crystal_AddCrystal + Crystal_GetCrystal' if c.via == 'add' else 'Crystal_ReadFile + Crystal_GetCrystal', st_, rc_, c.vol)))
        # ---- user-supplied crystals: what a collection hands out after Crystal_AddCrystal carries the RECOMPUTED volume, whatever
        #      (stale) value the caller's struct held
        stored_bad = []
        ucs = [c for c in crystals if not c.builtin and not c.via and valid.get(c.id, {}).get('cell') and valid.get(c.id, {}).get('nondeg') and L('vol', c.id, 'E') in seen][:400]
        if ucs:
            so_ = R.run_c(['stored %d' % c.id for c in ucs], crystals)
            for c, a in zip(ucs, so_):
                pa_ = parse(a); pv = parse(c_out[pos[L('vol', c.id, 'E')]])
                if pa_['kind'] != 'ok' or pv['kind'] != 'ok' or pv['slot'].startswith('F'): continue
                if pa_['slot'] == 'N' or not close(pa_['vals'][0], pv['vals'][0], 1e-12):
                    stored_bad.append((c, pa_, pv))
        # ---- violation search (always): specification + relations vs the library --------------------------------
        t = time.time()
        sl = [spec_line(m) for m in mains]
        si = [i for i, s in enumerate(sl) if s]
        so = R.run_model([sl[i] + (' | ' + aux_out[i] if aux_out[i] else '') for i in si], crystals)
        spec_out = [None] * len(mains)
        for i, e in zip(si, so): spec_out[i] = e
        found, sstats = search(R, crystals, mains, c_out, aux_out, spec_out, valid)
        # ---- the answers depend on the cell contents, not on where the struct lives: a cell changed in place (lattice scan)
        inpl_bad = []
        ics = [c for c in crystals if valid.get(c.id, {}).get('cell') and valid.get(c.id, {}).get('nondeg') and valid.get(c.id, {}).get('atoms')][:60]
        il = ['inplace %d %s %d %d %d' % (c.id, hx(E_), h_[0], h_[1], h_[2]) for c in ics for E_ in (8.0, 17.44) for h_ in ((1, 1, 1), (2, 2, 0))]
        if il:
            for l_, a_ in zip(il, R.run_c(il, crystals)):
                if not a_.startswith('inpl ') or a_.split()[1:] != ['1', '1', '1']: inpl_bad.append((l_, a_))
        for l_, a_ in inpl_bad[:10]:
            found.append(Finding(l_, None, 'after changing the cell of a struct in place, Q_scattering_amplitude / Crystal_F_H_StructureFactor / Bragg_angle differ from the answers for a fresh struct with the same cell (equal flags q, F, theta: %s) — a result that depends on the call history' % a_))
        for c, pa_, pv in stored_bad[:20]:
            found.append(Finding('vol %d E' % c.id, None, 'user-supplied crystal %s: after Crystal_AddCrystal the collection hands out stored volume %r, the recomputed volume is %r (the caller\'s struct carried a stale value)' % (
                c.name, pa_['vals'][0] if pa_['slot'] != 'N' else None, pv['vals'][0])))
        for dv, name, stored, rec in vol_dev:
            if dv > VOL_TOL: found.append(Finding('vol %d E' % [c.id for c in crystals if c.name == name][0], None,
                                               'stored volume of built-in crystal %s = %r, recomputed %r (relative deviation %.3g > %g)' % (name, stored, rec, dv, VOL_TOL)))
        for c, what in exact_bad[:20]: found.append(Finding('vol %d E' % c.id, None, what))
        for c, what in via_bad[:20]: found.append(Finding('vol %d E' % c.id, None, what))
        # the theorems' validity predicate (executed by the compiled model) must hold for every shipped crystal
        for c in crystals:
            if c.builtin and not (valid[c.id]['cell'] and valid[c.id]['atoms']):
                found.append(Finding('vol %d E' % c.id, None, 'built-in crystal %s does not satisfy the validity predicate of the theorems (validCell=%s, validAtoms=%s): cell=%s volume=%r Z=%s' % (
                    c.name, valid[c.id]['cell'], valid[c.id]['atoms'], c.cell, c.vol, c.zs())))
        ctx.tick('search', t)
        cov_c = None
        if R.thorough and not replay:
            alive = [m for m, c in zip(mains, c_out) if not c.startswith('died')]
            cov_c = R.coverage(alive, crystals)
        # ---- classify --------------------------------------------------------------------------------------------
        knownkeys = {k: txt for k, txt in known}
        new = []; hits = {}
        for f in found:
            if f.key is not None and f.key in knownkeys:
                h = hits.setdefault(f.key, dict(n=0, witness=f.line, what=f.what, got=f.got)); h['n'] += 1
                if len(f.line) < len(h['witness']): h.update(witness=f.line, what=f.what, got=f.got)
            else: new.append(f)
        for k, h in hits.items():
            print('KNOWN-FINDING: property=%s %s: %s' % (ID, k, knownkeys[k]))
        exit_code = 0
        broken = rep['proof_broken'] or rep['tie_broken'] or rep['problems']
        cmap = {c.id: c for c in crystals}
        def with_defs(lines):
            ids = []
            for l in lines:
                t = l.split(' ')
                if t[0] in ('vol', 'dsp', 'bragg', 'q', 'fh', 'fh2', 'fhp', 'fhp2') and t[1] != 'N' and int(t[1]) not in ids: ids.append(int(t[1]))
            def one(c):
                if c.builtin: return 'builtin %d %s\n' % (c.id, c.name)
                if c.via: return ('viaadd' if c.via == 'add' else 'viafilecell') + c.line()[len('crystal'):] + '\n'
                return c.line() + '\n'
            return ''.join(one(cmap[i]) for i in ids)
        if new:
            new.sort(key=lambda f: (f.key is not None, len(f.line)))
            w = new[0] if replay else self.shrink(R, new[0], crystals, valid, knownkeys)
            lines = self.context_lines(w.line, seen)
            body = '# violation of %s: the library contradicts the property on this input\n# %s\n# library:  %s\n# expected: %s\n' % (ID, w.what, str(w.got)[:400], str(w.expected)[:400])
            body += '# %s\n' % self.describe(w.line, w.crystal if hasattr(w, 'crystal') else cmap)
            body += (w.defs if hasattr(w, 'defs') else with_defs(lines)) + '\n'.join(lines) + '\n'
            for f in new[1:20]: body += '# also: %s  (%s)\n' % (f.line, f.what[:200])
            if broken: body += '\n# broken obligations: %s\n' % json.dumps(rep)[:3000]
            path = core.write_replay(ctx, body)
            print('VIOLATION property=%s replay=%s' % (ID, path))
            exit_code = 1
        elif broken:
            body = '# %s is no longer shown to hold; the search found no failing input (%d cases)\n' % (ID, len(mains))
            if rep['proof_broken']:
                body += '# theorems that no longer check: %s\n# %s\n' % (', '.join(rep['proof_broken']), rep.get('proof_log', '').replace('\n', '\n# '))
            for tb in rep['tie_broken']: body += '# correspondence broken: %s\n' % tb
            for pb in rep['problems']: body += '# %s\n' % pb
            ml = [l for l, c, m in sorted(mism, key=lambda x: len(x[0]))[:40]]
            body += with_defs(ml) + '\n'.join(ml) + ('\n' if ml else '')
            path = core.write_replay(ctx, body)
            print('VIOLATION property=%s replay=%s no-failing-input-found' % (ID, path))
            exit_code = 1
        # ---- evidence ----------------------------------------------------------------------------------------------
        n_dis = sum(1 for th in audited if th in axioms and not (set(axioms[th]) - core.ALLOWED_AXIOMS))
        dist = self.distribution(crystals, mains, fam, c_out, m_out, valid)
        nontriv = set()
        for l, c in zip(mains, c_out):
            pc = parse(c)
            if pc['kind'] == 'ok' and not pc['slot'].startswith('F') and any(is_float(x) and x != 0 and math.isfinite(x) for x in pc['vals']): nontriv.add(l)
        smp = sorted(R.rng.sample(range(len(mains)), min(10, len(mains))))
        cov = dict(obligations=max(len(theorems), len(REQUIRED_THEOREMS) + len(REQUIRED_GEN)), discharged=n_dis,
                   translation=dict(translated=sorted((gen_meta or {}).get('translated', {})), unsupported=unsupported, refinement_theorems={f: REFINES[f] for f in sorted(REFINES)},
                                    functions={f: dict(line=d.get('line'), sha=d.get('sha')) for f, d in sorted((gen_meta or {}).get('translated', {}).items())}),
                   checker_cmd='python3 tools/c13_c2lean.py $REPO lean-c13/XrlC13/Gen && cd lean-c13 && lake build %s %s  (then `#print axioms` on each theorem; thorough: leanchecker)' % (MODULE, MODULE_GEN),
                   trusted_base=TRUSTED,
                   theorems=[dict(name=th, axioms=axioms.get(th)) for th in theorems],
                   traces_validated_against_impl=len(mains), correspondence_mismatches=len(mism),
                   search_cases=sum(sstats['cases'].values()), search_cases_by_kind=sstats['cases'], search_violations=len(new),
                   search_max_rel_dev=sstats['max_dev'],
                   known_findings_reproduced={k: dict(instances=h['n'], shortest_witness=h['witness'], what=h['what'], library=h['got'][:200]) for k, h in hits.items()},
                   evaluations=len(mains) + len(si) + len(crystals),
                   distinct_nontrivial=len(nontriv),
                   rule='cases: the %d built-in crystals (read from the library built from the working tree) + seeded generated cells (orthogonal, hexagonal, monoclinic, triclinic valid; '
                        'degenerate: coplanar axes, 0/180 degree angles, zero or negative edges; near-degenerate: gamma = alpha+beta-10^-k; inconsistent stored volume; no atoms; Zatom in '
                        '{120,-1,150,121,119,0,1e5,INT_MIN,INT_MAX,108}) x Miller indices in [-6,6]^3 (+ their inverses and multiples, + indices up to INT_MAX for the int products) x energies '
                        '0.1..200 keV log-uniform (+ 0, negative, NaN, inf) x Debye factors {1,.9,.7,.5,0,<0} x relative angles x all 12 flag triples + invalid flags x slot modes (empty, NULL); '
                        'Atomic_Factors for every Z in [-2,122] x 8 pointer masks; c_abs/c_mul. non-trivial = distinct call lines on which the library returned a finite non-zero value without an error' % len(R.builtins),
                   samples=[dict(line=mains[i], family=fam[i], impl=c_out[i][:200], model=m_out[i][:200], spec=spec_out[i]) for i in smp],
                   max_rel_dev_model_vs_impl=stats.get('max_rel_dev', 0.0),
                   stored_vs_recomputed_volume=dict(worst_relative_deviation=vol_dev[0][0] if vol_dev else None, worst_crystal=vol_dev[0][1] if vol_dev else None,
                                                    flag_above=VOL_TOL, exact_records_checked=exact_n, exact_records_differing=len(exact_bad), via_routes_checked=len(vias), via_routes_differing=len(via_bad), crystals=len(vol_dev), top5=[dict(name=n, deviation=d, stored=s, recomputed=rc) for d, n, s, rc in vol_dev[:5]]),
                   validity_of_builtin_crystals=dict(valid_cell=sum(1 for c in crystals if c.builtin and valid[c.id]['cell']), valid_atoms=sum(1 for c in crystals if c.builtin and valid[c.id]['atoms']), of=len(R.builtins)),
                   c_region_coverage_of_functions_under_study=cov_c, distribution=dist, model_variant=dict(zip(['braggFix', 'zFix', 'nullFix', 'zeroFix', 'ovfFix'], [x == '1' for x in variant])),
                   probe=[dict(line=l, impl=a[:160]) for l, a in R.probe_lines],
                   library_aborts=R.died,
                   provenance=dict(crystal_diffraction_c=_sha(os.path.join(REPO, 'src', 'crystal_diffraction.c')), crystals_dat=_sha(os.path.join(REPO, 'data', 'Crystals.dat')), repo=REPO),
                   broken=rep)
        core.write_evidence(ctx, 'proof', cov, len(new) + (1 if broken and not new else 0), ASSUMPTIONS)
        log('%s %s: exit %d (%.1fs; theorems %d/%d; corr %d lines, %d mismatches; search %d relations/expectations, %d violations, known %s; variant %s)' % (
            ID, R.tier, exit_code, time.time() - ctx.t0, n_dis, len(theorems), len(mains), len(mism), sum(sstats['cases'].values()), len(new),
            {k[:44]: h['n'] for k, h in hits.items()}, variant))
        return exit_code

    # ---- replay context: the lines a relation needs ------------------------------------------------------------
    def context_lines(self, line, seen):
        t = line.split(' '); out = [line]
        if t[0] == 'dsp' and t[1] != 'N':
            h = [int(x) for x in t[2:5]]
            for n in (-1, 2, 3, -2, 5, -7):
                for s in ('E', 'N'):
                    l = ' '.join(['dsp', t[1]] + [str(n * x) for x in h] + [s])
                    if l in seen and l not in out: out.append(l)
        if t[0] == 'fhp' and t[1] != 'N':
            h = [int(x) for x in t[3:6]]
            for f in (('2', '0', '0'), ('0', '2', '0'), ('0', '0', '2')):
                l = ' '.join(t[:8] + list(f) + ['E'])
                if l in seen and l not in out: out.append(l)
            l = ' '.join(t[:3] + [str(-x) for x in h] + t[6:])
            if l in seen and l not in out: out.append(l)
        return out

    def describe(self, line, cmap):
        t = line.split(' ')
        try:
            fl = ['%r' % unhx(x) if re.fullmatch(r'x[0-9a-f]{16}', x) else x for x in t]
            c = cmap.get(int(t[1])) if isinstance(cmap, dict) and t[1] not in ('N',) and t[0] not in ('af', 'cabs', 'cmul') else None
            return 'decoded: %s%s' % (' '.join(fl), ('   crystal %s cell=%s volume=%r atoms=%d' % (c.name, c.cell, c.vol, len(c.atoms))) if c else '')
        except Exception:
            return 'decoded: ' + line

    # ---- shrink a violating case: fewer atoms, smaller indices, rounder numbers -------------------------------
    def shrink(self, R, f, crystals, valid, knownkeys):
        t0 = f.line.split(' ')
        if t0[0] not in ('dsp', 'bragg', 'q', 'fh', 'fh2', 'fhp', 'fhp2') or t0[1] == 'N': return f
        cmap = {c.id: c for c in crystals}
        base = cmap[int(t0[1])]
        cur_c = Cr(0, base.name, base.cell, base.vol, base.atoms, False, 'shrunk'); cur_t = list(t0); cur_t[1] = '0'
        best = None
        def failing(c, t):
            line = ' '.join(t)
            lines = self.context_lines(line, AllLines())
            try:
                co, ao, mo = R.run_pairs(lines, [c])
                sl = [spec_line(m) for m in lines]
                so = R.run_model([s + (' | ' + a if a else '') if s else 'valid 0' for s, a in zip(sl, ao)], [c])
                vo = R.run_model(['valid 0'], [c])[0]
                d = dict(x.split('=') for x in vo.split(' ')[1:])
                v = {0: dict(cell=d['cell'] == 'true', atoms=d['atoms'] == 'true', nondeg=d['nondeg'] == 'true', vol=unhx(d['vol']), detC=unhx(d['detC']))}
                fs, _ = search(R, [c], lines, co, ao, [s if sl[i] else None for i, s in enumerate(so)], v)
            except BuildError:
                return None
            fs = [x for x in fs if not (x.key in knownkeys) and (f.key is None or True)]
            return fs[0] if fs else None
        hpos = (2, 3, 4) if cur_t[0] == 'dsp' else (3, 4, 5)
        for _ in range(80):
            progress = False
            cands = []
            na = len(cur_c.atoms)
            if na > 3:
                for part in (cur_c.atoms[:na // 2], cur_c.atoms[na // 2:], cur_c.atoms[:na // 4 + 1], cur_c.atoms[-(na // 4 + 1):]):
                    cands.append((Cr(0, cur_c.name, cur_c.cell, cur_c.vol, part), cur_t))
            for k in range(na):
                if na > 1: cands.append((Cr(0, cur_c.name, cur_c.cell, cur_c.vol, cur_c.atoms[:k] + cur_c.atoms[k + 1:]), cur_t))
            for p in hpos:
                v = int(cur_t[p])
                for nv in {0, 1 if v > 0 else -1, v // 2} - {v}:
                    t = list(cur_t); t[p] = str(nv)
                    if any(int(t[x]) != 0 for x in hpos): cands.append((cur_c, t))
            for c, t in cands:
                w = failing(c, t)
                if w is not None:
                    cur_c, cur_t, best = c, t, w; progress = True; break
            if not progress: break
        if best is None: return f
        best.defs = cur_c.line() + '\n'; best.crystal = {0: cur_c}
        return best

    def distribution(self, crystals, mains, fam, c_out, m_out, valid):
        d = dict(families={}, outcomes={}, error_messages={}, crystal_families={}, model_aborts={}, hkl_max={}, energy_decades={})
        for f in fam: d['families'][f] = d['families'].get(f, 0) + 1
        for c in crystals: d['crystal_families'][c.family] = d['crystal_families'].get(c.family, 0) + 1
        d['crystals'] = len(crystals)
        d['crystals_valid_cell'] = sum(1 for c in crystals if valid[c.id]['cell']); d['crystals_valid_atoms'] = sum(1 for c in crystals if valid[c.id]['atoms'])
        for l, c, m in zip(mains, c_out, m_out):
            op = l.split(' ')[0]; pc = parse(c)
            k = pc['kind']
            if k == 'ok':
                if pc['slot'].startswith('F'):
                    k = 'error'; msg = re.sub(r'-?\d+$', '<n>', pc['slot'].split(':', 1)[1]); d['error_messages'][msg] = d['error_messages'].get(msg, 0) + 1
                elif any(is_float(x) and not math.isfinite(x) for x in pc['vals']): k = 'nonfinite'
            d['outcomes'].setdefault(op, {}); d['outcomes'][op][k] = d['outcomes'][op].get(k, 0) + 1
            pm = parse(m)
            if pm['kind'] == 'abort': kk = pm['why'] + ' ' + pm['detail'][:40]; d['model_aborts'][kk] = d['model_aborts'].get(kk, 0) + 1
            t = l.split(' ')
            if op in ('bragg', 'q', 'fh', 'fh2', 'fhp', 'fhp2'):
                E = unhx(t[2])
                b = 'nonpositive/nonfinite' if not (E > 0 and math.isfinite(E)) else '1e%d' % math.floor(math.log10(E))
                d['energy_decades'][b] = d['energy_decades'].get(b, 0) + 1
        return d

class AllLines:
    """`in` is always true: the shrinker regenerates the partner lines of a relation"""
    def __contains__(self, x): return True

TRUSTED = [
    'Lean 4.33 kernel (lake build; thorough tier: leanchecker re-check of XrlC13.Props.C13)',
    'axioms allowed in property theorems: propext, Classical.choice, Quot.sound (audited by #print axioms on every run)',
    'tools/c13_c2lean.py + tools/c2lean.py (translation of the nine numeric functions of src/crystal_diffraction.c from the clang-14 JSON AST of the working tree into XrlC13/Gen/Crystal.lean on every run; Props/C13g.lean proves generated = hand model for every input, so the hand model lean-c13/XrlC13/Hand/CrystalNum.lean is no longer trusted: it is an intermediate)',
    'the correspondence run (every run: the 38 built-in crystals and seeded generated cells incl. degenerate ones, NULL, illegal Zatom, huge Miller indices, all flag triples and invalid flags, both slot modes; values to 1e-12, exact error text, sanitizer abort <=> model ub, non-finite <=> model nf) ties the COMPILED library to the model in the Float reading: it covers what the translation does not model (IEEE arithmetic, the compiler, the data)',
    'pointer model of the translation: a Crystal_Struct* is NULL or a record value (nothing is stored through it; a store is UNSUPPORTED), cc->atom[i] is checked against n_atom = length of the atom list, the stack arrays f_re/f_im/f_is_computed[120] are checked for subscript and initialisation',
    'the elemental functions FF_Rayl, Fi, Fii are parameters of the model and of every theorem (their contract is the subject of C02/C03); the run instantiates them with the values the library reports in the same process',
    'IEEE-754 rounding / overflow of the C arithmetic is not modelled (theorems are over the reals; PI, TWOPI, DEGRAD, KEV2ANGST are the decimal literals of include/xraylib.h, so "2 pi" is the header\'s TWOPI); pow(x,2) is read as x*x',
    'Mathlib (module-wise, proofs only)',
    'ASan/UBSan: observers of the correspondence run only',
]
ASSUMPTIONS = [
    'crystal records are values (cell, stored volume, atom list); the container half of crystal_diffraction.c (arrays, AddCrystal, ReadFile) is property C14',
    'stored vs recomputed volume of the built-in crystals is a numeric fact about data/Crystals.dat, not a theorem: evaluated on every run — exactly (every number of a built-in record must be what prdata prints, `%ff`, for the record of the data file, the volume being the formula on the raw cell) and as a relative deviation of the library\'s own recomputation (flagged above 2e-7; the stored value and the cell are floats of six-decimal texts) — and reported in coverage.stored_vs_recomputed_volume',
]

CHECK = C13()
